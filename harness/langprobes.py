"""Canonical probe programs for the known findings of the Lang-based properties.

Every known finding (known_findings.json) names a trigger tag computed by the specification; programs that raise
the tag are kept out of the clean stratum.  The probes below are the minimal stimuli that raise exactly that tag;
they run on every invocation.  A probe whose firmware conforms prints nothing (the defect is gone); a probe that
fails exactly as recorded (`observed` signature in the finding) prints KNOWN-FINDING; any other failure is a
VIOLATION."""
from __future__ import annotations

import json

from . import lang
from .lang import *  # noqa: F401,F403
from .langcheck import outcome, replay_of


def _two(op_build, pairs, name):
    out = []
    for i, (a, b) in enumerate(pairs):
        out.append(PROG([ASSIGN("x", AREAD()), ASSIGN("y", AREAD()), WRITE(op_build(V("x"), V("y")))], ain=[a, b], pid=f"{name}-{i}"))
    return out


_NXT = {"nxt": DEF([], [AUG("c", "+", I(1)), RETURN(V("c"))], ["c"])}

PROBES: dict = {
    # ---- C01: C semantics / dropped statements
    "floordiv-c-semantics": ("C01", "floordiv-opposite-signs", _two(lambda x, y: BIN("//", x, y), [(7, -2), (-7, 2)], "probe-floordiv")),
    "mod-c-semantics": ("C01", "mod-opposite-signs", _two(lambda x, y: BIN("%", x, y), [(7, -2), (-7, 2)], "probe-mod")),
    "truediv-int-operands": ("C01", "truediv-of-ints", _two(lambda x, y: BIN("/", x, y), [(7, 2), (-7, 2)], "probe-truediv")),
    "float-floordiv-mod": ("C01", "float-floordiv-or-mod",
                           _two(lambda x, y: BIN("//", x, BIN("*", y, F(0.5))), [(7, 3)], "probe-ffloordiv")
                           + _two(lambda x, y: BIN("%", x, BIN("*", y, F(0.5))), [(7, 3)], "probe-fmod")),
    "pow-operator-verbatim": ("C01", "pow", _two(lambda x, y: BIN("**", x, y), [(2, 3)], "probe-pow")),
    "boolop-yields-bool": ("C01", "boolop-yields-operand",
                           _two(lambda x, y: BOOLOP("and", x, y), [(7, 2)], "probe-and") + _two(lambda x, y: BOOLOP("or", x, y), [(7, 2)], "probe-or")),
    # (name-free `and` / `or` of numbers in the numeric argument positions that are folded at transpile time - delays, range counts -
    #  yield the deciding OPERAND, as Python does: these conform on the pinned tree and are recorded as conforming; any other outcome
    #  is a violation.  In assignments, prints and pin writes the expression is emitted as C++ `&&` / `||`: the known finding.)
    "boolop-yields-bool#folded": ("C03", "boolop-yields-operand", [
        PROG([SLEEP(BOOLOP("or", I(0), I(250))), WRITE(S("a"))], pid="probe-boolop-folded-sleep"),
        PROG([FOR("i", BOOLOP("and", I(1), I(3)), [WRITE(V("i"))])], pid="probe-boolop-folded-range"),
        PROG([SLEEP(BIN("*", BOOLOP("or", I(0), I(5)), I(100))), WRITE(S("a"))], pid="probe-boolop-folded-sleep-arith")]),
    "continue-dropped": ("C01", "continue", [
        PROG([ASSIGN("t", I(0)), FOR("i", I(5), [IF([(CMP(V("i"), ("==", I(2))), [CONTINUE])]), AUG("t", "+", V("i"))]), WRITE(V("t"))], pid="probe-continue-for"),
        PROG([ASSIGN("t", I(0)), ASSIGN("i", I(0)), WHILE(CMP(V("i"), ("<", I(4))), [AUG("i", "+", I(1)), IF([(CMP(V("i"), ("==", I(2))), [CONTINUE])]), AUG("t", "+", V("i"))]), WRITE(V("t"))], pid="probe-continue-while")]),
    "chained-cmp-double-eval": ("C01", "chained-cmp-call", [
        PROG([ASSIGN("c", I(0)), WRITE(CMP(I(0), ("<", CALL("nxt")), ("<", I(5)))), WRITE(V("c"))], defs=_NXT, pid="probe-chain")]),
    # (the chain must stay LAZY: when an earlier comparison is false the operands to its right are not evaluated at all - these two
    #  conform on the pinned tree and are recorded as such; any other outcome is a violation)
    "chained-cmp-double-eval#lazy": ("C01", "chained-cmp-call", [
        PROG([ASSIGN("c", I(0)), ASSIGN("b", I(0)), WRITE(CMP(I(5), ("<", CALL("nxt")), ("<", CALL("bump")))), WRITE(V("c")), WRITE(V("b"))],
             defs={**_NXT, "bump": DEF([], [AUG("b", "+", I(1)), RETURN(I(9))], ["b"])}, pid="probe-chain-lazy"),
        PROG([ASSIGN("c", I(0)), ASSIGN("b", I(0))],
             [IF([(CMP(AREAD(), ("<", CALL("nxt")), ("<=", CALL("bump"))), [WRITE(S("in"))])], [WRITE(S("out"))]), WRITE(V("b"))],
             defs={**_NXT, "bump": DEF([], [AUG("b", "+", I(1)), RETURN(I(2))], ["b"])}, ain=[0, 5, 0], npass=3, pid="probe-chain-lazy-loop")]),
    "macro-double-eval": ("C01", "macro-arg-call", [
        PROG([ASSIGN("c", I(0)), WRITE(CALL("max", CALL("nxt"), I(0))), WRITE(V("c"))], defs=_NXT, pid="probe-max"),
        PROG([ASSIGN("c", I(0)), WRITE(CALL("abs", CALL("nxt"))), WRITE(V("c"))], defs=_NXT, pid="probe-abs")]),
    "list-alias-mutation": ("C01", "list-alias-mutation", [
        PROG([ASSIGN("xs", LIST(I(3), I(1), I(2))), ASSIGN("ys", V("xs")), APPEND("xs", AREAD()), WRITE(CALL("len", V("ys"))), WRITE(INDEX(V("ys"), I(0)))], ain=[4], pid="probe-alias")]),
    "list-append-float-expr": ("C01", "list-append-float", [
        PROG([ASSIGN("xs", LIST(F(0.5), F(1.5))), APPEND("xs", BIN("*", AREAD(), F(0.5))), WRITE(INDEX(V("xs"), I(2)))], ain=[3], pid="probe-fappend")]),
    "loop-born-variable-reset": ("C01", "loop-born-carried", [
        PROG([], [IF([(CMP(AREAD(), (">", I(0))), [ASSIGN("z", I(5))])]), IF([(CMP(AREAD(), (">", I(0))), [WRITE(V("z"))])])], ain=[1, 1, 0, 1, 0, 1], npass=3, pid="probe-loopborn")]),
    "operand-evaluation-order": ("C01", "multi-effect-operands", [
        PROG([ASSIGN("c", I(0)), WRITE(CALL("mix", CALL("nxt"), CALL("nxt"))), WRITE(V("c"))],
             defs={**_NXT, "mix": DEF(["a", "b"], [RETURN(BIN("+", BIN("*", V("a"), I(10)), V("b")))])}, pid="probe-order-call-args"),
        PROG([ASSIGN("c", I(0)), ASSIGN("xs", LIST(CALL("nxt"), CALL("nxt"))), WRITE(INDEX(V("xs"), I(0))), WRITE(INDEX(V("xs"), I(1)))], defs=_NXT, pid="probe-order-list-literal"),
        PROG([ASSIGN("c", I(0)), WRITE(FSTR(CALL("nxt"), " ", CALL("nxt")))], defs=_NXT, pid="probe-order-fstring"),
        PROG([WRITE(CALL("mix", AREAD(), AREAD()))], ain=[3, 4],
             defs={"mix": DEF(["a", "b"], [RETURN(BIN("+", BIN("*", V("a"), I(10)), V("b")))])}, pid="probe-order-reads")]),
    # ---- C03
    "len-folded-stale": ("C03", "len-after-nested-mutation", [
        PROG([ASSIGN("xs", LIST(I(1)))], [APPEND("xs", AREAD()), WRITE(CALL("len", V("xs")))], ain=[5, 6, 7], npass=3, pid="probe-len-loop"),
        PROG([ASSIGN("xs", LIST(I(1), I(2))), IF([(CMP(AREAD(), (">", I(0))), [APPEND("xs", I(9))])]), WRITE(CALL("len", V("xs")))], ain=[0], pid="probe-len-branch"),
        PROG([ASSIGN("s", S("ab"))], [WRITE(CALL("len", V("s"))), ASSIGN("s", BIN("+", V("s"), S("x")))], npass=3, pid="probe-len-str-loop")]),
    # (programs of the same trigger class that CONFORM on the pinned tree and are recorded as such - any other outcome is a violation:
    #  a constant-count loop leaves through `break` / `continue` before it reaches the re-binding, so the name keeps its old value)
    "len-folded-stale#conforming": ("C03", "len-after-nested-mutation", [
        PROG([ASSIGN("tg", S("xy")), FOR("i", I(3), [IF([(CMP(AREAD(), (">", I(0))), [BREAK])]), ASSIGN("tg", S("long"))]), WRITE(CALL("len", V("tg"))), WRITE(V("tg"))],
             ain=[1, 1, 1], pid="probe-len-loopjump-break"),
        PROG([ASSIGN("tc", S("xy")), ASSIGN("xs", LIST(I(1), I(2))), FOR("i", I(3), [IF([(CMP(AREAD(), (">", I(0))), [CONTINUE])]), ASSIGN("tc", S("longer")), ASSIGN("xs", LIST(I(1), I(2)))]),
              WRITE(CALL("len", V("tc"))), WRITE(BIN("+", CALL("len", V("xs")), I(10)))], ain=[1, 1, 1], pid="probe-len-loopjump-continue")]),
    # ---- C02
    "name-retyped-first-assignment-wins": ("C02", "name-retyped", [
        PROG([ASSIGN("x", I(1)), ASSIGN("x", F(2.5)), WRITE(V("x"))], pid="probe-retype-int-float"),
        PROG([ASSIGN("x", AREAD()), IF([(CMP(V("x"), (">", I(0))), [ASSIGN("x", BIN("*", V("x"), F(0.5)))])]), WRITE(V("x"))], ain=[3], pid="probe-retype-branch")]),
    "function-variant-per-call-site": ("C02", "param-retyped", [
        PROG([WRITE(CALL("idn", I(3))), WRITE(CALL("idn", F(2.5)))], defs={"idn": DEF(["x"], [RETURN(V("x"))])}, pid="probe-fn-mixed")]),
}


def signature(res: dict) -> dict:
    """What a probe shows on the firmware: status, diverging event index and the observed event there."""
    o = outcome(res)
    sig = {"outcome": o}
    if o == "mismatch":
        i = res["verdict"]["fw"]
        sig["event"] = i
        sig["observed"] = res["fw"]["ev"][i - 1] if 0 < i <= len(res["fw"]["ev"]) else None
    elif o in ("reject", "internal"):
        sig["cls"] = res["fw"].get("cls")
    return sig


def run_probes(run, prop: str) -> None:
    todo = [(fid.split("#")[0], p) for fid, (pp, _tag, progs) in PROBES.items() if pp == prop for p in progs]
    if not todo:
        return
    res = lang.three_way([p for _f, p in todo], run, f"{prop} probes")
    for fid, p in todo:
        r = res[p["id"]]
        run.count(f"probe:{p['id']}")
        sig = signature(r)
        if sig["outcome"] == "ok":
            continue                      # the defect is gone for this probe
        if sig["outcome"] == "specgap":
            run.spec_gap(f"probe {p['id']}: CPython disagrees with the spec")
            continue
        listed = (run.known.get(fid) or {}).get("probes", {}).get(p["id"])
        what = f"{fid} ({p['id']}): {json.dumps(sig)[:200]}"
        if listed is not None and listed == sig:
            run.violation(what, {}, finding=fid)
        else:
            run.violation(f"probe {p['id']} of {fid} fails differently from the recorded finding: {json.dumps(sig)[:200]} (recorded {json.dumps(listed)[:200]})",
                          replay_of(p, r))


if __name__ == "__main__":      # development helper: print the signatures of all probes on the current tree
    import sys
    out = {}
    allp = [(fid, p) for fid, (_pp, _t, progs) in PROBES.items() for p in progs]
    res = lang.three_way([p for _f, p in allp])
    for fid, p in allp:
        out.setdefault(fid.split("#")[0], {})[p["id"]] = signature(res[p["id"]])
        v = res[p["id"]]["verdict"]
        print(fid, p["id"], "wd", v["wd"], "feat", v["feat"], json.dumps(out[fid.split("#")[0]][p["id"]])[:160], file=sys.stderr)
    json.dump(out, sys.stdout, indent=1)
