"""C08 - recorders for call-argument binding.

* `callables()`: every device constructor / public method / Core pin helper / Utils helper of the documented API,
  with its host signature (inspect.signature at check time), one distinct literal per parameter, the script
  template that puts a call of it in front of the real parser, and the table `parameter -> IR dataclass field`
  (built by reading transpile/parser.py and transpile/ast.py; parameters without an IR field are host-only or
  canonicalised and are reported as unobserved).
* `reference(cal, shape)`: what `inspect.Signature.bind` + `apply_defaults` does with the shape (reference leg).
* `transpile(cal, shape)`: the shape rendered in a minimal script (device declared first), parsed by the REAL
  `Reduino.transpile.parser.parse` of the working tree, IR node located, fields read (implementation leg).
* one projection for both legs: a value becomes the token "holds the literal of parameter j" / "holds the
  parameter's documented default" / "something else"; the comparison itself is done by TLC (tla/BindTrace.tla).
A shape is {"np": number of positionals, "kw": [keyword ...]} with keywords as parameter indices 1..N, 0 for a name
no parameter has, N+j for the j-th alias the transpiler reads although the host signature does not have it."""
from __future__ import annotations

import ast
import dataclasses
import inspect
import re

from . import common  # noqa: F401  (puts the working tree's src on sys.path)
from .common import MachineryError

BOGUS_KW = "zz_bogus"
UNOBSERVED, OTHER, DEFAULT = -9, -1, 0


# ----------------------------------------------------------------------------------------------- literals
class Lit:
    """One argument literal: python value (reference leg), source text (script), canonical IR form."""

    def __init__(self, py, src=None, ir=None):
        self.py = py
        self.src = repr(py) if src is None else src
        self.ir = canon(py) if ir is None else ir


def canon(v):
    """Canonical form of an IR field / a python value: numbers by value, booleans as 0/1, C or Python string
    literals by content, bare words as themselves, sequences element-wise."""
    if v is None:
        return ("none",)
    if isinstance(v, bool):
        return ("n", 1.0 if v else 0.0)
    if isinstance(v, (int, float)):
        return ("n", float(v))
    if isinstance(v, (list, tuple)):
        return ("l", tuple(canon(x) for x in v))
    if isinstance(v, str):
        s = v.strip()
        if s in ("true", "false"):
            return ("n", 1.0 if s == "true" else 0.0)
        try:
            w = ast.literal_eval(s)
        except Exception:
            return ("s", s)
        if isinstance(w, str):
            return ("s", w)
        if w is None or isinstance(w, (bool, int, float, list, tuple)):
            return canon(w)
        return ("s", s)
    return ("o", repr(v))


def _make_cb(name: str):
    """The python value behind a script name such as cb_on_click (on_click=cb_on_click)."""
    def cb():
        return None
    cb.__name__ = name
    return cb


_POOLS = {
    "pin": [2, 3, 4, 5, 6, 7, 10, 11, 12, 14, 15, 16, 17],
    "byte": [10, 20, 30, 40, 50, 60],
    "count": [3, 4, 6, 7],
    "ms": [150, 250, 350, 450, 550],
    "hz": [523, 659, 784, 880],
    "speed": [0.25, 0.5, 0.75],
    "num": [21, 22, 23, 24, 25, 26],
}
_ENUMS = {
    "align": ["right", "center"],
    "style": ["dot", "hash"],
    "animation": ["bounce"],
    "melody": ["siren"],
    "model": ["hc_sr04", "Hc-Sr04"],     # canonicalised by host and transpiler alike
    "emit": ["host"],
}
# explicit kinds; everything else is classified by parameter name below
_KIND = {
    "Potentiometer.pin": "apin", "RGBLed.*.red": "byte", "RGBLed.*.green": "byte", "RGBLed.*.blue": "byte",
    "Led.set_brightness.value": "byte", "LCD.brightness.level": "byte",
    "DCMotor.set_speed.value": "speed", "DCMotor.*.speed": "speed", "DCMotor.*.target_speed": "speed",
    "Servo.min_angle": ("fix", 10), "Servo.max_angle": ("fix", 170), "Servo.min_pulse_us": ("fix", 600),
    "Servo.max_pulse_us": ("fix", 2300), "Servo.write.angle": ("fix", 45), "Servo.write_us.pulse": ("fix", 1500),
    "Buzzer.melody.name": "melody", "Buzzer.*.tempo": ("fix", 90),
    "LCD.cols": ("fix", 20), "LCD.rows": ("fix", 1), "LCD.i2c_addr": ("fix", 39),
    "LCD.animate.animation": "animation", "LCD.progress.style": "style",
    "LCD.*.col": ("fix", 5), "LCD.*.row": ("fix", 3), "LCD.glyph.slot": ("fix", 2),
    "LCD.progress.value": ("fix", 42), "LCD.progress.max_value": ("fix", 80), "LCD.progress.width": ("fix", 9),
    "LCD.tick.now_ms": ("fix", 77),
    "SerialMonitor.baud_rate": ("fix", 115200), "SerialMonitor.port": ("fix", "COM7"), "SerialMonitor.timeout": ("fix", 2.5),
    "SerialMonitor.newline": ("fix", ";"), "SerialMonitor.read.emit": "emit", "SerialMonitor.connect.port": ("fix", "COM7"),
    "SerialMonitor.write.value": "text",
    "Ultrasonic.sensor": "model", "Ultrasonic.model": "model", "Ultrasonic.default_distance": ("fix", 12.5),
    "pin_mode.mode": ("name", "OUTPUT"), "digital_write.value": ("name", "HIGH"), "analog_write.value": ("fix", 128),
    "sleep.duration": ("fix", 275),
    "Button.set_pressed.pressed": "bool",
}
_BY_NAME = {
    "pin": "pin", "red_pin": "pin", "green_pin": "pin", "blue_pin": "pin", "in1": "pin", "in2": "pin", "enable": "pin",
    "trig": "pin", "echo": "pin", "rs": "pin", "en": "pin", "d4": "pin", "d5": "pin", "d6": "pin", "d7": "pin", "rw": "pin",
    "backlight_pin": "pin",
    "times": "count", "steps": "count", "step": "count",
    "duration_ms": "ms", "delay_ms": "ms", "on_ms": "ms", "off_ms": "ms", "speed_ms": "ms",
    "frequency": "hz", "default_frequency": "hz", "start_hz": "hz", "end_hz": "hz",
    "text": "text", "top": "text", "bottom": "text", "label": "text",
    "align": "align", "top_align": "align", "bottom_align": "align",
    "on": "bool", "clear_row": "bool", "clear_rows": "bool", "loop": "bool",
    "pattern": ("fix", [1, 0, 1, 1]), "bitmap": ("fix", [1, 2, 4, 8, 16, 8, 4, 2]),
    "on_click": "callable", "state_provider": "callable", "value_provider": "callable", "distance_provider": "callable",
    "sleep_func": "callable",
    "value": "num", "from_low": "num", "from_high": "num", "to_low": "num", "to_high": "num",
}


def _kind(cid: str, pname: str):
    parts = cid.split(".")
    for key in (f"{cid}.{pname}", f"{parts[0]}.*.{pname}" if len(parts) > 1 else None):
        if key and key in _KIND:
            return _KIND[key]
    if pname in _BY_NAME:
        return _BY_NAME[pname]
    raise MachineryError(f"C08: no literal kind for parameter {cid}.{pname} (new API parameter? extend harness/bind_rec.py)")


def _assign_literals(cid: str, params: list) -> list[Lit]:
    """One literal per parameter, distinct from each other and from every default of the callable."""
    defaults = [canon(p.default) for p in params if p.default is not inspect.Parameter.empty]
    used, out = set(), []
    for p in params:
        k = _kind(cid, p.name)
        lit = None
        if isinstance(k, tuple) and k[0] == "fix":
            lit = Lit(k[1])
        elif isinstance(k, tuple) and k[0] == "name":
            import Reduino.Core as Core
            lit = Lit(getattr(Core, k[1]), src=k[1], ir=("s", k[1]))
        elif k == "apin":
            lit = Lit("A3", src='"A3"')
        elif k == "callable":
            lit = Lit(_make_cb(f"cb_{p.name}"), src=f"cb_{p.name}", ir=("s", f"cb_{p.name}"))
        elif k == "text":
            lit = Lit(f"t_{p.name}")
        elif k == "bool":
            d = p.default if p.default is not inspect.Parameter.empty else True
            lit = Lit(not bool(d))
        elif k in _ENUMS:
            for cand in _ENUMS[k]:
                if canon(cand) not in used and canon(cand) not in defaults:
                    lit = Lit(cand)
                    break
        elif k in _POOLS:
            for cand in _POOLS[k]:
                if canon(cand) not in used and canon(cand) not in defaults:
                    lit = Lit(cand)
                    break
        if lit is None:
            raise MachineryError(f"C08: could not choose a literal for {cid}.{p.name} (kind {k})")
        if lit.ir in used or lit.ir in defaults:
            raise MachineryError(f"C08: literal of {cid}.{p.name} ({lit.src}) collides with another literal/default")
        used.add(lit.ir)
        out.append(lit)
    return out


# ----------------------------------------------------------------------------------------------- the API table
def _x_call(fn: str, names: list[str]):
    """Extractor for calls that survive as C text `fn(a, b, ...)` inside an expression field."""
    rx = re.compile(r"\b" + re.escape(fn) + r"\((.*)\)")

    def ex(texts: list[str]):
        for t in texts:
            m = rx.search(t)
            if m:
                parts = [x.strip() for x in m.group(1).split(",")] if m.group(1).strip() else []
                if len(parts) != len(names):
                    return {n: "<arity>" for n in names}
                return dict(zip(names, parts))
        return None
    return ex


def _x_read_emit(texts: list[str]):
    # SerialMonitor.read(emit): "host" -> no MCU read at all (empty expression), "both"/"mcu" -> Serial.readStringUntil
    for t in texts:
        if "readStringUntil" in t:
            return {"emit": '"both"'}
    return {"emit": '"host"'} if "" in texts else None


_ACT = "from Reduino.Actuators import {}"
_SEN = "from Reduino.Sensors import {}"
# class -> (import line, canonical declaration for method calls, constructor node, {param: field})
_DEVICES = {
    "Led": (_ACT.format("Led"), "d = Led(12)", "LedDecl", {"pin": "pin"}),
    "RGBLed": (_ACT.format("RGBLed"), "d = RGBLed(9, 10, 11)", "RGBLedDecl", {"red_pin": "red_pin", "green_pin": "green_pin", "blue_pin": "blue_pin"}),
    "Servo": (_ACT.format("Servo"), "d = Servo(9)", "ServoDecl",
              {"pin": "pin", "min_angle": "min_angle", "max_angle": "max_angle", "min_pulse_us": "min_pulse_us", "max_pulse_us": "max_pulse_us"}),
    "DCMotor": (_ACT.format("DCMotor"), "d = DCMotor(7, 8, 9)", "DCMotorDecl", {"in1": "in1", "in2": "in2", "enable": "enable"}),
    "Buzzer": (_ACT.format("Buzzer"), "d = Buzzer(8)", "BuzzerDecl", {"pin": "pin", "default_frequency": "default_frequency"}),
    "Button": (_SEN.format("Button"), "d = Button(4)", "ButtonDecl", {"pin": "pin", "on_click": "on_click"}),
    "Potentiometer": (_SEN.format("Potentiometer"), 'd = Potentiometer("A0")', "PotentiometerDecl", {"pin": "pin"}),
    "Ultrasonic": (_SEN.format("Ultrasonic"), "d = Ultrasonic(7, 8)", "UltrasonicDecl", {"trig": "trig", "echo": "echo"}),
    "LCD": ("from Reduino.Displays import LCD", "d = LCD(rs=12, en=11, d4=5, d5=4, d6=3, d7=2)", "LCDDecl",
            {k: k for k in ("rs", "en", "d4", "d5", "d6", "d7", "cols", "rows", "rw", "backlight_pin", "i2c_addr")}),
    "SerialMonitor": ("from Reduino.Communication import SerialMonitor", "d = SerialMonitor(9600)", "SerialMonitorDecl", {"baud_rate": "baud"}),
}
# method -> (IR node class | "expr" | None (no transpiler handler), {param: field} | extractor)
_METHODS = {
    "Led.on": ("LedOn", {}), "Led.off": ("LedOff", {}), "Led.toggle": ("LedToggle", {}),
    "Led.set_brightness": ("LedSetBrightness", {"value": "value"}),
    "Led.blink": ("LedBlink", {"duration_ms": "duration_ms", "times": "times"}),
    "Led.fade_in": ("LedFadeIn", {"step": "step", "delay_ms": "delay_ms"}),
    "Led.fade_out": ("LedFadeOut", {"step": "step", "delay_ms": "delay_ms"}),
    "Led.flash_pattern": ("LedFlashPattern", {"pattern": "pattern", "delay_ms": "delay_ms"}),
    "Led.get_state": ("expr", {}), "Led.get_brightness": ("expr", {}),
    "RGBLed.set_color": ("RGBLedSetColor", {"red": "red", "green": "green", "blue": "blue"}),
    "RGBLed.on": ("RGBLedOn", {"red": "red", "green": "green", "blue": "blue"}),
    "RGBLed.off": ("RGBLedOff", {}),
    "RGBLed.fade": ("RGBLedFade", {"red": "red", "green": "green", "blue": "blue", "duration_ms": "duration_ms", "steps": "steps"}),
    "RGBLed.blink": ("RGBLedBlink", {"red": "red", "green": "green", "blue": "blue", "times": "times", "delay_ms": "delay_ms"}),
    "RGBLed.get_state": ("expr", {}), "RGBLed.get_color": ("expr", {}),
    "Servo.write": ("ServoWrite", {"angle": "angle"}), "Servo.write_us": ("ServoWriteMicroseconds", {"pulse": "pulse_us"}),
    "Servo.read": ("expr", {}), "Servo.read_us": ("expr", {}),
    "DCMotor.set_speed": ("DCMotorSetSpeed", {"value": "speed"}), "DCMotor.backward": ("DCMotorBackward", {"speed": "speed"}),
    "DCMotor.stop": ("DCMotorStop", {}), "DCMotor.coast": ("DCMotorCoast", {}), "DCMotor.invert": ("DCMotorInvert", {}),
    "DCMotor.ramp": ("DCMotorRamp", {"target_speed": "target_speed", "duration_ms": "duration_ms"}),
    "DCMotor.run_for": ("DCMotorRunFor", {"duration_ms": "duration_ms", "speed": "speed"}),
    "DCMotor.get_speed": ("expr", {}), "DCMotor.get_applied_speed": ("expr", {}), "DCMotor.get_mode": ("expr", {}),
    "DCMotor.is_inverted": ("expr", {}),
    "Buzzer.play_tone": ("BuzzerPlayTone", {"frequency": "frequency", "duration_ms": "duration_ms"}),
    "Buzzer.stop": ("BuzzerStop", {}),
    "Buzzer.beep": ("BuzzerBeep", {"frequency": "frequency", "on_ms": "on_ms", "off_ms": "off_ms", "times": "times"}),
    "Buzzer.sweep": ("BuzzerSweep", {"start_hz": "start_hz", "end_hz": "end_hz", "duration_ms": "duration_ms", "steps": "steps"}),
    "Buzzer.melody": ("BuzzerMelody", {"name": "melody", "tempo": "tempo"}),
    "Button.is_pressed": ("expr", {}), "Button.set_pressed": (None, {}),
    "Potentiometer.read": ("expr", {}),
    "Ultrasonic.measure_distance": ("expr", {}),
    "LCD.write": ("LCDWrite", {k: k for k in ("col", "row", "text", "clear_row", "align")}),
    "LCD.line": ("LCDLine", {k: k for k in ("row", "text", "align", "clear_row")}),
    "LCD.message": ("LCDMessage", {k: k for k in ("top", "bottom", "top_align", "bottom_align", "clear_rows")}),
    "LCD.clear": ("LCDClear", {}), "LCD.display": ("LCDDisplay", {"on": "on"}), "LCD.backlight": ("LCDBacklight", {"on": "on"}),
    "LCD.brightness": ("LCDBrightness", {"level": "level"}), "LCD.glyph": ("LCDGlyph", {"slot": "slot", "bitmap": "bitmap"}),
    "LCD.progress": ("LCDProgress", {k: k for k in ("row", "value", "max_value", "width", "style", "label")}),
    "LCD.animate": ("LCDAnimate", {k: k for k in ("animation", "row", "text", "speed_ms", "loop")}),
    "LCD.begin": (None, {}), "LCD.dump": (None, {}), "LCD.tick": (None, {}),
    "SerialMonitor.write": ("SerialWrite", {"value": "value"}), "SerialMonitor.read": ("expr", _x_read_emit),
    "SerialMonitor.connect": (None, {}), "SerialMonitor.close": (None, {}),
}
_CORE_IMPORT = "from Reduino.Core import pin_mode, digital_write, analog_write, digital_read, analog_read, OUTPUT, HIGH"
_FUNCS = {   # free functions: (import line, "stmt" | "expr", node | extractor, fields)
    "pin_mode": (_CORE_IMPORT, "stmt", _x_call("pinMode", ["pin", "mode"])),
    "digital_write": (_CORE_IMPORT, "stmt", _x_call("digitalWrite", ["pin", "value"])),
    "analog_write": (_CORE_IMPORT, "stmt", _x_call("analogWrite", ["pin", "value"])),
    "digital_read": (_CORE_IMPORT, "expr", _x_call("digitalRead", ["pin"])),
    "analog_read": (_CORE_IMPORT, "expr", _x_call("analogRead", ["pin"])),
    "sleep": ("from Reduino.Utils import sleep", "stmt", ("Sleep", {"duration": "ms"})),
    "map": ("from Reduino.Utils import map", "expr", _x_call("map", ["value", "from_low", "from_high", "to_low", "to_high"])),
}
# keyword names the transpiler reads although the host signature has no such parameter: (alias, parameter it stands for)
ALIASES = {
    "Servo.write_us": [("pulse_us", "pulse")],
    "DCMotor.set_speed": [("speed", "value")],
    "DCMotor.ramp": [("duration", "duration_ms")],
    "DCMotor.run_for": [("duration", "duration_ms")],
    "LCD.animate": [("style", "animation")],
}
# why a parameter has no IR field
_UNOBS_REASON = {
    "Button.state_provider": "host-only simulation hook", "Potentiometer.value_provider": "host-only simulation hook",
    "Ultrasonic.distance_provider": "host-only simulation hook", "Ultrasonic.default_distance": "host-only simulation hook",
    "Ultrasonic.sensor": "canonicalised to 'HC-SR04' (only supported model): value not recoverable from UltrasonicDecl.model",
    "Ultrasonic.model": "canonicalised to 'HC-SR04' (only supported model): value not recoverable from UltrasonicDecl.model",
    "SerialMonitor.port": "host-only (serial port of the PC)", "SerialMonitor.timeout": "host-only", "SerialMonitor.newline": "host-only",
    "sleep.sleep_func": "host-only test hook",
}


@dataclasses.dataclass
class Callable_:
    cid: str                 # "RGBLed.on", "LCD", "pin_mode"
    sig: inspect.Signature   # without self
    lits: list
    imp: str
    decl: str | None         # declaration line for method calls
    form: str                # "ctor" | "stmt" | "expr"
    node: object             # IR class name | extractor | None
    fields: dict | None
    handled: bool = True
    aliases: list = dataclasses.field(default_factory=list)

    @property
    def params(self):
        return list(self.sig.parameters.values())

    def observed(self, pname: str) -> bool:
        if not self.handled:
            return False
        if callable(self.node):
            return True
        return pname in (self.fields or {})


_cache: list | None = None


def callables() -> list[Callable_]:
    """The documented API, read from the host classes of the working tree."""
    global _cache
    if _cache is not None:
        return _cache
    from Reduino.Actuators import Buzzer, DCMotor, Led, RGBLed, Servo
    from Reduino.Communication import SerialMonitor
    from Reduino.Displays import LCD
    from Reduino.Sensors import Button, Potentiometer, Ultrasonic, UltrasonicSensor
    import Reduino.Core as Core
    import Reduino.Utils as Utils
    classes = {"Led": Led, "RGBLed": RGBLed, "Servo": Servo, "DCMotor": DCMotor, "Buzzer": Buzzer, "Button": Button,
               "Potentiometer": Potentiometer, "Ultrasonic": Ultrasonic, "LCD": LCD, "SerialMonitor": SerialMonitor}
    out = []
    for cname, obj in classes.items():
        imp, decl, node, fields = _DEVICES[cname]
        sig = inspect.signature(obj)
        out.append(Callable_(cname, sig, [], imp, None, "ctor", node, fields))
        mcls = UltrasonicSensor if cname == "Ultrasonic" else obj
        for mname, fn in inspect.getmembers(mcls, inspect.isfunction):
            if mname.startswith("_"):
                continue
            cid = f"{cname}.{mname}"
            if cid not in _METHODS:
                raise MachineryError(f"C08: public method {cid} is not in the binding table (new API? extend harness/bind_rec.py)")
            s = inspect.signature(fn)
            s = s.replace(parameters=list(s.parameters.values())[1:])
            node, fields = _METHODS[cid]
            form = "expr" if node == "expr" else "stmt"
            if callable(fields):
                node, fields = fields, None
            out.append(Callable_(cid, s, [], imp, decl, form, node, fields, handled=node is not None,
                                 aliases=ALIASES.get(cid, [])))
    for fname, (imp, form, node) in _FUNCS.items():
        fn = getattr(Core if fname not in ("sleep", "map") else Utils, fname)
        fields = None
        if isinstance(node, tuple):
            node, fields = node
        out.append(Callable_(fname, inspect.signature(fn), [], imp, None, form, node, fields))
    for cal in out:
        for p in cal.params:
            if p.kind not in (p.POSITIONAL_OR_KEYWORD, p.KEYWORD_ONLY):
                raise MachineryError(f"C08: {cal.cid}: parameter kind {p.kind} is not modelled by tla/Bind.tla")
        cal.lits = _assign_literals(cal.cid, cal.params)
        for f in (cal.fields or {}):
            if f not in cal.sig.parameters:
                raise MachineryError(f"C08: table names {cal.cid}.{f}, which the host signature does not have")
        for a, target in cal.aliases:
            if target not in cal.sig.parameters or a in cal.sig.parameters:
                raise MachineryError(f"C08: alias table out of date for {cal.cid}: {a} -> {target}")
    # variants "explicit None": a parameter whose documented default is None may be passed the literal None - Python binds None,
    # i.e. what omitting the argument binds (the variant's literal for such a parameter IS None; see _explicit())
    import copy
    for cal in list(out):
        idx = {i for i, p in enumerate(cal.params) if p.default is None and cal.observed(p.name)}
        if cal.handled and idx:
            v = copy.copy(cal)
            v.nonelit = idx
            v.lits = [Lit(None, src="None") if i in idx else lit for i, lit in enumerate(cal.lits)]
            out.append(v)
    # variants "pin 0": the first pin parameter is passed the literal 0 (a pin number like any other - in particular not "no pin given")
    for cal in [c for c in out if not getattr(c, "nonelit", None)]:
        if not cal.handled:
            continue
        zero = canon(0)
        taken = {lit.ir for lit in cal.lits} | {canon(p.default) for p in cal.params if p.default is not inspect.Parameter.empty}
        idx = next((i for i, p in enumerate(cal.params) if _kind(cal.cid, p.name) == "pin" and cal.observed(p.name)), None)
        if idx is not None and zero not in taken:
            v = copy.copy(cal)
            v.lits = [Lit(0) if i == idx else lit for i, lit in enumerate(cal.lits)]
            out.append(v)
    _cache = out
    return out


def _explicit(cal: Callable_, shape: dict, toks: list) -> list:
    """Variant "explicit None": the literal of a None-default parameter equals its default, so token() cannot tell the two apart
    and answers "the literal".  An OMITTED parameter holds its default by definition of the shape: say so."""
    idx = getattr(cal, "nonelit", None)
    if not idx:
        return toks
    n = len(cal.params)
    passed = set(range(min(shape["np"], n))) | {k - 1 for k in shape["kw"] if 1 <= k <= n}
    for k in shape["kw"]:
        if k > n:
            passed.add(list(cal.sig.parameters).index(cal.aliases[k - n - 1][1]))
    return [DEFAULT if (i in idx and i not in passed and t == i + 1) else t for i, t in enumerate(toks)]


def sigs_json(cals: list[Callable_]) -> list[dict]:
    """The signatures as TLC reads them (tla/Bind.tla: Sigs)."""
    return [{"name": c.cid, "nalias": len(c.aliases),
             "params": [{"name": p.name, "kind": "kw_only" if p.kind == p.KEYWORD_ONLY else "pos_or_kw",
                         "dflt": p.default is not inspect.Parameter.empty} for p in c.params]} for c in cals]


def unobserved_table(cals: list[Callable_]) -> list[dict]:
    out = []
    for c in cals:
        for p in c.params:
            if not c.observed(p.name):
                key = f"{c.cid}.{p.name}"
                why = _UNOBS_REASON.get(key) or ("no transpiler handler for this method (host-only)" if not c.handled else "no IR field")
                out.append({"param": key, "why": why})
    return out


# ----------------------------------------------------------------------------------------------- rendering
def call_args(cal: Callable_, shape: dict):
    """(positional literals, [(keyword name, literal)...]) of a shape."""
    n = len(cal.params)
    pos = [cal.lits[i] if i < n else Lit(91) for i in range(shape["np"])]
    kws = []
    for k in shape["kw"]:
        if 1 <= k <= n:
            kws.append((cal.params[k - 1].name, cal.lits[k - 1]))
        elif k == 0:
            kws.append((BOGUS_KW, Lit(92)))
        else:
            alias, target = cal.aliases[k - n - 1]
            kws.append((alias, cal.lits[list(cal.sig.parameters).index(target)]))
    return pos, kws


def call_text(cal: Callable_, shape: dict, spaced: bool = False) -> str:
    """spaced: blanks around the `=` of every keyword argument and after the opening parenthesis (optional spacing)."""
    pos, kws = call_args(cal, shape)
    eq = " = " if spaced else "="
    return ", ".join([x.src for x in pos] + [f"{k}{eq}{v.src}" for k, v in kws])


def primed(cal: Callable_) -> bool:
    """Calls that can be put into a block behind a priming call of the same method (statement-form device methods)."""
    return cal.form not in ("ctor", "expr") and "." in cal.cid and len(cal.params) > 0


def script(cal: Callable_, shape: dict, ctxv: int = 0) -> str:
    """ctxv = 0: the call alone at file scope.  ctxv = 1 (device-method statements only): inside the main loop, directly
    after a PRIMING call of the same method that passes every parameter by keyword - what one statement binds must not
    depend on the statement before it (an omitted argument takes its default, not the previous call's value).
    ctxv = 2: blanks around the `=` of keyword arguments.  ctxv = 3 (statement-form device methods with a list-valued parameter):
    the list is passed by name and mutated in place after the call."""
    args = call_text(cal, shape, spaced=(ctxv == 2))
    lines = [cal.imp]
    if ctxv == 3:
        # list-valued arguments are passed BY NAME and the lists are changed in place after the call: what the call bound is
        # what the variable held when the call ran
        m = cal.cid.split(".")[1]
        pre, post = [], []
        for j, lit in enumerate(cal.lits):
            if isinstance(lit.py, list) and re.search(r"(?<![\w.])" + re.escape(lit.src) + r"(?![\w.])", args):
                args = args.replace(lit.src, f"lv{j}")
                pre.append(f"lv{j} = {lit.src}")
                post += [f"lv{j}.append(7)", f"lv{j}.remove({lit.py[0]!r})"]
        lines += [cal.decl] + pre + [f"d.{m}({args})"] + post
        return "\n".join(lines) + "\n"
    if ctxv == 1 and primed(cal):
        m = cal.cid.split(".")[1]
        full = ", ".join(f"{p.name}={cal.lits[i].src}" for i, p in enumerate(cal.params))
        lines += [cal.decl, "while True:", f"    d.{m}({full})", f"    d.{m}({args})"]
        return "\n".join(lines) + "\n"
    if cal.form == "ctor":
        lines.append(f"d = {cal.cid}({args})")
    elif "." in cal.cid:
        m = cal.cid.split(".")[1]
        lines.append(cal.decl)
        lines.append(f"v = d.{m}({args})" if cal.form == "expr" else f"d.{m}({args})")
    else:
        lines.append(f"v = {cal.cid}({args})" if cal.form == "expr" else f"{cal.cid}({args})")
    return "\n".join(lines) + "\n"


# ----------------------------------------------------------------------------------------------- projection
def _eq_py(a, b) -> bool:
    """Equality of python values as the reference leg needs it (True is not 1, 2 equals 2.0)."""
    if a is b:
        return True
    if isinstance(a, bool) or isinstance(b, bool):
        return isinstance(a, bool) and isinstance(b, bool) and a == b
    if isinstance(a, (int, float)) and isinstance(b, (int, float)):
        return a == b
    return type(a) is type(b) and a == b


def token(cal: Callable_, pidx: int, value, *, ir: bool) -> int:
    """Which literal does parameter pidx (0-based) hold?  j (1-based): the literal of parameter j; DEFAULT: the
    parameter's documented default; OTHER.  One projection for both legs: `ir` says whether `value` is an IR field
    (compared in canonical form) or a python object out of inspect.BoundArguments."""
    same = (lambda x: canon(value) == (x.ir if isinstance(x, Lit) else canon(x))) if ir else \
           (lambda x: _eq_py(value, x.py if isinstance(x, Lit) else x))
    if same(cal.lits[pidx]):          # (its own literal, then its own default: in the "explicit None" variants several literals are None)
        return pidx + 1
    p = cal.params[pidx]
    if p.default is not inspect.Parameter.empty and same(p.default):
        return DEFAULT
    for j, lit in enumerate(cal.lits):
        if same(lit):
            return j + 1
    return OTHER


_REASONS = [("too many positional", "too-many-positionals"), ("multiple values", "duplicate"),
            ("unexpected keyword", "unknown-keyword"), ("missing a required", "missing-required")]


def reference(cal: Callable_, shape: dict) -> dict:
    """inspect.Signature.bind + apply_defaults on the host signature."""
    pos, kws = call_args(cal, shape)
    try:
        ba = cal.sig.bind(*[x.py for x in pos], **{k: v.py for k, v in kws})
    except TypeError as e:
        msg = str(e)
        for frag, r in _REASONS:
            if frag in msg:
                return {"ok": False, "reason": r, "tok": []}
        return {"ok": False, "reason": "other:" + msg[:60], "tok": []}
    ba.apply_defaults()
    return {"ok": True, "reason": "", "tok": _explicit(cal, shape, [token(cal, i, ba.arguments[p.name], ir=False) for i, p in enumerate(cal.params)])}


def _walk(nodes):
    for n in nodes or []:
        yield n
        if dataclasses.is_dataclass(n):
            for f in dataclasses.fields(n):
                v = getattr(n, f.name)
                if isinstance(v, list):
                    yield from _walk([x for x in v if dataclasses.is_dataclass(x)])


def _strings(prog) -> list[str]:
    """Every C-expression string of the program's statements (for calls that survive only as text)."""
    out = []
    for n in _walk(list(prog.setup_body) + list(prog.loop_body) + list(prog.global_decls)):
        for f in dataclasses.fields(n):
            v = getattr(n, f.name)
            if f.name in ("expr", "condition") and isinstance(v, str):
                out.append(v)
    return out


def _find(prog, cls: str, name: str | None):
    return [x for x in _walk(list(prog.setup_body) + list(prog.loop_body))
            if type(x).__name__ == cls and (name is None or getattr(x, "name", None) == name)]


def transpile(cal: Callable_, shape: dict, ctxv: int = 0) -> dict:
    """Run the real parser on the minimal script; locate the IR node; read the fields."""
    from Reduino.transpile.parser import parse
    src = script(cal, shape, ctxv)
    n = len(cal.params)
    try:
        prog = parse(src)
    except Exception as e:  # the property allows rejection "with an error"; the class is kept for the notes
        return {"st": "rejected", "obs": [UNOBSERVED] * n, "exc": type(e).__name__, "msg": str(e)[:100]}
    raw = None
    if not cal.handled:
        raw = None
    elif callable(cal.node):       # the call survives as C text inside an expression
        texts = [x.expr for x in (_find(prog, "VarAssign", "v") if cal.form == "expr" else _find(prog, "ExprStmt", None))]
        raw = cal.node(texts)
    elif cal.node == "expr":       # parameterless getter: the assignment must be there
        raw = {} if _find(prog, "VarAssign", "v") else None
    else:
        hit = _find(prog, cal.node, None if cal.node == "Sleep" else "d")
        if ctxv == 1 and primed(cal):
            if len(hit) == 1:      # the priming call itself was refused or dropped: this context says nothing about the call
                return {"st": "unprimed", "obs": [UNOBSERVED] * n}
            hit = hit[1:]          # the node of the call under test follows the node of the priming call
        if len(hit) > 1:
            return {"st": "accepted", "obs": [OTHER] * n, "raw": {"<nodes>": len(hit)}}
        raw = {p: getattr(hit[0], f) for p, f in cal.fields.items()} if hit else None
    if raw is None:
        return {"st": "dropped", "obs": [UNOBSERVED] * n}
    obs = _explicit(cal, shape, [token(cal, i, raw[p.name], ir=True) if p.name in raw else UNOBSERVED for i, p in enumerate(cal.params)])
    return {"st": "accepted", "obs": obs,
            "raw": {k: (v if isinstance(v, (int, float, str, bool, type(None))) else repr(v)) for k, v in raw.items()}}


def record(cal_index: int, shape: dict, rid: str, *, impl: bool = True, ctxv: int = 0) -> dict:
    cal = callables()[cal_index]
    r = {"id": rid, "c": cal_index + 1, "np": shape["np"], "kw": list(shape["kw"]), "ref": reference(cal, shape)}
    if impl:
        t = transpile(cal, shape, ctxv)
    else:
        t = {"st": "none", "obs": [UNOBSERVED] * len(cal.params)}
    r["dbg"] = {k: t[k] for k in ("exc", "msg", "raw") if k in t}
    r["dbg"]["actual"] = t["st"]
    # a method the transpiler has no handler for (host-only API) is outside C08's verdicts: recorded, not judged
    r["st"], r["obs"] = (t["st"], t["obs"]) if cal.handled else ("none", [UNOBSERVED] * len(cal.params))
    return r


def _record_job(job):
    if len(job) == 4:
        return record(job[0], job[1], job[2], ctxv=job[3])
    return record(*job)


def records(jobs: list[tuple], workers: int = 8) -> list[dict]:
    """jobs: [(callable index, shape, id)...] -> records, computed in a process pool."""
    if len(jobs) < 400 or workers <= 1:
        return [_record_job(j) for j in jobs]
    import concurrent.futures as cf
    with cf.ProcessPoolExecutor(max_workers=workers) as ex:
        return list(ex.map(_record_job, jobs, chunksize=256))


# ----------------------------------------------------------------------------------------------- generic signatures
def generic_reference(sig_params: list[dict], shape: dict) -> dict:
    """Reference leg on an abstract signature emitted by TLC (BindMC!GenericSigs): literals are the parameter indices."""
    P = inspect.Parameter
    ps = [P(d["name"], P.KEYWORD_ONLY if d["kind"] == "kw_only" else P.POSITIONAL_OR_KEYWORD,
            default=(0 if d["dflt"] else P.empty)) for d in sig_params]
    sig = inspect.Signature(ps)
    n = len(ps)
    args = [i + 1 if i < n else 91 for i in range(shape["np"])]
    kwargs = {(ps[k - 1].name if 1 <= k <= n else BOGUS_KW): (k if 1 <= k <= n else 92) for k in shape["kw"]}
    try:
        ba = sig.bind(*args, **kwargs)
    except TypeError as e:
        for frag, r in _REASONS:
            if frag in str(e):
                return {"ok": False, "reason": r, "tok": []}
        return {"ok": False, "reason": "other:" + str(e)[:60], "tok": []}
    ba.apply_defaults()
    return {"ok": True, "reason": "", "tok": [ba.arguments[p.name] for p in ps]}
