"""Projection of raw pin/sleep micro-events to merged waveform segments (the same projection for host
recorders and for firmware traces; mirrors tla/Wave.tla)."""
from __future__ import annotations

from fractions import Fraction


def us(ms) -> int:
    """milliseconds (int/float/Fraction) -> nearest whole microsecond."""
    f = Fraction(ms) * 1000
    return int((f + Fraction(1, 2)).__floor__())


def merge(start_level, micro):
    """micro: iterable of ("lv", level) | ("sl", ms).  Returns [{"lv":..,"us":..,"n":..}, ...]."""
    segs = [{"lv": start_level, "us": 0, "n": 0}]
    for kind, v in micro:
        if kind == "lv":
            if segs[-1]["lv"] != v:
                segs.append({"lv": v, "us": 0, "n": 0})
        else:
            segs[-1]["us"] += us(v)
            segs[-1]["n"] += 1
    return segs
