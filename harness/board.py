"""C05 scenarios: render a TLC-enumerated scenario as a Reduino script, run it as firmware for N passes, project
the mock core's raw events to the vocabulary of tla/Board.tla."""
from __future__ import annotations

from . import fw

# kind -> (declaration, pins {pin: required mode}, operation, buttons)
DEVS = {
    "led": ("{n} = Led(5)", {5: "out"}, "{n}.on()"),
    "rgb": ("{n} = RGBLed(3, 6, 9)", {3: "out", 6: "out", 9: "out"}, "{n}.set_color(1, 2, 3)"),
    "servo": ("{n} = Servo(10)", {}, "{n}.write(90)"),
    "motor": ("{n} = DCMotor(2, 4, 11)", {2: "out", 4: "out", 11: "out"}, "{n}.set_speed(0.5)"),
    "button": ("{n} = Button(7)", {7: "inany"}, "mon.write({n}.is_pressed())"),
    "pot": ('{n} = Potentiometer("A1")', {15: "inany"}, "mon.write({n}.read())"),
    "ultrasonic": ("{n} = Ultrasonic(trig=12, echo=13)", {12: "out", 13: "in"}, "mon.write({n}.measure_distance())"),
    "buzzer": ("{n} = Buzzer(8)", {8: "out"}, "{n}.play_tone(440, 10)"),
    "lcd": ("{n} = LCD(rs=22, en=23, d4=24, d5=25, d6=26, d7=27)", {}, '{n}.write(0, 0, "hi")'),
    "lcdi2c": ("{n} = LCD(i2c_addr=0x27, cols=16, rows=2)", {}, '{n}.write(0, 0, "hi")'),
}
# the same kinds on other pins (for a name that is bound before the loop and re-bound at the top of its body)
ALT = {
    "led": ("{n} = Led(16)", {16: "out"}),
    "rgb": ("{n} = RGBLed(17, 18, 19)", {17: "out", 18: "out", 19: "out"}),
    "servo": ("{n} = Servo(20)", {}),
    "motor": ("{n} = DCMotor(32, 33, 34)", {32: "out", 33: "out", 34: "out"}),
    "button": ("{n} = Button(35)", {35: "inany"}),
    "pot": ('{n} = Potentiometer("A3")', {17: "inany"}),
    "ultrasonic": ("{n} = Ultrasonic(trig=36, echo=37)", {36: "out", 37: "in"}),
}
HEADER = [
    "from Reduino import target",
    "from Reduino.Actuators import Led, RGBLed, Servo, DCMotor, Buzzer",
    "from Reduino.Sensors import Button, Potentiometer, Ultrasonic",
    "from Reduino.Displays import LCD",
    "from Reduino.Communication import SerialMonitor",
    "from Reduino.Utils import sleep",
    "",
    'target("COM3", upload=False)',
    "mon = SerialMonitor(9600)",
]


PROBE_PIN = 16              # A2: read by the first statement of the loop body in `firstbind` scenarios


# Scripts outside the scenario grid: the serial monitor constructed somewhere else than at the top level of the prologue.
_MON_HDR = HEADER[:-1]
MONITOR_PLACEMENTS = {
    "in-prologue-branch": ["debug = 1", "if debug == 1:", "    mon = SerialMonitor(9600)", '    mon.write("pre")', "led = Led(5)", "while True:", '    mon.write("body")', "    led.on()", "    sleep(5)"],
    "in-prologue-loop": ["for k in range(1):", "    mon = SerialMonitor(9600)", '    mon.write("pre")', "led = Led(5)", "while True:", '    mon.write("body")', "    led.toggle()", "    sleep(5)"],
    "in-helper-called-from-prologue": ["def open_port():", "    mon = SerialMonitor(9600)", '    mon.write("pre")', "open_port()", "led = Led(5)", "while True:", "    led.on()", "    sleep(5)"],
    "at-top-of-main-loop": ["led = Led(5)", "while True:", "    mon = SerialMonitor(9600)", '    mon.write("body")', "    led.on()", "    sleep(5)"],
    "in-main-loop-branch": ["led = Led(5)", "n = 0", "while True:", "    n += 1", "    if n > 0:", "        mon = SerialMonitor(9600)", '        mon.write("body")', "    led.on()", "    sleep(5)"],
    "after-other-statements": ["led = Led(5)", "led.on()", "sleep(5)", "mon = SerialMonitor(115200)", '    mon.write("pre")'.strip(), "while True:", '    mon.write("body")', "    sleep(5)"],
}


# Devices on pin 0 (a pin like any other: configured before it is used), declared before the loop and at the top of its body.
PIN0_SCRIPTS = {
    "button-before": (["b0 = Button(0)", 'mon.write("pre")', "while True:", '    mon.write("body")', "    mon.write(b0.is_pressed())", "    sleep(5)"], {0: "inany"}, [0], []),
    "button-looptop": (['mon.write("pre")', "while True:", "    b0 = Button(pin=0)", '    mon.write("body")', "    mon.write(b0.is_pressed())", "    sleep(5)"], {0: "inany"}, [0], []),
    "motor-before": (["m0 = DCMotor(0, 1, 3)", 'mon.write("pre")', "while True:", '    mon.write("body")', "    m0.set_speed(0.5)", "    sleep(5)"], {0: "out", 1: "out", 3: "out"}, [], [[0, 1, 3]]),
    "motor-looptop": (['mon.write("pre")', "while True:", "    m0 = DCMotor(0, 1, 3)", '    mon.write("body")', "    m0.set_speed(0.5)", "    sleep(5)"], {0: "out", 1: "out", 3: "out"}, [], [[0, 1, 3]]),
    "rgb-looptop": (['mon.write("pre")', "while True:", "    r0 = RGBLed(0, 5, 6)", '    mon.write("body")', "    r0.set_color(1, 2, 3)", "    sleep(5)"], {0: "out", 5: "out", 6: "out"}, [], []),
    "rgb-before": (["r0 = RGBLed(5, 0, 6)", 'mon.write("pre")', "r0.set_color(1, 2, 3)", "while True:", '    mon.write("body")', "    sleep(5)"], {0: "out", 5: "out", 6: "out"}, [], []),
    "led-buzzer-before": (["l0 = Led(0)", "z0 = Buzzer(8 - 8 + 1)", 'mon.write("pre")', "l0.on()", "while True:", '    mon.write("body")', "    z0.play_tone(440, 5)", "    l0.toggle()"], {0: "out", 1: "out"}, [], []),
    "ultrasonic-before": (["u0 = Ultrasonic(trig=0, echo=4)", 'mon.write("pre")', "while True:", '    mon.write("body")', "    mon.write(u0.measure_distance())"], {0: "out", 4: "in"}, [], []),
    "ultrasonic-looptop": (['mon.write("pre")', "while True:", "    u0 = Ultrasonic(4, 2 - 2)", '    mon.write("body")', "    mon.write(u0.measure_distance())"], {4: "out", 0: "in"}, [], []),
}


LOOP_HEADERS = ["while True:", "while(True):", "while (True):", "while( True ):", "while True :"]


def pin0_scenarios() -> list:
    return [{"custom": f"pin0-{k}", "src": "\n".join(HEADER + v[0]) + "\n", "pins": v[1], "buttons": v[2], "motors": v[3], "hasloop": True} for k, v in PIN0_SCRIPTS.items()]


def monitor_scenarios() -> list:
    return [{"custom": f"monitor-{k}", "src": "\n".join(_MON_HDR + v) + "\n", "pins": {5: "out"}, "buttons": [], "hasloop": True} for k, v in MONITOR_PLACEMENTS.items()]


def sid(sc: dict) -> str:
    if "custom" in sc:
        return sc["custom"]
    return (f"{sc['kind']}-{sc['place']}-{sc['use']}-b{sc['nb']}-{'loop' if sc['hasloop'] else 'noloop'}-{sc['other']}"
            + ("-rebind" if sc.get("rebind") else "") + (f"-anim{sc['anim']}" if sc.get("anim") else "") + ("-cont" if sc.get("cont") else "") + ("-firstbind" if sc.get("firstbind") else "")
            + ("-decor" if sc.get("decor") else ""))


def render(sc: dict) -> dict:
    """-> {"src", "pins": {pin: mode}, "buttons": [pin...], "motors": [[in1,in2,en]...], "inputs"}"""
    L = list(HEADER)
    pins: dict = {}
    buttons: list = []
    decl, dpins, op = DEVS[sc["kind"]]
    pins.update(dpins)
    if sc["kind"] == "button":
        buttons.append(7)
    # riders: buttons with handlers (pins 30, 31)
    for b in range(sc["nb"]):
        L += [f"def click{b}():", f'    mon.write("click{b}")', f"btn{b} = Button({30 + b}, on_click=click{b})"]
        pins[30 + b] = "inany"
        buttons.append(30 + b)
    other_ops = []
    if sc["other"] != "none":
        odecl, opins, oop = DEVS[sc["other"]]
        # shift nothing: the table's pins are disjoint between kinds
        L.append(odecl.format(n="dev2"))
        pins.update(opins)
        other_ops.append(oop.format(n="dev2"))
    if sc["use"] == "helper":
        L += ["def act():", "    " + op.format(n="dev")]
    if sc.get("rebind"):
        adecl, apins = ALT[sc["kind"]]
        L.append(adecl.format(n="dev"))          # first binding of the name, before the loop, on other pins
        pins.update(apins)                       # (a button that is re-bound need not be sampled any more: not in `buttons`)
    if sc["place"] == "before":
        L.append(decl.format(n="dev"))
    ticks = []
    if sc.get("anim"):            # looping animations started in the prologue: one injected tick per animation and pass
        L.append('dev.animate("scroll", 0, "a long line of text that scrolls", speed_ms=50, loop=True)')
        ticks.append("tick0")
        if sc["anim"] > 1:
            L.append('dev.animate("blink", 1, "blink", speed_ms=80, loop=True)')
            ticks.append("tick1")
    if sc.get("cont"):
        L.append("npass = 0")
    if sc.get("firstbind"):
        L.append('probe = Potentiometer("A2")')
        pins[PROBE_PIN] = "inany"
    L.append('mon.write("pre")')
    if sc["use"] == "setup":
        L.append(op.format(n="dev"))
    L += other_ops
    if sc["hasloop"]:
        # the main loop's header in the spellings the parser documents (keyword against the parenthesis, blanks inside / before the colon)
        L.append(LOOP_HEADERS[(len(L) + sc["nb"]) % len(LOOP_HEADERS)])
        if sc["place"] == "looptop":
            L.append("    " + decl.format(n="dev"))
        if sc.get("firstbind"):              # the first user statement of the body: binds a new name from a sensor reading
            L += ["    lvl = probe.read()", "    lo, hi = lvl, lvl + 1"]
        L.append('    mon.write("body")')
        if sc.get("cont"):
            L += ["    npass += 1", "    if npass % 2 == 0:", "        continue"]
        if sc["use"] == "loop":
            L.append("    " + op.format(n="dev"))
        elif sc["use"] == "helper":
            L.append("    act()")
        for b in range(sc["nb"]):
            L.append(f"    mon.write(btn{b}.is_pressed())")
        L.append("    sleep(5)")
    motors = []
    if sc["kind"] == "motor" or sc["other"] == "motor":
        motors.append([2, 4, 11])
    inputs = "".join(f"d {p} 0 1 1 0\n" for p in buttons) + "p 13 580 580 580 580\np 37 580 580 580 580\nx 70\n"
    if sc.get("decor"):
        L = decorate(L)
    return {"src": "\n".join(L) + "\n", "pins": pins, "buttons": buttons, "motors": motors, "inputs": inputs, "ticks": ticks}


def decorate(lines: list) -> list:
    """Meaning-preserving re-layout: a trailing comment on every block header, a column-0 comment and a deeper comment
    after every indented line, blank lines - Python's meaning (and so the firmware) must not change."""
    out = []
    for ln in lines:
        body = ln.rstrip()
        if body.endswith(":") and not body.lstrip().startswith("#"):
            out.append(body + "  # header comment")
        else:
            out.append(ln)
        if ln.startswith("    "):
            out += ["# note at column 0", "", "        # deeper note"]
    return out


MODES = {0: "in", 1: "out", 2: "inpu"}


def project(raw: list, buttons: list, motors: list, ticks=()) -> list:
    """ticks: the scenario's animations.  Each tick reads the clock exactly once while its animation is active (nothing else in
    such a scenario does), so the k-th clock read of a pass is the tick of animation k: it is projected to a sample of the
    housekeeping item `tick<k>`, which the monitor holds to the same rule as a button (once per pass, before user statements)."""
    out = []
    nms = 0
    mstate = {tuple(m): [None, None, None] for m in motors}
    for e in raw:
        t = e.get("e")
        if t == "phase":
            nms = 0
            out.append({"e": "phase", "k": 0 if e["v"] == "setup" else (e["k"] if e["v"] == "loop" else e["k"] + 1)})
        elif t == "ms" and ticks:
            out.append({"e": "poll", "b": ticks[nms % len(ticks)]})
            nms += 1
        elif t == "pm":
            out.append({"e": "pm", "p": e["p"], "m": MODES.get(e["m"], "in")})
        elif t in ("dw", "aw", "tone", "notone"):
            out.append({"e": "out", "p": e["p"]})
            for m in motors:
                if e["p"] in m:
                    st = mstate[tuple(m)]
                    st[m.index(e["p"])] = e.get("v", 0)
                    if m.index(e["p"]) == 2 and None not in st:        # enable written last
                        out.append({"e": "stop" if st == [0, 0, 0] else "drive", "m": motors.index(m)})
        elif t in ("dr", "ar", "pulse"):
            if t == "ar" and e["p"] == PROBE_PIN:       # the probe is only read by the body's first statement
                out.append({"e": "user"})
            out.append({"e": "in", "p": e["p"]})
            if t == "dr" and e["p"] in buttons:
                out.append({"e": "poll", "b": str(e["p"])})
        elif t == "sbegin":
            out.append({"e": "sbegin", "b": e["baud"]})
        elif t in ("w", "wp"):
            # the body marker / what a click handler prints (a handler is user code: every button has been sampled before the first one runs)
            if e.get("v") == "body":
                out.append({"e": "user"})
            elif isinstance(e.get("v"), str) and e["v"].startswith("click"):
                out.append({"e": "handler"})
            out.append({"e": "ser"})
        elif t == "servo":
            out.append({"e": "attach" if e["op"] == "attach" else "servo", "s": e["s"]})
        elif t == "lcd":
            if e["op"] in ("begin", "init"):
                out.append({"e": "lcdinit", "d": e["d"]})
            elif e["op"] not in ("new", "snap"):
                out.append({"e": "lcd", "d": e["d"]})
    return out


def run_scenario(sc: dict, passes: int = 3) -> dict:
    r = render(sc) if "custom" not in sc else {"src": sc["src"], "pins": sc["pins"], "buttons": sc["buttons"], "motors": sc.get("motors", []), "inputs": "p 4 580 580 580 580\np 0 580 580 580 580\n", "ticks": []}
    # `again`: the sketch that runs is the one emitted by a process that has transpiled the same script before (the discipline
    # holds for every emission, not only for the first one of a process)
    res = fw.run_script({"src": r["src"], "passes": (passes + (1 if sc.get("cont") else 0)) if sc["hasloop"] else 0, "inputs": r["inputs"], "again": True})
    out = {"id": sid(sc), "sc": sc, "src": r["src"], "transpile": res["transpile"], "msg": res.get("msg"), "cls": res.get("cls"),
           "compile": res.get("compile"), "stderr": (res.get("stderr") or "")[-500:] if res.get("compile") == "fail" else ""}
    if res["transpile"] == "accept" and res.get("compile") == "ok" and res.get("memerr") == "timeout":
        # the sketch never finished its passes (setup() or a statement does not return): no trace to judge, the phases never came
        out["hang"] = True
        out["first_events"] = res["events"][:40]
        return out
    if res["transpile"] == "accept" and res.get("compile") == "ok":
        out["trace"] = {"id": sid(sc), "pins": [[p, m] for p, m in sorted(r["pins"].items())], "buttons": [str(b) for b in r["buttons"]] + list(r["ticks"]),
                        "ev": project(res["events"], r["buttons"], r["motors"], r["ticks"])}
        out["rc"] = res.get("rc", 0)
    return out
