"""Recorder for the real Reduino.target() (C12): run one configuration with recording fakes and an injected fault,
return the event trace in the vocabulary of tla/TargetTrace.tla.

What is replaced, and only for the duration of one call:
  * subprocess.Popen (therefore subprocess.run/call/check_call/check_output), os.system and shutil.which -> fakes that
    record the invocation, never start a process, and answer as the configuration says (PlatformIO absent: ENOENT /
    None; fault at ProbePio/Build/Upload: exit status 1);
  * tempfile.mkdtemp -> hands out a directory in the harness scratch area (fault: OSError ENOSPC);
  * sys.modules['__main__'] -> a module object whose __file__ is the calling script written to scratch (fault at
    ReadMain: the file does not exist);
  * the names target() resolves in the Reduino namespace (validate_platform_board, parse, _collect_required_libraries,
    emit) and pio.validate_platform_board -> pass-through wrappers that log the event (and the digest of the text
    handed to the parser); a fault at Validate/Parse/Libs/Emit is an InjectedFault raised by the wrapper;
  * faults at WriteMain / WriteIni are real OS errors: the target path already exists as a directory.
File-system effects are observed below all of that by the audit hook of harness.pio_rec.FsWatch; at every tool
invocation and at the end of the call the project directory is read back (digest of src/main.cpp, platformio.ini
through configparser) - that is the project as PlatformIO would see it at that moment."""
from __future__ import annotations

import contextlib
import io
import os
import shlex
import shutil
import subprocess
import sys
import tempfile
import types
from pathlib import Path

from . import common  # noqa: F401
from .pio_rec import EMPTY_INI, FsWatch, paused, read_ini, sha, under

PIO_EXE = {"pio", "platformio"}
FAULT_STEPS = ["Validate", "ProbePio", "ReadMain", "Parse", "Libs", "Emit", "MkTmp", "WriteMain", "WriteIni", "Build", "Upload"]


class InjectedFault(Exception):
    """Environment fault injected by the harness (not a subclass of ValueError/RuntimeError/OSError)."""


def kind(argv: list[str]) -> str:
    """Mirror of Target!Kind (the injector has to decide what to answer; TLC re-derives the kind from argv)."""
    if len(argv) < 2 or os.path.basename(argv[0]) not in PIO_EXE:
        return "unknown"
    if argv[1] == "--version":
        return "ProbePio"
    if argv[1] == "run":
        up = any(argv[i] in ("-t", "--target") and argv[i + 1] == "upload" for i in range(len(argv) - 1))
        return "Upload" if up else "Build"
    return "unknown"


def _ev(e: str, **kw) -> dict:
    d = {"e": e, "s": "", "exe": "", "argv": [], "cwd": "", "rc": 0, "fail": False, "mro": [], "platform": "", "board": "",
         "fs": {"main": "", "ini": dict(EMPTY_INI)}}
    d.update(kw)
    return d


_ABSENT = object()
ENOENT = -10001         # marker: the executable does not exist (distinct from a tool killed by a signal, rc < 0)
EACCES = -10002         # marker: the executable is there but may not be executed (PermissionError at launch)
ENOEXEC = -10003        # marker: the kernel cannot run the file (OSError "Exec format error" at launch)


def run_case(case: dict, workdir: Path) -> list[dict]:
    """case: {upload, pio, pair, fault, platform, board, port, script (text)} -> list of events."""
    import Reduino
    from Reduino.toolchain import pio as piomod

    workdir = Path(workdir)
    if workdir.exists():
        shutil.rmtree(workdir)
    workdir.mkdir(parents=True)
    fault = case["fault"]
    script = workdir / "user_script.py"
    if fault != "ReadMain":
        script.write_text(case["script"], encoding="utf-8")
    proj = workdir / "reduino-pio-fake"
    events: list[dict] = []
    state = {"tmp": False}

    def snapshot() -> dict:
        main = proj / "src" / "main.cpp"
        with paused():
            return {"main": sha(main.read_bytes()) if main.is_file() else "", "ini": read_ini(proj / "platformio.ini")}

    # ---- tools ------------------------------------------------------------------------------------------------
    def answer(argv: list[str], cwd) -> int:
        k = kind(argv)
        rc = 0
        if k != "unknown" and not case["pio"]:
            rc = int(case.get("absent_rc", ENOENT))      # the way the absent tool fails to start
        elif k == fault:
            rc = int(case.get("failrc", 1))             # exit status of the failing tool (negative: killed by a signal)
        where = "none" if cwd is None else ("project" if os.path.abspath(str(cwd)) == str(proj) else "other")
        for i, a in enumerate(argv[:-1]):              # pio run -d <dir>
            if a in ("-d", "--project-dir") and os.path.abspath(argv[i + 1]) == str(proj):
                where = "project"
        events.append(_ev("Run", exe=os.path.basename(str(argv[0])) if argv else "", argv=[str(a) for a in argv], cwd=where, rc=rc, fail=rc != 0, fs=snapshot()))
        return rc

    class FakePopen:
        def __init__(self, args, *a, cwd=None, **kw):
            argv = shlex.split(args) if isinstance(args, str) else [os.fspath(x) for x in args]
            rc = answer(argv, cwd)
            if rc == ENOENT:
                raise FileNotFoundError(2, "No such file or directory", argv[0])
            if rc == EACCES:
                raise PermissionError(13, "Permission denied", argv[0])
            if rc == ENOEXEC:
                raise OSError(8, "Exec format error", argv[0])
            self.args, self.returncode, self.pid = args, rc, 4242
            self.stdin = self.stdout = self.stderr = None

        def __enter__(self):
            return self

        def __exit__(self, *a):
            return False

        def communicate(self, input=None, timeout=None):
            return (None, None)

        def poll(self):
            return self.returncode

        def wait(self, timeout=None):
            return self.returncode

        def kill(self):
            pass

        terminate = kill

    def fake_system(cmd):
        rc = answer(shlex.split(cmd), os.getcwd())
        return (127 if rc == ENOENT else 126 if rc in (EACCES, ENOEXEC) else (rc if rc >= 0 else 128 - rc)) << 8

    def fake_which(name, *a, **kw):
        base = os.path.basename(str(name))
        if base in PIO_EXE:
            events.append(_ev("Which", s=base, fail=(not case["pio"]) or fault == "ProbePio"))
            return f"/fake/bin/{base}" if case["pio"] and fault != "ProbePio" else None
        return real_which(name, *a, **kw)

    def fake_mkdtemp(*a, **kw):
        bad = fault == "MkTmp"
        events.append(_ev("MkTmp", fail=bad))
        if bad:
            raise OSError(28, "No space left on device")
        with paused():
            if state["tmp"]:
                return str(Path(real_mkdtemp(dir=workdir)))
            state["tmp"] = True
            proj.mkdir()
            if fault == "WriteMain":
                (proj / "src" / "main.cpp").mkdir(parents=True)     # writing main.cpp -> IsADirectoryError
            if fault == "WriteIni":
                (proj / "platformio.ini").mkdir()                   # writing platformio.ini -> IsADirectoryError
            return str(proj)

    # ---- pass-through wrappers on the names target() resolves ---------------------------------------------------
    def wrap(name, fn, payload=None):
        def w(*a, **kw):
            bad = fault == name
            e = _ev(name, fail=bad)
            if payload:
                payload(e, a, kw)
            events.append(e)
            if bad:
                raise InjectedFault(f"injected fault at {name}")
            return fn(*a, **kw)
        return w

    validated = [False]

    def validate_payload(e, a, kw):
        args = list(a) + [kw.get("platform"), kw.get("board")]
        e["platform"], e["board"] = str(a[0] if a else kw.get("platform")), str(a[1] if len(a) > 1 else kw.get("board"))

    def wrap_validate(fn):
        def w(*a, **kw):
            first = not validated[0]
            bad = first and fault == "Validate"
            e = _ev("Validate")
            validate_payload(e, a, kw)
            events.append(e)
            if bad:
                e["fail"] = True
                raise InjectedFault("injected fault at Validate")
            try:
                r = fn(*a, **kw)
            except BaseException:
                e["fail"] = True
                raise
            validated[0] = True
            return r
        return w

    def parse_payload(e, a, kw):
        text = a[0] if a else kw.get("source", kw.get("src"))
        e["s"] = sha(text) if isinstance(text, str) else f"not-a-str:{type(text).__name__}"

    # ---- file system ------------------------------------------------------------------------------------------
    def on_open(path, writing):
        if path == str(script):
            events.append(_ev("ReadMain" if not writing else "Other", s="" if not writing else f"write:{path}",
                              fail=fault == "ReadMain"))
        elif writing and path != "/dev/null":
            if path == str(proj / "src" / "main.cpp"):
                events.append(_ev("WriteMain", fail=fault == "WriteMain"))
            elif path == str(proj / "platformio.ini"):
                events.append(_ev("WriteIni", fail=fault == "WriteIni"))
            else:
                events.append(_ev("Other", s=f"write:{os.path.relpath(path, workdir) if under(path, workdir) else path}"))

    def on_mutate(what, paths):
        if what == "os.mkdir" and paths and state["tmp"] and under(paths[0], proj):
            events.append(_ev("MkDir", s=os.path.relpath(paths[0], proj)))
        else:
            events.append(_ev("Other", s=f"{what}:{','.join(paths)}"))

    def on_exec(what, args):
        events.append(_ev("Other", s=f"{what}:{args[:2]}"))

    # ---- the call -----------------------------------------------------------------------------------------------
    real_which, real_mkdtemp = shutil.which, tempfile.mkdtemp
    saved = [(subprocess, "Popen", subprocess.Popen), (os, "system", os.system), (shutil, "which", shutil.which),
             (tempfile, "mkdtemp", tempfile.mkdtemp),
             (Reduino, "validate_platform_board", getattr(Reduino, "validate_platform_board", _ABSENT)),
             (piomod, "validate_platform_board", piomod.validate_platform_board),
             (Reduino, "parse", Reduino.parse), (Reduino, "_collect_required_libraries", Reduino._collect_required_libraries),
             (Reduino, "emit", Reduino.emit)]
    fake_main = types.ModuleType("__main__")
    fake_main.__file__ = str(script)
    old_main = sys.modules["__main__"]
    cwd0 = os.getcwd()
    err = io.StringIO()
    try:
        subprocess.Popen, os.system, shutil.which, tempfile.mkdtemp = FakePopen, fake_system, fake_which, fake_mkdtemp
        vw = wrap_validate(piomod.validate_platform_board)
        Reduino.validate_platform_board = vw
        piomod.validate_platform_board = vw
        Reduino.parse = wrap("Parse", saved[6][2], parse_payload)
        Reduino._collect_required_libraries = wrap("Libs", saved[7][2])
        Reduino.emit = wrap("Emit", saved[8][2])
        sys.modules["__main__"] = fake_main
        with FsWatch(on_open, on_mutate, on_exec) as w, contextlib.redirect_stderr(err), contextlib.redirect_stdout(err):
            try:
                ret = Reduino.target(case["port"], upload=case["upload"], platform=case["platform"], board=case["board"])
                final = _ev("Return", s=sha(ret) if isinstance(ret, str) else f"not-a-str:{type(ret).__name__}")
            except BaseException as ex:  # noqa: BLE001
                final = _ev("Raise", s=type(ex).__name__, mro=[c.__name__ for c in type(ex).__mro__])
        final["fs"] = snapshot()
        events.append(final)
        if w.errors:
            raise common.MachineryError(f"file-system observer failed: {w.errors[:3]}")
    finally:
        sys.modules["__main__"] = old_main
        for obj, name, val in saved:
            if val is _ABSENT:            # the name was not there before (a tree that no longer imports it): take our wrapper away again
                if hasattr(obj, name):
                    delattr(obj, name)
            else:
                setattr(obj, name, val)
        if os.getcwd() != cwd0:
            os.chdir(cwd0)
    return events
