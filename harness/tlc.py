"""Driver for TLC: model checking, behaviour generation and batch trace validation."""
from __future__ import annotations

import json
import os
import re
import subprocess
import time
from dataclasses import dataclass, field
from pathlib import Path

from .common import TLA, MachineryError, NCPU, subdir, dumps

TLC_CP = "/opt/veriftools/tla/tla2tools.jar:/opt/veriftools/tla/CommunityModules-deps.jar"
import itertools
import threading

_ids = itertools.count(1)
_lock = threading.Lock()


def _next_id() -> int:
    with _lock:
        return next(_ids)


@dataclass
class TLCResult:
    ok: bool                      # finished without any error
    rc: int
    stdout: str
    generated: int = 0
    distinct: int = 0
    depth: int = 0
    error: str | None = None      # "invariant" | "property" | "deadlock" | "assert" | "semantic" | "timeout" | "other"
    violated: str | None = None
    json: list = field(default_factory=list)     # objects printed with PrintT(ToJson(x))
    coverage: dict = field(default_factory=dict)  # action name -> (distinct, total)
    wall_s: float = 0.0
    cmd: str = ""

    def need_ok(self) -> "TLCResult":
        if not self.ok:
            raise MachineryError(f"TLC failed ({self.error} {self.violated}) cmd={self.cmd}\n{self.stdout[-3000:]}")
        return self


_RE_STATES = re.compile(r"(\d+) states generated, (\d+) distinct states found")
_RE_DEPTH = re.compile(r"The depth of the complete state graph search is (\d+)")
_RE_INV = re.compile(r"Error: Invariant (\S+) is violated")
_RE_PROP = re.compile(r"Error: (?:Action|Temporal) propert(?:y|ies) (\S*)")
_RE_COV = re.compile(r"^<(\w+) line \d+, col \d+ to line \d+, col \d+ of module (\w+)>: (\d+):(\d+)", re.M)


def _parse_json_lines(out: str) -> list:
    objs = []
    for line in out.splitlines():
        line = line.strip()
        if len(line) >= 2 and line[0] == '"' and line[-1] == '"' and (line[1] in "{[" or line[1:3] in ('\\"',)):
            try:
                inner = json.loads(line)
                objs.append(json.loads(inner))
            except Exception:
                try:  # TLC does not escape everything the way JSON does; fall back to manual unescape
                    inner = line[1:-1].replace('\\"', '"').replace("\\\\", "\\")
                    objs.append(json.loads(inner))
                except Exception:
                    pass
    return objs


def run_tlc(
    module: str,
    cfg: str | Path,
    *,
    env: dict | None = None,
    workers: int | str = 1,
    timeout: int = 900,
    simulate: str | None = None,     # e.g. "num=200" -> -simulate num=200
    depth: int | None = None,
    seed: int | None = None,
    coverage: bool = False,
    deadlock: bool = False,          # True -> pass -deadlock (disable deadlock checking)
    deque: bool = False,
    heap: str = "4g",
    extra: list[str] | None = None,
) -> TLCResult:
    """Run TLC on /verif/tla/<module>.tla with a cfg given as path or as text."""
    work = subdir(f"tlc{_next_id()}")
    if isinstance(cfg, Path) or (isinstance(cfg, str) and "\n" not in cfg and cfg.endswith(".cfg")):
        cfg_path = Path(cfg)
        if not cfg_path.is_absolute():
            cfg_path = TLA / cfg_path
    else:
        cfg_path = work / f"{module}.cfg"
        cfg_path.write_text(cfg)
    jopts = ["-XX:+UseParallelGC", f"-Xmx{heap}", "-Xss64m"]
    if deque:
        jopts.append("-Dtlc2.tool.queue.IStateQueue=StateDeque")
    cmd = ["java", *jopts, "-cp", TLC_CP, "tlc2.TLC", "-metadir", str(work / "meta"), "-noGenerateSpecTE",
           "-workers", str(workers), "-config", str(cfg_path)]
    if simulate is not None:
        cmd += ["-simulate", simulate]
    if depth is not None:
        cmd += ["-depth", str(depth)]
    if seed is not None:
        cmd += ["-seed", str(seed)]
    if coverage:
        cmd += ["-coverage", "1"]
    if deadlock:
        cmd += ["-deadlock"]
    if extra:
        cmd += extra
    cmd.append(str(TLA / f"{module}.tla"))
    e = dict(os.environ)
    if env:
        e.update({k: str(v) for k, v in env.items()})
    t0 = time.time()
    try:
        p = subprocess.run(cmd, cwd=str(TLA), env=e, capture_output=True, text=True, timeout=timeout)
        out, rc, to = p.stdout + p.stderr, p.returncode, False
    except subprocess.TimeoutExpired as ex:
        out = (ex.stdout or b"").decode("utf8", "replace") if isinstance(ex.stdout, bytes) else (ex.stdout or "")
        rc, to = -9, True
    res = TLCResult(ok=False, rc=rc, stdout=out, wall_s=round(time.time() - t0, 2), cmd=" ".join(cmd))
    m = None
    for m in _RE_STATES.finditer(out):
        pass
    if m:
        res.generated, res.distinct = int(m.group(1)), int(m.group(2))
    m = _RE_DEPTH.search(out)
    if m:
        res.depth = int(m.group(1))
    res.json = _parse_json_lines(out)
    for m in _RE_COV.finditer(out):
        res.coverage[m.group(1)] = (int(m.group(3)), int(m.group(4)))
    if to:
        res.error = "timeout"
    elif (m := _RE_INV.search(out)):
        res.error, res.violated = "invariant", m.group(1)
    elif "is violated" in out and (m := _RE_PROP.search(out)):
        res.error, res.violated = "property", m.group(1)
    elif "Deadlock reached" in out:
        res.error = "deadlock"
    elif "Assumption" in out and "is false" in out:
        res.error = "assumption"
    elif "The postcondition" in out or "postcondition" in out.lower() and "violated" in out.lower():
        res.error = "postcondition"
    elif "Semantic error" in out or "Parsing or semantic analysis failed" in out or "*** Errors:" in out:
        res.error = "semantic"
    elif rc != 0 or "Error:" in out:
        res.error = "other"
    else:
        res.ok = True
    return res


def sany(module: str) -> None:
    p = subprocess.run(["java", "-cp", TLC_CP, "tla2sany.SANY", str(TLA / f"{module}.tla")], cwd=str(TLA),
                       capture_output=True, text=True, timeout=120)
    out = p.stdout + p.stderr
    if p.returncode != 0 or "error" in out.lower().replace("errors: 0", ""):
        if "Semantic errors" in out or "Parse Error" in out or "Fatal" in out or p.returncode != 0:
            raise MachineryError(f"SANY rejected {module}:\n{out[-2000:]}")


def write_json(name: str, obj) -> Path:
    """Write an input file for TLC (read there with JsonDeserialize(IOEnv.X))."""
    p = subdir("tlcin") / f"{_next_id()}-{name}"
    p.write_text(dumps(obj))
    return p
