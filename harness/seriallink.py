"""X02 recorder: one SerialLinkGen behaviour (host newline + operations hw / dw / dr / hr over byte texts) executed by the two
REAL sides -

  * host: Reduino.Communication.SerialMonitor on a fake pyserial port (the bytes write() hands over are captured; readline()
    serves the bytes the device has printed so far, up to and including the first LF, or everything on time-out);
  * device: a generated Reduino script, transpiled by the working tree, compiled and run on the mock core: `mon.write(<literal>)`
    for dw, `rK = mon.read()` for dr.  The mock's serial input is scripted per read (`s <k> bytes`: what the host had written by
    then); after the last operation the script prints a marker and echoes every rK, so that the value the *script variable* holds
    is observed (not the mock's own log).

The result is the event list of tla/SerialLinkTrace.tla.  Trusted: Serial.println(x) sends x followed by CR LF; pyserial's
readline returns the bytes up to and including the first LF or, on time-out, what has arrived."""
from __future__ import annotations

import importlib
import json

from . import common  # noqa: F401
from . import fw

HEADER = ("from Reduino import target\nfrom Reduino.Communication import SerialMonitor\n\n"
          'target("COM3", upload=False)\nmon = SerialMonitor(9600)\n')
MARK = "#echo"


def text_of(bs: list) -> str:
    return bytes(bs).decode("utf-8")


class _FakePort:
    """pyserial.Serial stand-in."""
    def __init__(self, *a, **kw):
        self.is_open = True
        self.written: list = []
        self.line = b""

    def write(self, payload):
        self.written.append(bytes(payload))
        return len(payload)

    def readline(self):
        i = self.line.find(b"\n")
        out, self.line = (self.line, b"") if i < 0 else (self.line[:i + 1], self.line[i + 1:])
        return out

    def close(self):
        self.is_open = False


class _FakeBackend:
    Serial = _FakePort


def script_of(ops: list) -> str:
    L = [HEADER.rstrip("\n")]
    k = 0
    for o in ops:
        if o["op"] == "dw":
            L.append(f"mon.write({json.dumps(text_of(o['t']), ensure_ascii=False)})")
        elif o["op"] == "dr":
            k += 1
            L.append(f"r{k} = mon.read()")
    L.append(f'mon.write("{MARK}")')
    for i in range(1, k + 1):
        L.append(f"mon.write(r{i})")
    return "\n".join(L) + "\n"


def run_behaviour(beh: dict) -> dict:
    """-> {"src", "transpile", "compile", "ev": [...]} (ev only when the device script runs)."""
    nl, ops = bytes(beh["nl"]), beh["ops"]
    pkg = importlib.import_module("Reduino.Communication")
    SM = importlib.import_module("Reduino.Communication.SerialMonitor")
    had, old = hasattr(pkg, "serial"), getattr(pkg, "serial", None)
    pkg.serial = _FakeBackend
    try:
        mon = SM.SerialMonitor(9600, port="FAKE", newline=nl.decode("latin-1"))
        port = mon._serial
        # ---- host writes (their payloads decide what the device can read)
        payload = {}
        for i, o in enumerate(ops):
            if o["op"] == "hw":
                before = len(port.written)
                mon.write(text_of(o["t"]))
                payload[i] = b"".join(port.written[before:])
        # ---- device run: serial input scheduled per read
        sched, pending, k = [], b"", 0
        for i, o in enumerate(ops):
            if o["op"] == "hw":
                pending += payload[i]
            elif o["op"] == "dr":
                k += 1
                if pending:
                    sched.append(f"s {k} " + " ".join(str(b) for b in pending))
                    pending = b""
        src = script_of(ops)
        r = fw.run_script({"src": src, "passes": 0, "inputs": "\n".join(sched) + "\n"})
        out = {"src": src, "inputs": "\n".join(sched), "transpile": r["transpile"], "compile": r.get("compile"), "msg": r.get("msg"),
               "stderr": (r.get("stderr") or "")[-500:] if r.get("compile") == "fail" else ""}
        if r["transpile"] != "accept" or r.get("compile") != "ok":
            return out
        ws = [e for e in r["events"] if e.get("e") == "w"]
        sr = [e for e in r["events"] if e.get("e") == "sread"]
        mark = next((j for j, e in enumerate(ws) if e.get("v") == MARK), None)
        ndw, ndr = sum(o["op"] == "dw" for o in ops), sum(o["op"] == "dr" for o in ops)
        if mark is None or mark != ndw or len(ws) != ndw + 1 + ndr or len(sr) != ndr:
            out["ev"] = None
            out["why"] = f"expected {ndw} printed lines, the marker and {ndr} echoes / {ndr} reads; saw {len(ws)} lines (marker at {mark}), {len(sr)} reads"
            return out

        def wbytes(e) -> bytes:
            v = e.get("v")
            return v.encode("latin-1") if isinstance(v, str) else str(v).encode()

        # ---- host reads: the device's lines arrive as the operations go by
        ev, iw, ir = [], 0, 0
        for i, o in enumerate(ops):
            if o["op"] == "hw":
                ev.append({"k": "hw", "t": list(o["t"]), "p": list(payload[i]), "to": False})
            elif o["op"] == "dw":
                sent = wbytes(ws[iw]) + b"\r\n"
                iw += 1
                port.line += sent
                ev.append({"k": "dw", "t": list(o["t"]), "p": list(sent), "to": False})
            elif o["op"] == "dr":
                ev.append({"k": "dr", "t": [], "p": list(wbytes(ws[ndw + 1 + ir])), "to": bool(sr[ir].get("to"))})
                ir += 1
            else:
                import contextlib
                import io
                with contextlib.redirect_stdout(io.StringIO()):
                    got = mon.read()
                ev.append({"k": "hr", "t": [], "p": list(got.encode("utf-8")), "to": False})
        out["ev"] = ev
        return out
    finally:
        if had:
            pkg.serial = old
        else:
            delattr(pkg, "serial")
