"""Shared machinery for the four actuator state machines (used by C19: host side, and C04: firmware side)."""
from __future__ import annotations

import random

from . import host_act
from .common import MachineryError
from .tlc import run_tlc

# name -> spec modules, constant grids (full / quick), invariants/properties checked by TLC
DEV = {
    "led": dict(mc="LedMC", gen="LedGen", trace="LedTrace",
                consts=["Brights", "Durations", "Times", "StepsG", "Patterns"],
                full=dict(Brights="BrightsDef", Durations="DurationsDef", Times="TimesDef", StepsG="StepsDef", Patterns="PatternsDef"),
                quick=dict(Brights="BrightsQ", Durations="DurationsQ", Times="TimesQ", StepsG="StepsQ", Patterns="PatternsQ"),
                invariants=["TypeOK", "BrightInRange", "OnIffBright", "NeverUnclamped", "ShadowTracksPin", "CanonicalIsAllowed",
                            "BlinkSleepsExactly", "BlinkEndsOff", "FadeEndsOnBound", "FadeMonotone"],
                properties=["FailedCallLeavesState"]),
    "rgb": dict(mc="RGBLedMC", gen="RGBLedGen", trace="RGBLedTrace",
                consts=["Colours", "Durations", "Times", "StepsG"],
                full=dict(Colours="ColoursDef", Durations="DurationsDef", Times="TimesDef", StepsG="StepsDef"),
                quick=dict(Colours="ColoursQ", Durations="DurationsQ", Times="TimesQ", StepsG="StepsQ"),
                invariants=["ChannelsInRange", "OnIffNonZero", "NeverUnclamped", "ShadowTracksPins", "CanonicalIsAllowed",
                            "FadeEndsOnTarget", "FadeStepsMonotone", "FadeNeverLonger", "BlinkRestores", "BlinkSleepsExactly"],
                properties=["FailedCallLeavesState"]),
    "servo": dict(mc="ServoMC", gen="ServoGen", trace="ServoTrace",
                  consts=["Cals", "Angles", "Pulses"],
                  full=dict(Cals="CalsDef", Angles="AnglesDef", Pulses="PulsesDef"),
                  quick=dict(Cals="CalsQ", Angles="AnglesQ", Pulses="PulsesQ"),
                  invariants=["WithinBounds", "AlwaysCorrespond", "RoundTrip", "DeviceCommandInBounds", "CanonicalIsAllowed"],
                  properties=["FailedCallLeavesState"]),
    "motor": dict(mc="DCMotorMC", gen="DCMotorGen", trace="DCMotorTrace",
                  consts=["Speeds", "Durations"],
                  full=dict(Speeds="SpeedsDef", Durations="DurationsDef"),
                  quick=dict(Speeds="SpeedsQ", Durations="DurationsQ"),
                  invariants=["SpeedInRange", "AppliedIsSpeedNegatedWhenInverted", "ModeLaw", "RampEndsAtTarget", "RampNeverLonger",
                              "RunForEndsBraked", "RunForSleepsExactly", "DutyNeverAboveOne", "RampMonotone"],
                  properties=["FailedCallLeavesState", "InvertTwiceRestores"]),
}
HOST = {"led": host_act.led_host_trace, "rgb": host_act.rgb_host_trace, "servo": host_act.servo_host_trace,
        "motor": host_act.motor_host_trace}


def _consts(d: dict, grid: dict) -> str:
    return "CONSTANTS\n" + "".join(f"  {k} <- {grid[k]}\n" for k in d["consts"])


def model_check(dev: str, grid_name: str, run, workers: int = 16, timeout: int = 1500):
    """Exhaustive TLC run of the device spec with every named invariant/property."""
    d = DEV[dev]
    cfg = "SPECIFICATION Spec\n" + _consts(d, d[grid_name]) + "".join(f"INVARIANT {i}\n" for i in d["invariants"]) \
          + "".join(f"PROPERTY {p}\n" for p in d["properties"]) + "CHECK_DEADLOCK FALSE\n"
    res = run_tlc(d["mc"], cfg, workers=workers, timeout=timeout, coverage=True)
    if not res.ok:
        raise MachineryError(f"{d['mc']} ({grid_name}): spec-level check failed: {res.error} {res.violated}\n{res.stdout[-2500:]}")
    if res.coverage and any(v[1] == 0 for k, v in res.coverage.items() if k in ("Do",)):
        raise MachineryError(f"{d['mc']}: action never taken (vacuous model)")
    run.add_tlc(res, f"{d['mc']} exhaustive model check, grid={grid_name}, {len(d['invariants'])} invariants + {len(d['properties'])} action properties")
    return res


def generate(dev: str, grid_name: str, maxlen: int, run, simulate: int | None = None, seed: int = 1, overrides: dict | None = None) -> list:
    """TLC-generated call histories: all of length maxlen (BFS), or `simulate` random walks of that length."""
    d = DEV[dev]
    grid = dict(d[grid_name])
    if overrides:
        grid.update(overrides)
    cfg = "INIT GInit\nNEXT GNext\n" + _consts(d, grid) + f"  MaxLen = {maxlen}\n"
    if simulate is None:
        cfg += "CONSTRAINT Emit\nCHECK_DEADLOCK FALSE\n"
        res = run_tlc(d["gen"], cfg, workers=8, timeout=900)
    else:
        cfg += "CONSTRAINT EmitSim\nCHECK_DEADLOCK FALSE\n"
        res = run_tlc(d["gen"], cfg, workers=1, timeout=900, simulate=f"num={simulate}", depth=maxlen + 1, seed=seed)
    if not res.ok:
        raise MachineryError(f"{d['gen']}: generation failed: {res.error}\n{res.stdout[-2000:]}")
    hs = res.json
    if simulate is not None:
        hs = [h for h in hs if (len(h["h"]) if isinstance(h, dict) else len(h)) == maxlen]
    if not hs:
        raise MachineryError(f"{d['gen']}: no behaviours generated\n{res.stdout[-1500:]}")
    run.add_tlc(res, f"{d['gen']} behaviour generation len={maxlen} {'bfs' if simulate is None else 'simulate'} grid={grid_name}")
    return hs


def dedup(hs: list) -> list:
    import json
    seen, out = set(), []
    for h in hs:
        k = json.dumps(h, sort_keys=True)
        if k not in seen:
            seen.add(k)
            out.append(h)
    return out


def calls_of(h):
    return h["h"] if isinstance(h, dict) else h


def sample(hs: list, n: int, seed: int) -> list:
    """n histories, stratified by the sequence of call names: every combination of calls that occurs is kept with as many argument
    combinations as the budget allows (round robin over the groups, each group in seeded random order)."""
    if len(hs) <= n:
        return list(hs)
    rnd = random.Random(seed)
    groups: dict = {}
    for h in hs:
        calls = h["h"] if isinstance(h, dict) and "h" in h else h
        groups.setdefault(tuple(c["act"] for c in calls), []).append(h)
    for g in groups.values():
        rnd.shuffle(g)
    order = sorted(groups)
    out, k = [], 0
    while len(out) < n:
        took = False
        for key in order:
            if k < len(groups[key]):
                out.append(groups[key][k])
                took = True
                if len(out) >= n:
                    break
        if not took:
            break
        k += 1
    return out
