"""Firmware leg: transpile a script with /repo's working tree, compile the emitted C++ with host g++ against
the mock Arduino core, run it with scripted inputs, return the NDJSON event trace."""
from __future__ import annotations

import concurrent.futures as cf
import hashlib
import json
import os
import shutil
import signal
import subprocess
import tempfile
from pathlib import Path

from .common import BUILD, MOCK, NCPU, MachineryError, scratch

CXX = os.environ.get("VERIF_CXX", "g++")
BASE_FLAGS = ["-std=gnu++17", "-O0", "-w", "-fpermissive", "-I", str(MOCK)]
if os.environ.get("VERIF_STRICT_CXX") == "1":       # experiment: without the -fpermissive the Arduino build system passes
    BASE_FLAGS.remove("-fpermissive")
SAN_FLAGS = ["-fsanitize=address,undefined", "-fno-sanitize-recover=all", "-fno-omit-frame-pointer", "-g"]


def ensure_runtime(san: bool = False) -> Path:
    """Compile mock/rt.cpp once per variant (rebuilt when the sources change)."""
    BUILD.mkdir(exist_ok=True)
    h = hashlib.sha256()
    for f in sorted(MOCK.iterdir()):
        h.update(f.read_bytes())
    tag = h.hexdigest()[:12] + ("-san" if san else "")
    obj = BUILD / f"rt-{tag}.o"
    if not obj.exists():
        tmp = BUILD / f".rt-{tag}-{os.getpid()}.o"
        flags = BASE_FLAGS + (SAN_FLAGS if san else [])
        p = subprocess.run([CXX, *flags, "-c", str(MOCK / "rt.cpp"), "-o", str(tmp)], capture_output=True, text=True)
        if p.returncode != 0:
            raise MachineryError("cannot compile mock runtime:\n" + p.stderr[-3000:])
        os.replace(tmp, obj)
    return obj


class Timeout(Exception):
    pass


def _alarm(_s, _f):
    raise Timeout()


OUT_LIMIT = 32 * 1024 * 1024


def transpile(src: str, timeout_s: int = 20) -> dict:
    """Run parse()+emit() of the current working tree in this process.
    Returns {"status": "accept", "cpp":..., "libs": [...]} | {"status":"reject","cls":..,"msg":..}
            | {"status":"crash",...} | {"status":"timeout"}"""
    from Reduino.transpile.parser import parse
    from Reduino.transpile.emitter import emit
    old = signal.signal(signal.SIGALRM, _alarm)
    signal.alarm(timeout_s)
    try:
        prog = parse(src)
        cpp = emit(prog)
        return {"status": "accept", "cpp": cpp}
    except Timeout:
        return {"status": "timeout"}
    except (ValueError, SyntaxError) as e:
        return {"status": "reject", "cls": type(e).__name__, "msg": str(e)[:300]}
    except RecursionError as e:
        return {"status": "crash", "cls": "RecursionError", "msg": str(e)[:300]}
    except Exception as e:  # internal error classes: reported, never hidden
        return {"status": "crash", "cls": type(e).__name__, "msg": str(e)[:300]}
    finally:
        signal.alarm(0)
        signal.signal(signal.SIGALRM, old)


def parse_events(text: str) -> list:
    evs = []
    for line in text.splitlines():
        if not line:
            continue
        try:
            evs.append(json.loads(line))
        except Exception:
            evs.append({"e": "raw", "v": line})
    return evs


def compile_run(cpp: str, passes: int = 3, inputs: str = "", san: bool = False, syntax_only: bool = False,
                run_timeout: int = 30, keep: bool = False, strict: bool = False) -> dict:
    """Compile one sketch and run it. Returns {"compile": "ok"|"fail", "stderr":..., "events": [...], "rc":.., "memerr":..}"""
    rt = ensure_runtime(san)
    d = Path(tempfile.mkdtemp(prefix="fw-", dir=str(scratch())))
    try:
        (d / "sketch.cpp").write_text(cpp)
        flags = BASE_FLAGS + (SAN_FLAGS if san else [])
        if strict:          # standard C++: without the -fpermissive that the Arduino build system passes (C06's bar)
            flags = [f for f in flags if f != "-fpermissive"]
        if syntax_only:
            p = subprocess.run([CXX, *flags, "-fsyntax-only", str(d / "sketch.cpp")], capture_output=True, text=True)
            return {"compile": "ok" if p.returncode == 0 else "fail", "stderr": p.stderr[-4000:]}
        p = subprocess.run([CXX, *flags, str(d / "sketch.cpp"), str(rt), "-o", str(d / "fw")], capture_output=True, text=True)
        if p.returncode != 0:
            return {"compile": "fail", "stderr": p.stderr[-4000:]}
        (d / "in.txt").write_text(inputs)
        env = dict(os.environ)
        if san:
            env["RT_FLUSH"] = "1"
            env["ASAN_OPTIONS"] = "detect_leaks=0:abort_on_error=0:exitcode=66"
            env["UBSAN_OPTIONS"] = "print_stacktrace=0:halt_on_error=1:exitcode=67"
        # the event stream goes to a file of bounded size: a sketch that never leaves setup() (or a loop) prints without end, and
        # an unbounded capture would take the worker down with it instead of producing a verdict
        def _limit():
            import resource
            resource.setrlimit(resource.RLIMIT_FSIZE, (OUT_LIMIT, OUT_LIMIT))
        try:
            with open(d / "out.ndjson", "wb") as fo:
                r = subprocess.run([str(d / "fw"), str(passes), str(d / "in.txt")], stdout=fo, stderr=subprocess.PIPE, text=True,
                                   timeout=run_timeout, env=env, errors="replace", preexec_fn=_limit)
            err, rc = r.stderr, r.returncode
        except subprocess.TimeoutExpired:
            err, rc = "run timeout", -9
        out = (d / "out.ndjson").read_bytes().decode("utf8", "replace")
        if rc == -25:                    # SIGXFSZ: the output limit was reached
            err, rc = "run timeout (output limit reached)", -9
            out = out[:out.rfind("\n") + 1]
        res = {"compile": "ok", "events": parse_events(out), "rc": rc, "stderr": err[-3000:]}
        if rc != 0:
            kind = "timeout" if rc == -9 else "crash"
            for k in ("heap-use-after-free", "heap-buffer-overflow", "double-free", "stack-buffer-overflow",
                      "global-buffer-overflow", "runtime error", "SEGV", "alloc-dealloc-mismatch", "attempting free"):
                if k in err:
                    kind = k
                    break
            res["memerr"] = kind
        return res
    finally:
        if not keep:
            shutil.rmtree(d, ignore_errors=True)


def run_script(job: dict) -> dict:
    """job = {"src":..., "passes":N, "inputs":"", "san":bool, "syntax_only":bool}. One full firmware leg."""
    t = transpile(job["src"], job.get("ttimeout", 20))
    if job.get("again") and t["status"] == "accept":      # the emission of a process that has seen this script before
        t = transpile(job["src"], job.get("ttimeout", 20))
    out = {"transpile": t["status"]}
    if t["status"] != "accept":
        out.update({k: t.get(k) for k in ("cls", "msg")})
        return out
    out["cpp_sha"] = hashlib.sha256(t["cpp"].encode()).hexdigest()[:16]
    if job.get("keep_cpp"):
        out["cpp"] = t["cpp"]
    out.update(compile_run(t["cpp"], job.get("passes", 3), job.get("inputs", ""), job.get("san", False),
                           job.get("syntax_only", False), strict=job.get("strict", False)))
    return out


def run_many(jobs: list[dict], workers: int = NCPU) -> list[dict]:
    if not jobs:
        return []
    ensure_runtime(False)
    if any(j.get("san") for j in jobs):
        ensure_runtime(True)
    scratch()  # create in the parent so children share it
    with cf.ProcessPoolExecutor(max_workers=min(workers, len(jobs))) as ex:
        return list(ex.map(run_script, jobs, chunksize=1))
