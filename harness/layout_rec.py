"""C07 recorders: skeleton scripts and their text renderer (layouts come from tla/LayoutGen), locators that read
the block path of every uniquely numbered statement off the real IR (Program dataclasses) and off CPython's AST,
and the statement catalogue with its outcome recorder (translated / rejected / skipped)."""
from __future__ import annotations

import ast as pyast
import dataclasses
import hashlib
import re

from . import common  # noqa: F401  (sys.path -> $REDUINO_REPO/src)

HOOK_LIST = "_verif_skipped"          # module-level list added to parser.py by hooks/c07_hook.patch

# --------------------------------------------------------------------------------------------------------------
# Skeletons.  One logical line = (depth, kind[, ref]); ids are 101, 102, ... in line order.  Every line whose
# text carries its id can be located in the IR; `pre` lines are the fixed preamble.
# --------------------------------------------------------------------------------------------------------------
PRE = [(0, "imp-led"), (0, "imp-mon"), (0, "imp-sleep"), (0, "dled"), (0, "dmon"), (0, "v0")]
SHORT_PRE = [(0, "imp-led"), (0, "imp-mon"), (0, "dled"), (0, "dmon"), (0, "v0")]

SKELETONS: list[tuple[str, list[tuple]]] = [
    ("toplevel", PRE + [(0, "mark"), (0, "bright"), (0, "aug"), (0, "sleep"), (0, "mark")]),
    ("mainloop", PRE + [(0, "mark"), (0, "main"), (1, "bright"), (1, "sleep"), (1, "mark"), (1, "blink")]),
    ("if-elif-else", SHORT_PRE + [(0, "if"), (1, "mark"), (1, "bright"), (0, "elif"), (1, "mark"), (0, "elif"), (1, "mark"),
                                  (0, "else"), (1, "mark"), (1, "mark"), (0, "mark")]),
    ("for-top", SHORT_PRE + [(0, "for"), (1, "mark"), (1, "bright"), (1, "mark"), (0, "mark")]),
    ("while-top", SHORT_PRE + [(0, "while"), (1, "mark"), (1, "aug"), (0, "mark")]),
    ("def-call", SHORT_PRE + [(0, "def"), (1, "mark"), (1, "if"), (2, "mark"), (1, "ret"), (0, "mark"), (0, "call", 6), (0, "mark")]),
    # a helper that binds a local of the name of a global (comment lines at column 0 inside the body must not change whose `v` that is)
    ("def-local", SHORT_PRE + [(0, "def"), (1, "local"), (1, "mark"), (1, "if"), (2, "local"), (1, "ret"), (0, "mark"), (0, "call", 6), (0, "mark")]),
    # a helper that calls a helper defined further down with a float (the callee's header may carry a trailing comment, blanks, ...)
    ("def-forward", SHORT_PRE + [(0, "def"), (1, "fwdret", 8), (0, "def"), (1, "retf"), (0, "mark"), (0, "call", 6), (0, "mark")]),
    # a helper that calls itself, as a statement of its own inside a branch and directly in its body
    ("def-recursive", SHORT_PRE + [(0, "def"), (1, "if"), (2, "call", 6), (2, "mark"), (1, "call", 6), (1, "ret"), (0, "call", 6), (0, "mark")]),
    ("try-except", SHORT_PRE + [(0, "try"), (1, "mark"), (1, "bright"), (0, "except", 6), (1, "mark"), (0, "mark")]),
    ("main-if-else", SHORT_PRE + [(0, "main"), (1, "mark"), (1, "if"), (2, "bright"), (2, "mark"), (1, "else"), (2, "mark"),
                                  (1, "mark"), (1, "sleep")]),
    ("main-for-if", SHORT_PRE + [(0, "main"), (1, "for"), (2, "mark"), (2, "if"), (3, "mark"), (3, "bright"), (2, "mark"),
                                 (1, "mark")]),
    ("main-while-elif", SHORT_PRE + [(0, "main"), (1, "while"), (2, "if"), (3, "mark"), (2, "elif"), (3, "mark"), (2, "aug"),
                                     (1, "mark")]),
    ("def-nested", SHORT_PRE + [(0, "def"), (1, "for"), (2, "if"), (3, "mark"), (2, "else"), (3, "mark"), (2, "mark"),
                                (1, "mark"), (0, "main"), (1, "call", 6), (1, "sleep")]),
    ("main-try-nested", SHORT_PRE + [(0, "mark"), (0, "main"), (1, "try"), (2, "mark"), (2, "if"), (3, "mark"),
                                     (1, "except", 8), (2, "mark"), (1, "mark")]),
    ("setup-then-main", SHORT_PRE + [(0, "if"), (1, "mark"), (0, "else"), (1, "mark"), (0, "for"), (1, "mark"),
                                     (0, "main"), (1, "mark"), (1, "for"), (2, "mark"), (1, "bright")]),
]

HEADER_KINDS = {"if", "elif", "else", "for", "while", "def", "try", "except", "main"}
LOCATABLE = {"mark", "bright", "sleep", "blink", "aug", "local", "call", "ret", "fwdret", "retf", "if", "elif", "for", "while", "def"}

# spacing variants: 0 canonical, 1 loose, 2 tight, 3 space before the call parenthesis, 4 around the dot, 5 doubled blanks,
# 6 keyword directly against a parenthesis (`if(v == 1):`, `while(True):`, `return(a)`), 7 parenthesised after a blank,
# 8 blanks inside the parentheses (`while ( True ):`)
TEXT = {
    "imp-led":   {0: "from Reduino.Actuators import Led", 5: "from  Reduino.Actuators  import  Led"},
    "imp-mon":   {0: "from Reduino.Communication import SerialMonitor", 5: "from  Reduino.Communication  import  SerialMonitor"},
    "imp-sleep": {0: "from Reduino.Utils import sleep", 5: "from  Reduino.Utils  import  sleep"},
    "dled":  {0: "led = Led(13)", 1: "led  =  Led( 13 )", 2: "led=Led(13)", 3: "led = Led (13)"},
    "dmon":  {0: "mon = SerialMonitor(9600)", 1: "mon  =  SerialMonitor( 9600 )", 2: "mon=SerialMonitor(9600)", 3: "mon = SerialMonitor (9600)"},
    "v0":    {0: "v = 0", 1: "v  =  0", 2: "v=0"},
    "mark":  {0: "mon.write({K})", 1: "mon.write( {K} )", 3: "mon.write ({K})", 4: "mon . write({K})"},
    "bright": {0: "led.set_brightness({K})", 1: "led.set_brightness( {K} )", 3: "led.set_brightness ({K})", 4: "led . set_brightness({K})"},
    "sleep": {0: "sleep({K})", 1: "sleep( {K} )", 3: "sleep ({K})"},
    "blink": {0: "led.blink({K}, 2)", 1: "led.blink( {K} , 2 )", 2: "led.blink({K},2)", 3: "led.blink ({K}, 2)", 4: "led . blink({K}, 2)"},
    "aug":   {0: "v = v + {K}", 1: "v  =  v  +  {K}", 2: "v=v+{K}"},
    "fwdret": {0: "return f{R}(a * 0.5) + {K}", 1: "return  f{R}( a * 0.5 )  +  {K}", 3: "return f{R} (a * 0.5) + {K}"},
    "retf":  {0: "return a * 1.5 + {K}", 1: "return  a  *  1.5  +  {K}", 2: "return a*1.5+{K}"},
    "local": {0: "v = {K}", 1: "v  =  {K}", 2: "v={K}"},
    "call":  {0: "f{R}({K})", 1: "f{R}( {K} )", 3: "f{R} ({K})"},
    "ret":   {0: "return a + {K}", 1: "return  a  +  {K}", 2: "return a+{K}", 6: "return(a + {K})", 7: "return (a + {K})", 8: "return ( a + {K} )"},
    "if":    {0: "if v == {K}:", 1: "if v  ==  {K} :", 2: "if v=={K}:", 6: "if(v == {K}):", 7: "if (v == {K}):", 8: "if ( v == {K} ):"},
    "elif":  {0: "elif v == {K}:", 1: "elif v  ==  {K} :", 2: "elif v=={K}:", 6: "elif(v == {K}):", 7: "elif (v == {K}):", 8: "elif ( v == {K} ) :"},
    "else":  {0: "else:", 1: "else :"},
    "for":   {0: "for i{K} in range(2):", 1: "for i{K} in range( 2 ) :", 3: "for i{K} in range (2):", 5: "for  i{K}  in  range(2):"},
    "while": {0: "while v < {K}:", 1: "while v  <  {K} :", 2: "while v<{K}:", 6: "while(v < {K}):", 7: "while (v < {K}):", 8: "while ( v < {K} ):"},
    "def":   {0: "def f{K}(a):", 1: "def f{K}( a ) :", 3: "def f{K} (a):"},
    "try":   {0: "try:", 1: "try :"},
    "except": {0: "except Exception as e{R}:", 1: "except Exception as e{R} :", 5: "except  Exception  as  e{R}:"},
    "main":  {0: "while True:", 1: "while True :", 5: "while  True:", 6: "while(True):", 7: "while (True):", 8: "while ( True ):"},
}
TRAILING_COMMENT = "  # note"
TRAILING_WS = "  "
COMMENT_TEXT = "# a comment line"


def skeleton_table() -> list[dict]:
    """The skeletons as data for TLC (and for the renderer): name, lines [{d, hk, id, sps, kind, ref}]."""
    out = []
    for name, lines in SKELETONS:
        rows = []
        for i, ln in enumerate(lines, 1):
            d, kind = ln[0], ln[1]
            ref = 100 + ln[2] if len(ln) > 2 else 0
            rows.append({"d": d, "hk": kind if kind in HEADER_KINDS else "", "id": 100 + i, "kind": kind, "ref": ref,
                         "sps": sorted(k for k in TEXT[kind] if k)})
        out.append({"name": name, "lines": rows})
    return out


def indent_text(ind: list[int]) -> str:
    return "".join("\t" if u == 0 else " " * u for u in ind)


def line_text(row: dict, sp: int) -> str:
    return TEXT[row["kind"]][sp].replace("{K}", str(row["id"])).replace("{R}", str(row["ref"]))


def render(skel: dict, lines: list[dict]) -> str:
    """Physical lines (records of tla/Layout!Render) -> script text."""
    out = []
    for n, ln in enumerate(lines):
        ind = indent_text(ln["ind"])
        if ln["t"] == "stmt":
            row = skel["lines"][ln["ln"] - 1]
            # the blank run before a trailing comment / at the end of a line is blanks or a tab; a comment may end in a backslash
            # (it is still a comment: the next line is not its continuation)
            tc = (TRAILING_COMMENT, "\t# note", "  # path C:\\tmp\\", " #")[n % 4] if ln["tc"] else ""
            tw = (TRAILING_WS, "\t", " \t ")[n % 3] if ln["tw"] else ""
            out.append(ind + line_text(row, ln["sp"]) + tc + tw)
        elif ln["t"] == "comment":
            out.append(ind + (COMMENT_TEXT, "# ends with a backslash \\", "#\ttabbed\tcomment", "#")[n % 4])
        else:                                   # blank / whitespace-only
            out.append(ind)
    return "\n".join(out) + "\n"


def skeleton_ids(skel: dict) -> dict:
    rows = skel["lines"]
    return {"mains": [r["id"] for r in rows if r["kind"] == "main"],
            "tries": [r["id"] for r in rows if r["kind"] == "try"],
            "defs": [r["id"] for r in rows if r["kind"] == "def"],
            "locatable": [r["id"] for r in rows if r["kind"] in LOCATABLE]}


# --------------------------------------------------------------------------------------------------------------
# Locators.  A path is a list of [opener id, clause index]; ids are the three-digit numbers 101..199 that the
# skeleton texts carry (in conditions, loop variables i<id>, function names f<id>, handler targets e<id>).
# --------------------------------------------------------------------------------------------------------------
_NUM = re.compile(r"(?<![\w.])(1\d\d)(?![\w.])")
_TAGGED = re.compile(r"^[a-z](1\d\d)$")


def _nums(text) -> list[int]:
    return [int(x) for x in _NUM.findall(str(text))]


def _tag(name) -> int:
    m = _TAGGED.match(str(name or ""))
    return int(m.group(1)) if m else 0


def _first(xs: list[int]) -> int:
    return xs[0] if xs else 0


def ir_paths(prog, main_id: int, try_id: int = 0) -> dict[int, list]:
    """Where the real IR holds each numbered statement: {id: [path, ...]}.  try_id: id of the skeleton's only
    `try` (a TryStatement that lost its handlers is still that statement)."""
    found: dict[int, list] = {}

    def hit(i: int, path: list) -> None:
        found.setdefault(i, []).append([list(s) for s in path])

    def walk(nodes, path: list) -> None:
        for n in nodes or []:
            t = type(n).__name__
            if t == "IfStatement":
                op = _first(_nums(n.branches[0].condition)) if n.branches else 0
                for j, br in enumerate(n.branches):
                    for i in _nums(br.condition):
                        hit(i, path)
                    walk(br.body, path + [[op, j]])
                walk(n.else_body, path + [[op, len(n.branches)]])
            elif t == "WhileLoop":
                ids = _nums(n.condition)
                for i in ids:
                    hit(i, path)
                walk(n.body, path + [[_first(ids), 0]])
            elif t == "ForRangeLoop":
                op = _tag(n.var_name)
                if op:
                    hit(op, path)
                walk(n.body, path + [[op, 0]])
            elif t == "TryStatement":
                op = _tag(n.handlers[0].target) if n.handlers else try_id
                walk(n.try_body, path + [[op, 0]])
                for j, h in enumerate(n.handlers):
                    walk(h.body, path + [[op, j + 1]])
            elif dataclasses.is_dataclass(n):
                seen = set()
                for f in dataclasses.fields(n):
                    v = getattr(n, f.name)
                    if isinstance(v, (list, tuple, set, dict)):
                        v = repr(v)
                    for i in _nums(v):
                        if i not in seen:
                            seen.add(i)
                            hit(i, path)

    walk(prog.global_decls, [])
    walk(prog.setup_body, [])
    walk(prog.loop_body, [[main_id, 0]])
    for fn in prog.functions:
        op = _tag(fn.name)
        if op:
            hit(op, [])
        walk(fn.body, [[op, 0]])
    return found


def py_paths(src: str, main_id: int) -> dict[int, list]:
    """The same reading of CPython's own AST (the reference for the spec's block paths)."""
    found: dict[int, list] = {}
    tree = pyast.parse(src)

    def hit(i: int, path: list) -> None:
        found.setdefault(i, []).append([list(s) for s in path])

    def walk(stmts, path: list, top: bool = False) -> None:
        for st in stmts:
            if isinstance(st, pyast.If):
                op = _first(_nums(pyast.unparse(st.test)))
                j, cur = 0, st
                while True:
                    for i in _nums(pyast.unparse(cur.test)):
                        hit(i, path)
                    walk(cur.body, path + [[op, j]])
                    j += 1
                    if len(cur.orelse) == 1 and isinstance(cur.orelse[0], pyast.If) and cur.orelse[0].col_offset == st.col_offset \
                            and _is_elif(src, cur.orelse[0]):
                        cur = cur.orelse[0]
                        continue
                    if cur.orelse:
                        walk(cur.orelse, path + [[op, j]])
                    break
            elif isinstance(st, pyast.While):
                if top and isinstance(st.test, pyast.Constant) and st.test.value is True:
                    walk(st.body, path + [[main_id, 0]])
                else:
                    ids = _nums(pyast.unparse(st.test))
                    for i in ids:
                        hit(i, path)
                    walk(st.body, path + [[_first(ids), 0]])
            elif isinstance(st, pyast.For):
                op = _tag(getattr(st.target, "id", ""))
                if op:
                    hit(op, path)
                walk(st.body, path + [[op, 0]])
            elif isinstance(st, pyast.Try):
                op = _tag(st.handlers[0].name) if st.handlers else 0
                walk(st.body, path + [[op, 0]])
                for j, h in enumerate(st.handlers):
                    walk(h.body, path + [[op, j + 1]])
            elif isinstance(st, pyast.FunctionDef):
                op = _tag(st.name)
                if op:
                    hit(op, path)
                walk(st.body, path + [[op, 0]])
            else:
                seen = set()
                for i in _nums(pyast.unparse(st)):
                    if i not in seen:
                        seen.add(i)
                        hit(i, path)

    walk(tree.body, [], top=True)
    return found


def _is_elif(src: str, node) -> bool:
    line = src.splitlines()[node.lineno - 1]
    return line[node.col_offset:node.col_offset + 4] == "elif"


# --------------------------------------------------------------------------------------------------------------
# Running the real transpiler
# --------------------------------------------------------------------------------------------------------------
def _parser_mod():
    from Reduino.transpile import parser
    return parser


def hook_present() -> bool:
    return hasattr(_parser_mod(), HOOK_LIST)


def transpile(src: str):
    """-> (program | None, cpp | None, exception class name | "", skipped [(scope, depth, line, reason)] | None)"""
    parser = _parser_mod()
    from Reduino.transpile.emitter import emit
    skipped = getattr(parser, HOOK_LIST, None)
    if skipped is not None:
        skipped.clear()
    try:
        prog = parser.parse(src)
        cpp = emit(prog)
        exc = ""
    except RecursionError:
        raise
    except Exception as e:      # noqa: BLE001 - any exception is the outcome "rejected"
        prog, cpp, exc = None, None, type(e).__name__
    got = [tuple(x) for x in skipped] if skipped is not None else None
    if skipped is not None:
        skipped.clear()
    return prog, cpp, exc, got


def digest(text: str | None) -> str:
    return hashlib.sha256((text or "\0none").encode()).hexdigest()[:16]


def observe_layout(skel: dict, lay: dict) -> dict:
    """Render one TLC layout, run CPython's parser and the real transpiler on it."""
    src = render(skel, lay["lines"])
    ids = skeleton_ids(skel)
    main_id = ids["mains"][0] if ids["mains"] else 1
    rec = {"src": src}
    try:
        rec["py_dump"] = pyast.dump(pyast.parse(src))
        rec["py_paths"] = py_paths(src, main_id)
    except SyntaxError as e:
        rec["py_dump"], rec["py_paths"], rec["py_err"] = None, {}, f"{type(e).__name__}: {e}"
    prog, cpp, exc, _ = transpile(src)
    rec["exc"] = exc
    rec["cpp"] = cpp
    try_id = ids["tries"][0] if len(ids["tries"]) == 1 else 0
    rec["obs"] = ir_paths(prog, main_id, try_id) if prog is not None else {}
    return rec


# --------------------------------------------------------------------------------------------------------------
# Statement catalogue (accounting).  {P} is the payload 7731 that makes a translated statement recognisable.
# `probe`: how a translation is recognised when the text has no payload.
# --------------------------------------------------------------------------------------------------------------
P = "7731"
CATALOGUE: dict[str, dict] = {
    # supported forms
    "assign-const": {"s": ["zq{P} = 5"]},
    "assign-expr": {"s": ["v = v + {P}"]},
    "augassign": {"s": ["v += {P}"]},
    "tuple-assign": {"s": ["ta{P}, tb{P} = 1, 2"]},
    "list-decl": {"s": ["ys{P} = [1, 2, 3]"]},
    # identifiers that BEGIN with a keyword or with another word the line dispatch knows (`import`, `from`, `def`, `if`, `for`, `while`,
    # `return`, `pass`, `print`, `global`, `try`, `else`, `target`, `sleep`): they are ordinary names
    "assign-name-import-prefix": {"s": ["imported = {P}", "mon.write(imported)"]},
    "assign-name-from-prefix": {"s": ["fromage = {P}", "mon.write(fromage)"]},
    "assign-name-def-prefix": {"s": ["defer = {P}", "mon.write(defer)"]},
    "assign-name-if-prefix": {"s": ["iffy = {P}", "mon.write(iffy)"]},
    "assign-name-for-prefix": {"s": ["fortune = {P}", "mon.write(fortune)"]},
    "assign-name-while-prefix": {"s": ["whilex = {P}", "mon.write(whilex)"]},
    "assign-name-return-prefix": {"s": ["returned = {P}", "mon.write(returned)"]},
    "assign-name-pass-prefix": {"s": ["passing = {P}", "mon.write(passing)"]},
    "assign-name-print-prefix": {"s": ["printed = {P}", "mon.write(printed)"]},
    "assign-name-global-prefix": {"s": ["globalx = {P}", "mon.write(globalx)"]},
    "assign-name-try-prefix": {"s": ["tryout = {P}", "mon.write(tryout)"]},
    "assign-name-else-prefix": {"s": ["elsewhere = {P}", "mon.write(elsewhere)"]},
    "assign-name-target-prefix": {"s": ["targeted = {P}", "mon.write(targeted)"]},
    "assign-name-sleep-prefix": {"s": ["sleepy = {P}", "mon.write(sleepy)"]},
    "augassign-name-import-prefix": {"s": ["v += {P}"], "rename": ("v", "importance")},
    "call-helper-import-prefix": {"s": ["helper({P})"], "rename": ("helper", "import_sample")},
    "call-helper-print-prefix": {"s": ["helper({P})"], "rename": ("helper", "printout")},
    # a helper whose name ENDS in a word the line dispatch knows (`target`, `sleep`, `print`, `import`) with an argument that looks like
    # the directive's (digits, a word): still a call of the helper
    "call-helper-suffix-target": {"s": ["helper({P})"], "rename": ("helper", "set_target")},
    "call-helper-suffix-sleep": {"s": ["helper({P})"], "rename": ("helper", "deep_sleep")},
    "call-helper-suffix-print": {"s": ["helper({P})"], "rename": ("helper", "reprint")},
    "call-helper-suffix-import": {"s": ["helper({P})"], "rename": ("helper", "reimport")},
    # a one-line docstring / string statement followed on its line by blanks or a comment: the lines after it are code
    "after-docstring-trailing-comment": {"s": ['"""what this block does"""  # note', "mon.write({P})"], "line": 1},
    "after-docstring-trailing-blanks": {"s": ['"""what this block does"""   ', "mon.write({P})"], "line": 1},
    "after-sq-docstring-trailing-tab": {"s": ["\'\'\'what this block does\'\'\'\t# note", "mon.write({P})"], "line": 1},
    # a helper of the script that has the name of a host-side builtin is still the script's helper
    "call-helper-named-help": {"s": ["helper({P})"], "rename": ("helper", "help")},
    "call-helper-named-input": {"s": ["helper({P})"], "rename": ("helper", "input")},
    "call-helper-named-exit": {"s": ["helper({P})"], "rename": ("helper", "exit")},
    "call-helper-named-quit": {"s": ["helper({P})"], "rename": ("helper", "quit")},
    "call-helper-named-breakpoint": {"s": ["helper({P})"], "rename": ("helper", "breakpoint")},
    "call-helper-named-vars": {"s": ["helper({P})"], "rename": ("helper", "vars")},
    "call-helper-named-id": {"s": ["helper({P})"], "rename": ("helper", "id")},
    "call-helper-named-dir": {"s": ["helper({P})"], "rename": ("helper", "dir")},
    "list-append": {"s": ["xs.append({P})"]},
    "list-remove": {"s": ["xs.remove({P})"]},
    "ternary-assign": {"s": ["v = {P} if v else 0"]},
    "bare-name": {"s": ["vq{P}"]},
    "expr-arith": {"s": ["v + {P}"]},
    "led-method": {"s": ["led.blink({P}, 2)"]},
    "led-on": {"s": ["led.on()"], "probe": "effect"},
    "sleep": {"s": ["sleep({P})"]},
    "serial-write": {"s": ["mon.write({P})"]},
    "serial-write-str": {"s": ["mon.write(\"s{P}\")"]},
    "fstring-write": {"s": ["mon.write(f\"v={v} {P}\")"]},
    "func-call": {"s": ["helper({P})"]},
    "builtin-call": {"s": ["abs(v - {P})"]},
    "if-stmt": {"s": ["if v == {P}:", "    mon.write(1)"]},
    "if-else": {"s": ["if v == {P}:", "    mon.write(1)", "else:", "    mon.write(2)"]},
    "if-elif": {"s": ["if v == 1:", "    mon.write(1)", "elif v == {P}:", "    mon.write(2)"], "line": 2},
    "while-stmt": {"s": ["while v < {P}:", "    v += 1"]},
    "for-range": {"s": ["for k{P} in range(3):", "    mon.write(1)"]},
    "try-except": {"s": ["try:", "    mon.write(1)", "except Exception as e{P}:", "    mon.write(2)"], "line": 2},
    "serial-write-hash-dq": {"s": ["mon.write(\"5\\\" bolt #{P}\")"]},
    "serial-write-hash-sq": {"s": ["mon.write('it\\'s #{P}')"]},
    "if-hash-literal": {"s": ["if \"\\\"#\" != \"q{P}\":", "    mon.write(1)"]},
    "if-first-assign-and-for": {"s": ["if v == 0:", "    lvq = 2", "    for k{P} in range(2):", "        mon.write(3)"], "line": 2},
    "else-first-assign-and-while": {"s": ["if v == 1:", "    nwq = 1", "else:", "    while v < {P}:", "        v += 1"], "line": 3},
    "break": {"s": ["break"], "probe": "effect"},
    "continue": {"s": ["continue"], "probe": "effect"},
    "return-value": {"s": ["return {P}"]},
    "return-paren-tight": {"s": ["return({P})"]},
    "return-minus-tight": {"s": ["return-{P}"]},
    "return-tab": {"s": ["return\t{P}"]},
    "if-paren-tight": {"s": ["if(v == {P}):", "    mon.write(1)"]},
    # arms whose suite does nothing: the header is still a statement of the program (it decides which later arm runs)
    "elif-pass-else": {"s": ["if v == 1:", "    mon.write(1)", "elif v == {P}:", "    pass", "else:", "    mon.write(2)"], "line": 2},
    "elif-print-elif": {"s": ["if v == 1:", "    mon.write(1)", "elif v == {P}:", "    print(\"host only\")", "elif v == 3:", "    mon.write(3)"], "line": 2},
    "if-pass-else": {"s": ["if v == {P}:", "    pass", "else:", "    mon.write(2)"]},
    "elif-paren-tight": {"s": ["if v == 1:", "    mon.write(1)", "elif(v == {P}):", "    mon.write(2)"], "line": 2},
    "while-paren-tight": {"s": ["while(v < {P}):", "    v += 1"]},
    "return-bare": {"s": ["return"], "probe": "effect"},
    # the fixed ignorable set
    "import-reduino": {"s": ["from Reduino.Actuators import Buzzer"]},
    "import-reduino-multi": {"s": ["from Reduino.Actuators import Led, Buzzer"]},
    "import-module": {"s": ["import math"]},
    "from-import-other": {"s": ["from time import sleep as nap{P}"]},
    "target-call": {"s": ["target(\"COM3\")"]},
    "pass": {"s": ["pass"]},
    "global": {"s": ["global gq{P}"]},
    "comment-line": {"s": ["# note {P}"]},
    "docstring": {"s": ["\"\"\"doc {P}\"\"\""]},
    "docstring-single": {"s": ["'doc {P}'"]},
    "docstring-multiline": {"s": ["\"\"\"Summary {P}.", "", "More prose here.", "\"\"\""]},
    "print": {"s": ["print({P})"]},
    "print-str": {"s": ["print(\"hello {P}\")"]},
    "ellipsis": {"s": ["..."]},
    "bare-number": {"s": ["{P}"]},
    # everything else Python's grammar allows as a line of a script
    "for-range-2": {"s": ["for k in range(1, {P}):", "    mon.write(1)"]},
    "for-in-list": {"s": ["for it{P} in xs:", "    mon.write(1)"]},
    "del-name": {"s": ["del zq{P}"]},
    "del-subscript": {"s": ["del xs[{P}]"]},
    "assert": {"s": ["assert v == {P}"]},
    "raise": {"s": ["raise ValueError(\"e{P}\")"]},
    "raise-bare": {"s": ["raise"], "probe": "effect"},
    "with": {"s": ["with open(\"f{P}\") as fh:", "    mon.write(1)"]},
    "chained-assign": {"s": ["ca{P} = cb{P} = 1"]},
    "annotated-assign": {"s": ["an{P}: int = 4"]},
    "annotated-decl": {"s": ["ad{P}: int"]},
    "subscript-assign": {"s": ["xs[0] = {P}"]},
    "attribute-assign": {"s": ["led.level = {P}"]},
    "aug-subscript": {"s": ["xs[0] += {P}"]},
    "augassign-matmul": {"s": ["v @= {P}"]},
    "starred-assign": {"s": ["first{P}, *rest = xs"]},
    "tuple-from-call": {"s": ["pa{P}, pb{P} = pair()"]},
    "walrus": {"s": ["(wq{P} := 5)"]},
    "lambda-call": {"s": ["(lambda: {P})()"]},
    "lambda-assign": {"s": ["fn{P} = lambda a: a + 1"]},
    "unknown-device-method": {"s": ["led.frobnicate({P})"]},
    "known-method-undeclared": {"s": ["foo{P}.on()"]},
    "unknown-function-call": {"s": ["mystery{P}(1)"]},
    "for-else": {"s": ["for k in range(2):", "    mon.write(1)", "else:", "    mon.write({P})"], "line": 2, "probe": "suite"},
    "while-else": {"s": ["while v < 2:", "    v += 1", "else:", "    mon.write({P})"], "line": 2, "probe": "suite"},
    "try-finally": {"s": ["try:", "    mon.write(1)", "finally:", "    mon.write({P})"], "line": 2, "probe": "suite"},
    "try-except-else": {"s": ["try:", "    mon.write(1)", "except Exception:", "    mon.write(2)", "else:", "    mon.write({P})"],
                        "line": 4, "probe": "suite"},
    "match": {"s": ["match v:", "    case {P}:", "        mon.write(1)"], "line": 1},
    "async-def": {"s": ["async def co{P}():", "    mon.write(1)"]},
    "await": {"s": ["await thing{P}()"]},
    "yield": {"s": ["yield {P}"]},
    "nonlocal": {"s": ["nonlocal nq{P}"]},
    "class-def": {"s": ["class C{P}:", "    pass"]},
    "nested-def": {"s": ["def inner{P}():", "    mon.write(1)"]},
    "decorator": {"s": ["@deco{P}", "def decorated():", "    mon.write(1)"]},
    "if-inline-suite": {"s": ["if v == {P}: mon.write(1)"]},
    "while-inline-suite": {"s": ["while v < {P}: v += 1"]},
    "for-inline-suite": {"s": ["for k{P} in range(3): mon.write(1)"]},
    "semicolon-pair": {"s": ["mon.write(1); mon.write({P})"]},
}

ACC_PRE = ["from Reduino.Actuators import Led", "from Reduino.Communication import SerialMonitor", "from Reduino.Utils import sleep",
           "led = Led(13)", "mon = SerialMonitor(9600)", "v = 0", "xs = [1, 2, 3]",
           "def helper(a):", "    mon.write(a)"]
# context -> (lines before, indentation of the statement, lines after); 9001/9002 bracket the statement in its block
CONTEXTS: dict[str, tuple[list[str], int, list[str]]] = {
    "top": ([], 0, []),
    "if": (["if v == 0:"], 1, []),
    "elif": (["if v == 1:", "    mon.write(3)", "elif v == 0:"], 1, []),
    "else": (["if v == 1:", "    mon.write(3)", "else:"], 1, []),
    "for": (["for i in range(3):"], 1, []),
    "while": (["while v < 3:"], 1, ["    v = v + 1"]),
    "def": (["def work(a):"], 1, ["work(1)"]),
    "main": (["while True:"], 1, ["    sleep(5)"]),
    "nested2": (["while True:", "    for i in range(2):", "        if v == 0:"], 3, ["    sleep(5)"]),
}


def account_script(kind: str, ctx: str, twin: bool = False) -> tuple[str, str]:
    """-> (script text, the stripped line that stands for the statement in the skipped-lines list).
    twin=True: the same script with that line replaced by `pass` (for the differential probe)."""
    before, depth, after = CONTEXTS[ctx]
    pad = "    " * depth
    body = [s.replace("{P}", P) for s in CATALOGUE[kind]["s"]]
    k = CATALOGUE[kind].get("line", 0)
    key = body[k].strip()
    if twin:
        body[k] = body[k][:len(body[k]) - len(body[k].lstrip())] + "pass"
    lines = ACC_PRE + before + [pad + "mon.write(9001)"] + [pad + s if s else s for s in body] + [pad + "mon.write(9002)"] + after
    if "rename" in CATALOGUE[kind]:          # the same script with one of its names spelled differently, everywhere
        old, new = CATALOGUE[kind]["rename"]
        lines = [re.sub(rf"\b{old}\b", new, ln) for ln in lines]
        key = re.sub(rf"\b{old}\b", new, key)
    return "\n".join(lines) + "\n", key


def _ir_types(prog) -> set[str]:
    names: set[str] = set()

    def walk(x) -> None:
        if dataclasses.is_dataclass(x) and not isinstance(x, type):
            names.add(type(x).__name__)
            for f in dataclasses.fields(x):
                walk(getattr(x, f.name))
        elif isinstance(x, (list, tuple)):
            for y in x:
                walk(y)

    walk(prog)
    return names


def _marker_paths(prog) -> dict[int, list]:
    """Paths (by node type and position, identity of blocks = python id) of the SerialWrite markers 9001/9002/payload."""
    out: dict[int, list] = {}

    def walk(nodes, path) -> None:
        for n in nodes or []:
            t = type(n).__name__
            if t == "SerialWrite":
                for m in re.findall(r"\d+", str(n.value)):
                    out.setdefault(int(m), []).append(tuple(path))
            if dataclasses.is_dataclass(n):
                for f in dataclasses.fields(n):
                    v = getattr(n, f.name)
                    if isinstance(v, list) and f.name not in ("params",):
                        sub = []
                        for k, y in enumerate(v):
                            if dataclasses.is_dataclass(y) and hasattr(y, "body") and type(y).__name__ in ("ConditionalBranch", "CatchClause"):
                                walk(y.body, path + [(id(n), f.name, k)])
                            else:
                                sub.append(y)
                        if sub:
                            walk(sub, path + [(id(n), f.name)])

    walk(prog.setup_body, [("setup",)])
    walk(prog.loop_body, [("loop",)])
    for fn in prog.functions:
        walk(fn.body, [("fn", fn.name)])
    return out


def account(kind: str, ctx: str) -> dict:
    """Run one catalogue case through CPython's compiler and the real transpiler; classify the outcome."""
    src, key = account_script(kind, ctx)
    entry = CATALOGUE[kind]
    try:
        compile(src, "<c07>", "exec", dont_inherit=True)
        pyok = True
    except SyntaxError:
        pyok = False
    prog, cpp, exc, skipped = transpile(src)
    rec = {"kind": kind, "ctx": ctx, "pyok": pyok, "exc": exc, "hook": skipped is not None, "src": src, "line": key}
    if exc:
        rec["outcome"], rec["how"] = "rejected", exc
        return rec
    reported = [r for (_s, _d, ln, r) in (skipped or []) if _strip_comment(ln) == _strip_comment(key)]
    probe = entry.get("probe")
    if probe is None:
        visible = P in cpp                 # the statement must reach the emitted text (the IR alone is not the program)
    elif probe == "suite":
        mp = _marker_paths(prog)
        pay, ref = mp.get(int(P), []), mp.get(9001, [])
        visible = bool(pay) and bool(ref) and not any(p in ref for p in pay)      # not merely a sibling of the context markers
    else:   # "effect": the text has no payload -> differential: replacing the statement by `pass` must change the output
        _p2, cpp2, exc2, _sk2 = transpile(account_script(kind, ctx, twin=True)[0])
        visible = bool(exc2) or cpp2 != cpp
    rec["blackbox"] = "translated" if visible else "skipped"      # what the outcome is without the hook list
    if reported:
        rec["outcome"], rec["how"] = "skipped", "hook:" + reported[0]
    elif visible:
        rec["outcome"], rec["how"] = "translated", "payload visible in IR/C++" if probe is None else f"observable effect ({probe} probe)"
    else:
        rec["outcome"], rec["how"] = "skipped", "black-box: no exception, payload absent from IR and C++"
    return rec


def _strip_comment(line: str) -> str:
    return line.strip()
