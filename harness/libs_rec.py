"""C14 recorder: render a TLC-generated device multiset as a Reduino script, run the REAL parse / emit /
Reduino._collect_required_libraries of the working tree, and project the results to the abstract observations
the specifications `Libs` and `Sketch` talk about:

  * lib_deps           -> the list `_collect_required_libraries(parse(src))` hands to write_project (verbatim);
  * incl               -> the `#include` lines of the emitted text, in order (file names);
  * inst               -> the global object definitions whose type is a library class (Servo, LiquidCrystal,
                          LiquidCrystal_I2C), in order, as [class, name];
  * items              -> the top-level item sequence of the emitted sketch (Include h, Global name:type,
                          FnDef, Setup, Loop, Type) produced by a light scanner (brace/paren depth, comments and
                          string literals skipped) - no C++ parsing.

The projection is plain Python; every comparison is done by TLC (LibsTrace / SketchTrace)."""
from __future__ import annotations

from pathlib import Path

import concurrent.futures as cf
import re

from . import fw
from .common import NCPU

LIB_CLASSES = ("Servo", "LiquidCrystal", "LiquidCrystal_I2C")
KINDS = ("servo", "lcdp", "lcdi", "led", "rgb", "motor", "buzzer", "button", "pot", "ultra", "serial")
SHAPES = ("loop", "fn", "flat")

HEADER = [
    "from Reduino import target",
    "from Reduino.Actuators import Led, RGBLed, Servo, DCMotor, Buzzer",
    "from Reduino.Sensors import Button, Potentiometer, Ultrasonic",
    "from Reduino.Displays import LCD",
    "from Reduino.Communication import SerialMonitor",
    "from Reduino.Utils import sleep",
    "",
    'target("COM3", upload=False)',
    "ADDR = 0x3F",
]

# ---------------------------------------------------------------------------------------------------------
# rendering: one declaration line and one use line per device; pins are distinct per instance
# ---------------------------------------------------------------------------------------------------------
_PAR_PINS = [(22, 23, 24, 25, 26, 27), (28, 29, 30, 31, 32, 33), (34, 35, 36, 37, 38, 39)]
_I2C_ADDR = ["0x27", "0x3F", "0x26"]
# second spelling set (alt=1): falsy / zero-valued literals and an address held in a variable
_I2C_ADDR_ALT = ["0", "ADDR", "0x00"]
NEST_SHAPES = ("nest-if", "nest-for", "nest-while", "nest-try")


def _decl(kind: str, i: int, alt: int = 0) -> tuple[str, str, str]:
    """-> (variable name, declaration statement, use statement) of the i-th device of a kind.
    Library devices have two documented constructor spellings; instance i uses spelling (i + alt) % 2."""
    form = (i + alt) % 2
    if kind == "servo":
        n = f"sv{i}"
        ctor = f"Servo({9 + i})" if form == 0 else f"Servo(pin={9 + i}, min_angle=0, max_angle=90)"
        return n, f"{n} = {ctor}", f"{n}.write({30 + 10 * i})"
    if kind == "lcdp":
        n = f"lp{i}"
        rs, en, d4, d5, d6, d7 = _PAR_PINS[i]
        ctor = (f"LCD(rs={rs}, en={en}, d4={d4}, d5={d5}, d6={d6}, d7={d7})" if form == 0
                else f"LCD({rs}, {en}, {d4}, {d5}, {d6}, {d7}, cols=20, rows=4, rw={42 + i}, backlight_pin={45 + i})")
        return n, f"{n} = {ctor}", f'{n}.write(0, 0, "p{i}")'
    if kind == "lcdi":
        n = f"li{i}"
        addr = (_I2C_ADDR_ALT if alt else _I2C_ADDR)[i]
        ctor = f"LCD(i2c_addr={addr}, cols=16, rows=2)" if form == 0 else f"LCD(i2c_addr={addr})"
        return n, f"{n} = {ctor}", f'{n}.write(0, 1, "i{i}")'
    if kind == "led":
        return "led0", "led0 = Led(13)", "led0.toggle()"
    if kind == "rgb":
        return "rgb0", "rgb0 = RGBLed(3, 5, 6)", "rgb0.set_color(10, 20, 30)"
    if kind == "motor":
        return "mot0", "mot0 = DCMotor(4, 7, 44)", "mot0.set_speed(0.5)"
    if kind == "buzzer":
        return "bz0", "bz0 = Buzzer(8)", "bz0.play_tone(440, 10)"
    if kind == "button":
        return "btn0", "btn0 = Button(2)", "pressed0 = btn0.is_pressed()"
    if kind == "pot":
        return "pot0", 'pot0 = Potentiometer("A0")', "level0 = pot0.read()"
    if kind == "ultra":
        return "us0", "us0 = Ultrasonic(trig=40, echo=41)", "dist0 = us0.measure_distance()"
    if kind == "serial":
        return "mon0", "mon0 = SerialMonitor(9600)", 'mon0.write("tick")'
    raise ValueError(kind)


def layout(stim: dict) -> dict:
    """stim = {"decls": [{"kind","place"}...], "shape": ..., "alt": 0|1}  ->  {"src", "decls" (script order)}.
    loop : declarations before `while True:` (place=pre) or at the top of its body (place=loop); every device is
           used once in the loop body after the declarations.
    fn   : as loop, but the uses sit in a helper function `use_all()` defined before the loop and called from it.
    flat : no main loop at all (README style); declarations then uses, straight line (only place=pre).
    nest-if/for/while/try : place=nested devices are declared and used inside that compound statement, which
           stands before the main loop; the rest as in `loop`.
    alt=1: the top-level declarations appear in reverse order and the constructor spellings are swapped.
    alt=2: every device before the loop is bound to the same identifier (shapes loop / flat)."""
    shape, alt = stim["shape"], int(stim.get("alt", 0))
    seen: dict = {}
    pre, inloop, nested = [], [], []          # entries: (decl dict, declaration, use)
    for d in stim["decls"]:
        k = d["kind"]
        i = seen.get(k, 0)
        seen[k] = i + 1
        _n, decl, use = _decl(k, i, alt)
        {"pre": pre, "loop": inloop, "nested": nested}[d["place"]].append((d, decl, use))
    if alt == 2:
        # ONE identifier for every device that stands before the loop: each declaration re-binds `unit`, the device is used right
        # after it is bound; the loop works with the last one.  Every device was declared: every one needs its library.
        def ren(x, n):
            return re.sub(rf"\b{n}\b", "unit", x)
        names = [_decl(d["kind"], sum(1 for q in stim["decls"][:j] if q["kind"] == d["kind"]), 0)[0] for j, d in enumerate(stim["decls"])]
        byd = {id(d): n for d, n in zip(stim["decls"], names)}
        # (the identifier is shared by the first Servo and the first LCD only: two devices of ONE class under one name is a
        #  different matter - the pinned tree keys its per-device state by name and class)
        share, got = set(), set()
        for d, _dc, _us in pre:
            cls = "servo" if d["kind"] == "servo" else ("lcd" if d["kind"] in ("lcdp", "lcdi") else None)
            if cls and cls not in got:
                got.add(cls)
                share.add(id(d))
        shared = [x for x in pre if id(x[0]) in share]
        last_shared = id(shared[-1][0]) if shared else None
        pre = [((d, ren(dc, byd[id(d)]) + "\n" + ren(us, byd[id(d)]), ren(us, byd[id(d)]) if id(d) == last_shared else None) if id(d) in share else (d, dc, us))
               for d, dc, us in pre]
        pre_uses_only_last = False
    else:
        pre_uses_only_last = False
    if alt == 1:
        pre.reverse()
    if nested and shape not in NEST_SHAPES:
        raise ValueError("nested placement needs a nest-* shape")
    if shape == "flat" and inloop:
        raise ValueError("flat scripts have no loop placement")
    lines = list(HEADER) + [ln for x in pre for ln in x[1].split("\n")]
    order = [x[0] for x in pre]
    uses = [x[2] for x in pre if x[2] is not None]
    if nested:
        body = [s for x in nested for s in (x[1], x[2])]
        if shape == "nest-if":
            lines += ["flag = 1", "if flag == 1:"] + [f"    {s}" for s in body]
        elif shape == "nest-for":
            lines += ["for i in range(2):"] + [f"    {s}" for s in body]
        elif shape == "nest-while":
            lines += ["count = 0", "while count < 2:"] + [f"    {s}" for s in body] + ["    count = count + 1"]
        else:
            lines += ["try:"] + [f"    {s}" for s in body] + ["except Exception:", "    pass"]
        order += [x[0] for x in nested]
    order += [x[0] for x in inloop]
    uses += [x[2] for x in inloop]
    if shape == "flat":
        lines += uses + ["sleep(5)"]
        return {"src": "\n".join(lines) + "\n", "decls": order}
    if shape == "fn":
        lines += ["", "def use_all():"] + [f"    {u}" for u in uses] + ["    sleep(1)", ""]
    lines.append("while True:")
    lines += [f"    {x[1]}" for x in inloop]
    if shape == "fn":
        lines.append("    use_all()")
    else:
        lines += [f"    {u}" for u in uses]
    lines.append("    sleep(5)")
    return {"src": "\n".join(lines) + "\n", "decls": order}


def render(stim: dict) -> str:
    return layout(stim)["src"]


# ---------------------------------------------------------------------------------------------------------
# light scanner of the emitted text
# ---------------------------------------------------------------------------------------------------------
_QUAL = {"static", "const", "constexpr", "volatile", "inline", "extern", "register", "mutable"}
_RE_INCLUDE = re.compile(r'^\s*#\s*include\s*[<"]([^>"]+)[>"]')
_RE_IDENT = re.compile(r"[A-Za-z_]\w*")


def _strip_template(head: str) -> str:
    """Drop a leading `template < ... >` prefix (angle brackets may nest)."""
    h = head.lstrip()
    while h.startswith("template"):
        j = h.find("<")
        if j < 0:
            break
        depth, k = 0, j
        while k < len(h):
            if h[k] == "<":
                depth += 1
            elif h[k] == ">":
                depth -= 1
                if depth == 0:
                    break
            k += 1
        h = h[k + 1:].lstrip()
    return h


def _classify_header(head: str) -> dict | None:
    """Text before a top-level `{` -> type / function definition item."""
    h = " ".join(_strip_template(head).split())
    if not h:
        return None
    m = re.match(r"^(?:typedef\s+)?(enum(?:\s+class)?|struct|class|union|namespace)\s+(\w+)", h)
    if m and "(" not in h:
        return {"k": "type", "n": m.group(2), "t": m.group(1).split()[0]}
    p = h.find("(")
    if p < 0:
        return {"k": "other", "n": h[:60], "t": ""}
    ids = _RE_IDENT.findall(h[:p])
    if not ids:
        return {"k": "other", "n": h[:60], "t": ""}
    name = ids[-1]
    # signature = name + parameter types with parameter names kept (light): whitespace-normalised parameter text
    depth, q = 0, p
    while q < len(h):
        if h[q] == "(":
            depth += 1
        elif h[q] == ")":
            depth -= 1
            if depth == 0:
                break
        q += 1
    sig = name + re.sub(r"\s+", " ", h[p:q + 1])
    kind = "setup" if name == "setup" else "loop" if name == "loop" else "fn"
    return {"k": kind, "n": name, "t": sig}


def _classify_decl(stmt: str) -> dict | None:
    """A top-level statement ending in `;` -> Global name:type (object / variable definition)."""
    s = " ".join(_strip_template(stmt).split())
    if not s or s.startswith(("using ", "typedef ", "extern ")):
        return None if not s else {"k": "other", "n": s[:60], "t": ""}
    cut = len(s)
    depth = 0
    for i, ch in enumerate(s):           # left-hand side ends at the first `=`, `(` or `{` outside <...>
        if ch == "<":
            depth += 1
        elif ch == ">":
            depth = max(0, depth - 1)
        elif depth == 0 and ch in "=({":
            cut = i
            break
    lhs = re.sub(r"\[[^\]]*\]", "", s[:cut])
    ids = [t for t in _RE_IDENT.findall(lhs)]
    if len(ids) < 2:
        return {"k": "other", "n": s[:60], "t": ""}
    name = ids[-1]
    tys = [t for t in ids[:-1] if t not in _QUAL]
    ty = " ".join(tys) if tys else "int"
    if ty == "void":                      # `void f();` is a prototype, not an object
        return {"k": "proto", "n": name, "t": s[:80]}
    if cut < len(s) and s[cut] == "(":
        # `float dist();` / `int f(int x, float y);` declare functions: empty parentheses, or every argument is a
        # `type name` pair (an object definition passes values: `LiquidCrystal lcd(22, 23, ...)`)
        inner = s[cut + 1:s.rfind(")")] if ")" in s[cut:] else ""
        pieces = [x.strip() for x in inner.split(",")] if inner.strip() else []
        if all(re.match(r"^(?:const\s+)?[A-Za-z_][\w:<>\s\*&]*[\s\*&]+[A-Za-z_]\w*$", x) for x in pieces):
            return {"k": "proto", "n": name, "t": s[:80]}
    return {"k": "global", "n": name, "t": ty}


def scan_items(cpp: str) -> list[dict]:
    """Top-level items of the sketch, in order. Comments, string and character literals are skipped; bodies
    ({...} after a header) are skipped by brace matching; brace initialisers (`= {...};`) stay inside the
    declaration."""
    items: list[dict] = []
    i, n = 0, len(cpp)
    head = []              # characters of the current top-level statement / header
    paren = 0
    at_line_start = True
    while i < n:
        ch = cpp[i]
        if at_line_start:
            j = i
            while j < n and cpp[j] in " \t":
                j += 1
            if j < n and cpp[j] == "#":                      # preprocessor line (with continuations)
                k = j
                while True:
                    e = cpp.find("\n", k)
                    e = n if e < 0 else e
                    if e > 0 and cpp[e - 1] == "\\" and e < n:
                        k = e + 1
                        continue
                    break
                line = cpp[j:e]
                m = _RE_INCLUDE.match(line)
                if m:
                    items.append({"k": "include", "n": m.group(1), "t": ""})
                i = e + 1
                at_line_start = True
                continue
        at_line_start = ch == "\n"
        if ch == "/" and i + 1 < n and cpp[i + 1] == "/":
            e = cpp.find("\n", i)
            i = n if e < 0 else e
            continue
        if ch == "/" and i + 1 < n and cpp[i + 1] == "*":
            e = cpp.find("*/", i + 2)
            i = n if e < 0 else e + 2
            continue
        if ch in "\"'":
            j = i + 1
            while j < n and cpp[j] != ch:
                j += 2 if cpp[j] == "\\" else 1
            head.append(cpp[i:j + 1])
            i = j + 1
            continue
        if ch == "(":
            paren += 1
        elif ch == ")":
            paren = max(0, paren - 1)
        if ch == ";" and paren == 0:
            it = _classify_decl("".join(head))
            if it:
                items.append(it)
            head = []
            i += 1
            continue
        if ch == "{" and paren == 0:
            text = "".join(head)
            initializer = "=" in re.sub(r"<[^<>]*>", "", text.split("(")[0])
            depth, j = 0, i
            while j < n:                                      # skip to the matching brace
                c = cpp[j]
                if c == "/" and j + 1 < n and cpp[j + 1] == "/":
                    e = cpp.find("\n", j)
                    j = n if e < 0 else e
                    continue
                if c == "/" and j + 1 < n and cpp[j + 1] == "*":
                    e = cpp.find("*/", j + 2)
                    j = n if e < 0 else e + 2
                    continue
                if c in "\"'":
                    k = j + 1
                    while k < n and cpp[k] != c:
                        k += 2 if cpp[k] == "\\" else 1
                    j = k + 1
                    continue
                if c == "{":
                    depth += 1
                elif c == "}":
                    depth -= 1
                    if depth == 0:
                        break
                j += 1
            if initializer:
                head.append("{}")
                i = j + 1
                continue
            it = _classify_header(text)
            if it:
                items.append(it)
            head = []
            i = j + 1
            # a type definition is followed by `;` (possibly after declarators): swallow it
            k = i
            while k < n and cpp[k] in " \t\r\n":
                k += 1
            if it and it["k"] == "type" and k < n and cpp[k] == ";":
                i = k + 1
            at_line_start = False
            continue
        head.append(ch)
        i += 1
    return items


def observe_text(cpp: str) -> dict:
    items = scan_items(cpp)
    incl = [it["n"] for it in items if it["k"] == "include"]
    inst = [[it["t"], it["n"]] for it in items if it["k"] == "global" and it["t"] in LIB_CLASSES]
    return {"incl": incl, "inst": inst, "items": items}


# ---------------------------------------------------------------------------------------------------------
# running the real code
# ---------------------------------------------------------------------------------------------------------
def observe(src: str) -> dict:
    """parse + _collect_required_libraries + emit of the working tree on one script (same order as target())."""
    import signal
    from Reduino import _collect_required_libraries
    from Reduino.transpile.emitter import emit
    from Reduino.transpile.parser import parse
    old = signal.signal(signal.SIGALRM, fw._alarm)
    signal.alarm(20)
    try:
        prog = parse(src)
        libs = _collect_required_libraries(prog)
        cpp = emit(prog)
    except fw.Timeout:
        return {"status": "timeout"}
    except (ValueError, SyntaxError) as e:
        return {"status": "reject", "cls": type(e).__name__, "msg": str(e)[:300]}
    except Exception as e:
        return {"status": "crash", "cls": type(e).__name__, "msg": str(e)[:300]}
    finally:
        signal.alarm(0)
        signal.signal(signal.SIGALRM, old)
    out = {"status": "accept", "libs": [str(x) for x in libs], "collected": [str(x) for x in libs]}
    # the request as PlatformIO sees it: the lib_deps lines that write_project puts into platformio.ini for that list
    try:
        import shutil
        import tempfile
        from Reduino.toolchain import pio
        from .common import scratch
        from .pio_rec import read_ini
        d = tempfile.mkdtemp(prefix="c14proj-", dir=str(scratch()))
        try:
            # the project directory is not new: an earlier version of the script (same port, board and platform) needed other
            # libraries - what the configuration requests afterwards is what THIS version needs
            earlier = ["Servo", "LiquidCrystal_I2C"] if sorted(map(str, libs)) != ["LiquidCrystal_I2C", "Servo"] else ["LiquidCrystal"]
            pio.write_project(Path(d) / "p", "// earlier version\n", "COM3", lib_deps=earlier)
            pio.write_project(Path(d) / "p", cpp, "COM3", lib_deps=list(libs))
            ini = read_ini(Path(d) / "p" / "platformio.ini")
            out["libs"] = [str(x) for x in ini.get("libs", [])]
            # what a script needs does not depend on the board it is built for: the same request for boards of the other platform
            out["variants"] = []
            for plat, board in (("atmelmegaavr", "nano_every"), ("atmelmegaavr", "ATmega4809"), ("atmelavr", "leonardo")):
                pio.write_project(Path(d) / f"p-{board}", cpp, "COM3", platform=plat, board=board, lib_deps=list(libs))
                out["variants"].append([str(x) for x in read_ini(Path(d) / f"p-{board}" / "platformio.ini").get("libs", [])])
            # ... and the request as the user gets it: the real target() run end to end on this script as __main__ (generate-only
            # and with the upload steps answered by stubs), the project directory it wrote read back
            for up in (False, True):
                got = _target_ini(src, Path(d), up)
                if got is not None:
                    out["variants"].append(got)
        finally:
            shutil.rmtree(d, ignore_errors=True)
    except Exception as e:  # noqa: BLE001  (write_project refusing a library list is C13's matter; the collected list stays the observation)
        out["ini_error"] = f"{type(e).__name__}: {e}"[:200]
    out.update(observe_text(cpp))
    return out


def _target_ini(src: str, d: Path, upload: bool):
    """lib_deps of the platformio.ini that Reduino.target("COM3", upload=...) writes for `src` (None when target() refuses - whether it
    may refuse is C12's matter).  Nothing is executed: ensure_pio / compile_upload are answered by stubs, the project goes to d."""
    import contextlib
    import io
    import sys
    import Reduino
    from .pio_rec import read_ini
    tag = "up" if upload else "gen"
    script, proj = d / f"sketch-{tag}.py", d / f"e2e-{tag}"
    script.write_text(src, encoding="utf-8")
    proj.mkdir()
    main = sys.modules["__main__"]
    had, old_file = hasattr(main, "__file__"), getattr(main, "__file__", None)
    saved = (Reduino.tempfile.mkdtemp, Reduino.ensure_pio, Reduino.compile_upload)
    try:
        main.__file__ = str(script)
        Reduino.tempfile.mkdtemp = lambda *a, **kw: str(proj)
        Reduino.ensure_pio = lambda *a, **kw: None
        Reduino.compile_upload = lambda *a, **kw: None
        with contextlib.redirect_stderr(io.StringIO()), contextlib.redirect_stdout(io.StringIO()):
            Reduino.target("COM3", upload=upload)
        return [str(x) for x in read_ini(proj / "platformio.ini").get("libs", [])]
    except Exception:  # noqa: BLE001
        return None
    finally:
        Reduino.tempfile.mkdtemp, Reduino.ensure_pio, Reduino.compile_upload = saved
        if had:
            main.__file__ = old_file
        else:
            del main.__file__


def _observe_stim(stim: dict) -> dict:
    lay = layout(stim)
    o = observe(lay["src"])
    o["src"] = lay["src"]
    o["decls"] = lay["decls"]
    return o


def observe_many(stims: list[dict], workers: int = 8) -> list[dict]:
    if len(stims) < 64 or workers <= 1:
        return [_observe_stim(s) for s in stims]
    with cf.ProcessPoolExecutor(max_workers=min(workers, NCPU)) as ex:
        return list(ex.map(_observe_stim, stims, chunksize=32))


# ---------------------------------------------------------------------------------------------------------
# traces for TLC
# ---------------------------------------------------------------------------------------------------------
def libs_trace(tid: str, decls: list[dict], obs: dict) -> dict:
    """decls = the declarations in SCRIPT order (layout()["decls"])."""
    ev = [{"act": "declare", "kind": d["kind"], "place": d["place"], "libs": [], "incl": [], "inst": []} for d in decls]
    ev.append({"act": "finish", "kind": "", "place": "", "libs": obs["libs"], "incl": obs["incl"],
               "inst": [c for c, _n in obs["inst"]]})
    return {"id": tid, "ev": ev}


def sketch_trace(tid: str, obs: dict) -> dict:
    return {"id": tid, "items": [{"k": it["k"], "n": it["n"], "t": it["t"]} for it in obs["items"]]}


# ---------------------------------------------------------------------------------------------------------
# compile leg (thorough): classification of g++ diagnostics
# ---------------------------------------------------------------------------------------------------------
_LIBWORD = r"(?:Servo|LiquidCrystal_I2C|LiquidCrystal|Wire)"
_Q = "['\u2018\u2019`]"     # g++ quotes identifiers with ASCII or typographic quotes depending on the locale
_C14_DIAG = [
    re.compile(rf"fatal error: {_LIBWORD}\.h: No such file"),
    re.compile(rf"{_Q}{_LIBWORD}{_Q} does not name a type"),
    re.compile(rf"{_Q}{_LIBWORD}{_Q} was not declared in this scope"),
    re.compile(rf"redefinition of {_Q}class {_LIBWORD}{_Q}"),
    re.compile(rf"redefinition of {_Q}(?:Servo|LiquidCrystal_I2C|LiquidCrystal) (?:__servo_|__redu_lcd_)\w+{_Q}"),
    re.compile(rf"{_Q}(?:__servo_(?!min_|max_|angle_|pulse_)\w+|__redu_lcd_(?!cols_|rows_|brightness_|backlight_)\w+){_Q} was not declared in this scope"),
]


def classify_compile_failure(stderr: str) -> tuple[str, str]:
    """('c14', line) when some error is about a missing/duplicate library header, class or library object;
    ('c06', first error line) otherwise (other C++ errors only: belongs to the compilability property)."""
    first = ""
    for line in stderr.splitlines():
        if "error" not in line:
            continue
        first = first or line
        if any(r.search(line) for r in _C14_DIAG):
            return "c14", line
    return "c06", first
