"""Observers and recorders for Reduino.toolchain.pio (C13) - also the file-system observer used by target_rec (C12).

* `FsWatch`: a process-wide audit hook (installed once, active only while a watch is open) that reports every
  file-system mutation attempted by the code under test at the lowest level Python offers (open for writing,
  mkdir, remove, rename, rmdir, chmod, symlink, link, truncate, utime, rmtree, copy, move) together with reads of
  files the caller is interested in - independent of *how* the code writes (Path.write_text, open(), os.open ...).
* `tree(dir)`: directory listing with content digests (before/after comparison).
* `read_ini(path)`: read a platformio.ini back with the standard parser, configparser.ConfigParser(interpolation=None).
* `registry()`, `validate_case()`, `project_case()`: exported registry and one recorded call of the real
  validate_platform_board / write_project, in the vocabulary of tla/RegistryTrace.tla / tla/ProjectTrace.tla.
"""
from __future__ import annotations

import configparser
import contextlib
import hashlib
import os
import shutil
import sys
import threading
from pathlib import Path

from . import common  # noqa: F401  (puts /repo/src of the working tree on sys.path)

_WRITE_FLAGS = os.O_WRONLY | os.O_RDWR | os.O_CREAT | os.O_TRUNC | os.O_APPEND
_MUTATORS = {"os.mkdir", "os.remove", "os.rename", "os.rmdir", "os.chmod", "os.chown", "os.symlink", "os.link",
             "os.truncate", "os.utime", "shutil.rmtree", "shutil.copyfile", "shutil.copymode", "shutil.copystat",
             "shutil.copytree", "shutil.move", "shutil.make_archive", "shutil.unpack_archive", "os.mkfifo", "os.mknod",
             "os.setxattr", "os.removexattr", "tempfile.mkstemp", "tempfile.mkdtemp"}
_EXEC = {"subprocess.Popen", "os.system", "os.exec", "os.posix_spawn", "os.spawn", "os.fork", "os.forkpty", "os.startfile",
         "pty.spawn"}
_active: list = []          # stack of open FsWatch objects
_installed = [False]


def sha(data) -> str:
    if isinstance(data, str):
        data = data.encode("utf-8", "surrogatepass")
    return hashlib.sha256(data).hexdigest()[:16]


def _hook(name: str, args) -> None:
    if not _active:
        return
    w = _active[-1]
    if w.busy or w.thread != threading.get_ident():
        return          # audit hooks see every thread of the process: only the thread that runs the code under test counts
                        # (the harness's own TLC driver creates scratch directories from other threads)
    w.busy = True
    try:
        if name == "open":
            path, mode, flags = (list(args) + [None, None, None])[:3]
            if isinstance(path, int):
                return
            p = os.fspath(path) if path is not None else ""
            if isinstance(p, bytes):
                p = p.decode("utf-8", "replace")
            writing = bool((flags or 0) & _WRITE_FLAGS) or (isinstance(mode, str) and any(c in mode for c in "wax+"))
            w.on_open(os.path.abspath(p), writing)
        elif name in _MUTATORS:
            paths = [os.path.abspath(os.fspath(a).decode() if isinstance(os.fspath(a), bytes) else os.fspath(a))
                     for a in args if isinstance(a, (str, bytes, os.PathLike))]
            w.on_mutate(name, paths)
        elif name in _EXEC:
            w.on_exec(name, [str(a)[:200] for a in args])
    except Exception as e:  # an observer must never change the behaviour of the code under test
        w.errors.append(f"{name}: {e!r}")
    finally:
        w.busy = False


class FsWatch:
    """Context manager; subclasses / callbacks receive the low-level events while it is open."""

    def __init__(self, on_open=None, on_mutate=None, on_exec=None):
        self.busy = False
        self.thread = threading.get_ident()
        self.errors: list[str] = []
        self._on_open, self._on_mutate, self._on_exec = on_open, on_mutate, on_exec

    def on_open(self, path: str, writing: bool) -> None:
        if self._on_open:
            self._on_open(path, writing)

    def on_mutate(self, what: str, paths: list[str]) -> None:
        if self._on_mutate:
            self._on_mutate(what, paths)

    def on_exec(self, what: str, args: list[str]) -> None:
        if self._on_exec:
            self._on_exec(what, args)

    def __enter__(self):
        self.thread = threading.get_ident()
        if not _installed[0]:
            sys.addaudithook(_hook)
            _installed[0] = True
        _active.append(self)
        return self

    def __exit__(self, *a):
        _active.remove(self)
        return False


@contextlib.contextmanager
def paused():
    """Harness-internal file operations (fakes preparing directories, snapshots) are not observations."""
    ws = [w for w in _active if not w.busy]
    for w in ws:
        w.busy = True
    try:
        yield
    finally:
        for w in ws:
            w.busy = False


def under(path: str, root: str | Path) -> bool:
    root = os.path.abspath(str(root))
    return path == root or path.startswith(root.rstrip("/") + "/")


def tree(root: Path) -> dict:
    """relative path -> 'dir' | content digest, for everything below root (root itself excluded)."""
    out = {}
    root = Path(root)
    if not root.exists():
        return out
    for p in sorted(root.rglob("*")):
        rel = str(p.relative_to(root))
        if p.is_symlink():
            out[rel] = "link:" + os.readlink(p)
        elif p.is_dir():
            out[rel] = "dir"
        else:
            out[rel] = sha(p.read_bytes())
    return out


EMPTY_INI = {"present": False, "parsed": False, "nsec": 0, "sec": "", "env": "", "platform": "", "board": "",
             "framework": "", "port": "", "libs": [], "keys": []}


def read_ini(path: Path) -> dict:
    """Read platformio.ini back with the standard INI parser (no interpolation), as a flat record.
    A list-valued option (lib_deps) is read the way PlatformIO does (see lib_list)."""
    path = Path(path)
    if not path.is_file():
        return dict(EMPTY_INI)
    rec = dict(EMPTY_INI, present=True)
    cp = configparser.ConfigParser(interpolation=None)
    cp.optionxform = str
    try:
        cp.read_string(path.read_bytes().decode("utf-8"))
    except Exception as e:
        rec["sec"] = f"unparsable: {type(e).__name__}"
        return rec
    secs = cp.sections()
    rec.update(parsed=True, nsec=len(secs))
    if not secs:
        return rec
    s = secs[0]
    rec["sec"] = s
    rec["env"] = s[4:] if s.startswith("env:") else ""
    sec = cp[s]
    rec["keys"] = sorted(sec.keys())
    for k, f in (("platform", "platform"), ("board", "board"), ("framework", "framework"), ("upload_port", "port")):
        rec[f] = sec.get(k, "") or ""
    rec["libs"] = lib_list(sec.get("lib_deps", None))
    return rec


def lib_list(value) -> list[str]:
    """PlatformIO's reading of a list-valued option: entries separated by line breaks or ', '.  Empty entries are
    kept (as '') so that a blank line inside the option is visible; only the empty remainder of the `lib_deps =`
    line itself is not an entry."""
    if value is None or value == "":
        return []
    lines = value.split("\n")
    if lines and lines[0].strip() == "":
        lines = lines[1:]
    out = []
    for ln in lines:
        out += [x.strip() for x in ln.split(", ")]
    return out


# ----------------------------------------------------------------------------------------------------------------
# C13 recorders
def pio_module():
    from Reduino.toolchain import pio
    return pio


def registry() -> dict:
    """The board registry of the code under test, exported at check time: platform -> sorted list of boards."""
    pio = pio_module()
    return {str(p): sorted(str(b) for b in boards) for p, boards in pio.SUPPORTED_PLATFORMS.items()}


def source_listing():
    """What the source text of pio.py itself lists: platform -> sorted board ids, read with `ast` (nothing is executed): for every
    `"platform": NAME` entry of the SUPPORTED_PLATFORMS display, the whitespace-separated words of the string constants inside the
    module-level assignment of NAME.  None when the module is not written in that form (then there is no listing to hold the
    registry to, and the leg is skipped - a gap, never a verdict)."""
    import ast
    import re
    try:
        tree = ast.parse(Path(pio_module().__file__).read_text(encoding="utf-8"))
    except (OSError, SyntaxError):
        return None
    assigns = {}
    for node in tree.body:
        tgt = node.targets[0] if isinstance(node, ast.Assign) and len(node.targets) == 1 else getattr(node, "target", None) if isinstance(node, ast.AnnAssign) else None
        if isinstance(tgt, ast.Name) and getattr(node, "value", None) is not None:
            assigns[tgt.id] = node.value
    plats = assigns.get("SUPPORTED_PLATFORMS")
    if not isinstance(plats, ast.Dict) or not plats.keys:
        return None
    out = {}
    for k, v in zip(plats.keys, plats.values):
        if not (isinstance(k, ast.Constant) and isinstance(k.value, str) and isinstance(v, ast.Name) and v.id in assigns):
            return None
        words = [w for c in ast.walk(assigns[v.id]) if isinstance(c, ast.Constant) and isinstance(c.value, str) for w in c.value.split()]
        if not words or any(re.fullmatch(r"[A-Za-z0-9][A-Za-z0-9_.+-]*", w) is None for w in words):
            return None
        out[k.value] = sorted(set(words))
    return out


def newstr(s):
    """An equal string that is a different object (never the interned literal / the registry's own key object): what a
    caller gets from a config file, argv, JSON or string arithmetic."""
    if not isinstance(s, str) or len(s) < 2:
        return s
    t = (s + "\0")[:-1]
    assert t == s and t is not s
    return t


def validate_case(platform: str, board: str, own: bool = False) -> str:
    """Outcome of the real validate_platform_board: 'accept' | name of the exception class.
    The arguments are passed as fresh string objects unless own=True (the caller's objects, e.g. the registry's keys)."""
    pio = pio_module()
    if not own:
        platform, board = newstr(platform), newstr(board)
    try:
        r = pio.validate_platform_board(platform, board)
    except ValueError:
        return "ValueError"
    except BaseException as e:  # noqa: BLE001
        return type(e).__name__
    return "accept" if r is None else f"returned:{type(r).__name__}"


def codes(s: str) -> list[int]:
    return [ord(c) for c in s]


def project_case(sandbox: Path, case: dict) -> dict:
    """Run the real write_project for one case inside `sandbox` (a directory the caller owns) and record
    what a user / PlatformIO can observe: outcome, the bytes of src/main.cpp, platformio.ini read back with the
    standard parser, the listing of the project directory, and everything that happened outside it.

    case: {id, pre: 'absent'|'empty'|'stale'|'nested', src, port, platform, board, libs}"""
    pio = pio_module()
    sandbox = Path(sandbox)
    outside = sandbox / "outside"
    if not outside.exists():      # the surroundings are reused from case to case (and re-verified every time)
        outside.mkdir(parents=True)
        (outside / "src").mkdir()
    (outside / "sentinel.txt").write_text("do not touch\n")
    (outside / "platformio.ini").write_text("[env:other]\nboard = other\n")
    (outside / "src" / "main.cpp").write_text("// someone else's sketch\n")
    pre = case.get("pre", "absent")
    proj = outside / "work" / "proj" if pre != "nested" else outside / "work" / "a" / "b" / "proj"
    if (outside / "work").exists():
        shutil.rmtree(outside / "work")
    (outside / "work").mkdir()
    made_by = ""
    if pre == "twin":
        # the stale state is what an EARLIER, successful write_project of a twin request left behind: same project, the source
        # differing only in its line endings.  For the specification this is one more stale state.
        src0 = case["src"]
        twin = (src0.replace("\r\n", "\n") if "\r\n" in src0 else src0.replace("\n", "\r\n") if "\n" in src0
                else src0.replace("\r", "\n") if "\r" in src0 else src0 + "\n")
        try:
            pio.write_project(proj, twin, newstr(case["port"]), platform=newstr(case["platform"]), board=newstr(case["board"]),
                              lib_deps=[newstr(x) for x in case["libs"]])
            made_by = "earlier-call-with-other-line-endings"
        except Exception:  # noqa: BLE001   (an invalid request writes nothing: fall back to the hand-made stale state)
            shutil.rmtree(proj, ignore_errors=True)
        pre = "stale"
    if pre in ("empty", "stale") and not proj.exists():
        proj.mkdir(parents=True)
    if pre == "stale" and not made_by:
        (proj / "src").mkdir()
        (proj / "src" / "main.cpp").write_text("// OLD SKETCH, much longer than the new one\n" * 50)
        (proj / "platformio.ini").write_text("[env:old]\nplatform = oldplatform\nboard = old\nframework = arduino\n"
                                             "upload_port = OLD\n\nlib_deps =\n  OldLib\n  Servo\n\n[env:second]\nboard = x\n")
    def listing_of():
        with_root = ([".=dir"] if proj.exists() else []) + [f"{k}={v}" for k, v in sorted(tree(proj).items())]
        return with_root

    before_in = listing_of()
    pre_dirs = {str(p) for p in [proj, *proj.parents] if p.is_dir()}
    before_out = {k: v for k, v in tree(outside).items() if not under(str(outside / k), proj)}
    touched: list[str] = []

    def on_open(path, writing):
        if writing and not under(path, proj) and path != "/dev/null":
            touched.append(f"open-w:{path}")

    ancestors: list[str] = []

    def on_mutate(what, paths):
        for p in paths:
            if under(p, proj):
                continue
            if what == "os.mkdir" and under(str(proj), p):
                ancestors.append(f"{what}:{p}")     # creating missing ancestors is part of creating the project directory
            else:
                touched.append(f"{what}:{p}")

    def on_exec(what, args):
        touched.append(f"{what}:{args[:2]}")

    cwd0 = os.getcwd()
    out = "ok"
    with FsWatch(on_open, on_mutate, on_exec) as w:
        try:
            r = pio.write_project(proj, case["src"], newstr(case["port"]), platform=newstr(case["platform"]), board=newstr(case["board"]),
                                  lib_deps=[newstr(x) for x in case["libs"]])
            if r is not None:
                out = f"returned:{type(r).__name__}"
        except ValueError:
            out = "ValueError"
        except BaseException as e:  # noqa: BLE001
            out = type(e).__name__
    if os.getcwd() != cwd0:
        touched.append("chdir")
        os.chdir(cwd0)
    if out != "ok":
        touched += [a for a in ancestors if Path(a.split(":", 1)[1]).is_dir() and a.split(":", 1)[1] not in pre_dirs]
    after_out = {k: v for k, v in tree(outside).items() if not under(str(outside / k), proj)}
    # ancestors of a nested project directory are inside "work": creating them is not "outside"
    diff_out = sorted(k for k in set(before_out) | set(after_out)
                      if before_out.get(k) != after_out.get(k) and not under(str(proj), str(outside / k)))
    listing = tree(proj)
    main = proj / "src" / "main.cpp"
    rec = {
        "id": case["id"], "pre": pre, "platform": case["platform"], "board": case["board"], "bcodes": codes(case["board"]),
        "port": case["port"], "libs": list(case["libs"]), "src": sha(case["src"]),
        "out": out,
        "main": sha(main.read_bytes()) if main.is_file() else "",
        "ini": read_ini(proj / "platformio.ini"),
        "files": sorted(k for k, v in listing.items() if v != "dir"),
        "dirs": sorted(k for k, v in listing.items() if v == "dir"),
        "before": before_in, "after": listing_of(),
        "outside": sorted(set(touched)) + [f"changed:{k}" for k in diff_out],
        "observer_errors": list(w.errors),
    }
    rec["ini"]["envcodes"] = codes(rec["ini"]["env"])
    return rec


def fresh(dirpath: Path) -> Path:
    dirpath = Path(dirpath)
    if dirpath.exists():
        shutil.rmtree(dirpath)
    dirpath.mkdir(parents=True)
    return dirpath
