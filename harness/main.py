"""Entry point: ./check Cxx --tier quick|thorough [--replay file] [--selftest]."""
from __future__ import annotations

import argparse
import importlib
import os
import sys
import traceback
from pathlib import Path

sys.path.insert(0, str(Path(__file__).resolve().parent.parent))
from harness.common import MachineryError, seed_from_env  # noqa: E402
from harness.result import Run  # noqa: E402


def main() -> int:
    ap = argparse.ArgumentParser()
    ap.add_argument("prop")
    ap.add_argument("--tier", default=os.environ.get("VERIF_TIER", "quick"), choices=["quick", "thorough"])
    ap.add_argument("--replay")
    ap.add_argument("--selftest", action="store_true")
    a = ap.parse_args()
    prop = a.prop.upper()
    try:
        mod = importlib.import_module(f"checks.{prop.lower()}")
    except ModuleNotFoundError as e:
        print(f"no check for {prop}: {e}", file=sys.stderr)
        return 2
    seed = seed_from_env(1)
    try:
        if a.replay:
            return int(mod.replay(a.replay))
        if a.selftest:
            return int(mod.selftest(seed))
        run = Run(prop, a.tier, seed, getattr(mod, "LEVEL", "model_checking"))
        mod.check(run)
        return run.finish()
    except MachineryError as e:
        print(f"MACHINERY-ERROR {prop}: {e}", file=sys.stderr)
        return 2
    except Exception:
        traceback.print_exc()
        print(f"MACHINERY-ERROR {prop}: unexpected exception in the checker", file=sys.stderr)
        return 2


if __name__ == "__main__":
    sys.exit(main())
