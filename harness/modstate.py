"""Snapshot of the input-independent state of the transpiler modules (used by the C10 and C11 child processes).

Stdlib only - imported inside the observed subprocesses.  A snapshot maps "<module>.<name>" to a canonical
rendering of: every module-level binding that is a scalar or a container (dict/list/set/tuple/deque, nested,
sets and dicts rendered in sorted order so the rendering does not depend on the hash seed), class attributes of
the classes defined in the module, mutable default arguments of its functions and the fill of lru_caches.
Functions, classes, compiled regexes and other objects are rendered by kind and name only.  Bindings whose name
starts with `_verif` belong to the REDUINO_VERIF hook (a log the C07 harness reads and clears) and are left out.  parse()/emit()
must leave the snapshot unchanged (C10: no module-level state; C11: input-independent state is not mutated)."""
from __future__ import annotations

import collections
import hashlib
import json
import re
import sys
import types

MODS = ("Reduino.transpile.parser", "Reduino.transpile.emitter", "Reduino.transpile.ast")
_SCALAR = (int, float, str, bytes, bool, type(None), complex)


def _canon(v, depth: int = 0):
    if isinstance(v, _SCALAR):
        return ["v", type(v).__name__, repr(v)]
    if depth > 6:
        return ["deep", type(v).__name__]
    if isinstance(v, (list, tuple, collections.deque)):
        return [type(v).__name__, [_canon(x, depth + 1) for x in v]]
    if isinstance(v, (set, frozenset)):
        return [type(v).__name__, sorted((_canon(x, depth + 1) for x in v), key=lambda r: json.dumps(r, sort_keys=True))]
    if isinstance(v, dict):
        items = [[_canon(k, depth + 1), _canon(x, depth + 1)] for k, x in list(v.items())]
        return [type(v).__name__, sorted(items, key=lambda r: json.dumps(r[0], sort_keys=True))]
    if isinstance(v, re.Pattern):
        return ["re", v.pattern, v.flags]
    if isinstance(v, (types.FunctionType, types.BuiltinFunctionType, type, types.ModuleType)):
        return ["obj", type(v).__name__, getattr(v, "__qualname__", getattr(v, "__name__", "?"))]
    if isinstance(v, types.GeneratorType):
        # a generator bound at module level is state: where it stands (and whether it is exhausted) is part of the snapshot
        fr = v.gi_frame
        return ["generator", getattr(v, "__qualname__", "?"), "exhausted" if fr is None else ("running" if v.gi_running else "suspended"),
                -1 if fr is None else fr.f_lasti]
    if hasattr(v, "__next__") and hasattr(v, "__iter__"):
        import operator
        try:
            hint = operator.length_hint(v, -1)
        except Exception:
            hint = -2
        try:
            red = repr(v.__reduce__()[1:])[:300] if type(v).__module__ in ("builtins", "itertools", "collections") else ""
        except Exception:
            red = ""
        return ["iterator", type(v).__name__, hint, re.sub(r"0x[0-9a-fA-F]+", "0x", red)]
    # any other object (counters, iterators, instances of the transpiler's own classes): its repr with addresses removed
    # (itertools.count, deque iterators ... show their position there) and, where it has one, its instance dictionary
    try:
        shown = re.sub(r"0x[0-9a-fA-F]+", "0x", repr(v))[:400]
    except Exception:
        shown = "?"
    inner = None
    d = getattr(v, "__dict__", None)
    if isinstance(d, dict) and depth <= 4:
        inner = _canon({str(a): b for a, b in d.items()}, depth + 1)
    return ["obj", type(v).__name__, shown, inner]


def snapshot() -> dict:
    out: dict = {}
    for m in MODS:
        mod = sys.modules.get(m)
        if mod is None:
            continue
        for k, v in list(vars(mod).items()):
            if k.startswith("__") and k.endswith("__"):
                continue
            if k.lower().startswith("_verif"):      # the add-only verification hook of DESIGN 6.4 (its own log, active only
                continue                            # under REDUINO_VERIF=1, read and cleared by the C07 harness): not transpiler state
            out[f"{m}.{k}"] = _canon(v)
            if isinstance(v, type) and getattr(v, "__module__", None) == m:
                for ck, cv in list(vars(v).items()):
                    if ck.startswith("__") and ck.endswith("__"):
                        continue
                    if isinstance(cv, _SCALAR + (list, tuple, set, frozenset, dict, collections.deque)):
                        out[f"{m}.{k}.{ck}"] = _canon(cv)
            fn = getattr(v, "__wrapped__", v)
            if isinstance(fn, types.FunctionType) and getattr(fn, "__module__", None) == m:
                if fn.__defaults__:
                    out[f"{m}.{k}.__defaults__"] = _canon(fn.__defaults__)
                if fn.__kwdefaults__:
                    out[f"{m}.{k}.__kwdefaults__"] = _canon(fn.__kwdefaults__)
                if fn.__dict__:
                    out[f"{m}.{k}.__dict__"] = _canon({a: b for a, b in fn.__dict__.items() if a != "__wrapped__"})
            if hasattr(v, "cache_info") and callable(getattr(v, "cache_info")):
                try:
                    out[f"{m}.{k}.cache"] = ["v", "int", repr(v.cache_info().currsize)]
                except Exception:
                    pass
    # interpreter-wide settings a library has no business leaving changed behind a call
    import os
    out["<interpreter>.recursionlimit"] = ["v", "int", repr(sys.getrecursionlimit())]
    out["<interpreter>.cwd"] = ["v", "str", os.getcwd()]
    out["<interpreter>.environ"] = ["v", "str", hashlib.sha256(repr(sorted(os.environ.items())).encode()).hexdigest()[:16]]
    out["<interpreter>.sys.path"] = ["v", "str", hashlib.sha256(repr(list(sys.path)).encode()).hexdigest()[:16]]
    return out


def digest(snap: dict) -> str:
    return hashlib.sha256(json.dumps(snap, sort_keys=True).encode()).hexdigest()


def diff(a: dict, b: dict) -> list:
    """Names whose rendering differs between two snapshots (added, removed or changed)."""
    return sorted(k for k in set(a) | set(b) if a.get(k) != b.get(k))
