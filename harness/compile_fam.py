"""C06 stimuli: string-literal family (TLC-enumerated), scope family, and helpers to compile a corpus and check the
echo of string literals."""
from __future__ import annotations

from . import fw

HDR = ("from Reduino import target\nfrom Reduino.Actuators import Led, Servo, DCMotor, Buzzer, RGBLed\n"
       "from Reduino.Sensors import Button, Potentiometer, Ultrasonic\nfrom Reduino.Displays import LCD\n"
       "from Reduino.Communication import SerialMonitor\nfrom Reduino.Utils import sleep\n\n"
       'target("COM3", upload=False)\nmon = SerialMonitor(9600)\n')

SPECIAL = {"trigraph-??/": "a??/b", "percent-d": "100%d %s", "backslash-n-text": "a\\nb", "quote-pair": "say \"hi\" 'x'", "empty": "",
           "long-80": "x" * 80, "leading-space": "  lead", "brace-pair": "{}{x}",
           "backslash-quote": 'dir \\"C:\\tmp\\"', "backslash-end": "tail\\", "quote-backslash": 'q"\\x', "double-backslash-quote": 'a\\\\"b'}


def text_of(case: dict) -> str:
    if case["special"]:
        return SPECIAL[case["special"]]
    return "<" + chr(case["code"]) + ">"


def tags_of(text: str) -> list:
    t = []
    if "\n" in text:
        t.append("newline-in-string-literal")
    if "\r" in text:
        t.append("carriage-return-in-string-literal")
    return t


def strlit_lines(pos: str, k: int, text: str) -> tuple[list[str], str | None]:
    """Script lines for one literal at one position and the serial line Python would print (None: not echoed)."""
    lit = repr(text)
    mark = f'mon.write("@{k}")'
    if pos == "serial-write":
        return [mark, f"mon.write({lit})"], text
    if pos == "fstring-fragment":
        body = text.replace("{", "{{").replace("}", "}}")
        flit = "f" + repr("a{n7}" + body).replace("a{n7}", "a{n7}")
        return [mark, "n7 = 7", f"mon.write({flit})"], "a7" + text
    if pos == "lcd-text":
        return [mark, f"lcd.write(0, 0, {lit})", 'mon.write("lcd")'], None
    if pos == "variable":
        return [mark, f"sv{k} = {lit}", f"mon.write(sv{k})"], text
    if pos == "concatenation":
        return [mark, f'mon.write({lit} + "!")'], text + "!"
    if pos == "list-item":
        return [mark, f'ls{k} = [{lit}, "b"]', f"mon.write(ls{k}[0])"], text
    if pos == "comparison":
        return [mark, f"sc{k} = {lit}", f"if sc{k} == {lit}:", '    mon.write("eq")'], "eq"
    if pos == "function-argument":
        return [mark, f"show({lit})"], text
    raise ValueError(pos)


def strlit_script(pos: str, items: list[tuple[int, str]]) -> tuple[str, dict]:
    """One script holding several literals of one position. -> (source, {k: expected line or None})"""
    L = [HDR]
    if pos == "lcd-text":
        L.append("lcd = LCD(rs=2, en=3, d4=4, d5=5, d6=6, d7=7, cols=20, rows=2)")
    if pos == "function-argument":
        L += ["def show(t):", "    mon.write(t)"]
    exp = {}
    for k, text in items:
        lines, e = strlit_lines(pos, k, text)
        L += lines
        exp[k] = e
    return "\n".join(L) + "\n", exp


def echo_check(events: list, exp: dict) -> dict:
    """{k: True/False}: does the serial line after marker @k carry exactly the expected text (bytes)?"""
    out = {}
    ws = [e for e in events if e.get("e") == "w"]
    for i, e in enumerate(ws):
        v = e.get("v")
        if isinstance(v, str) and v.startswith("@") and v[1:].isdigit():
            k = int(v[1:])
            want = exp.get(k)
            if want is None:
                out[k] = True
                continue
            got = ws[i + 1].get("v") if i + 1 < len(ws) else None
            if not isinstance(got, str):
                got = str(got)
            try:
                ok = got.encode("latin1") == want.encode("utf8")
            except UnicodeEncodeError:
                ok = got == want
            out[k] = ok
    return out


# ------------------------------------------------------------------ scope family
def scope_family() -> list[tuple[str, str, list]]:
    S = []

    def add(name, body, tags=()):
        S.append((name, HDR + body, list(tags)))

    add("first-in-branch-used-after", "a = 1\nif a > 0:\n    b = 5\nelse:\n    b = 6\nmon.write(b)\n")
    add("first-in-for-used-after", "for i in range(3):\n    t = i * 2\nmon.write(t)\n")
    add("first-in-while-used-after", "k = 0\nwhile k < 3:\n    k += 1\n    last = k\nmon.write(last)\n")
    add("first-in-nested-branch", "a = 2\nif a > 0:\n    if a > 1:\n        deep = 7\n    mon.write(deep)\n")
    add("first-in-try", "try:\n    v = 3\nexcept Exception:\n    v = 4\nmon.write(v)\n", ["try-except"])
    add("first-in-main-loop-branch", "n = 0\nwhile True:\n    n += 1\n    if n > 1:\n        seen = n\n        mon.write(seen)\n")
    add("helper-uses-global", "count = 0\ndef bump():\n    global count\n    count += 1\n    return count\nmon.write(bump())\n")
    add("helper-defined-after-use-in-helper", "def a():\n    return b() + 1\ndef b():\n    return 2\nmon.write(a())\n", ["helper-calls-later-helper"])
    add("main-loop-variable-used-in-helper", "def grow():\n    global acc\n    acc += 1\nwhile True:\n    acc = 5\n    grow()\n    mon.write(acc)\n", ["main-loop-variable-used-in-helper"])
    # custom glyphs uploaded from several helpers (and the prologue, and the main loop) to one display: every bitmap table needs a name of its own
    add("glyphs-from-two-helpers", "lcd = LCD(rs=12, en=11, d4=5, d5=4, d6=3, d7=2)\ndef heart():\n    lcd.glyph(0, [0, 10, 31, 31, 14, 4, 0, 0])\n    lcd.glyph(1, [4, 14, 31, 4, 4, 4, 0, 0])\n"
        "def bell():\n    lcd.glyph(2, [4, 14, 14, 14, 31, 0, 4, 0])\n    lcd.glyph(3, [31, 17, 17, 17, 17, 17, 31, 0])\nlcd.glyph(4, [1, 2, 4, 8, 16, 8, 4, 2])\nheart()\nbell()\n"
        "while True:\n    lcd.glyph(5, [21, 10, 21, 10, 21, 10, 21, 10])\n    lcd.glyph(5, [10, 21, 10, 21, 10, 21, 10, 21])\n    heart()\n    sleep(100)\n")
    add("glyphs-two-displays-two-helpers", "la = LCD(rs=12, en=11, d4=5, d5=4, d6=3, d7=2)\nlb = LCD(i2c_addr=0x27, cols=16, rows=2)\ndef pa(n):\n    la.glyph(0, [1, 10, 31, 31, 14, 4, 0, 0])\n    lb.glyph(0, [4, 14, 31, 4, 4, 4, 0, 0])\n"
        "def pb():\n    lb.glyph(1, [4, 14, 14, 14, 31, 0, 4, 0])\n    la.glyph(1, [31, 17, 17, 17, 17, 17, 31, 0])\npa(1)\npa(2)\npb()\n")
    # device commands whose EVERY argument is a run-time value (each emitted block declares one scratch variable per argument)
    rt = 'pot = Potentiometer("A0")\nva = pot.read()\nvb = pot.read() + 1\nvc = pot.read() // 2\n'
    add("rt-args-buzzer", rt + "bz = Buzzer(8)\nbz.beep(va, on_ms=vb, off_ms=vc, times=va)\nbz.beep(frequency=va + 1, on_ms=vb + 1, off_ms=vc + 1, times=2)\nbz.play_tone(va, vb)\n"
        "bz.sweep(va, vb, vc, va)\nbz.melody(\"siren\", tempo=va)\nwhile True:\n    bz.beep(va, vb, vc, 2)\n    bz.sweep(va, vb, duration_ms=vc, steps=va)\n")
    add("rt-args-led-rgb", rt + "led = Led(5)\nrgb = RGBLed(3, 6, 9)\nled.blink(va, vb)\nled.fade_in(va, vb)\nled.fade_out(vb, va)\nled.flash_pattern([1, 0, 1], va)\nled.set_brightness(va)\n"
        "led.flash_pattern([], va)\nled.flash_pattern([], 5)\nempty = []\nled.flash_pattern(empty, vb)\nrgb.set_color(va, vb, vc)\nrgb.blink(va, vb, vc, va, vb)\nrgb.fade(va, vb, vc, va, vb)\nwhile True:\n    rgb.fade(vc, vb, va, duration_ms=vb, steps=vc)\n    led.blink(vc, times=va)\n")
    add("rt-args-servo-motor", rt + "sv = Servo(10)\nmot = DCMotor(2, 4, 11)\nsv.write(va)\nsv.write_us(vb + 1000)\nmot.set_speed(va * 0.001)\nmot.backward(vb * 0.001)\nmot.ramp(va * 0.001, vb)\n"
        "mot.run_for(vb, vc * 0.001)\nwhile True:\n    mot.ramp(vc * 0.001, va)\n    mot.run_for(va, vb * 0.001)\n    sv.write(vc)\n")
    add("rt-args-lcd", rt + "lcd = LCD(rs=12, en=11, d4=5, d5=4, d6=3, d7=2)\nlcd.write(va, vb, \"x\")\nlcd.line(va, \"y\")\nlcd.progress(va, vb, max_value=vc + 1, width=va)\nlcd.brightness(va)\n"
        "while True:\n    lcd.progress(vb, vc, max_value=va + 1, width=vb, label=\"v\")\n    lcd.write(vc, va, \"z\")\n")
    # f-strings whose FIRST piece is a replacement field with text in it (a conditional between literals, a helper's result, a String variable)
    add("fstring-leading-text-fields", "led = Led(5)\nn = 3\nname = \"ab\"\ndef tag():\n    return \"t\"\n"
        "mon.write(f\"{'ON' if led.get_state() else 'OFF'} after {n} toggles\")\nmon.write(f\"{'a' if n > 1 else 'b'}{'c' if n > 2 else 'd'}\")\n"
        "mon.write(f\"{'x' if n > 1 else 'y'}{n}\")\nmon.write(f\"{name} is {n}\")\nmon.write(f\"{tag()}-{name}\")\nmon.write(f\"{'only' if n else 'one'}\")\n"
        "msg = f\"{'hi' if n > 0 else 'lo'} there\"\nmon.write(msg)\ndef lab(k):\n    return f\"{'big' if k > 5 else 'small'}:{k}\"\nmon.write(lab(7))\n")
    # pass-ending `continue` in arms of conditionals nested in conditionals of the main loop body (it is `return;` in loop())
    add("continue-in-nested-arms", "k = 0\nwhile True:\n    k += 1\n    if k > 0:\n        if k % 2 == 0:\n            mon.write(k)\n        else:\n            continue\n    if k > 1:\n        if k > 5:\n            mon.write(1)\n        elif k > 3:\n            continue\n        else:\n            if k == 2:\n                continue\n    mon.write(7)\n")
    # names first bound inside a loop body that hold strings / lists / floats (the hoisted declaration has their type)
    add("first-in-loop-string-list-float", "pot = Potentiometer(\"A0\")\nfor i in range(2):\n    word = \"w\" + \"x\"\n    nums = [i, i + 1]\n    ratio = i * 0.5\n    if i == 1:\n        tag = f\"t{i}\"\n        parts = [1.5, 2.5]\n"
        "mon.write(word)\nmon.write(nums[0])\nmon.write(ratio)\nmon.write(tag)\nmon.write(parts[1])\nk = 0\nwhile k < 2:\n    k += 1\n    line = \"n=\" + str(k)\n    hist = [k, k]\nmon.write(line)\nmon.write(hist[1])\n"
        "while True:\n    for j in range(2):\n        cell = \"c\" + str(j)\n        row = [j, 2]\n    mon.write(cell)\n    mon.write(row[0])\n")
    add("helper-uses-led", "led = Led(5)\ndef flash():\n    led.on()\n    sleep(5)\n    led.off()\nwhile True:\n    flash()\n")
    add("helper-uses-pot", 'pot = Potentiometer("A0")\ndef level():\n    return pot.read()\nwhile True:\n    mon.write(level())\n')
    add("helper-uses-ultrasonic", "us = Ultrasonic(trig=7, echo=8)\ndef dist():\n    return us.measure_distance()\nwhile True:\n    mon.write(dist())\n", ["ultrasonic-in-helper"])
    add("helper-with-list-param", "def total(xs):\n    t = 0\n    for i in range(len(xs)):\n        t += xs[i]\n    return t\nv = [1, 2, 3]\nmon.write(total(v))\n", ["list-parameter"])
    # helper variants: bodies that re-type / pass on their parameter x call sites of different argument types and orders
    bodies = {"ident": "    return x\n", "retype-div": "    x = x / 2\n    return x\n", "retype-mul": "    x = x * 1.5\n    return x\n",
              "local": "    t = x + 1\n    return t\n", "branch": "    if x > 1:\n        return x\n    return 0\n"}
    orders = {"fi": ["2.5", "4"], "if": ["4", "2.5"], "iif": ["4", "7", "2.5"], "ffi": ["2.5", "0.5", "4"], "ii": ["4", "7"], "ff": ["2.5", "0.5"]}
    for bn, body in bodies.items():
        for on, args in orders.items():
            add(f"variant-{bn}-{on}", f"def hv(x):\n{body}" + "".join(f"mon.write(hv({a}))\n" for a in args))
    # subscripts of list-valued expressions that are not plain names (C++ rvalues)
    add("index-list-literal", "step = 4\nmon.write([100, 250, 500][step % 3])\n")
    add("index-function-result", "def delays():\n    return [100, 250, 500]\nstep = 4\nmon.write(delays()[step % 3])\nmon.write(len(delays()))\n")
    add("index-comprehension", "k = 2\nmon.write([i * i for i in range(4)][k])\n")
    add("index-nested-and-negative", "grid = [[1, 2], [3, 4]]\nvals = [5, 6, 7]\nmon.write(grid[1][0])\nmon.write(vals[-1])\nmon.write(grid[-1][-1])\n")
    add("index-in-condition-and-arith", "vals = [5, 6, 7]\nk = 1\nif [1, 2, 3][k] > 1:\n    mon.write(vals[k] + [10, 20][0])\n")
    add("list-of-strings-and-floats", 'names = ["a", "bc"]\nfs = [0.5, 1.5]\nmon.write(names[1])\nmon.write(fs[0] + fs[1])\nmon.write(["x", "y"][1])\n')
    add("global-list-from-helper-indexed-outside", "def refresh(n):\n    global w\n    w = [n, n + 1, n + 2]\nrefresh(4)\nmon.write(w[1])\n",
        ["global-list-from-helper-indexed-outside"])
    add("global-list-from-helper-used-in-helper", "def refresh(n):\n    global w\n    w = [n, n + 1, n + 2]\n    return w[-1]\nmon.write(refresh(4))\nmon.write(refresh(7))\n")
    # lists (flat, nested, of strings / floats) whose FIRST assignment sits inside a branch / loop body: the hoisted declaration
    # needs a default initialiser of the right type
    add("list-first-in-branch", "a = 2\nif a > 1:\n    vals = [1, 2, 3]\nelse:\n    vals = [4, 5, 6]\nmon.write(vals[1])\n")
    add("nested-list-first-in-branch", "a = 2\nif a > 1:\n    grid = [[1, 2], [3, 4]]\nelse:\n    grid = [[5, 6], [7, 8]]\nmon.write(grid[1][0])\n")
    add("nested-list-first-in-loop", "for i in range(2):\n    rows = [[i, 1], [2, 3]]\nmon.write(rows[0][0])\n")
    add("string-list-first-in-while", 'k = 0\nwhile k < 2:\n    names = ["a", "bc"]\n    k += 1\nmon.write(names[1])\n')
    add("float-list-first-in-main-loop-branch", "n = 0\nwhile True:\n    n += 1\n    if n > 1:\n        fs = [0.5, 1.5]\n        mon.write(fs[0])\n")
    add("nested-list-file-scope-from-variables", "p = 1\nq = 2\ngrid2 = [[p, q], [q, p]]\nmon.write(grid2[0][1])\n")
    add("prologue-tuple-new-and-existing-used-in-loop", "total = 10\ntotal, last = 0, total\nwhile True:\n    mon.write(last + total)\n")
    add("helper-rebinds-string-param", 'def shout(text):\n    text = text + "!"\n    return text\nmon.write(shout("hey"))\n')
    add("helper-augments-string-param", 'def dots(text, n):\n    for i in range(n):\n        text += "."\n    return text\nmon.write(dots("wait", 3))\n')
    add("helper-rebinds-number-params", "def clamp(v, lo, hi):\n    if v < lo:\n        v = lo\n    if v > hi:\n        v = hi\n    return v\nmon.write(clamp(300, 0, 255))\nmon.write(clamp(2.5, 0, 1))\n")
    add("helper-returns-list", "def mk():\n    return [1, 2, 3]\nv = mk()\nmon.write(v[1])\n")
    add("helper-returns-string", 'def tag(n):\n    return f"id:{n}"\nmon.write(tag(3))\n')
    add("button-handler", 'def hit():\n    mon.write("hit")\nbtn = Button(7, on_click=hit)\nwhile True:\n    mon.write(btn.is_pressed())\n')
    add("handler-calls-later-function", 'def hit():\n    report()\ndef report():\n    mon.write("r")\nbtn = Button(7, on_click=hit)\nwhile True:\n    sleep(1)\n', ["handler-calls-later-function"])
    add("try-except-basic", 'try:\n    mon.write("a")\nexcept Exception:\n    mon.write("b")\n', ["try-except"])
    add("undeclared-receiver", "foo.on()\n", ["undeclared-receiver"])
    add("animate-in-function", 'lcd = LCD(rs=2, en=3, d4=4, d5=5, d6=6, d7=7)\ndef show():\n    lcd.animate("scroll", 0, "abc", speed_ms=2)\nshow()\nwhile True:\n    sleep(1)\n', ["animate-in-function"])
    add("servo-in-if", "flag = 1\nif flag == 1:\n    sv = Servo(9)\n    sv.write(30)\nwhile True:\n    sleep(1)\n", ["device-in-compound-statement"])
    add("for-range-forms", "for i in range(2, 8, 3):\n    mon.write(i)\nfor j in range(5, 0, -2):\n    mon.write(j)\n")
    add("while-with-else-free", "k = 3\nwhile k > 0:\n    k -= 1\nmon.write(k)\n")
    add("nested-functions-and-loops", "def f(n):\n    t = 0\n    for i in range(n):\n        if i % 2 == 0:\n            t += i\n    return t\nwhile True:\n    mon.write(f(5))\n    sleep(5)\n")
    add("tuple-swap-in-loop", "a = 1\nb = 2\nwhile True:\n    a, b = b, a\n    mon.write(a)\n")
    add("string-variable-concat", 's = "ab"\ns = s + "cd"\nmon.write(s)\nmon.write(len(s))\n')
    add("bool-variable", "ok = True\nif ok and not False:\n    mon.write(ok)\n")
    add("float-variable-arith", "x = 1.5\ny = x * 2 + 0.25\nmon.write(y)\n")
    add("all-devices", 'led = Led(3)\nrgb = RGBLed(5, 6, 9)\nsrv = Servo(10)\nmot = DCMotor(2, 4, 11)\nbz = Buzzer(8)\npot = Potentiometer("A0")\nus = Ultrasonic(trig=7, echo=12)\n'
        'lcd = LCD(rs=22, en=23, d4=24, d5=25, d6=26, d7=27, backlight_pin=13)\nlcd2 = LCD(i2c_addr=0x27, cols=20, rows=4)\n'
        'led.blink(7, times=2)\nrgb.fade(255, 0, 0, duration_ms=10, steps=4)\nsrv.write(90)\nmot.ramp(-1.0, duration_ms=40)\nbz.melody("notify")\n'
        'lcd.line(0, "Hello", align="center")\nlcd2.animate("scroll", 2, "scrolling!", speed_ms=150, loop=True)\n'
        "while True:\n    v = pot.read()\n    d = us.measure_distance()\n    mon.write(v)\n    mon.write(d)\n    sleep(100)\n")
    return S


def compile_job(job: dict) -> dict:
    """job = {"id", "src", "tags", "run": bool}.  Transpile + compile (+ run when an echo is to be checked)."""
    r = fw.run_script({"src": job["src"], "passes": job.get("passes", 1), "keep_cpp": True, "syntax_only": not job.get("run", False),
                       "strict": True})         # C06's bar is standard C++: the unchanged tree needs no -fpermissive anywhere in the corpus
    out = {"id": job["id"], "tags": job.get("tags", []), "transpile": r["transpile"], "cls": r.get("cls"), "msg": r.get("msg"),
           "compile": {"ok": "ok", "fail": "fail"}.get(r.get("compile"), "none"), "stderr": (r.get("stderr") or "")[-600:] if r.get("compile") == "fail" else "",
           "cpp": r.get("cpp"), "events": r.get("events") if job.get("run") else None}
    return out
