"""Regenerates /verif/MANIFEST.json from the table below (python3 harness/manifest_gen.py)."""
import json
import importlib
import sys
from pathlib import Path

V = Path(__file__).resolve().parent.parent
sys.path.insert(0, str(V))
BASE = "cd /repo && /venv/bin/python -m pytest -ra -q -p no:cacheprovider --timeout=900 --continue-on-collection-errors"

# property -> (category, technique, level text, level note, design ref)
CLAIMED = {
    "C19": ("model_checking",
            "TLA+ device specs model-checked by TLC; TLC-generated call histories replayed into the real host classes; recorded traces validated by TLC",
            "TLC exhaustively checks the Led/RGBLed/Servo/DCMotor specifications (every invariant and action property the property names, all "
            "argument grids, unbounded history length because the state graph is finite) and validates traces recorded from the real classes "
            "(state + waveform after every call) against them; a divergence of the code from the spec, or an invariant broken on an "
            "implementation state, is reported with the failing clause.",
            "Trusted: TLC, the recorder (public getters + the documented sleep indirection), the argument grids; bounded to grid values and to "
            "the generated histories (all of length 2, random walks of length 8-12).", "DESIGN.md §5 C19"),
    "C04": ("model_checking",
            "TLA+ device specs (side=fw) checked by TLC; TLC-generated call histories rendered as Reduino scripts, transpiled, compiled against a mock Arduino core and executed; per-call pin waveforms and getter printouts validated by TLC",
            "The firmware contract of the four actuators is a TLA+ step relation (levels, delays up to <1 ms per delay, getters, clamping) that TLC "
            "model-checks and then uses to validate the traces of real firmware built from /repo's working tree, for literal and run-time "
            "arguments; the same specs are bound to the host classes (C19), so conformance of both sides is agreement between them.",
            "Trusted: TLC, g++, the mock Arduino core (/verif/mock), the projection of pin events to waveforms. Known deviations are matched "
            "exactly by named spec predicates (known_findings.json). Bounded to the grids and generated histories.", "DESIGN.md §5 C04"),
}
NOT_YET = {}


def main():
    props = [json.loads(l) for l in (V / "properties.jsonl").read_text().splitlines() if l.strip()]
    checks, na = [], []
    for p in props:
        pid = p["id"]
        if pid in CLAIMED:
            cat, tech, text, note, ref = CLAIMED[pid]
            checks.append({
                "property_id": pid,
                "quick_cmd": f"./check {pid} --tier quick",
                "thorough_cmd": f"./check {pid} --tier thorough",
                "evidence_file": f"evidence/{pid}.json",
                "replay_cmd_template": f"./check {pid} --replay {{path}}",
                "engine": "tlc",
                "level_claimed": {"category": cat, "text": text, "design_ref": ref},
                "level_note": note,
                "technique": tech,
            })
        else:
            na.append({"property_id": pid, "reason": NOT_YET.get(pid, "check not built yet in this revision (planned: see DESIGN.md §5); nothing is claimed for it")})
    m = {
        "version": 1,
        "setup_cmd": "./setup.sh",
        "hooks": {"guard": "REDUINO_VERIF", "enable": "checks run /repo/src from the working tree with REDUINO_VERIF=1 in the environment",
                  "baseline_off_cmd": BASE, "source_commits": [], "add_only": True},
        "engines": [{"name": "tlc", "path": "harness/tlc.py", "serves_properties": sorted(CLAIMED),
                     "kind_free_text": "TLC 1.8 (model checking of tla/*.tla, behaviour generation, batch trace validation) driven by harness/*.py; "
                                       "firmware leg = emitted C++ compiled with g++ against mock/ and executed"}],
        "checks": checks,
        "not_applicable": na,
        "notes": "Every check: exit 0 = held on everything explored (KNOWN-FINDING lines allowed), exit 1 + VIOLATION line, exit 2 = machinery failure.",
    }
    (V / "MANIFEST.json").write_text(json.dumps(m, indent=1) + "\n")
    import jsonschema
    jsonschema.validate(m, json.load(open("/root/.vp/MANIFEST.schema.json")))
    print("MANIFEST.json written:", len(checks), "checks,", len(na), "not_applicable")


if __name__ == "__main__":
    main()
