"""Regenerates /verif/MANIFEST.json from the table below (python3 harness/manifest_gen.py)."""
import json
import importlib
import sys
from pathlib import Path

V = Path(__file__).resolve().parent.parent
sys.path.insert(0, str(V))
BASE = "cd /repo && /venv/bin/python -m pytest -ra -q -p no:cacheprovider --timeout=900 --continue-on-collection-errors"

# property -> (category, technique, level text, level note, design ref)
CLAIMED = {
    "C19": ("model_checking",
            "TLA+ device specs model-checked by TLC; TLC-generated call histories replayed into the real host classes; recorded traces validated by TLC",
            "TLC exhaustively checks the Led/RGBLed/Servo/DCMotor specifications (every invariant and action property the property names, all "
            "argument grids, unbounded history length because the state graph is finite) and validates traces recorded from the real classes "
            "(state + waveform after every call) against them; a divergence of the code from the spec, or an invariant broken on an "
            "implementation state, is reported with the failing clause.",
            "Trusted: TLC, the recorder (public getters + the documented sleep indirection), the argument grids; bounded to grid values and to "
            "the generated histories (all of length 2, random walks of length 8-12).", "DESIGN.md §5 C19"),
    "C04": ("model_checking",
            "TLA+ device specs (side=fw) checked by TLC; TLC-generated call histories rendered as Reduino scripts, transpiled, compiled against a mock Arduino core and executed; per-call pin waveforms and getter printouts validated by TLC",
            "The firmware contract of the four actuators is a TLA+ step relation (levels, delays up to <1 ms per delay, getters, clamping) that TLC "
            "model-checks and then uses to validate the traces of real firmware built from /repo's working tree, for literal and run-time "
            "arguments; the same specs are bound to the host classes (C19), so conformance of both sides is agreement between them.",
            "Trusted: TLC, g++, the mock Arduino core (/verif/mock), the projection of pin events to waveforms. Known deviations are matched "
            "exactly by named spec predicates (known_findings.json). Bounded to the grids and generated histories.", "DESIGN.md §5 C04"),
    "C01": ("model_checking",
            "TLA+ Lang spec (Python semantics of the DSL) executed by TLC as the reference; TLC-enumerated program families + seeded random programs run as firmware (g++ + mock Arduino core) and under CPython; both recorded traces validated by TLC (LangTrace)",
            "TLC enumerates the program families (every binary / comparison operator x operand pair, control skeletons to a node bound, "
            "assignment / list / builtin / f-string forms), evaluates every candidate in the Lang specification (well-definedness, trigger "
            "tags) and then judges the event traces recorded from the real firmware and from CPython against the spec's trace, event by "
            "event. CPython disagreeing with the spec is a spec gap, never a violation; the firmware disagreeing is a violation unless the "
            "script was rejected. Known findings are canonical probes whose deviation must equal the recorded signature exactly.",
            "Trusted: TLC, g++, the mock Arduino core, CPython as reference. Bounded to the enumerated families, packing sizes and seeds; "
            "AVR int width is handled by discarding programs whose ints leave the 16-bit range.", "DESIGN.md §5 C01"),
    "C02": ("model_checking",
            "Lang spec with a history variable of runtime types per name; TLC-enumerated TypeFlows (type sequences x 13 sites) and expression "
            "results stored in variables; firmware + CPython traces and declared C++ types validated by TLC (LangTrace: values and Covers)",
            "For every TypeFlow and expression case in the clean stratum TLC checks that the firmware prints Python's values and that the "
            "declared C++ type of every variable, parameter and function result covers the join of the runtime types the spec saw the name "
            "hold. Flows in which a name changes type are the known first-assignment-wins finding, probed with exact signatures.",
            "Trusted: as C01, plus the declaration scanner over the emitter's regular output. Bounded to type sequences of length <= 2, "
            "13 site kinds, the operator grid.", "DESIGN.md §5 C02"),
    "C03": ("model_checking",
            "Lang spec + device specs, neither of which evaluates anything early; TLC evaluates FoldSites x Routings programs and TLC-generated "
            "device call histories are rendered with 8 Python-equivalent routings per argument; firmware traces validated by TLC",
            "Every fold site (sleep, range, arithmetic, analog_write, list index, len of str / list; every numeric argument of Led / RGBLed / "
            "Servo / DCMotor calls) is exercised with the value arriving as a literal, a constant variable, a variable re-assigned after the "
            "site, in taken / untaken branches, in loops that run 0 / 2 times, in called / uncalled functions, or from a sensor; TLC judges the "
            "firmware trace against the spec for the value Python has at that point, so a stale or mis-folded constant is a violation.",
            "Trusted: as C01 and C04. Bounded to the listed sites, routings and two values per site; sampled device histories.", "DESIGN.md §5 C03"),
    "C14": ("model_checking",
            "TLA+ specs Libs and Sketch model-checked by TLC; TLC enumerates device multisets exhaustively (LibsGen); each is rendered as a script and run "
            "through the real parse / emit / _collect_required_libraries; lib_deps, #include lines, library objects and the item sequence of the "
            "emitted text validated by TLC (LibsTrace, SketchTrace); thorough also compiles and links against the mock library headers",
            "TLC checks every clause of the property (requested <=> included <=> instantiated <=> needed, no duplicates, nothing needless, Wire.h "
            "with the I2C group) on the specification, proves the verdict function equivalent to the declarative clauses over a bounded universe "
            "of observations, and validates the observations of the real code for every generated multiset (servos 0..2 over both placements x "
            "parallel LCDs 0..2 x I2C LCDs 0..2 x subsets of the other kinds x 3 script shapes), naming the failing clause.",
            "Trusted: TLC, the light text scanner (selftest trap text), g++ and /verif/mock for the thorough link leg. Bounded to <= 2 devices per "
            "library kind. Devices declared inside compound statements are a probe stratum matched exactly by Libs!KnownNestedDropped.", "DESIGN.md §5 C14"),
    "C15": ("model_checking",
            "TLA+ specs Button / Pot / Ultrasonic model-checked by TLC; TLC-generated sampled signals x call patterns, ADC sequences and echo "
            "schedules executed in firmware (mock core with scripted digitalRead/analogRead/pulseIn/millis) and on the host Button class; "
            "recorded traces validated by TLC",
            "TLC exhaustively checks once-per-pass sampling, click = rising edge of the sampled signal, no click at start-up, stable reads within a "
            "pass, agreement with the host model; one fresh analogRead per read(); trigger spacing >= 60 ms once millis() > 0, <= 3 attempts, the "
            "result and fallback law; and validates every event of traces recorded from real firmware and the real host Button against the same "
            "step relations, naming the failing clause.",
            "Trusted: TLC, g++, the mock core's virtual clock, the projection of raw events by serial markers. 'clock running' = millis() > 0 at the "
            "later trigger; distances compared within print precision. Three known deviations matched exactly (known_findings.json).", "DESIGN.md §5 C15"),
    "C18": ("model_checking",
            "TLA+ spec LCDAnim model-checked by TLC incl. a fairness-based liveness check on a reduced model; TLC-generated behaviours (parameter grid x "
            "tick-time patterns, multi-animation walks, start-placement probes) replayed into the real host LCD class and into firmware; recorded "
            "traces validated event by event by TLC (LCDAnimTrace, impl = host | fw)",
            "TLC checks FrameWidth, FrameInsideRow, NonLoopingStops (<= 2(len+cols)+4 steps), LoopingNeverStops, RateLimit, StartNeverBlocks and "
            "TickOncePerPass in every reachable state of every tick-time sequence over the grids (4 styles x cols 1..5 x text length 0..cols+2 x "
            "loop x speeds), <>~active under weak fairness, and validates traces of the real LCD.tick and of real firmware (millis reads, LCD cell "
            "writes, delay calls, pass markers) against the same specification.",
            "Trusted: TLC, g++, the mock core, the projection in which a firmware tick is identified by its millis() read. Bounded to the grids and "
            "generated schedules. Two known deviations matched exactly.", "DESIGN.md §5 C18"),
}
NOT_YET = {}


def main():
    props = [json.loads(l) for l in (V / "properties.jsonl").read_text().splitlines() if l.strip()]
    checks, na = [], []
    for p in props:
        pid = p["id"]
        if pid in CLAIMED:
            cat, tech, text, note, ref = CLAIMED[pid]
            checks.append({
                "property_id": pid,
                "quick_cmd": f"./check {pid} --tier quick",
                "thorough_cmd": f"./check {pid} --tier thorough",
                "evidence_file": f"evidence/{pid}.json",
                "replay_cmd_template": f"./check {pid} --replay {{path}}",
                "engine": "tlc",
                "level_claimed": {"category": cat, "text": text, "design_ref": ref},
                "level_note": note,
                "technique": tech,
            })
        else:
            na.append({"property_id": pid, "reason": NOT_YET.get(pid, "check not built yet in this revision (planned: see DESIGN.md §5); nothing is claimed for it")})
    m = {
        "version": 1,
        "setup_cmd": "./setup.sh",
        "hooks": {"guard": "REDUINO_VERIF", "enable": "checks run /repo/src from the working tree with REDUINO_VERIF=1 in the environment",
                  "baseline_off_cmd": BASE, "source_commits": [], "add_only": True},
        "engines": [{"name": "tlc", "path": "harness/tlc.py", "serves_properties": sorted(CLAIMED),
                     "kind_free_text": "TLC 1.8 (model checking of tla/*.tla, behaviour generation, batch trace validation) driven by harness/*.py; "
                                       "firmware leg = emitted C++ compiled with g++ against mock/ and executed"}],
        "checks": checks,
        "not_applicable": na,
        "notes": "Every check: exit 0 = held on everything explored (KNOWN-FINDING lines allowed), exit 1 + VIOLATION line, exit 2 = machinery failure.",
    }
    (V / "MANIFEST.json").write_text(json.dumps(m, indent=1) + "\n")
    import jsonschema
    jsonschema.validate(m, json.load(open("/root/.vp/MANIFEST.schema.json")))
    print("MANIFEST.json written:", len(checks), "checks,", len(na), "not_applicable")


if __name__ == "__main__":
    main()
