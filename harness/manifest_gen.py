"""Regenerates /verif/MANIFEST.json from the table below (python3 harness/manifest_gen.py)."""
import json
import importlib
import sys
from pathlib import Path

V = Path(__file__).resolve().parent.parent
sys.path.insert(0, str(V))
BASE = "cd /repo && /venv/bin/python -m pytest -ra -q -p no:cacheprovider --timeout=900 --continue-on-collection-errors"

# property -> (category, technique, level text, level note, design ref)
CLAIMED = {
    "C19": ("model_checking",
            "TLA+ device specs model-checked by TLC; TLC-generated call histories replayed into the real host classes; recorded traces validated by TLC",
            "TLC exhaustively checks the Led/RGBLed/Servo/DCMotor specifications (every invariant and action property the property names, all "
            "argument grids, unbounded history length because the state graph is finite) and validates traces recorded from the real classes "
            "(state + waveform after every call) against them; a divergence of the code from the spec, or an invariant broken on an "
            "implementation state, is reported with the failing clause.",
            "Trusted: TLC, the recorder (public getters + the documented sleep indirection), the argument grids; bounded to grid values and to "
            "the generated histories (all of length 2, random walks of length 8-12).", "DESIGN.md §5 C19"),
    "C04": ("model_checking",
            "TLA+ device specs (side=fw) checked by TLC; TLC-generated call histories rendered as Reduino scripts, transpiled, compiled against a mock Arduino core and executed; per-call pin waveforms and getter printouts validated by TLC",
            "The firmware contract of the four actuators is a TLA+ step relation (levels, delays up to <1 ms per delay, getters, clamping) that TLC "
            "model-checks and then uses to validate the traces of real firmware built from /repo's working tree, for literal and run-time "
            "arguments (also as sensor reads in the argument position, and with the state queries made by a helper defined first); the host "
            "classes are validated against the same specs on the same histories (in depth by C19), so conformance of both sides is agreement between them.",
            "Trusted: TLC, g++, the mock Arduino core (/verif/mock), the projection of pin events to waveforms. Known deviations are matched "
            "exactly by named spec predicates (known_findings.json). Bounded to the grids and generated histories.", "DESIGN.md §5 C04"),
    "C01": ("model_checking",
            "TLA+ Lang spec (Python semantics of the DSL) executed by TLC as the reference; TLC-enumerated program families + seeded random programs run as firmware (g++ + mock Arduino core) and under CPython; both recorded traces validated by TLC (LangTrace)",
            "TLC enumerates the program families (every binary / comparison operator x operand pair, control skeletons to a node bound, "
            "assignment / list / builtin / f-string forms), evaluates every candidate in the Lang specification (well-definedness, trigger "
            "tags) and then judges the event traces recorded from the real firmware and from CPython against the spec's trace, event by "
            "event. CPython disagreeing with the spec is a spec gap, never a violation; the firmware disagreeing is a violation unless the "
            "script was rejected. Known findings are canonical probes whose deviation must equal the recorded signature exactly.",
            "Trusted: TLC, g++, the mock Arduino core, CPython as reference. Bounded to the enumerated families, packing sizes and seeds; "
            "AVR int width is handled by discarding programs whose ints leave the 16-bit range.", "DESIGN.md §5 C01"),
    "C02": ("model_checking",
            "Lang spec with a history variable of runtime types per name; TLC-enumerated TypeFlows (type sequences x 13 sites) and expression "
            "results stored in variables; firmware + CPython traces and declared C++ types validated by TLC (LangTrace: values and Covers)",
            "For every TypeFlow and expression case in the clean stratum TLC checks that the firmware prints Python's values and that the "
            "declared C++ type of every variable, parameter and function result covers the join of the runtime types the spec saw the name "
            "hold. Flows in which a name changes type are the known first-assignment-wins finding, probed with exact signatures.",
            "Trusted: as C01, plus the declaration scanner over the emitter's regular output. Bounded to type sequences of length <= 2, "
            "13 site kinds, the operator grid.", "DESIGN.md §5 C02"),
    "C03": ("model_checking",
            "Lang spec + device specs, neither of which evaluates anything early; TLC evaluates FoldSites x Routings programs and TLC-generated "
            "device call histories are rendered with 8 Python-equivalent routings per argument; firmware traces validated by TLC",
            "Every fold site (sleep, range, arithmetic, analog_write, list index, len of str / list; every numeric argument of Led / RGBLed / "
            "Servo / DCMotor calls) is exercised with the value arriving as a literal, a constant variable, a variable re-assigned after the "
            "site, in taken / untaken branches, in loops that run 0 / 2 times, in called / uncalled functions, or from a sensor; TLC judges the "
            "firmware trace against the spec for the value Python has at that point, so a stale or mis-folded constant is a violation.",
            "Trusted: as C01 and C04. Bounded to the listed sites, routings and two values per site; sampled device histories.", "DESIGN.md §5 C03"),
    "C14": ("model_checking",
            "TLA+ specs Libs and Sketch model-checked by TLC; TLC enumerates device multisets exhaustively (LibsGen); each is rendered as a script and run "
            "through the real parse / emit / _collect_required_libraries; lib_deps, #include lines, library objects and the item sequence of the "
            "emitted text validated by TLC (LibsTrace, SketchTrace); thorough also compiles and links against the mock library headers",
            "TLC checks every clause of the property (requested <=> included <=> instantiated <=> needed, no duplicates, nothing needless, Wire.h "
            "with the I2C group) on the specification, proves the verdict function equivalent to the declarative clauses over a bounded universe "
            "of observations, and validates the observations of the real code for every generated multiset (servos 0..2 over both placements x "
            "parallel LCDs 0..2 x I2C LCDs 0..2 x subsets of the other kinds x 3 script shapes), naming the failing clause.",
            "Trusted: TLC, the light text scanner (selftest trap text), g++ and /verif/mock for the thorough link leg. Bounded to <= 2 devices per "
            "library kind. Devices declared inside compound statements are a probe stratum matched exactly by Libs!KnownNestedDropped.", "DESIGN.md §5 C14"),
    "C15": ("model_checking",
            "TLA+ specs Button / Pot / Ultrasonic model-checked by TLC; TLC-generated sampled signals x call patterns, ADC sequences and echo "
            "schedules executed in firmware (mock core with scripted digitalRead/analogRead/pulseIn/millis) and on the host Button class; "
            "recorded traces validated by TLC",
            "TLC exhaustively checks once-per-pass sampling, click = rising edge of the sampled signal, no click at start-up, stable reads within a "
            "pass, agreement with the host model; one fresh analogRead per read(); trigger spacing >= 60 ms once millis() > 0, <= 3 attempts, the "
            "result and fallback law; and validates every event of traces recorded from real firmware and the real host Button against the same "
            "step relations, naming the failing clause.",
            "Trusted: TLC, g++, the mock core's virtual clock, the projection of raw events by serial markers. 'clock running' = millis() > 0 at the "
            "later trigger; distances compared within print precision. Three known deviations matched exactly (known_findings.json).", "DESIGN.md §5 C15"),
    "C18": ("model_checking",
            "TLA+ spec LCDAnim model-checked by TLC incl. a fairness-based liveness check on a reduced model; TLC-generated behaviours (parameter grid x "
            "tick-time patterns, multi-animation walks, start-placement probes) replayed into the real host LCD class and into firmware; recorded "
            "traces validated event by event by TLC (LCDAnimTrace, impl = host | fw)",
            "TLC checks FrameWidth, FrameInsideRow, NonLoopingStops (<= 2(len+cols)+4 steps), LoopingNeverStops, RateLimit, StartNeverBlocks and "
            "TickOncePerPass in every reachable state of every tick-time sequence over the grids (4 styles x cols 1..5 x text length 0..cols+2 x "
            "loop x speeds), <>~active under weak fairness, and validates traces of the real LCD.tick and of real firmware (millis reads, LCD cell "
            "writes, delay calls, pass markers) against the same specification.",
            "Trusted: TLC, g++, the mock core, the projection in which a firmware tick is identified by its millis() read. Bounded to the grids and "
            "generated schedules. Two known deviations matched exactly.", "DESIGN.md §5 C18"),
    "C05": ("model_checking",
            "TLA+ Board monitor (configure-before-use, never re-moded, phase order, once-per-pass sampling) proved by TLC to accept exactly the "
            "declarative discipline; TLC-enumerated scenarios run as firmware; projected event traces validated by TLC (BoardTrace); persistence across passes judged three-way by Lang",
            "TLC checks MonitorExact (the monitor accepts a history iff the declarative discipline holds) over all event sequences up to the bound, "
            "enumerates device kind x placement (before the loop / top of its body) x first use (setup / loop / helper) x buttons x second device, "
            "and validates the firmware trace of every scenario for 3 passes; break placements that would leave the main loop must be refused; "
            "prologue-once and value persistence are judged against the Lang spec and CPython.",
            "Trusted: TLC, g++, mock core, the projection of raw events (a motor triple is (LOW,LOW,0) = safe stop). Bounded to the scenario grid, "
            "3 passes, one device of each kind plus riders.", "DESIGN.md §5 C05"),
    "C06": ("exploration",
            "transpilation protocol + C06 obligation (Compilable.tla) and structural spec of the emitted text (Sketch.tla) model-checked by TLC; "
            "TLC-enumerated string-literal family, program families and device multisets transpiled and compiled with g++ against the mock core; "
            "observations validated by TLC (CompileTrace, SketchTrace)",
            "The compiler is the oracle for declared-before-use and typing; the specifications supply the program space (every printable character "
            "and escape x 8 literal positions, expression / control / typeflow / fold families, device multisets, a scope family), the protocol "
            "(after Accept only Compile(TRUE); literals read back unchanged from the running firmware) and the structural invariants (one setup/loop, "
            "unique definitions, include <=> class). Known compile failures are matched by the syntactic construct that triggers them.",
            "Trusted: g++ -std=gnu++17 -fpermissive against /verif/mock stands in for avr-gcc (not installed); TLC; the light sketch scanner. "
            "Exploration, not proof: bounded to the enumerated families and seeds.", "DESIGN.md §5 C06"),
    "C07": ("model_checking",
            "TLA+ Layout spec (Python's INDENT/DEDENT block structure, Ignorable, Relayouts) model-checked by TLC; TLC-enumerated re-layouts of 13 skeleton "
            "scripts and a statement-kind x context catalogue run through the real parse()/emit(); IR block paths, output digests and "
            "translated/rejected/skipped outcomes decided by TLC (LayoutTrace); CPython's ast is the reference leg",
            "TLC exhaustively checks the block-structure machine (comment / blank lines never change a path, dedents pop to an enclosing level), "
            "enumerates every re-layout with one deviation (two in thorough) and seeded many-deviation walks over indent unit, comment lines per gap "
            "and column, trailing comments, whitespace and spacing; for each layout CPython's AST must equal the canonical one, the real IR must place "
            "every numbered statement at the spec's path and the emitted C++ must be byte-identical; every statement kind in every context must be "
            "translated, rejected, or in the spec's fixed ignorable set (observed through the REDUINO_VERIF hook and black-box).",
            "Trusted: TLC, CPython ast as reference, the unique-number locator. Bounded to the skeletons, <= 2 exhaustive deviations + walks, the 82-kind "
            "catalogue. Known deviations matched exactly (KnownShape / KnownReject / KnownDrop).", "DESIGN.md §5 C07"),
    "C08": ("model_checking",
            "TLA+ spec of Python's call-argument binding (Bind) model-checked by TLC over all small signatures; TLC-enumerated call shapes of every host-API "
            "callable executed by inspect.Signature.bind (reference) and by the real parser (IR fields); observed bindings validated by TLC (BindTrace)",
            "Python's binding algorithm is a TLA+ machine whose equivalence with its closed form and with the property's statement TLC checks for "
            "every signature <= 3 (thorough 4) parameters and every shape. For the 75 documented callables TLC enumerates every positional/keyword "
            "split x keyword subset x order x omitted defaults plus illegal shapes; each shape is bound by inspect on the host signature and parsed "
            "by the real transpiler, and TLC judges every record: IR field = Python's binding, or rejected.",
            "Trusted: TLC, inspect, the hand-built table parameter->IR field (harness/bind_rec.py). Parse-only. Shapes Python rejects are counted, not "
            "judged. LCD constructor keyword orders capped at 5 in thorough.", "DESIGN.md §5 C08"),
    "C09": ("model_checking",
            "heap law (Heap.tla) as a TLC-checked monitor over alloc/free/pass/memerr events, with IndexError-freedom and live data per pass computed by "
            "the Lang spec; TLC-enumerated list/str operation histories run as ASan+UBSan firmware with allocation tracing; traces validated by TLC (HeapTrace)",
            "Every history of <= 2 (thorough 3) list/str operations x three placements relative to the main loop that the Lang spec finds free of "
            "IndexError/ValueError is executed for 4 passes under AddressSanitizer/UBSan with operator new[]/delete[] interposed; TLC checks "
            "free-only-live, no double free, no sanitizer report, and heap constant from pass to pass whenever the spec's live Python data is.",
            "Trusted: TLC, ASan/UBSan as observers of out-of-bounds and use-after-free, the mock runtime's allocator interposition. String buffers are "
            "std::string in the mock (sanitizer only). Two known deviations probed with exact signatures.", "DESIGN.md §5 C09"),
    "C12": ("model_checking",
            "TLA+ workflow spec of target() with faults (Target.tla) model-checked by TLC over all 192 configurations x fault points; every configuration "
            "executed against the real target() with recording fakes and the fault injected, for 10 calling scripts; recorded event traces validated by TLC",
            "TLC exhaustively checks the named invariants (nothing before validation, PlatformIO only if upload, missing PlatformIO is a RuntimeError before "
            "any write, upload only after a successful build, run iff upload, failures propagate, returns exactly emit(parse(text)), ini names the "
            "given configuration) and validates 1 920 (thorough 9 600) traces of the real target(), one per configuration, fault point and script.",
            "Trusted: TLC, the recording fakes (subprocess / shutil.which / tempfile / __main__), the audit-hook file observer, configparser. One fault "
            "per call; real PlatformIO is never run.", "DESIGN.md §5 C12"),
    "C13": ("model_checking",
            "TLA+ specs of the board registry (exported from the code at check time) and of project generation over an abstract file system, checked by TLC; "
            "the full product of candidate platform x board names and TLC-emitted library lists executed against the real validate_platform_board / "
            "write_project; outcomes, main.cpp bytes, platformio.ini read back through configparser and directory listings validated by TLC",
            "TLC evaluates the registry law on the exported registry and decides every one of 19 734 (thorough 73 140) real validations and 1 242 "
            "(thorough 11 742) real write_project calls - every board id, every library list of length <= 4, generated ports, sources incl. non-ASCII; "
            "Dedup / Sanitize laws hold for all lists and ids; the abstract FS machine keeps RoundTrip and OtherDirectoriesUntouched.",
            "Trusted: TLC, ConfigParser(interpolation=None) as the standard INI reader, audit-hook + digest observer. Ports: printable, no line breaks, "
            "no leading/trailing whitespace (not representable in an INI value).", "DESIGN.md §5 C13"),
    "C16": ("model_checking",
            "TLA+ Buzzer spec (tone protocol as ToneOn/ToneOff/Wait micro-steps) model-checked by TLC; TLC-generated call histories rendered as packed "
            "scripts (literal and run-time arguments), compiled against the mock core and executed; per-call tone/noTone/delay waveforms and getter "
            "printouts validated by TLC (BuzzerTrace)",
            "The tone protocol is a TLA+ step relation transcribed from the property statement (no host model exists). TLC checks all named invariants "
            "(no tone at <= 0 Hz, silent after timed calls, beep count and gaps, sweep monotone / ends on end / within duration, melody follows the "
            "score with 60000/tempo scaling, getters track the tone) in every micro-state of call sequences of every length over the grids, then "
            "validates firmware traces of every grid call, call pairs and random walks as members of that relation.",
            "Trusted: TLC, g++, mock core, the reading of the informal statement where it is silent (notes/C16.md). The spec's copy of the tunes is "
            "cross-checked against the emitter's table (mismatch = SPEC-GAP). Three known deviations matched exactly.", "DESIGN.md §5 C16"),
    "C17": ("model_checking",
            "TLA+ spec LCDText (cell matrix, backlight, glyph slots, progress) model-checked by TLC; TLC-generated call histories executed on the host LCD "
            "class and as firmware against a mock HD44780; both traces validated by TLC against the same spec",
            "Every generated LCD call history (random walks over cols {1..5,8,16,20,40} x rows 1..4 x wirings, plus every call of the exhaustive small "
            "text grid) runs on Reduino.Displays.LCD and as firmware; every recorded call on both sides must be a step LCDText allows. Text placement "
            "is a function of the call, so two accepted traces have identical cells; progress fill is membership in the allowed set plus monotonicity; "
            "backlight pin = IF on THEN brightness ELSE 0; glyph uploads are 8 five-bit rows.",
            "Trusted: TLC, g++, the mock LiquidCrystal (visible window, row clamp). Bounded: exhaustive single-call grid to cols 5 x rows 2; larger "
            "geometries by seeded walks. Four known deviations matched exactly.", "DESIGN.md §5 C17"),
    "C20": ("model_checking",
            "TLA+ specs CorePins, Utils, HostSensors, SerialMon model-checked by TLC; TLC-generated call histories replayed in-process into the real host "
            "modules (fake pyserial, replaced time.sleep, provider callables); recorded traces validated by TLC",
            "TLC exhaustively checks read-your-writes, int/str aliasing, non-interference, clamp, pull-up default (unbounded histories over the grids), "
            "map endpoints / midpoint law and zero-span refusal, sleep once / ms/1000 / negatives refused, click = rising edge for all signals to 6-8 "
            "samples, the serial write / connect / close machine, and validates traces recorded from the real modules, with exact rational "
            "comparison of map on Fraction arguments and a stated 1e-9 tolerance on floats.",
            "Trusted: TLC, the recorders. Bounded to dyadic grid values and the generated histories. Two known deviations matched exactly.", "DESIGN.md §5 C20"),
    "C10": ("model_checking",
            "TLA+ spec Session model-checked by TLC; TLC-enumerated session schedules executed in fresh interpreters per hash seed (incl. split parse/emit "
            "and, thorough, two threads); event traces (script, sha256 of the C++, module-state equality) validated by TLC (SessionTrace)",
            "TLC exhaustively checks Session (OneDigestPerScript, KnownStable, SeedFixedWhileAlive) and enumerates every schedule of <= 4 emit(parse()) "
            "calls and every complete split parse/emit schedule over 3-subsets of a 54-script promotion-heavy corpus x 8 (thorough 16) hash seeds; each "
            "schedule runs in a fresh interpreter with that PYTHONHASHSEED and the recorded events are validated with named clauses "
            "(digest-differs-across-seeds, digest-depends-on-history, module-state-mutated).",
            "Trusted: TLC, sha256, the module-state snapshot (bindings named _verif* are the hook's own log). Bounded by the corpus, seeds and schedule "
            "length; platform ordering exercised only through PYTHONHASHSEED on one CPython build.", "DESIGN.md §5 C10"),
    "C11": ("exploration",
            "TLA+ specs Sandbox (allowed audit events) and Pipeline (outcome classes) checked by TLC; TLC-enumerated slot x payload stimuli plus stdlib "
            "sources, fragments and hypothesis noise run in pooled audited workers with a CPU watchdog; traces validated by TLC",
            "TLC enumerates 72 syntactic slots x 79 hostile or odd payloads, each script carrying canaries; every input runs in a worker with "
            "sys.addaudithook installed before Reduino is imported, a 2 s CPU watchdog and an address-space limit; the trace (audit events with "
            "compile-flag kind, outcome class, time bucket, canary, module-state equality) is validated by SandboxTrace / PipelineTrace with total "
            "verdicts naming the forbidden effect or outcome; beyond the grid: interpreter stdlib sources, function fragments and hypothesis noise.",
            "Effects are detected only through the PEP 578 audit hook, the canaries and the snapshots; 'promptly' = <= 2 s CPU; 'not Python' = CPython's "
            "compile() refuses the text. Exploration: beyond the enumerated grid coverage is seeded sampling.", "DESIGN.md §5 C11"),
}
NOT_YET = {}


def main():
    props = [json.loads(l) for l in (V / "properties.jsonl").read_text().splitlines() if l.strip()]
    checks, na = [], []
    for p in props:
        pid = p["id"]
        if pid in CLAIMED:
            cat, tech, text, note, ref = CLAIMED[pid]
            checks.append({
                "property_id": pid,
                "quick_cmd": f"./check {pid} --tier quick",
                "thorough_cmd": f"./check {pid} --tier thorough",
                "evidence_file": f"evidence/{pid}.json",
                "replay_cmd_template": f"./check {pid} --replay {{path}}",
                "engine": "tlc",
                "level_claimed": {"category": cat, "text": text, "design_ref": ref},
                "level_note": note,
                "technique": tech,
            })
        else:
            na.append({"property_id": pid, "reason": NOT_YET.get(pid, "check not built yet in this revision (planned: see DESIGN.md §5); nothing is claimed for it")})
    m = {
        "version": 1,
        "setup_cmd": "./setup.sh",
        "hooks": {"guard": "REDUINO_VERIF", "enable": "checks run /repo/src from the working tree with REDUINO_VERIF=1 in the environment",
                  "baseline_off_cmd": BASE, "source_commits": ["1ed986b"], "add_only": True},
        "engines": [{"name": "tlc", "path": "harness/tlc.py", "serves_properties": sorted(CLAIMED),
                     "kind_free_text": "TLC 1.8 (model checking of tla/*.tla, behaviour generation, batch trace validation) driven by harness/*.py; "
                                       "firmware leg = emitted C++ compiled with g++ against mock/ and executed"}],
        "checks": checks,
        "not_applicable": na,
        "notes": "Every check: exit 0 = held on everything explored (KNOWN-FINDING lines allowed), exit 1 + VIOLATION line, exit 2 = machinery failure.",
    }
    (V / "MANIFEST.json").write_text(json.dumps(m, indent=1) + "\n")
    import jsonschema
    jsonschema.validate(m, json.load(open("/root/.vp/MANIFEST.schema.json")))
    print("MANIFEST.json written:", len(checks), "checks,", len(na), "not_applicable")


if __name__ == "__main__":
    main()
