"""Shared paths, scratch handling and small helpers for the Reduino verification harness."""
from __future__ import annotations

import atexit
import json
import os
import shutil
import sys
import tempfile
import time
from pathlib import Path

VERIF = Path(__file__).resolve().parent.parent
REPO = Path(os.environ.get("REDUINO_REPO", "/repo"))
REPO_SRC = REPO / "src"
MOCK = VERIF / "mock"
TLA = VERIF / "tla"
BUILD = VERIF / "build"
# VERIF_OUT=<dir>: evidence and replay files of this run go there (used when checks are run against seeded changes,
# so that /verif/evidence keeps describing /repo's unchanged tree)
_OUT = Path(os.environ["VERIF_OUT"]) if os.environ.get("VERIF_OUT") else VERIF
EVIDENCE = _OUT / "evidence"
REPLAYS = _OUT / "replays"
GUARD = "REDUINO_VERIF"
NCPU = min(16, os.cpu_count() or 4)

# Always run the code of /repo's *current working tree*, with the verification guard on.
os.environ.setdefault(GUARD, "1")
os.environ.setdefault("PYTHONHASHSEED", "0")
if str(REPO_SRC) not in sys.path:
    sys.path.insert(0, str(REPO_SRC))

_scratch: Path | None = None


def scratch() -> Path:
    """Per-process scratch directory outside /repo and /verif, removed at exit."""
    global _scratch
    if _scratch is None:
        base = os.environ.get("VERIF_SCRATCH") or tempfile.gettempdir()
        _scratch = Path(tempfile.mkdtemp(prefix=f"reduino-verif-{os.getpid()}-", dir=base))
        atexit.register(lambda p=_scratch: shutil.rmtree(p, ignore_errors=True))
    return _scratch


def subdir(name: str) -> Path:
    d = scratch() / name
    d.mkdir(parents=True, exist_ok=True)
    return d


def seed_from_env(default: int = 1) -> int:
    try:
        return int(os.environ.get("VERIF_SEED", default))
    except ValueError:
        return default


class Timer:
    def __init__(self) -> None:
        self.t0 = time.time()

    def s(self) -> float:
        return round(time.time() - self.t0, 2)


def dumps(o) -> str:
    return json.dumps(o, sort_keys=True, separators=(",", ":"))


class MachineryError(Exception):
    """The checker itself failed (TLC/SANY error, compiler missing, ...): exit status 2, never a VIOLATION."""
