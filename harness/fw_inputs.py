"""C15 machinery - firmware inputs (Button, Potentiometer, Ultrasonic) and the host-side Button.

* script shapes: small Reduino scripts, one per call pattern, transpiled by /repo's working tree and compiled ONCE
  against the mock Arduino core; the same firmware is then run with many scripted input files
  (`d <pin> levels`, `a <pin> values`, `p <pin> echo_us` (0 = timeout), `x <ms per pass>`, `t <start ms>`);
* projections: raw mock-core events -> the abstract events of tla/Button.tla, tla/Pot.tla, tla/Ultrasonic.tla
  (the Button projection is shared with the host recorder: same vocabulary on both sides);
* host recorder: the real Reduino.Sensors.Button driven with a per-pass signal.
Verdicts are never computed here: the abstract traces go to TLC (ButtonTrace / PotTrace / UltrasonicTrace)."""
from __future__ import annotations

import concurrent.futures as cf
import os
import subprocess
import tempfile
from pathlib import Path

from . import common  # noqa: F401  (sys.path -> $REDUINO_REPO/src)
from . import fw
from .common import NCPU, MachineryError, scratch

HEADER = """from Reduino import target
from Reduino.Sensors import Button, Potentiometer, Ultrasonic
from Reduino.Communication import SerialMonitor
from Reduino.Utils import sleep

target("COM3", upload=False)
mon = SerialMonitor(9600)
"""
APIN = {"A0": 14, "A1": 15, "A2": 16, "A3": 17, "A4": 18, "A5": 19}
PIN_A = {v: k for k, v in APIN.items()}


def _ind(lines, n=1):
    return "".join("    " * n + ln + "\n" for ln in lines)


# ------------------------------------------------------------------------------------------------ shapes
# A shape = {"src": script, "kind": "button"|"pot"|"us", ...meta used by the projection}.
# Markers: "c<i>" handler of button i ran; "r<i>" the next print is the value of button i's is_pressed();
# "R<i>" same, but evaluated inside another button's handler; "T<i>"/"F<i>" is_pressed() was truthy / falsy;
# "#p<i>" the next analogRead+print belong to one read() of pot i; "#u<i>" ... "float" one measure_distance().

def _btn_read(i, name=None):
    name = name or f"b{i}"
    return [f'mon.write("r{i}")', f"mon.write({name}.is_pressed())"]


def button_shape(shape: str) -> dict:
    """Single-button shapes on pin 7 (handler h0 prints c0) unless stated otherwise."""
    pre = "def h0():\n" + _ind(['mon.write("c0")'])
    decl = "b0 = Button(7, on_click=h0)\n"
    meta = {"kind": "button", "shape": shape, "buttons": [{"i": 0, "pin": 7, "decl": "setup"}], "feed": None}
    if shape in ("k0", "k1", "k2", "k3"):
        k = int(shape[1])
        body = sum((_btn_read(0) for _ in range(k)), []) or ['mon.write("idle")']
        meta["k"] = k
    elif shape == "if":          # truthiness in a condition, then through a variable: 2 reads per pass
        body = ["if b0.is_pressed():", '    mon.write("T0")', "else:", '    mon.write("F0")',
                "v = b0.is_pressed()", 'mon.write("r0")', "mon.write(v)"]
        meta["k"] = 2
    elif shape == "fn":          # is_pressed() inside a user function (defined after the button)
        decl += "def chk():\n" + _ind(["return b0.is_pressed()"])
        body = ['mon.write("r0")', "mon.write(chk())"]
        meta["k"] = 1
    elif shape == "nohandler":
        pre, decl = "", "b0 = Button(7)\n"
        body = _btn_read(0)
        meta["k"] = 1
    elif shape == "positional":  # on_click given positionally
        decl = "b0 = Button(7, h0)\n"
        body = _btn_read(0)
        meta["k"] = 1
    elif shape == "mixed":       # a blocking ultrasonic measurement and a pot read between two is_pressed() calls
        decl += 'us = Ultrasonic(trig=8, echo=9)\npot = Potentiometer("A2")\n'
        body = _btn_read(0) + ["d = us.measure_distance()", "mon.write(d)", "mon.write(pot.read())"] + _btn_read(0)
        meta["k"] = 2
    elif shape == "dyn":         # every pass decides at run time (scripted ADC on A0) which of 3 call sites execute
        decl += 'feed = Potentiometer("A0")\n'
        body = []
        for _ in range(3):
            body += ["if feed.read() == 1:"] + ["    " + ln for ln in _btn_read(0)]
        meta["k"] = 9
        meta["feed"] = 14
    elif shape == "multi":       # three buttons polled in one pass, read in another order than they are polled
        pre = "def h0():\n" + _ind(['mon.write("c0")']) + "def h1():\n" + _ind(['mon.write("c1")'])
        decl = "b0 = Button(5, on_click=h0)\nb1 = Button(6, on_click=h1)\nb2 = Button(9)\n"
        body = _btn_read(2) + _btn_read(0) + _btn_read(1)
        meta["k"] = 1
        meta["buttons"] = [{"i": 0, "pin": 5, "decl": "setup"}, {"i": 1, "pin": 6, "decl": "setup"}, {"i": 2, "pin": 9, "decl": "setup"}]
    elif shape == "fnwhile":     # is_pressed() in the condition of a `while` inside a helper that the loop calls
        decl += "def held():\n" + _ind(["n = 0", "while b0.is_pressed() and n < 3:", "    n += 1", "return n"])
        body = _btn_read(0) + ['mon.write("hn")', "mon.write(held() + 10)"] + _btn_read(0)
        meta["k"] = 2
    elif shape == "samepin":     # two Button objects on ONE pin (two handlers for one physical button)
        pre = "def h0():\n" + _ind(['mon.write("c0")']) + "def h1():\n" + _ind(['mon.write("c1")'])
        decl = "b0 = Button(7, on_click=h0)\nb1 = Button(7, on_click=h1)\n"
        body = _btn_read(1) + _btn_read(0)
        meta["k"] = 1
        meta["buttons"] = [{"i": 0, "pin": 7, "decl": "setup", "nth": 0, "of": 2}, {"i": 1, "pin": 7, "decl": "setup", "nth": 1, "of": 2}]
    elif shape == "shared":      # three buttons, ONE on_click handler for all of them
        pre = "def h0():\n" + _ind(['mon.write("cs")'])
        decl = "b0 = Button(5, on_click=h0)\nb1 = Button(6, on_click=h0)\nb2 = Button(9, on_click=h0)\n"
        body = ['mon.write("tick")']
        meta["k"] = 0
        meta["buttons"] = [{"i": 0, "pin": 5, "decl": "setup"}, {"i": 1, "pin": 6, "decl": "setup"}, {"i": 2, "pin": 9, "decl": "setup"}]
    elif shape == "readme":      # README style: no main loop, is_pressed() evaluated in setup(); the loop only polls
        meta["k"] = 0
        meta["src"] = HEADER + pre + decl + "if b0.is_pressed():\n" + _ind(['mon.write("T0")']) + "else:\n" + _ind(['mon.write("F0")']) \
            + 'mon.write("r0")\nmon.write(b0.is_pressed())\n'
        return meta
    elif shape == "xhandler":    # PROBE: button z read inside the handler of button a, which is polled before z
        pre = ""
        decl = ("z = Button(5)\ndef h0():\n" + _ind(['mon.write("c0")', 'mon.write("R1")', "mon.write(z.is_pressed())"])
                + "a = Button(7, on_click=h0)\n")
        body = _btn_read(1, "z")
        meta["k"] = 1
        meta["buttons"] = [{"i": 0, "pin": 7, "decl": "setup"}, {"i": 1, "pin": 5, "decl": "setup"}]
    elif shape == "loopdecl":    # PROBE: the Button is constructed inside the main loop body
        decl = ""
        body = ["b0 = Button(7, on_click=h0)"] + _btn_read(0)
        meta["k"] = 1
        meta["buttons"] = [{"i": 0, "pin": 7, "decl": "loop"}]
    else:
        raise AssertionError(shape)
    meta["src"] = HEADER + pre + decl + "while True:\n" + _ind(body)
    return meta


def pot_shape(shape: str) -> dict:
    meta = {"kind": "pot", "shape": shape}
    one = lambda i, nm: [f'mon.write("#p{i}")', f"mon.write({nm}.read())"]  # noqa: E731
    if shape in ("direct1", "direct2", "direct3"):
        k = int(shape[-1])
        pin = {1: "A0", 2: "A1", 3: "A3"}[k]
        decl, setup, body = f'p0 = Potentiometer("{pin}")\n', "", sum((one(0, "p0") for _ in range(k)), [])
        meta.update(pots=[{"i": 0, "pin": APIN[pin]}], per_pass=[0] * k, in_setup=[])
    elif shape == "var":         # through a variable, as in the README example
        decl, setup = 'p0 = Potentiometer("A5")\n', ""
        body = ['mon.write("#p0")', "value = p0.read()", "mon.write(value)"]
        meta.update(pots=[{"i": 0, "pin": 19}], per_pass=[0], in_setup=[])
    elif shape == "setup":       # one read before the loop (kept in a global), one per pass
        decl = 'p0 = Potentiometer("A0")\n'
        setup = 'mon.write("#p0")\nfirst = p0.read()\nmon.write(first)\n'
        body = one(0, "p0") + ["mon.write(first)"]
        meta.update(pots=[{"i": 0, "pin": 14}], per_pass=[0], in_setup=[0])
    elif shape == "two":         # two potentiometers read alternately, one of them inside a user function
        decl = 'p0 = Potentiometer("A1")\np1 = Potentiometer("A3")\ndef rd():\n' + _ind(["return p1.read()"])
        setup = ""
        body = one(0, "p0") + ['mon.write("#p1")', "mon.write(rd())"] + one(0, "p0") + one(1, "p1")
        meta.update(pots=[{"i": 0, "pin": 15}, {"i": 1, "pin": 17}], per_pass=[0, 1, 0, 1], in_setup=[])
    elif shape == "discard":     # a read() whose result is thrown away (a settling read), in the loop, a branch and a helper
        decl = 'p0 = Potentiometer("A1")\ndef settle():\n' + _ind(['mon.write("#d0")', "p0.read()"])
        setup = "flip = 0\n"
        body = ['mon.write("#d0")', "p0.read()"] + one(0, "p0") + ["flip = 1 - flip", "if flip == 1:", '    mon.write("#d0")', "    p0.read()", "settle()"] + one(0, "p0")
        meta.update(pots=[{"i": 0, "pin": 15}], per_pass=[0] * 5, in_setup=[])
    elif shape == "rebound":     # ONE variable bound to a potentiometer on A1, read, then bound to one on A3: read() reads the pin of
        decl = 'p0 = Potentiometer("A1")\n'                      # the device the name holds NOW
        setup = 'mon.write("#p0")\nmon.write(p0.read())\np0 = Potentiometer("A3")\nmon.write("#p1")\nmon.write(p0.read())\n'
        body = ['mon.write("#p1")', "mon.write(p0.read())", 'mon.write("#p1")', "level = p0.read()", "mon.write(level)"]
        meta.update(pots=[{"i": 0, "pin": 15}, {"i": 1, "pin": 17}], per_pass=[1, 1], in_setup=[0, 1])
    elif shape == "inbool":      # read() as an operand of `or` / `and` / `not` / a conditional expression: still ONE read per call
        decl = 'p0 = Potentiometer("A1")\n'
        setup = "zero = 0\none = 1\nkeep = 0\n"
        body = ['mon.write("#d0")', "if p0.read() or zero:", '    mon.write("nz")', 'mon.write("#d0")', "keep = p0.read() and one", 'mon.write("#d0")',
                "if not p0.read():", '    mon.write("z")', 'mon.write("#d0")', "keep = one if p0.read() else zero", 'mon.write("#d0")', "if zero or p0.read() or one:", '    mon.write("any")']
        meta.update(pots=[{"i": 0, "pin": 15}], per_pass=[0] * 5, in_setup=[])
    elif shape == "comp":        # a burst of samples: the element expression of a comprehension runs once per element
        decl, setup = 'p0 = Potentiometer("A1")\n', ""
        body = ['mon.write("#q0x3")', "burst = [p0.read() for k in range(3)]", "mon.write(burst[0])", "mon.write(burst[1])", "mon.write(burst[2])"]
        meta.update(pots=[{"i": 0, "pin": 15}], per_pass=[0] * 3, in_setup=[])
    elif shape in ("tuple2", "tuple3fn", "seqsum"):
        # several read() calls of one potentiometer inside ONE statement / expression list: the marker "#q0x<n>" announces
        # n calls whose results are printed afterwards in evaluation order (project_pot re-serialises them)
        decl, setup = 'p0 = Potentiometer("A1")\n', ""
        if shape == "tuple2":
            setup = "first = 0\nsecond = 0\n"
            body = ['mon.write("#q0x2")', "first, second = p0.read(), p0.read()", "mon.write(first)", "mon.write(second)"]
            k = 2
        elif shape == "tuple3fn":
            decl += "def grab():\n" + _ind(["ra = 0", "rb = 0", "rc = 0", 'mon.write("#q0x3")', "ra, rb, rc = p0.read(), p0.read(), p0.read()",
                                            "mon.write(ra)", "mon.write(rb)", "mon.write(rc)"])
            body = ["grab()"]
            k = 3
        # (a list literal `[p0.read(), p0.read()]` is not used here: its elements are function-call arguments in the emitted
        #  C++, evaluated in an order C++ leaves open - each call still reads afresh; the order is C01's finding operand-evaluation-order)
        else:
            body = ['mon.write("#q0x2")', "ra = p0.read()", "rb = ra + p0.read()", "mon.write(ra)", "mon.write(rb - ra)"]
            k = 2
        meta.update(pots=[{"i": 0, "pin": 15}], per_pass=[0] * k, in_setup=[])
    else:
        raise AssertionError(shape)
    meta["src"] = HEADER + decl + setup + "while True:\n" + _ind(body)
    return meta


def us_shape(setup_call: bool, inpass: tuple, variant: str = "direct") -> dict:
    """One HC-SR04 on trig 8 / echo 9.  inpass: sleeps (ms) between the calls of one pass."""
    if variant == "direct":
        call = ['mon.write("#u0")', "mon.write(us.measure_distance())"]
    else:                        # through a variable, sensor type given explicitly
        call = ['mon.write("#u0")', "d = us.measure_distance()", "mon.write(d)"]
    decl = "us = Ultrasonic(trig=8, echo=9)\n" if variant == "direct" else 'us = Ultrasonic(8, 9, sensor="HC-SR04")\n'
    setup = "".join(ln + "\n" for ln in call) if setup_call else ""
    body = list(call)
    for g in inpass:
        if g:
            body.append(f"sleep({int(g)})")
        body += call
    return {"kind": "us", "shape": f"{'s' if setup_call else 'n'}-{'.'.join(map(str, inpass)) or 'one'}-{variant}",
            "setup_call": bool(setup_call), "inpass": list(inpass), "sensors": [{"i": 0, "trig": 8, "echo": 9}],
            "src": HEADER + decl + setup + "while True:\n" + _ind(body)}


def us_two_shape() -> dict:
    """Two sensors measured alternately: each keeps its own back-off clock and last good reading."""
    src = (HEADER + "u0 = Ultrasonic(trig=8, echo=9)\nu1 = Ultrasonic(trig=10, echo=11)\nwhile True:\n"
           + _ind(['mon.write("#u0")', "mon.write(u0.measure_distance())", 'mon.write("#u1")', "mon.write(u1.measure_distance())",
                   'mon.write("#u0")', "mon.write(u0.measure_distance())"]))
    return {"kind": "us", "shape": "two", "setup_call": False, "inpass": [],
            "sensors": [{"i": 0, "trig": 8, "echo": 9}, {"i": 1, "trig": 10, "echo": 11}], "src": src}


# ------------------------------------------------------------------------------------------------ build / run
def _build_one(args):
    key, src, outdir = args
    t = fw.transpile(src)
    if t["status"] != "accept":
        return key, {"status": "transpile-" + t["status"], "cls": t.get("cls"), "msg": t.get("msg")}
    d = Path(tempfile.mkdtemp(prefix="c15fw-", dir=outdir))
    (d / "sketch.cpp").write_text(t["cpp"])
    rt = fw.ensure_runtime(False)
    p = subprocess.run([fw.CXX, *fw.BASE_FLAGS, str(d / "sketch.cpp"), str(rt), "-o", str(d / "fw")], capture_output=True, text=True)
    if p.returncode != 0:
        return key, {"status": "compile-fail", "msg": p.stderr[-1500:], "cpp": t["cpp"]}
    return key, {"status": "ok", "bin": str(d / "fw"), "cpp": t["cpp"]}


def build_all(shapes: dict) -> dict:
    """shapes: {key: meta-with-src}.  Transpile (current working tree) and compile each once, in parallel."""
    fw.ensure_runtime(False)
    out = str(scratch())
    jobs = [(k, m["src"], out) for k, m in shapes.items()]
    if not jobs:
        return {}
    with cf.ProcessPoolExecutor(max_workers=min(8, len(jobs))) as ex:
        return dict(ex.map(_build_one, jobs, chunksize=1))


def _run_one(args):
    binpath, passes, inputs = args
    fd, name = tempfile.mkstemp(prefix="in-", dir=os.path.dirname(binpath))
    with os.fdopen(fd, "w") as f:
        f.write(inputs)
    try:
        r = subprocess.run([binpath, str(passes), name], capture_output=True, text=True, timeout=30, errors="replace")
        if r.returncode != 0:
            return {"rc": r.returncode, "events": fw.parse_events(r.stdout), "stderr": r.stderr[-500:]}
        return {"rc": 0, "events": fw.parse_events(r.stdout)}
    except subprocess.TimeoutExpired:
        return {"rc": -9, "events": [], "stderr": "firmware run timed out"}
    finally:
        os.unlink(name)


def run_all(jobs: list) -> list:
    """jobs: [(bin, passes, inputs-text)] -> [{"rc", "events"}] (same order)."""
    if not jobs:
        return []
    with cf.ThreadPoolExecutor(max_workers=min(8, NCPU)) as ex:
        return list(ex.map(_run_one, jobs))


# ------------------------------------------------------------------------------------------------ inputs
def button_inputs(meta: dict, sigs: list, reads: list | None = None) -> tuple:
    """sigs: one sampled signal per button of the shape (first element = the sample taken in setup()).
    A button declared in the loop has no setup sample: its signal is fed from the first pass on.
    reads (shape dyn): number of is_pressed() calls per pass.  -> (passes, inputs text)"""
    lines, passes = [], None
    by_pin: dict = {}
    for b, sig in zip(meta["buttons"], sigs):
        n = len(sig) - (1 if b["decl"] == "setup" else 0)
        passes = n if passes is None else passes
        if n != passes:
            raise MachineryError("signals of one firmware run must have the same length")
        by_pin.setdefault(b["pin"], []).append(list(sig))
    for pin, ss in by_pin.items():        # several Button objects on one pin read it one after the other in every phase
        inter = [s[t] for t in range(len(ss[0])) for s in ss] if len(ss) > 1 else ss[0]
        lines.append(f"d {pin} " + " ".join(map(str, inter)))
    if meta.get("feed") is not None:
        feed = []
        for n in reads or []:
            feed += [1] * n + [0] * (3 - n)
        lines.append(f"a {meta['feed']} " + " ".join(map(str, feed + [0])))
    if meta["shape"] == "mixed":
        lines += ["p 9 580 0 0 0 1200", "a 16 3 700", "x 7"]
    return passes, "\n".join(lines) + "\n"


def pot_inputs(meta: dict, adcs: list, passes: int) -> str:
    """adcs: per pot the ADC values delivered to its successive reads (cycled when the run needs more)."""
    lines = []
    for p, seq in zip(meta["pots"], adcs):
        need = meta["in_setup"].count(p["i"]) + passes * meta["per_pass"].count(p["i"])
        vals = [seq[j % len(seq)] for j in range(max(need, 1))]
        lines.append(f"a {p['pin']} " + " ".join(map(str, vals)))
    return "\n".join(lines) + "\n"


def us_inputs(meta: dict, beh: dict) -> tuple:
    """beh = UltrasonicGen output {t0, setup, inpass, passes, calls: [{gap, echoes}]} -> (passes, inputs text)."""
    per = len(meta["inpass"]) + 1
    calls = beh["calls"]
    echoes = [e for c in calls for e in c["echoes"]]
    loop_calls = calls[1:] if meta["setup_call"] else calls
    xs = [loop_calls[j]["gap"] for j in range(0, len(loop_calls), per)]
    txt = f"p {meta['sensors'][0]['echo']} " + " ".join(map(str, echoes + [0])) + "\n"
    txt += "x " + " ".join(map(str, xs or [0])) + "\n" + f"t {beh['t0']}\n"
    return beh["passes"], txt


# ------------------------------------------------------------------------------------------------ projections
def _inputs_clock(inputs: str) -> tuple:
    t0, xs = 0, []
    for ln in inputs.splitlines():
        f = ln.split()
        if f and f[0] == "t":
            t0 = int(f[1])
        elif f and f[0] == "x":
            xs = [int(v) for v in f[1:]]
    return t0, xs


def with_clock(events: list, inputs: str) -> list:
    """Annotate every raw event with the millisecond clock AFTER it (the mock core's virtual clock: start value,
    per-pass increments, delay(), pulseIn()).  Every millis() read in the log must agree - else the machinery is off."""
    t0, xs = _inputs_clock(inputs)
    # a negative start value means "that many ms before the unsigned long clock rolls over": the readings of millis()
    # are compared modulo 2^64 (the width of unsigned long on the host), the projected clock stays a small signed number
    clock, out = t0, []
    for e in events:
        k = e.get("e")
        if k == "phase" and e.get("v") == "loop" and xs:
            i = e["k"] - 1
            clock += xs[i if i < len(xs) else len(xs) - 1]
        elif k == "d":
            clock += e["ms"]
        elif k == "pulse":
            clock += (e["r"] if e["r"] > 0 else e["to"]) // 1000
        elif k == "ms" and (e["r"] - clock) % (1 << 64) != 0:
            raise MachineryError(f"virtual clock mismatch: millis() returned {e['r']}, projection computed {clock}")
        out.append((e, clock))
    return out


def _is_str(e, prefix=None):
    return e.get("e") == "w" and e.get("t") == "s" and isinstance(e.get("v"), str) and (prefix is None or e["v"].startswith(prefix))


def project_button(events: list, i: int, pin: int, hc: int = -1, nth: int = 0, of: int = 1) -> list:
    """Abstract Button events of button i (pin) from a firmware log.  When `of` Button objects share the pin (they are
    sampled in declaration order in every phase), this button owns the reads number nth, nth+of, ... of each phase."""
    out, n, j = [], len(events), 0
    seen = 0
    while j < n:
        e = events[j]
        k = e.get("e")
        if k == "phase":
            seen = 0
            out.append({"k": {"setup": "setup", "loop": "pass", "end": "end"}[e["v"]], "v": hc if e["v"] == "end" else 0, "h": 0})
        elif k == "dr" and e.get("p") == pin:
            if seen % of == nth:
                out.append({"k": "sample", "v": e["r"], "h": 0})
            seen += 1
        elif _is_str(e):
            v = e["v"]
            if v == f"c{i}":
                out.append({"k": "click", "v": 0, "h": 0})
            elif v in (f"T{i}", f"F{i}"):
                out.append({"k": "read", "v": 1 if v[0] == "T" else 0, "h": 0})
            elif v in (f"r{i}", f"R{i}"):
                nx = events[j + 1] if j + 1 < n else {}
                val = nx.get("v") if nx.get("e") == "w" and nx.get("t") == "i" and isinstance(nx.get("v"), int) else -1
                out.append({"k": "read", "v": val, "h": 1 if v[0] == "R" else 0})
                if val != -1:
                    j += 1
        j += 1
    return out


def project_shared(events: list, pins: list) -> list:
    """Events of tla/ButtonShared.tla: per phase the samples of every button (last one taken), how many were taken, and how
    often the shared handler (prints "cs") ran."""
    out, cur = [], None

    def close():
        if cur is None:
            return
        if cur["k"] == "setup":
            out.append({"k": "setup", "s": [cur["last"].get(p, 0) for p in pins], "n": [cur["cnt"].get(p, 0) for p in pins], "c": cur["c"]})
        else:
            out.append({"k": "pass", "s": [cur["last"].get(p, 0) for p in pins], "n": [cur["cnt"].get(p, 0) for p in pins], "c": cur["c"]})

    for e in events:
        if e.get("e") == "phase":
            close()
            cur = None if e["v"] == "end" else {"k": "setup" if e["v"] == "setup" else "pass", "last": {}, "cnt": {}, "c": 0}
        elif cur is not None and e.get("e") == "dr" and e.get("p") in pins:
            cur["last"][e["p"]] = e["r"]
            cur["cnt"][e["p"]] = cur["cnt"].get(e["p"], 0) + 1
        elif cur is not None and _is_str(e) and e["v"] == "cs":
            cur["c"] += 1
    close()
    return out


def host_shared(sigs: list) -> list:
    """The same events from the host Button class: one shared callback, every button driven with its signal
    (first element = state at construction time)."""
    from Reduino.Sensors import Button
    clicks = [0]

    def cb():
        clicks[0] += 1

    cur = [s[0] for s in sigs]
    btns = [Button(5 + i, on_click=cb, state_provider=(lambda i=i: cur[i])) for i in range(len(sigs))]
    for b in btns:
        b.is_pressed()                  # the sample of setup()
    out = [{"k": "setup", "s": list(cur), "n": [1] * len(sigs), "c": 0}]
    clicks[0] = 0
    for t in range(1, len(sigs[0])):
        before = clicks[0]
        for i in range(len(sigs)):
            cur[i] = sigs[i][t]
        for b in btns:
            b.is_pressed()
        out.append({"k": "pass", "s": list(cur), "n": [1] * len(sigs), "c": clicks[0] - before})
    return out


def project_pot(events: list, i: int, feed_pins=()) -> list:
    """Abstract Pot events of pot i: marker #p<i> opens a call; analogReads (any pin) up to the printed result."""
    out, n, j = [], len(events), 0
    while j < n:
        e = events[j]
        if _is_str(e) and e["v"].startswith(f"#q{i}x"):
            # compound statement with k read() calls: analogReads first, the k results are printed afterwards in order.
            # Re-serialised as k calls: the m-th call owns the m-th analogRead (surplus reads go to the last call).
            k = int(e["v"].split("x")[1])
            ars, rets = [], []
            j += 1
            while j < n and len(rets) < k:
                x = events[j]
                if x.get("e") == "ar" and x["p"] not in feed_pins:
                    ars.append(x)
                elif x.get("e") == "w" and x.get("t") == "i" and isinstance(x.get("v"), int):
                    rets.append(x["v"])
                elif x.get("e") in ("phase", "w"):
                    j -= 1
                    break
                j += 1
            for m in range(k):
                out.append({"k": "call", "v": 0, "p": 0})
                mine = ars[m:m + 1] if m < k - 1 else ars[m:]
                for x in mine:
                    out.append({"k": "ar", "v": x["r"], "p": x["p"]})
                if m < len(rets):
                    out.append({"k": "ret", "v": rets[m], "p": 0})
            j += 1
            continue
        if _is_str(e) and e["v"] == f"#d{i}":
            # a call whose result the script discards: the analogReads up to the next printed line are its own
            out.append({"k": "call", "v": 0, "p": 0})
            j += 1
            while j < n and events[j].get("e") not in ("phase", "w"):
                x = events[j]
                if x.get("e") == "ar" and x["p"] not in feed_pins:
                    out.append({"k": "ar", "v": x["r"], "p": x["p"]})
                j += 1
            out.append({"k": "drop", "v": 0, "p": 0})
            continue
        if _is_str(e) and e["v"] == f"#p{i}":
            out.append({"k": "call", "v": 0, "p": 0})
            j += 1
            while j < n:
                x = events[j]
                if x.get("e") == "ar" and x["p"] not in feed_pins:
                    out.append({"k": "ar", "v": x["r"], "p": x["p"]})
                elif x.get("e") == "w" and x.get("t") == "i" and isinstance(x.get("v"), int):
                    out.append({"k": "ret", "v": x["v"], "p": 0})
                    break
                elif x.get("e") in ("phase", "w"):      # the result never came: leave the call open
                    j -= 1
                    break
                j += 1
        j += 1
    return out


ROLLOVER_T0 = 1000


def project_us(events: list, inputs: str, i: int, trig: int, echo: int) -> list:
    """Abstract Ultrasonic events of sensor i (trig/echo pins) from a firmware log."""
    out, high, hi_us, t_hi, open_call = [], False, 0, 0, False
    t0, _xs = _inputs_clock(inputs)
    shift = ROLLOVER_T0 - t0 if t0 < 0 else 0          # roll-over runs are reported on the time axis of a run that starts at ROLLOVER_T0
    for e, clock in with_clock(events, inputs):
        clock += shift
        k = e.get("e")
        if _is_str(e, "#u"):
            open_call = e["v"] == f"#u{i}"
            if open_call:
                out.append({"k": "call", "v": 0, "t": clock})
            continue
        if k == "dw" and e["p"] == trig:
            if e["v"] == 1 and not high:
                high, hi_us, t_hi = True, 0, clock
            elif e["v"] == 0 and high:
                high = False
                out.append({"k": "trig", "v": hi_us, "t": t_hi})
        elif k == "dus" and high:
            hi_us += e["us"]
        elif k == "pulse" and e["p"] == echo:
            if high:
                high = False
                out.append({"k": "trig", "v": hi_us, "t": t_hi})
            out.append({"k": "echo", "v": e["r"], "t": clock})
        elif k == "d" and open_call:
            out.append({"k": "wait", "v": e["ms"], "t": clock})
        elif k == "w" and open_call and e.get("t") in ("f", "i") and isinstance(e.get("v"), (int, float)):
            out.append({"k": "ret", "v": int(round(float(e["v"]) * 100)), "t": clock})
            open_call = False
    return out


# ------------------------------------------------------------------------------------------------ host Button
def host_button(per_pass: list, driver: str = "provider") -> tuple:
    """Drive the real host class with one sample and one is_pressed() per pass.  -> (abstract events, clicks)"""
    from Reduino.Sensors import Button
    ev, cur, n = [], [0], [0]

    def clicked():
        n[0] += 1
        ev.append({"k": "click", "v": 0, "h": 0})

    def provider():
        ev.append({"k": "sample", "v": int(cur[0]), "h": 0})
        return bool(cur[0])

    b = Button(7, on_click=clicked, state_provider=provider if driver == "provider" else None)
    for s in per_pass:
        ev.append({"k": "pass", "v": 0, "h": 0})
        cur[0] = s
        if driver != "provider":
            b.set_pressed(bool(s))
            ev.append({"k": "sample", "v": int(s), "h": 0})
        r = b.is_pressed()
        ev.append({"k": "read", "v": int(r) if r in (0, 1) else -1, "h": 0})
    ev.append({"k": "end", "v": -1, "h": 0})
    return ev, n[0]
