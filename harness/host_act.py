"""Host-side recorders for the actuator classes (Led, RGBLed, Servo, DCMotor): drive the real class from
/repo's working tree with a call history, log after every public call the outcome, the full projected
state and the waveform (levels commanded + sleeps) the call produced."""
from __future__ import annotations

from fractions import Fraction

from . import common  # noqa: F401  (sets sys.path to /repo/src)
from .wave import merge


class SleepTap:
    """Replaces Reduino.Actuators.sleep (the package-level indirection the classes call)."""

    def __init__(self):
        import Reduino.Actuators as A
        self.A = A
        self.orig = A.sleep
        self.micro: list = []

    def __enter__(self):
        tap = self

        def rec(ms, **kw):
            if ms < 0:
                raise ValueError("duration must be non-negative")
            tap.micro.append(("sl", ms))

        self.A.sleep = rec
        return self

    def __exit__(self, *a):
        self.A.sleep = self.orig


def typed(v, typing: str):
    """Render an integer grid value in another Python type the API documents as acceptable."""
    if typing == "float":
        return float(v)
    if typing == "bool" and v in (0, 1):
        return bool(v)
    return v


# ------------------------------------------------------------------ Led
def led_host_trace(history: list[dict], typing: str = "int") -> list[dict]:
    from Reduino.Actuators import Led
    with SleepTap() as tap:
        led = Led(5)
        real_set = led.set_brightness

        def set_b(value):
            real_set(value)
            tap.micro.append(("lv", led.brightness))

        led.set_brightness = set_b
        evs = [{"act": "init", "a": [], "p": [], "on": bool(led.get_state()), "bright": int(led.get_brightness()),
                "wave": merge(0, []), "res": "init"}]
        for c in history:
            tap.micro.clear()
            before = led.get_brightness()
            a = [typed(x, typing) for x in c["a"]]
            res = "ok"
            try:
                act = c["act"]
                if act in ("on", "off", "toggle"):
                    getattr(led, act)()
                elif act == "set_brightness":
                    led.set_brightness(a[0])
                elif act == "blink":
                    led.blink(a[0], a[1])
                elif act in ("fade_in", "fade_out"):
                    getattr(led, act)(a[0], a[1])
                elif act == "flash_pattern":
                    led.flash_pattern(list(c["p"]), a[0])
                else:
                    raise AssertionError(act)
            except (ValueError, TypeError):
                res = "raise"
            st, br = led.get_state(), led.get_brightness()
            evs.append({"act": c["act"], "a": list(c["a"]), "p": list(c["p"]), "on": bool(st) if isinstance(st, (bool, int)) else st,
                        "bright": br if isinstance(br, int) and not isinstance(br, bool) else (int(br) if br == int(br) else -999),
                        "wave": merge(before, list(tap.micro)), "res": res})
        return evs
