"""Host-side recorders for the actuator classes (Led, RGBLed, Servo, DCMotor): drive the real class from
/repo's working tree with a call history, log after every public call the outcome, the full projected
state and the waveform (levels commanded + sleeps) the call produced."""
from __future__ import annotations

from fractions import Fraction

from . import common  # noqa: F401  (sets sys.path to /repo/src)
from .wave import merge


class SleepTap:
    """Replaces Reduino.Actuators.sleep (the package-level indirection the classes call)."""

    def __init__(self):
        import Reduino.Actuators as A
        self.A = A
        self.orig = A.sleep
        self.micro: list = []

    def __enter__(self):
        tap = self

        def rec(ms, **kw):
            if ms < 0:
                raise ValueError("duration must be non-negative")
            tap.micro.append(("sl", ms))

        self.A.sleep = rec
        return self

    def __exit__(self, *a):
        self.A.sleep = self.orig


def typed(v, typing: str):
    """Render an integer grid value in another Python type the API documents as acceptable."""
    if typing == "float":
        return float(v)
    if typing == "frac":
        # a float with a fractional part whose integer part is the grid value (quantities the host classes truncate with int());
        # only inside the documented range, so that validity is the grid value's
        return float(v) + 0.5 if isinstance(v, int) and 0 <= v < 255 else float(v)
    if typing == "bool" and v in (0, 1):
        return bool(v)
    return v


# ------------------------------------------------------------------ Led
def led_host_trace(history: list[dict], typing: str = "int") -> list[dict]:
    from Reduino.Actuators import Led
    with SleepTap() as tap:
        led = Led(5)
        real_set = led.set_brightness

        def set_b(value):
            real_set(value)
            tap.micro.append(("lv", led.brightness))

        led.set_brightness = set_b
        evs = [{"act": "init", "a": [], "p": [], "on": bool(led.get_state()), "bright": int(led.get_brightness()),
                "wave": merge(0, []), "res": "init"}]
        for c in history:
            tap.micro.clear()
            before = led.get_brightness()
            act = c["act"]
            # floats only where the API takes a quantity (brightness, durations); counts and steps stay ints
            floatable = {"set_brightness": [0], "blink": [0], "fade_in": [1], "fade_out": [1], "flash_pattern": [0]}.get(act, [])
            a = [typed(x, typing) if (typing not in ("float", "frac") or j in floatable) else x for j, x in enumerate(c["a"])]
            if typing == "frac" and act != "set_brightness":
                a = [typed(x, "float") if j in floatable else x for j, x in enumerate(c["a"])]      # fractions only for the brightness level
            res = "ok"
            try:
                if act in ("on", "off", "toggle"):
                    getattr(led, act)()
                elif act == "set_brightness":
                    led.set_brightness(a[0])
                elif act == "blink":
                    led.blink(a[0], a[1])
                elif act in ("fade_in", "fade_out"):
                    getattr(led, act)(a[0], a[1])
                elif act == "flash_pattern":
                    led.flash_pattern(list(c["p"]), a[0])
                else:
                    raise AssertionError(act)
            except (ValueError, TypeError):
                res = "raise"
            st, br = led.get_state(), led.get_brightness()
            evs.append({"act": c["act"], "a": list(c["a"]), "p": list(c["p"]), "on": bool(st) if isinstance(st, (bool, int)) else st,
                        "bright": br if isinstance(br, int) and not isinstance(br, bool) else (int(br) if br == int(br) else -999),
                        "wave": merge(before, list(tap.micro)), "res": res})
        return evs


# ------------------------------------------------------------------ RGBLed
def _rgb_call(dev, c, a):
    act = c["act"]
    if act == "off":
        dev.off()
    elif act in ("set_color", "on"):
        getattr(dev, act)(a[0], a[1], a[2])
    elif act == "fade":
        dev.fade(a[0], a[1], a[2], a[3], a[4])
    elif act == "blink":
        dev.blink(a[0], a[1], a[2], a[3], a[4])
    else:
        raise AssertionError(act)


def rgb_host_trace(history: list[dict], typing: str = "int") -> list[dict]:
    from Reduino.Actuators import RGBLed
    with SleepTap() as tap:
        dev = RGBLed(3, 5, 6)
        real_set = dev.set_color

        def set_c(red, green, blue):
            real_set(red, green, blue)
            tap.micro.append(("lv", [int(x) for x in dev.get_color()]))

        dev.set_color = set_c

        def snap(c, res, before):
            col = [x if isinstance(x, int) else -999 for x in dev.get_color()]
            return {"act": c["act"], "a": list(c["a"]), "col": [int(x) for x in col], "on": bool(dev.get_state()),
                    "wave": merge(before, list(tap.micro)), "res": res}

        evs = [snap({"act": "init", "a": []}, "init", [0, 0, 0])]
        for c in history:
            tap.micro.clear()
            before = [int(x) for x in dev.get_color()]
            # durations may be given as floats by the API; colour components must stay ints (floats raise TypeError)
            a = list(c["a"])
            if typing == "float" and c["act"] in ("fade", "blink"):
                a[3 if c["act"] == "fade" else 4] = float(a[3 if c["act"] == "fade" else 4])
            if typing == "bool":
                a = [typed(x, "bool") if i < 3 else x for i, x in enumerate(a)]
            res = "ok"
            try:
                _rgb_call(dev, c, a)
            except (ValueError, TypeError):
                res = "raise"
            evs.append(snap(c, res, before))
        return evs


# ------------------------------------------------------------------ Servo (milli-units)
def milli(x) -> int:
    f = Fraction(x) * 1000
    return int((f + Fraction(1, 2)).__floor__())


def servo_host_trace(case: dict, typing: str = "float") -> list[dict]:
    """case = {"cal": {mina,maxa,minp,maxp in milli-units}, "h": [{"act","v"}...]}"""
    from Reduino.Actuators import Servo
    cal = case["cal"]

    def arg(m):
        return m // 1000 if (typing == "int" and m % 1000 == 0) else m / 1000.0

    dev = Servo(9, min_angle=arg(cal["mina"]), max_angle=arg(cal["maxa"]), min_pulse_us=arg(cal["minp"]), max_pulse_us=arg(cal["maxp"]))
    nocmd = {"op": "none", "v": 0}

    def snap(c, res):
        return {"act": c["act"], "v": c["v"], "angle": milli(dev.read()), "pulse": milli(dev.read_us()), "cmd": nocmd, "res": res}

    evs = [snap({"act": "init", "v": 0}, "init")]
    for c in case["h"]:
        res = "ok"
        try:
            getattr(dev, c["act"])(arg(c["v"]))
        except (ValueError, TypeError):
            res = "raise"
        evs.append(snap(c, res))
    return evs


# ------------------------------------------------------------------ DCMotor (speeds in U = 1/20000)
MOTOR_ONE = 20000


def to_u(x) -> int:
    f = Fraction(x) * MOTOR_ONE
    return int((f + Fraction(1, 2)).__floor__())


def _motor_level(dev):
    a = dev.get_applied_speed()
    if dev.get_mode() == "brake":
        return ["brake", 0]
    # speeds are resolved to U = 1/20000; float noise far below U (a ramp passing through zero computes
    # 1.7e-19 instead of 0.0) is not a drive command
    if to_u(abs(a)) == 0:
        return ["coast", 0]
    return ["fwd", to_u(a)] if a > 0 else ["rev", to_u(-a)]


def motor_host_trace(history: list[dict], typing: str = "float") -> list[dict]:
    from Reduino.Actuators import DCMotor
    with SleepTap() as tap:
        dev = DCMotor(2, 4, 11)
        for name in ("set_speed", "stop", "coast", "invert"):
            real = getattr(dev, name)

            def wrapped(*a, __real=real, **kw):
                __real(*a, **kw)
                tap.micro.append(("lv", _motor_level(dev)))

            setattr(dev, name, wrapped)

        def spd(u):
            if typing == "int" and u % MOTOR_ONE == 0:
                return u // MOTOR_ONE
            return u / MOTOR_ONE

        def snap(c, res, before):
            return {"act": c["act"], "a": list(c["a"]), "speed": to_u(dev.get_speed()), "inv": bool(dev.is_inverted()),
                    "mode": str(dev.get_mode()), "applied": to_u(dev.get_applied_speed()),
                    "wave": merge(before, list(tap.micro)), "res": res}

        evs = [snap({"act": "init", "a": []}, "init", ["coast", 0])]
        for c in history:
            tap.micro.clear()
            before = _motor_level(dev)
            act, a = c["act"], c["a"]
            res = "ok"
            try:
                if act in ("stop", "coast", "invert"):
                    getattr(dev, act)()
                elif act == "backward" and not a:
                    dev.backward()
                elif act in ("set_speed", "backward"):
                    getattr(dev, act)(spd(a[0]))
                elif act == "ramp":
                    dev.ramp(spd(a[0]), a[1])
                elif act == "run_for":
                    dev.run_for(a[0], spd(a[1]))
                else:
                    raise AssertionError(act)
            except (ValueError, TypeError):
                res = "raise"
            evs.append(snap(c, res, before))
        return evs
