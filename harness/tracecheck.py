"""Batch trace validation: hand a list of recorded traces to a *Trace.tla module, collect one verdict per trace."""
from __future__ import annotations

from .common import MachineryError
from .tlc import run_tlc, write_json


def validate(module: str, cfg: str, traces: list[dict], run=None, label: str = "", chunk: int = 4000,
             workers: int = 8, timeout: int = 1500, env: dict | None = None) -> dict:
    """traces: [{"id": str, ...}]. Returns {id: {"ok": bool, "l": int, "clause": str}}.
    Every trace gets a verdict or the machinery has failed (exit 2), never a silent skip."""
    verdicts: dict = {}
    for i in range(0, len(traces), chunk):
        part = traces[i:i + chunk]
        f = write_json(f"{module}.json", part)
        e = {"TRACE_FILE": str(f)}
        if env:
            e.update(env)
        res = run_tlc(module, cfg, env=e, workers=workers, timeout=timeout)
        if not res.ok:
            raise MachineryError(f"trace validation by {module} failed: {res.error} {res.violated}\n{res.stdout[-2500:]}")
        if run is not None:
            run.add_tlc(res, f"{label or module} trace validation ({len(part)} traces)")
        for v in res.json:
            if isinstance(v, dict) and "id" in v and "ok" in v:
                verdicts[v["id"]] = v
        missing = [t["id"] for t in part if t["id"] not in verdicts]
        if missing:
            raise MachineryError(f"{module}: no verdict for {len(missing)} traces, e.g. {missing[:3]}\n{res.stdout[-1500:]}")
    if run is not None:
        run.traces(len(traces))
    return verdicts
