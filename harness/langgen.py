"""Program families for the Lang-based properties: TLC-enumerated cases (tla/LangFamilies.tla) decorated into
snippets, Python-enumerated families over the same AST, packing of snippets into programs, and a seeded random
generator of whole programs."""
from __future__ import annotations

import json

import copy
import random

from .common import MachineryError
from .lang import *  # noqa: F401,F403  (AST constructors)
from .lang import PROG
from .tlc import run_tlc


# ------------------------------------------------------------------ TLC-enumerated families
def family_cases(fam: str, maxnodes: int = 2, run=None) -> list:
    cfg = (f'INIT Init\nNEXT Next\nCONSTANTS\n  Family = "{fam}"\n  MaxNodes = {maxnodes}\nCONSTRAINT Emit\nCHECK_DEADLOCK FALSE\n')
    res = run_tlc("LangFamilies", cfg, workers=4, timeout=900)
    if not res.ok or not res.json:
        raise MachineryError(f"LangFamilies {fam}: {res.error}\n{res.stdout[-2000:]}")
    if run is not None:
        run.add_tlc(res, f"LangFamilies enumeration family={fam} maxnodes={maxnodes}")
    import json
    return sorted(res.json, key=lambda c: json.dumps(c, sort_keys=True))      # TLC's multi-worker order is not stable


def _operand(o, ain: list):
    """Operand descriptor -> expression whose value is only known at run time."""
    ain.append(o["v"])
    if o["t"] == "i":
        return AREAD()
    return BIN("*", AREAD(), F(0.5))


def snip(sid: str, stmts: list, ain=(), fam: str = "", defs=None) -> dict:
    return {"id": sid, "stmts": list(stmts), "ain": list(ain), "fam": fam, "defs": defs or {}}


def bin_snippets(cases: list) -> list:
    out = []
    for n, c in enumerate(cases):
        ain: list = []
        l, r = _operand(c["l"], ain), _operand(c["r"], ain)
        x, y = f"va{n}", f"vb{n}"
        e = CMP(V(x), (c["op"], V(y))) if c["fam"] == "cmp" else BIN(c["op"], V(x), V(y))
        out.append(snip(f"{c['fam']}{n}", [ASSIGN(x, l), ASSIGN(y, r), WRITE(e)], ain, c["fam"]))
    return out


def skel_snippets(cases: list, vectors=((1, 1, 1, 1, 1, 1), (0, 0, 0, 0, 0, 0), (1, 0, 1, 0, 1, 0), (0, 1, 1, 0, 0, 1))) -> list:
    """Decorate a control skeleton: a uniquely numbered marker at every block position, conditions read at run
    time, counter-driven while loops, for-range(2) loops."""
    out = []
    for n, c in enumerate(cases):
        for vi, vec in enumerate(vectors):
            state = {"m": 0, "c": 0, "w": 0, "ain": []}

            def mark():
                state["m"] += 1
                return WRITE(I(state["m"]))

            def cond():
                v = vec[state["c"] % len(vec)]
                state["c"] += 1
                state["ain"].append(v)
                return CMP(AREAD(), (">", I(0)))

            def block(nodes):
                b = [mark()]
                for nd in nodes:
                    k = nd["k"]
                    if k == "pass":
                        b.append(PASS)
                    elif k == "break":
                        b.append(BREAK)
                    elif k == "continue":
                        b.append(CONTINUE)
                    elif k == "if":
                        b.append(IF([(cond(), block(nd["a"]))]))
                    elif k == "ifelse":
                        b.append(IF([(cond(), block(nd["a"]))], block(nd["b"])))
                    elif k == "elif":
                        b.append(IF([(cond(), block(nd["a"])), (cond(), block(nd["b"]))], [mark()]))
                    elif k == "while":
                        state["w"] += 1
                        w = f"w{n}_{vi}_{state['w']}"
                        b.append(ASSIGN(w, I(0)))
                        b.append(WHILE(CMP(V(w), ("<", I(2))), [AUG(w, "+", I(1))] + block(nd["a"])))
                    elif k == "for":
                        state["w"] += 1
                        b.append(FOR(f"i{n}_{vi}_{state['w']}", I(2), block(nd["a"])))
                    b.append(mark())
                return b

            stmts = block(c["body"])
            # the conditions inside loops are read once per iteration: give plenty of samples
            ain = (state["ain"] + list(vec)) * 6
            out.append(snip(f"skel{n}v{vi}", stmts, ain, "skel"))
    return out


# ------------------------------------------------------------------ Python-enumerated families over the same AST
def expr_family() -> list:
    """Unary ops, boolean operators on non-boolean operands, conditional expressions, builtins, f-strings."""
    out = []
    vals_i = [-7, -1, 0, 2, 7]
    vals_h = [-3, 1, 4]
    n = 0

    def add(fam, build, ains):
        nonlocal n
        n += 1
        ain = list(ains)
        names = [f"u{n}_{j}" for j in range(len(ains))]
        stmts = [ASSIGN(nm, AREAD()) for nm in names]
        out.append(snip(f"{fam}{n}", stmts + build(*[V(x) for x in names]), ain, fam))

    for a in vals_i:
        add("un", lambda x: [WRITE(UN("-", x)), WRITE(UN("+", x)), WRITE(UN("not", x))], [a])
        add("abs", lambda x: [WRITE(CALL("abs", x)), WRITE(CALL("abs", BIN("*", x, F(0.5))))], [a])
        add("cast", lambda x: [WRITE(CALL("int", BIN("*", x, F(0.5)))), WRITE(CALL("float", x)), WRITE(CALL("bool", x)), WRITE(CALL("str", x))], [a])
        add("fstr", lambda x: [WRITE(FSTR("v=", x, ";")), WRITE(FSTR("h=", BIN("*", x, F(0.5)), ";")), WRITE(FSTR("b=", CMP(x, (">", I(0))), ";"))], [a])
        for b in vals_i:
            add("boolop", lambda x, y: [WRITE(BOOLOP("and", x, y)), WRITE(BOOLOP("or", x, y)),
                                        WRITE(BOOLOP("and", CMP(x, (">", I(0))), CMP(y, (">", I(0)))))], [a, b])
            add("ifexp", lambda x, y: [WRITE(IFEXP(CMP(x, ("<", y)), x, y)), WRITE(IFEXP(x, BIN("+", y, I(1)), F(0.5)))], [a, b])
            add("minmax", lambda x, y: [WRITE(CALL("min", x, y)), WRITE(CALL("max", x, y)), WRITE(CALL("max", x, y, I(1)))], [a, b])
            add("chain", lambda x, y: [WRITE(CMP(I(-2), ("<", x), ("<=", y))), WRITE(CMP(x, ("==", y), ("!=", I(0))))], [a, b])
    for a in vals_h:
        for b in vals_i[:3]:
            add("minmaxf", lambda x, y: [WRITE(CALL("min", BIN("*", x, F(0.5)), y)), WRITE(CALL("max", BIN("*", x, F(0.5)), BIN("*", y, F(0.5))))], [a, b])
    return out


def assign_family() -> list:
    out = []
    n = 0
    for op in ["+", "-", "*", "//", "%", "/", "**", "&", "|", "^", "<<", ">>"]:
        for a, b in [(7, 2), (-7, 2), (6, 3), (0, 5)]:
            n += 1
            x = f"g{n}"
            out.append(snip(f"aug{n}", [ASSIGN(x, AREAD()), AUG(x, op, AREAD()), WRITE(V(x))], [a, b], "aug"))
    for a, b, c in [(1, 2, 3), (-4, 0, 9)]:
        n += 1
        p, q, r = f"p{n}", f"q{n}", f"r{n}"
        out.append(snip(f"swap{n}", [ASSIGN(p, AREAD()), ASSIGN(q, AREAD()), TUPLE([p, q], [V(q), V(p)]), WRITE(V(p)), WRITE(V(q))], [a, b], "swap"))
        out.append(snip(f"rot{n}", [ASSIGN(p, AREAD()), ASSIGN(q, AREAD()), ASSIGN(r, AREAD()), TUPLE([p, q, r], [V(q), V(r), V(p)]),
                                    WRITE(V(p)), WRITE(V(q)), WRITE(V(r))], [a, b, c], "swap"))
        out.append(snip(f"unpack{n}", [TUPLE([p, q], [AREAD(), BIN("+", AREAD(), I(1))]), WRITE(BIN("-", V(p), V(q)))], [a, b], "swap"))
    # first assignment at each nesting depth
    for a in (0, 1):
        n += 1
        v = f"d{n}"
        out.append(snip(f"nest{n}", [ASSIGN(v, I(5)), IF([(CMP(AREAD(), (">", I(0))), [ASSIGN(v, I(6)), FOR(f"k{n}", I(2), [AUG(v, "+", V(f"k{n}"))])])]),
                                     WRITE(V(v))], [a], "nest"))
        n += 1
        v = f"d{n}"
        out.append(snip(f"first{n}", [IF([(CMP(AREAD(), (">", I(0))), [ASSIGN(v, I(6))])], [ASSIGN(v, I(7))]), WRITE(V(v))], [a], "hoist"))
    return out


def list_family() -> list:
    out = []
    n = 0
    for a in (0, 1, 2):
        n += 1
        xs = f"xs{n}"
        out.append(snip(f"list{n}", [ASSIGN(xs, LIST(I(3), I(1), I(2))), WRITE(INDEX(V(xs), AREAD())), WRITE(CALL("len", V(xs)))], [a], "list"))
        n += 1
        xs = f"xs{n}"
        out.append(snip(f"lappend{n}", [ASSIGN(xs, LIST(I(3), I(1))), APPEND(xs, AREAD()), APPEND(xs, I(9)), WRITE(CALL("len", V(xs))),
                                        WRITE(INDEX(V(xs), I(2))), REMOVE(xs, I(3)), WRITE(INDEX(V(xs), I(0))), WRITE(CALL("len", V(xs)))], [a], "list"))
        n += 1
        xs = f"xs{n}"
        out.append(snip(f"lcomp{n}", [ASSIGN(xs, COMP(f"j{n}", I(4), BIN("*", V(f"j{n}"), I(2)))), WRITE(INDEX(V(xs), AREAD())), WRITE(CALL("len", V(xs)))], [a], "list"))
        n += 1
        xs = f"xs{n}"
        out.append(snip(f"lneg{n}", [ASSIGN(xs, LIST(I(3), I(1), I(2))), WRITE(INDEX(V(xs), BIN("-", AREAD(), I(3))))], [a], "listneg"))
        n += 1
        xs, ys = f"xs{n}", f"ys{n}"
        out.append(snip(f"lalias{n}", [ASSIGN(xs, LIST(I(3), I(1), I(2))), ASSIGN(ys, V(xs)), APPEND(xs, AREAD()), WRITE(CALL("len", V(ys))), WRITE(INDEX(V(ys), I(0)))], [a], "listalias"))
        n += 1
        xs = f"xs{n}"
        out.append(snip(f"lin{n}", [ASSIGN(xs, LIST(I(3), I(1), I(2))), WRITE(IN(AREAD(), V(xs)))], [a], "listin"))
        n += 1
        xs = f"xs{n}"
        out.append(snip(f"lsum{n}", [ASSIGN(xs, LIST(I(3), I(1), AREAD())), ASSIGN(f"t{n}", I(0)),
                                     FOR(f"j{n}", CALL("len", V(xs)), [AUG(f"t{n}", "+", INDEX(V(xs), V(f"j{n}")))]), WRITE(V(f"t{n}"))], [a], "list"))
        n += 1
        xs = f"xs{n}"
        # remove() takes the FIRST occurrence only - also when another occurrence follows after other elements
        out.append(snip(f"lremdup{n}", [ASSIGN(xs, LIST(I(4), I(1), I(4), I(2), I(4))), REMOVE(xs, I(4)), WRITE(INDEX(V(xs), I(-1))), WRITE(INDEX(V(xs), I(1))), APPEND(xs, AREAD()),
                                        WRITE(INDEX(V(xs), I(4))), REMOVE(xs, I(4)), WRITE(INDEX(V(xs), I(-2))), WRITE(INDEX(V(xs), I(0)))], [a + 7], "list"))
        n += 1
        xs = f"xs{n}"
        out.append(snip(f"lfloat{n}", [ASSIGN(xs, LIST(F(0.5), F(1.5))), APPEND(xs, BIN("*", AREAD(), F(0.5))), WRITE(INDEX(V(xs), I(2))), WRITE(INDEX(V(xs), I(0)))], [a], "list"))
    return out


def fn_programs() -> list:
    """Whole programs (helper functions cannot be packed as snippets)."""
    P = []
    def add(name, defs, setup, loop=None, ain=(), npass=2, lead=0):
        P.append(PROG(setup, loop, defs, npass=npass, ain=list(ain), pid=name, lead=lead))
    add("fn0", {"f": DEF([], [WRITE(I(1)), RETURN(I(7))])}, [WRITE(CALL("f")), EXPR(CALL("f"))])
    add("fn1", {"dbl": DEF(["x"], [RETURN(BIN("*", V("x"), I(2)))])}, [WRITE(CALL("dbl", AREAD())), WRITE(CALL("dbl", CALL("dbl", I(3))))], ain=[5])
    add("fn2", {"sub": DEF(["x", "y"], [RETURN(BIN("-", V("x"), V("y")))])}, [ASSIGN("a", AREAD()), WRITE(CALL("sub", V("a"), I(2))), WRITE(CALL("sub", I(2), V("a")))], ain=[9])
    add("fn3", {"clamp": DEF(["x", "lo", "hi"], [IF([(CMP(V("x"), ("<", V("lo"))), [RETURN(V("lo"))])]), IF([(CMP(V("x"), (">", V("hi"))), [RETURN(V("hi"))])]), RETURN(V("x"))])},
        [WRITE(CALL("clamp", AREAD(), I(0), I(10))), WRITE(CALL("clamp", AREAD(), I(0), I(10))), WRITE(CALL("clamp", AREAD(), I(0), I(10)))], ain=[-5, 5, 50])
    add("fn_early", {"f": DEF(["x"], [IF([(CMP(V("x"), (">", I(0))), [WRITE(S("pos")), RETURN()])]), WRITE(S("nonpos"))])}, [EXPR(CALL("f", AREAD())), EXPR(CALL("f", AREAD()))], ain=[1, 0])
    add("fn_rec", {"fact": DEF(["n"], [IF([(CMP(V("n"), ("<=", I(1))), [RETURN(I(1))])]), RETURN(BIN("*", V("n"), CALL("fact", BIN("-", V("n"), I(1)))))])}, [WRITE(CALL("fact", AREAD()))], ain=[3])
    add("fn_chain", {"g": DEF(["x"], [RETURN(BIN("+", V("x"), I(1)))]), "h": DEF(["x"], [RETURN(BIN("*", CALL("g", V("x")), I(2)))])}, [WRITE(CALL("h", AREAD()))], ain=[4])
    add("fn_global", {"bump": DEF([], [AUG("count", "+", I(1)), RETURN(V("count"))], ["count"])}, [ASSIGN("count", I(0)), WRITE(CALL("bump")), WRITE(CALL("bump")), WRITE(V("count"))])
    add("fn_global_loop", {"bump": DEF([], [AUG("count", "+", I(1))], ["count"])}, [ASSIGN("count", I(0))], loop=[EXPR(CALL("bump")), WRITE(V("count"))], npass=3)
    add("fn_mixed", {"half": DEF(["x"], [RETURN(BIN("*", V("x"), F(0.5)))])}, [WRITE(CALL("half", I(3))), WRITE(CALL("half", F(2.5)))])
    add("fn_intfloat", {"idn": DEF(["x"], [RETURN(V("x"))])}, [WRITE(CALL("idn", I(3))), WRITE(CALL("idn", F(2.5)))])
    add("fn_retjoin", {"pick": DEF(["c"], [IF([(V("c"), [RETURN(I(1))])]), RETURN(F(2.5))])}, [WRITE(CALL("pick", CMP(AREAD(), (">", I(0))))), WRITE(CALL("pick", CMP(AREAD(), (">", I(0)))))], ain=[1, 0])
    add("fn_str", {"tag": DEF(["n"], [RETURN(FSTR("id:", V("n"), "!"))])}, [WRITE(CALL("tag", AREAD()))], ain=[4])
    add("fn_sidefx_cmp", {"nxt": DEF([], [AUG("c", "+", I(1)), RETURN(V("c"))], ["c"])}, [ASSIGN("c", I(0)), WRITE(CMP(I(0), ("<", CALL("nxt")), ("<", I(5)))), WRITE(V("c"))])
    add("fn_sidefx_minmax", {"nxt": DEF([], [AUG("c", "+", I(1)), RETURN(V("c"))], ["c"])}, [ASSIGN("c", I(0)), WRITE(CALL("max", CALL("nxt"), I(0))), WRITE(V("c")), WRITE(CALL("abs", CALL("nxt"))), WRITE(V("c"))])
    # tuple assignment whose right-hand side calls a helper that reads an EARLIER target of the same statement: Python evaluates
    # the whole right-hand side before it binds any target
    add("fn_tuple_reads_target", {"boosted": DEF([], [RETURN(BIN("*", V("level"), I(10)))])}, [ASSIGN("level", I(1)), ASSIGN("bonus", I(0))],
        loop=[ASSIGN("nxt", BIN("+", V("level"), I(3))), TUPLE(["level", "bonus"], [V("nxt"), CALL("boosted")]), WRITE(V("bonus")), WRITE(V("level"))], npass=4)
    add("fn_tuple_reads_target_setup", {"peek": DEF([], [RETURN(BIN("+", V("pa"), V("pb")))])}, [ASSIGN("pa", I(2)), ASSIGN("pb", I(3)),
        TUPLE(["pa", "pb", "pc"], [I(20), CALL("peek"), CALL("peek")]), WRITE(V("pa")), WRITE(V("pb")), WRITE(V("pc"))])
    add("fn_tuple_in_fn", {"peek": DEF([], [RETURN(V("ga"))]), "step": DEF([], [TUPLE(["ga", "gb"], [BIN("+", V("ga"), I(1)), CALL("peek")]), RETURN(V("gb"))], ["ga", "gb"])},
        [ASSIGN("ga", I(5)), ASSIGN("gb", I(0)), WRITE(CALL("step")), WRITE(CALL("step")), WRITE(V("ga"))])
    # names a helper declares `global` AND ASSIGNS that the MAIN LOOP (not the prologue) binds first: they are the helper's globals,
    # not loop locals (a helper that only aug-assigns such a name is the known C06 finding main-loop-variable-used-in-helper)
    add("fn_global_bound_in_loop", {"inc": DEF([], [ASSIGN("gn", BIN("+", V("gn"), I(1)))], ["gn"])}, [], loop=[ASSIGN("gn", I(5)), EXPR(CALL("inc")), EXPR(CALL("inc")), WRITE(V("gn"))], npass=2)
    add("fn_global_swap_bound_in_loop", {"swp": DEF([], [TUPLE(["ga", "gb"], [V("gb"), V("ga")])], ["ga", "gb"])}, [],
        loop=[ASSIGN("ga", I(1)), ASSIGN("gb", I(2)), EXPR(CALL("swp")), WRITE(V("ga")), WRITE(V("gb"))], npass=2)
    add("fn_global_tuple_bound_in_loop", {"inc": DEF([], [TUPLE(["gp", "gq"], [BIN("+", V("gp"), V("gq")), V("gq")])], ["gp", "gq"])}, [],
        loop=[TUPLE(["gp", "gq"], [I(1), I(10)]), EXPR(CALL("inc")), WRITE(V("gp"))], npass=2)
    # a power whose base is a call with an effect (a counter, a print, a fresh sensor read): the base is evaluated ONCE
    add("fn_pow_impure_base", {"nxt": DEF([], [AUG("pc", "+", I(1)), WRITE(S("called")), RETURN(V("pc"))], ["pc"])},
        [ASSIGN("pc", I(1)), ASSIGN("tot", I(0)), AUG("tot", "+", BIN("**", CALL("nxt"), I(2))), WRITE(V("tot")), WRITE(V("pc")),
         WRITE(BIN("**", AREAD(), I(2))), WRITE(BIN("**", CALL("nxt"), I(3))), WRITE(V("pc")), WRITE(BIN("**", I(2), CALL("nxt"))), WRITE(V("pc"))], ain=[3, 5])
    add("fn_pow_impure_base_loop", {"nxt": DEF([], [AUG("pc", "+", I(1)), RETURN(V("pc"))], ["pc"])},
        [ASSIGN("pc", I(0)), ASSIGN("tot", I(0))], loop=[AUG("tot", "+", BIN("**", CALL("nxt"), I(2))), WRITE(V("tot")), WRITE(BIN("*", AREAD(), AREAD()))], npass=3, ain=[2, 3, 4, 5, 6, 7])
    # a name only the else arm (only the elif arm, only the except-less last arm) assigns keeps the type it has there when hoisted
    add("fn_else_only_hoist", {"trim": DEF(["v"], [IF([(CMP(V("v"), (">", I(10))), [ASSIGN("lv", I(1))])], [ASSIGN("gainf", BIN("/", V("v"), I(4)))]), RETURN(BIN("*", V("gainf"), I(2)))])},
        [ASSIGN("reading", AREAD()), IF([(CMP(V("reading"), (">", I(10))), [ASSIGN("level", I(1))])], [ASSIGN("ratio", BIN("/", V("reading"), I(10)))]), WRITE(V("ratio")),
         ASSIGN("scaled", BIN("*", V("ratio"), I(100))), WRITE(V("scaled")), WRITE(CALL("trim", I(3))),
         IF([(CMP(V("reading"), (">", I(10))), [ASSIGN("m1", I(1))]), (CMP(V("reading"), (">", I(5))), [ASSIGN("m2", F(2.5))])], [ASSIGN("m3", S("low"))]), WRITE(V("m2")),
         IF([(CMP(V("reading"), (">", I(10))), [ASSIGN("n1", I(1))]), (CMP(V("reading"), (">", I(8))), [ASSIGN("n2", F(2.5))])], [ASSIGN("n3", S("low"))]), WRITE(V("n3"))], ain=[7])
    # a helper with two variants (int and float argument) is called with the float from inside ANOTHER helper that is defined above it
    add("fn_variant_called_from_earlier_helper",
        {"outer": DEF(["v"], [RETURN(CALL("scaled", BIN("*", V("v"), F(0.5))))]), "scaled": DEF(["x"], [RETURN(BIN("*", V("x"), I(3)))]),
         "late": DEF(["v"], [RETURN(CALL("scaled", BIN("*", V("v"), F(0.25))))])},
        [WRITE(CALL("scaled", I(2))), WRITE(CALL("outer", I(5))), WRITE(CALL("late", I(5)))], loop=[WRITE(CALL("outer", AREAD())), WRITE(CALL("scaled", AREAD()))], ain=[3, 4, 5, 6], npass=2)
    add("fn_variants_called_from_two_earlier_helpers",
        {"pre": DEF(["v"], [RETURN(CALL("scaled", V("v")))]), "outer": DEF(["v"], [RETURN(CALL("scaled", BIN("*", V("v"), F(0.5))))]),
         "scaled": DEF(["x"], [RETURN(BIN("*", V("x"), I(3)))]), "post": DEF(["v"], [RETURN(BIN("+", CALL("scaled", V("v")), CALL("scaled", BIN("*", V("v"), F(0.25)))))])},
        [WRITE(CALL("pre", I(2))), WRITE(CALL("outer", I(5))), WRITE(CALL("post", I(5))), WRITE(CALL("outer", AREAD())), WRITE(CALL("pre", AREAD()))], ain=[3, 4])
    # two helpers that call each other, both used with an int and with a float: whichever is emitted first calls a variant of the
    # other one that is only defined further down
    add("fn_mutual_recursion_variants",
        {"down_a": DEF(["x"], [IF([(CMP(V("x"), ("<=", I(0))), [RETURN(V("x"))])]), RETURN(CALL("down_b", BIN("-", V("x"), I(1))))]),
         "down_b": DEF(["x"], [IF([(CMP(V("x"), ("<=", I(0))), [RETURN(BIN("*", V("x"), I(2)))])]), RETURN(CALL("down_a", BIN("-", V("x"), I(1))))])},
        [WRITE(CALL("down_a", I(2))), WRITE(CALL("down_a", F(2.5))), WRITE(CALL("down_b", F(1.5))), WRITE(CALL("down_b", AREAD())), WRITE(CALL("down_a", BIN("*", AREAD(), F(0.25))))], ain=[3, 7])
    # an `elif` arm that does nothing still shields the `else` arm behind it (in a helper fed by a loop, and in the main loop)
    add("fn_empty_elif_before_else",
        {"band": DEF(["x"], [IF([(CMP(V("x"), (">", I(10))), [WRITE(S("hi"))]), (CMP(V("x"), (">", I(5))), [PASS])], [WRITE(S("lo"))]), RETURN(V("x"))])},
        [FOR("bi", I(4), [EXPR(CALL("band", BIN("*", V("bi"), I(4))))]), ASSIGN("np", I(0))],
        loop=[AUG("np", "+", I(1)), IF([(CMP(V("np"), ("==", I(1))), [WRITE(S("first"))]), (CMP(V("np"), ("==", I(2))), [PASS]), (CMP(V("np"), ("==", I(3))), [PASS])], [WRITE(S("later"))])], npass=4)
    # len() of a list whose length only the device knows, inside larger expressions whose value is negative or is compared with a negative
    add("fn_len_in_signed_arithmetic",
        {"short_by": DEF(["xs", "want"], [RETURN(BIN("-", CALL("len", V("xs")), V("want")))])},
        [ASSIGN("vals", LIST(AREAD(), I(2), I(3))), WRITE(BIN("-", CALL("len", V("vals")), I(5))), WRITE(CMP(CALL("len", V("vals")), (">", I(-1)))),
         WRITE(CALL("abs", BIN("-", CALL("len", V("vals")), I(7)))), IF([(CMP(BIN("-", CALL("len", V("vals")), I(4)), ("<", I(0))), [WRITE(S("short"))])], [WRITE(S("enough"))]),
         WRITE(CALL("short_by", V("vals"), I(9))), ASSIGN("sq", COMP("ci", AREAD(), BIN("*", V("ci"), V("ci")))), WRITE(BIN("*", BIN("-", CALL("len", V("sq")), I(6)), I(2))),
         WRITE(CALL("min", BIN("-", CALL("len", V("sq")), I(6)), I(1)))], ain=[4, 2])
    # a helper that re-binds a float global (declared `global`) from its int parameter: the global keeps holding floats at file scope
    add("fn_global_rebound_from_param", {"reset": DEF(["n"], [ASSIGN("level", V("n"))], ["level"])},
        [ASSIGN("level", F(0.75)), ASSIGN("saved", V("level")), WRITE(V("saved")), ASSIGN("boost", BIN("*", V("level"), I(2))), WRITE(V("boost")),
         EXPR(CALL("reset", I(3))), WRITE(V("level")), ASSIGN("level", F(2.5)), WRITE(BIN("//", V("level"), I(2)))], lead=1)
    # call signatures in the order A, B, A (the float sits at another position in B): the third call is call A again
    add("fn_signature_aba", {"scale": DEF(["v", "k"], [RETURN(BIN("*", V("v"), V("k")))]), "mix": DEF(["a", "b", "c"], [RETURN(BIN("+", BIN("*", V("a"), V("b")), V("c")))])},
        [WRITE(CALL("scale", I(2), F(0.5))), WRITE(CALL("scale", F(2.5), I(2))), WRITE(CALL("scale", I(2), F(0.5))), WRITE(CALL("scale", I(3), I(2))), WRITE(CALL("scale", F(2.5), I(2))),
         WRITE(CALL("mix", I(1), F(0.5), I(2))), WRITE(CALL("mix", F(0.5), I(1), I(2))), WRITE(CALL("mix", I(1), I(2), F(0.5))), WRITE(CALL("mix", I(1), F(0.5), I(2))), WRITE(CALL("mix", F(0.5), I(1), I(2)))])
    # a string variable bound to a constant, re-bound where a transpile-time environment does not follow (a branch, a loop body,
    # later in the main loop body, at file scope between two calls of a helper), then spliced into an f-string
    add("fn_fstr_label_rebound", {"show": DEF([], [WRITE(FSTR("[", V("mode"), "]"))])},
        [ASSIGN("mode", S("idle")), EXPR(CALL("show")), ASSIGN("mode", S("run")), EXPR(CALL("show")),
         ASSIGN("lbl", S("lo")), IF([(CMP(AREAD(), (">", I(0))), [ASSIGN("lbl", S("hi"))])]), WRITE(FSTR("", V("lbl"), "!")),
         ASSIGN("tag", S("a")), FOR("fi", I(2), [AUG("tag", "+", S("b"))]), WRITE(FSTR("<", V("tag"), ">")),
         ASSIGN("st", S("one"))],
        loop=[WRITE(FSTR("st=", V("st"))), ASSIGN("st", S("two")), EXPR(CALL("show")), ASSIGN("mode", S("loop"))], ain=[1], npass=3)
    # min / max whose operands have effects: each operand once, left to right
    add("fn_minmax_operand_order", {"pa": DEF([], [WRITE(S("a")), AUG("acc", "+", I(1)), ASSIGN("acc", BIN("*", V("acc"), I(10))), RETURN(I(3))], ["acc"]),
                                    "pb": DEF([], [WRITE(S("b")), AUG("acc", "+", I(2)), ASSIGN("acc", BIN("*", V("acc"), I(10))), RETURN(I(5))], ["acc"])},
        [ASSIGN("acc", I(0)), WRITE(CALL("max", CALL("pa"), CALL("pb"))), WRITE(V("acc")), WRITE(CALL("min", CALL("pb"), CALL("pa"))), WRITE(V("acc"))])
    # recursion whose recursive call changes the call signature twice (int,int) -> (float,int) -> (float,float)
    add("fn_recursive_signature_shift", {"halve": DEF(["v", "prev"], [IF([(CMP(V("v"), ("<", I(1))), [RETURN(V("prev"))])]), RETURN(CALL("halve", BIN("/", V("v"), I(2)), V("v")))])},
        [WRITE(CALL("halve", I(3), I(0))), ASSIGN("hq", CALL("halve", I(2), I(0))), WRITE(V("hq")), WRITE(CALL("halve", AREAD(), I(0)))], ain=[3])
    # a helper that re-binds its own parameter to a wider type (the parameter holds what Python holds, in every variant)
    # (at the top level of the body; a parameter widened inside a branch or loop is the known finding name-retyped)
    add("fn_param_widened_in_body", {"scale": DEF(["a"], [ASSIGN("a", BIN("/", V("a"), I(2))), RETURN(V("a"))]),
                                     "grow": DEF(["n", "k"], [ASSIGN("n", BIN("+", V("n"), F(0.5))), ASSIGN("k", BIN("*", V("k"), V("n"))), RETURN(BIN("+", V("n"), V("k")))])},
        [WRITE(CALL("scale", I(3))), ASSIGN("sv", CALL("scale", I(5))), WRITE(V("sv")), WRITE(CALL("scale", F(1.5))), WRITE(CALL("grow", I(3), I(2))), WRITE(CALL("grow", I(1), F(0.5))),
         WRITE(CALL("scale", AREAD()))], ain=[7])
    # a float variable that a loop body re-binds to an int in a statement that does not run (zero iterations, a taken `continue`):
    # it still holds a fraction after the loop, and so does everything derived from it
    add("fn_float_survives_unrun_int_rebinding", {"show": DEF(["v"], [RETURN(BIN("*", V("v"), I(2)))]),
                                                  "level": DEF(["lim"], [ASSIGN("lv", F(0.75)), WHILE(CMP(V("lv"), (">", V("lim"))), [ASSIGN("lv", I(1))]), RETURN(V("lv"))])},
        [ASSIGN("gain", F(0.25)), WHILE(CMP(V("gain"), (">", I(1))), [ASSIGN("gain", I(1))]), ASSIGN("boost", BIN("*", V("gain"), I(3))), WRITE(V("boost")), WRITE(CALL("show", V("gain"))),
         ASSIGN("trim", F(1.5)), FOR("ti", I(2), [IF([(CMP(AREAD(), (">", I(0))), [CONTINUE])]), ASSIGN("trim", I(2))]), ASSIGN("half", BIN("-", V("trim"), I(1))), WRITE(V("half")),
         WRITE(CALL("level", I(5)))], ain=[1, 1])
    # annotated parameters: Python does not enforce annotations - the value the call site passes is the value the parameter holds
    add("fn_annotated_param", {"scale": DEF(["raw", "k"], [RETURN(BIN("*", V("raw"), V("k")))], ann={"raw": "int"}),
                               "lbl": DEF(["t", "n"], [RETURN(FSTR("", V("t"), ":", V("n")))], ann={"t": "str", "n": "float"})},
        [WRITE(CALL("scale", I(3), I(2))), WRITE(CALL("scale", I(3), F(1.5))), ASSIGN("c", CALL("scale", F(2.5), I(2))), WRITE(V("c")),
         ASSIGN("avg", BIN("/", AREAD(), I(2))), ASSIGN("d", CALL("scale", V("avg"), I(2))), WRITE(V("d")), WRITE(CALL("lbl", S("a"), I(3))), WRITE(CALL("lbl", S("b"), F(2.5)))], ain=[7])
    # n-ary min / max mixing a float with several ints (the result type and every intermediate must hold the float)
    add("fn_nary_minmax", {"cap": DEF(["v"], [RETURN(CALL("min", V("v"), I(100), I(255)))])},
        [ASSIGN("smp", BIN("*", AREAD(), F(0.5))), WRITE(CALL("max", V("smp"), I(1), I(2))), WRITE(CALL("min", F(0.5), AREAD(), I(7))),
         WRITE(CALL("max", I(1), V("smp"), I(2), I(0))), WRITE(CALL("min", I(9), I(8), V("smp"))), WRITE(CALL("cap", F(12.5))), WRITE(CALL("cap", BIN("*", AREAD(), F(0.5))))],
        ain=[5, 3, 25])
    # the same local name, hoisted out of a branch in one helper (int) and out of a loop in another (float), after the prologue
    # has hoisted a name of its own: every helper's locals are typed on their own
    add("fn_same_local_two_helpers",
        {"fa": DEF(["q"], [IF([(CMP(V("q"), (">", I(1))), [ASSIGN("t", I(3))])], [ASSIGN("t", I(4))]), RETURN(V("t"))]),
         "fb": DEF(["n"], [FOR("i", V("n"), [ASSIGN("t", BIN("*", V("i"), F(0.5)))]), RETURN(V("t"))])},
        [IF([(CMP(AREAD(), (">", I(1))), [ASSIGN("z", I(1))])], [ASSIGN("z", I(2))]), WRITE(CALL("fa", I(2))), WRITE(CALL("fb", I(4))), WRITE(V("z")),
         WRITE(CALL("fb", I(2))), WRITE(CALL("fa", I(0)))], ain=[5], lead=1)
    # a helper assigns a name WITHOUT declaring it global: the name is local to that helper although a global of that name exists
    # (and another helper does declare it global)
    add("fn_local_shadows_global", {"setg": DEF([], [ASSIGN("g", I(3))], ["g"]),
                                    "wrap": DEF([], [ASSIGN("g", I(4)), EXPR(CALL("setg")), WRITE(BIN("+", V("g"), I(5)))]),
                                    "rd": DEF([], [RETURN(V("g"))]),
                                    "lp": DEF(["n"], [ASSIGN("acc", I(0)), FOR("k", V("n"), [AUG("acc", "+", V("k"))]), RETURN(V("acc"))])},
        [ASSIGN("g", I(1)), ASSIGN("acc", I(100)), ASSIGN("k", I(50)), EXPR(CALL("wrap")), WRITE(V("g")), WRITE(CALL("rd")), WRITE(CALL("lp", I(4))), WRITE(V("acc")), WRITE(V("k"))])
    # a helper binds names ONLY through tuple assignment / a swap: they are its locals although globals of those names exist
    add("fn_tuple_bound_local_shadows_global",
        {"span": DEF(["a", "b"], [TUPLE(["lo", "hi"], [V("a"), V("b")]), IF([(CMP(V("lo"), (">", V("hi"))), [TUPLE(["lo", "hi"], [V("hi"), V("lo")])])]), RETURN(BIN("-", V("hi"), V("lo")))])},
        [ASSIGN("lo", I(10)), ASSIGN("hi", I(20)), WRITE(CALL("span", I(7), I(2))), WRITE(V("lo")), WRITE(V("hi"))],
        loop=[WRITE(CALL("span", I(1), I(4))), WRITE(BIN("+", V("lo"), V("hi")))], npass=2, lead=2)      # the globals stand BEFORE the helper
    add("fn_for_branch_hoist", {"f": DEF(["n"], [FOR("i", V("n"), [IF([(CMP(V("i"), ("==", I(0))), [ASSIGN("w", I(9))])]), WRITE(V("w"))]), RETURN(V("w"))])},
        [WRITE(CALL("f", I(3)))])
    # a helper re-binds its own parameters: the caller's variables keep their values
    add("fn_param_rebind", {"shout": DEF(["text"], [ASSIGN("text", BIN("+", V("text"), S("!"))), RETURN(V("text"))]),
                            "clampv": DEF(["v"], [IF([(CMP(V("v"), (">", I(9))), [ASSIGN("v", I(9))])]), RETURN(V("v"))])},
        [ASSIGN("s", S("hey")), WRITE(CALL("shout", V("s"))), WRITE(V("s")), ASSIGN("q", AREAD()), WRITE(CALL("clampv", V("q"))), WRITE(V("q"))], ain=[50])
    add("fn_list", {"total": DEF(["xs"], [ASSIGN("t", I(0)), FOR("i", CALL("len", V("xs")), [AUG("t", "+", INDEX(V("xs"), V("i")))]), RETURN(V("t"))])}, [ASSIGN("v", LIST(I(1), I(2), AREAD())), WRITE(CALL("total", V("v")))], ain=[4])
    return P


def persist_programs() -> list:
    P = []
    def add(name, setup, loop, ain=(), npass=3, defs=None):
        P.append(PROG(setup, loop, defs or {}, npass=npass, ain=list(ain), pid=name))
    add("per_acc", [ASSIGN("t", I(0))], [AUG("t", "+", I(2)), WRITE(V("t"))])
    add("per_setup_print", [ASSIGN("t", I(3)), WRITE(V("t"))], [AUG("t", "*", I(2)), WRITE(V("t")), SLEEP(I(5))])
    add("per_first_in_loop", [], [ASSIGN("k", I(5)), WRITE(V("k"))])
    # a name first bound at the top level of the loop body to a constant and changed later in the pass: the binding is a statement
    # that runs on EVERY pass (an accumulator / flag / scratch value starts afresh each time)
    add("per_reset_each_pass", [], [ASSIGN("tot", I(0)), ASSIGN("flag", B(False)), TUPLE(["lo", "hi"], [I(0), I(10)]), ASSIGN("scr", F(0.5)),
                                    FOR("ri", I(3), [AUG("tot", "+", BIN("+", V("ri"), I(1)))]), IF([(CMP(V("tot"), (">", I(5))), [ASSIGN("flag", B(True))])]),
                                    AUG("lo", "+", I(1)), AUG("hi", "-", V("lo")), AUG("scr", "*", I(3)), WRITE(V("tot")), WRITE(V("flag")), WRITE(V("lo")), WRITE(V("hi")), WRITE(V("scr"))], npass=3)
    add("per_cond_first", [], [IF([(CMP(AREAD(), (">", I(0))), [ASSIGN("z", I(5))])]), IF([(CMP(AREAD(), (">", I(0))), [WRITE(V("z"))])])], ain=[1, 1, 0, 1, 0, 1])
    add("per_counter_branch", [ASSIGN("n", I(0))], [AUG("n", "+", I(1)), IF([(CMP(BIN("%", V("n"), I(2)), ("==", I(0))), [WRITE(S("even"))])], [WRITE(S("odd"))])])
    add("per_float_acc", [ASSIGN("x", F(0.5))], [AUG("x", "+", F(0.25)), WRITE(V("x"))])
    add("per_sensor", [ASSIGN("best", I(0))], [ASSIGN("v", AREAD()), IF([(CMP(V("v"), (">", V("best"))), [ASSIGN("best", V("v"))])]), WRITE(V("best"))], ain=[3, 9, 4, 1])
    add("per_list", [ASSIGN("xs", LIST(I(1)))], [APPEND("xs", AREAD()), WRITE(CALL("len", V("xs")))], ain=[5, 6, 7])
    add("per_noloop", [ASSIGN("a", I(1)), WRITE(V("a")), SLEEP(I(3)), WRITE(S("done"))], None)
    add("per_inner_break", [], [FOR("i", I(5), [IF([(CMP(V("i"), ("==", I(2))), [BREAK])]), WRITE(V("i"))]), WRITE(S("after"))])
    # prologue: a name is changed inside a nested block (or by a helper), THEN a new name is first assigned from it at file scope
    add("pro_for_then_first", [ASSIGN("level", I(10)), FOR("pi", I(3), [ASSIGN("level", BIN("+", V("level"), I(20)))]), ASSIGN("start", BIN("+", V("level"), I(5))), WRITE(V("start"))],
        [AWRITE(9, V("start")), AUG("start", "+", I(1))])
    add("pro_if_then_first", [ASSIGN("base", I(4)), IF([(CMP(AREAD(), (">", I(0))), [ASSIGN("base", I(9))])]), ASSIGN("derived", BIN("*", V("base"), I(2))), WRITE(V("derived"))],
        [WRITE(V("derived")), SLEEP(V("derived"))], ain=[1])
    add("pro_while_then_first", [ASSIGN("cnt", I(0)), WHILE(CMP(V("cnt"), ("<", I(4))), [AUG("cnt", "+", I(1))]), ASSIGN("lim", BIN("+", V("cnt"), I(1))), ASSIGN("ok", CMP(V("cnt"), ("==", I(4))))],
        [WRITE(V("lim")), WRITE(V("ok"))])
    add("pro_fn_then_first", [ASSIGN("gain", I(1)), EXPR(CALL("tune")), ASSIGN("scaled", BIN("*", V("gain"), I(10)))], [WRITE(V("scaled"))],
        defs={"tune": DEF([], [ASSIGN("gain", I(7))], ["gain"])})
    # a prologue tuple assignment that binds a NEW name together with existing ones; the new name is used by the main loop
    add("pro_tuple_mixed", [ASSIGN("total", I(10)), TUPLE(["total", "last"], [I(0), V("total")]), WRITE(V("last")),
                            ASSIGN("lo", I(3)), ASSIGN("hi", I(7)), TUPLE(["lo", "hi", "span"], [V("hi"), V("lo"), BIN("-", V("hi"), V("lo"))]), WRITE(V("span"))],
        [AUG("total", "+", V("last")), WRITE(V("total")), WRITE(BIN("+", BIN("*", V("lo"), I(100)), BIN("+", BIN("*", V("hi"), I(10)), V("span"))))])
    # the program sets pin modes itself, more than once for one pin: every pin_mode statement runs once, in source order
    add("pro_mode_aba", [PMODE(7, "out"), DWRITE(7, I(1)), PMODE(7, "in"), PMODE(6, "inpu"), PMODE(7, "out"), DWRITE(7, I(0)), PMODE(6, "inpu"), PMODE(6, "out")],
        [DWRITE(7, CMP(AREAD(), (">", I(0)))), DWRITE(6, I(1))], ain=[1, 0, 1])
    add("pro_mode_in_blocks", [PMODE(7, "out"), IF([(CMP(AREAD(), (">", I(0))), [PMODE(7, "in"), PMODE(7, "out")])]), FOR("mi", I(2), [PMODE(5, "out"), DWRITE(5, V("mi"))])],
        [PMODE(7, "out"), DWRITE(7, I(1))], ain=[1])
    # names hoisted out of a branch that sits inside a loop: the hoisted declaration must not reset the name on every iteration / pass
    add("per_global_then_branch", [EXPR(CALL("init")), ASSIGN("n", I(0))], [AUG("n", "+", I(1)), IF([(CMP(V("n"), (">", I(1))), [ASSIGN("x", BIN("+", V("x"), I(1)))])]), WRITE(V("x"))],
        defs={"init": DEF([], [ASSIGN("x", I(5))], ["x"])})
    add("pro_while_branch_hoist", [ASSIGN("k", I(0)), WHILE(CMP(V("k"), ("<", I(3))), [IF([(CMP(V("k"), ("==", I(0))), [ASSIGN("u", I(7))])]), AUG("k", "+", I(1)), WRITE(V("u"))])], None)
    add("per_nested_hoist", [ASSIGN("n", I(0))], [AUG("n", "+", I(1)), FOR("j", I(2), [IF([(CMP(V("n"), ("==", I(1))), [ASSIGN("q", I(4))])]), WRITE(V("q"))])])
    add("per_pins", [DWRITE(7, I(1)), AWRITE(9, I(100))], [DWRITE(7, CMP(AREAD(), (">", I(0)))), AWRITE(9, AREAD()), SLEEP(I(10))], ain=[1, 5, 0, 200, 1, 255])
    return P


# ------------------------------------------------------------------ TypeFlows (C02)
def _tval(t: str, v: int, ain: list):
    ain.append(v)
    if t == "int":
        return AREAD()
    if t == "float":
        return BIN("*", AREAD(), F(0.5))
    if t == "bool":
        return CMP(AREAD(), (">", I(0)))
    return FSTR("s", AREAD(), ";")


def tflow_snippets(cases: list) -> list:
    out = []
    for n, c in enumerate(cases):
        site, t1, t2 = c["site"], c["t1"], c["t2"]
        two = t2 != "none"
        x, y, f = f"tx{n}", f"ty{n}", f"tf{n}"
        ain: list = []
        defs = {}
        if site == "straight":
            st = [ASSIGN(x, _tval(t1, 3, ain))] + ([ASSIGN(x, _tval(t2, 5, ain))] if two else []) + [WRITE(V(x))]
        elif site in ("taken-branch", "untaken-branch", "else-branch"):
            if not two:
                continue
            st = [ASSIGN(x, _tval(t1, 3, ain))]
            ain.append(1 if site == "taken-branch" else 0)
            cond = CMP(AREAD(), (">", I(0)))
            asg = [ASSIGN(x, _tval(t2, 5, ain))]
            st += [IF([(cond, asg)])] if site != "else-branch" else [IF([(cond, [PASS])], asg)]
            st += [WRITE(V(x))]
        elif site in ("for-body", "while-body"):
            if not two:
                continue
            st = [ASSIGN(x, _tval(t1, 3, ain))]
            asg = ASSIGN(x, _tval(t2, 5, ain))
            ain.append(ain[-1])
            if site == "for-body":
                st += [FOR(f"ti{n}", I(2), [asg])]
            else:
                st += [ASSIGN(f"tw{n}", I(0)), WHILE(CMP(V(f"tw{n}"), ("<", I(2))), [AUG(f"tw{n}", "+", I(1)), asg])]
            st += [WRITE(V(x))]
        elif site == "function-local":
            body = [ASSIGN("loc", _tval(t1, 3, ain))] + ([ASSIGN("loc", _tval(t2, 5, ain))] if two else []) + [WRITE(V("loc"))]
            defs[f] = DEF([], body)
            st = [EXPR(CALL(f))]
        elif site == "param-two-call-sites":
            defs[f] = DEF(["p"], [WRITE(V("p"))])
            st = [EXPR(CALL(f, _tval(t1, 3, ain)))] + ([EXPR(CALL(f, _tval(t2, 5, ain)))] if two else [])
        elif site == "return-join":
            if not two:
                continue
            a2: list = []
            defs[f] = DEF(["c"], [IF([(V("c"), [RETURN(_tval(t1, 3, a2))])]), RETURN(_tval(t2, 5, a2))])
            # the function reads its value when it runs: first call takes the first return, second the second
            ain += [1, 3, 0, 5]
            st = [WRITE(CALL(f, CMP(AREAD(), (">", I(0))))), WRITE(CALL(f, CMP(AREAD(), (">", I(0)))))]
        elif site == "hoisted-from-branch":
            ain.append(1)
            st = [IF([(CMP(AREAD(), (">", I(0))), [ASSIGN(x, _tval(t1, 3, ain))])])] + ([ASSIGN(x, _tval(t2, 5, ain))] if two else []) + [WRITE(V(x))]
        elif site == "hoisted-from-loop":
            st = [FOR(f"ti{n}", I(1), [ASSIGN(x, _tval(t1, 3, ain))])] + ([ASSIGN(x, _tval(t2, 5, ain))] if two else []) + [WRITE(V(x))]
        elif site == "augmented":
            if not two:
                continue
            st = [ASSIGN(x, _tval(t1, 3, ain)), AUG(x, "+", _tval(t2, 5, ain)), WRITE(V(x))]
        elif site == "swap":
            if not two:
                continue
            st = [ASSIGN(x, _tval(t1, 3, ain)), ASSIGN(y, _tval(t2, 5, ain)), TUPLE([x, y], [V(y), V(x)]), WRITE(V(x)), WRITE(V(y))]
        elif site == "tuple-reads-earlier-target":
            if not two:
                continue
            # a, b = v2, a : the right-hand side is evaluated before any target is bound, so b gets a's OLD value and type
            st = [ASSIGN(x, _tval(t1, 3, ain)), TUPLE([x, y], [_tval(t2, 5, ain), V(x)]), WRITE(V(y)), WRITE(V(x))]
        elif site == "comprehension-shadows-name":
            # the comprehension variable has the name of an outer variable: the outer one keeps its value and type
            st = [ASSIGN(x, _tval(t1, 3, ain)), ASSIGN(f"tl{n}", COMP(x, I(3), BIN("+", V(x), I(1)))), ASSIGN(y, V(x)),
                  WRITE(V(y)), WRITE(INDEX(V(f"tl{n}"), I(2)))]
        elif site == "comprehension-shadows-parameter":
            defs[f] = DEF(["k"], [ASSIGN("w", COMP("k", I(4), BIN("+", V("k"), I(1)))), WRITE(INDEX(V("w"), I(3))), RETURN(V("k"))])
            st = [ASSIGN(y, CALL(f, _tval(t1, 3, ain))), WRITE(V(y))]
        elif site == "query-result":
            continue
        else:
            raise ValueError(site)
        sn = snip(f"tflow{n}", st, ain, "tflow:" + site, defs)
        sn["types"] = [t1, t2]
        out.append(sn)
    return out


def type_label_snippets() -> list:
    """Expressions and statement sequences whose inferred type label matters after the statement itself: arithmetic on
    bool operands (an int in Python), augmented assignment followed by a use that derives a new type from the name."""
    out = []
    n = 0
    for op in ("+", "-", "*"):
        for a, b in ((5, 5), (5, 0), (0, 5), (0, 0)):
            n += 1
            st = [ASSIGN(f"bh{n}", BIN(op, CMP(AREAD(), (">", I(2))), CMP(AREAD(), (">", I(2))))), WRITE(V(f"bh{n}")),
                  ASSIGN(f"bk{n}", BIN("+", V(f"bh{n}"), I(10))), WRITE(V(f"bk{n}"))]
            out.append(snip(f"boolarith{n}", st, [a, b], "typelabel:bool-arith"))
    out.append(snip("boolarith-three", [ASSIGN("bt", BIN("+", BIN("+", CMP(AREAD(), (">", I(2))), CMP(AREAD(), (">", I(2)))), CMP(AREAD(), (">", I(2))))), WRITE(V("bt"))],
                    [5, 5, 5], "typelabel:bool-arith"))
    out.append(snip("boolarith-fn", [ASSIGN("ca", AREAD()), ASSIGN("cb", AREAD()), WRITE(CALL("cnt2", V("ca"), V("cb"))), ASSIGN("bq", CALL("cnt2", I(9), I(9))), WRITE(BIN("*", V("bq"), I(3)))], [5, 5], "typelabel:bool-arith",
                    {"cnt2": DEF(["a", "b"], [RETURN(BIN("+", CMP(V("a"), (">", I(2))), CMP(V("b"), (">", I(2)))))])}))
    # augmented assignment with a narrower right-hand side, then a use that takes its type from the name
    out.append(snip("aug-then-derive", [ASSIGN("lv", F(2.5)), AUG("lv", "+", I(1)), ASSIGN("lw", V("lv")), WRITE(V("lw")), WRITE(BIN("*", V("lv"), I(2)))], [], "typelabel:aug"))
    out.append(snip("aug-then-return", [WRITE(CALL("lvl")), ASSIGN("lr", CALL("lvl")), WRITE(V("lr"))], [], "typelabel:aug",
                    {"lvl": DEF([], [ASSIGN("level", F(2.5)), AUG("level", "+", I(1)), RETURN(V("level"))])}))
    out.append(snip("aug-mul-then-arg", [ASSIGN("gn", F(0.5)), AUG("gn", "*", I(3)), WRITE(CALL("twice", V("gn")))], [], "typelabel:aug",
                    {"twice": DEF(["q"], [RETURN(BIN("*", V("q"), I(2)))])}))
    out.append(snip("aug-mod-float", [ASSIGN("turn", F(725.5)), AUG("turn", "%", I(360)), WRITE(V("turn")), ASSIGN("tq", F(7.5)), AUG("tq", "//", I(2)), WRITE(V("tq"))], [], "typelabel:aug"))
    out.append(snip("aug-bool-counter", [ASSIGN("ha", AREAD()), ASSIGN("hb", AREAD()), WRITE(CALL("hits3", V("ha"), V("hb"), I(0)))], [5, 5], "typelabel:aug",
                    {"hits3": DEF(["a", "b", "c"], [ASSIGN("h", I(0)), AUG("h", "+", CMP(V("a"), (">", I(2)))), AUG("h", "+", CMP(V("b"), (">", I(2)))),
                                                     AUG("h", "+", CMP(V("c"), (">", I(2)))), RETURN(V("h"))])}))
    return out


def result_type_snippets(cases: list) -> list:
    """ExprCases again, but the result goes through a variable first: its declared type must hold the value."""
    out = []
    for n, c in enumerate(cases):
        ain: list = []
        l, r = _operand(c["l"], ain), _operand(c["r"], ain)
        e = CMP(l, (c["op"], r)) if c["fam"] == "cmp" else BIN(c["op"], l, r)
        out.append(snip(f"rt{c['fam']}{n}", [ASSIGN(f"rv{n}", e), WRITE(V(f"rv{n}"))], ain, "result-type"))
    return out


# ------------------------------------------------------------------ packing
def pack(snips: list, size: int = 20, mode: str = "setup", prefix: str = "pk") -> list:
    """Programs made of `size` snippets each, separated by serial markers '#<id>'.
    mode "setup": straight-line in the prologue; "function": each snippet in its own helper function;
    "loop": the snippets form the body of the main loop (one pass)."""
    progs = []
    for i in range(0, len(snips), size):
        part = snips[i:i + size]
        setup, loop, defs, ain = [], None, {}, []
        body: list = []
        for j, s in enumerate(part):
            body.append(WRITE(S(f"#{s['id']}")))
            defs.update(copy.deepcopy(s.get("defs") or {}))
            if mode == "function":
                fname = "fn_" + "".join(ch if ch.isalnum() else "_" for ch in s["id"])
                defs[fname] = DEF([], copy.deepcopy(s["stmts"]))
                body.append(EXPR(CALL(fname)))
            else:
                body += copy.deepcopy(s["stmts"])
            ain += s["ain"]
        body.append(WRITE(S("#end")))
        if mode == "loop":
            loop = body
        else:
            setup = body
        p = PROG(setup, loop, defs, npass=1, ain=ain, pid=f"{prefix}-{mode}-{i // size}")
        p["snips"] = [s["id"] for s in part]
        progs.append(p)
    return progs


def single(s: dict, mode: str = "setup") -> dict:
    return pack([s], 1, mode, prefix=f"one-{s['id']}")[0]


# ------------------------------------------------------------------ seeded random whole programs
class Gen:
    OPS = ["+", "-", "*"]

    def __init__(self, rnd: random.Random, ops=None, floats=True, lists=False):
        self.r, self.ops, self.floats, self.lists = rnd, list(ops or self.OPS), floats, lists
        self.k = 0

    def lit(self):
        r = self.r
        if self.floats and r.random() < 0.2:
            return F(r.choice([-1.5, 0.5, 2.0, 1.25]))
        return I(r.choice([-7, -2, -1, 0, 1, 2, 3, 7]))

    def expr(self, names, d=2):
        r = self.r
        if d == 0 or r.random() < 0.3:
            if names and r.random() < 0.65:
                return V(r.choice(names))
            return self.lit()
        c = r.random()
        if c < 0.5:
            return BIN(r.choice(self.ops), self.expr(names, d - 1), self.expr(names, d - 1))
        if c < 0.6:
            return UN("-", self.expr(names, d - 1))
        if c < 0.7:
            f = r.choice(["abs", "min", "max"])
            return CALL(f, self.expr(names, d - 1)) if f == "abs" else CALL(f, self.expr(names, d - 1), self.expr(names, d - 1))
        if c < 0.82:
            return IFEXP(self.cond(names, d - 1), self.expr(names, d - 1), self.expr(names, d - 1))
        return BIN(r.choice(self.ops), self.expr(names, d - 1), self.lit())

    def cond(self, names, d=1):
        r = self.r
        c = CMP(self.expr(names, d), (r.choice(["<", "<=", "==", "!=", ">", ">="]), self.expr(names, d)))
        if r.random() < 0.25:
            c = BOOLOP(r.choice(["and", "or"]), c, CMP(self.expr(names, d), ("<", self.expr(names, d))))
        if r.random() < 0.12:
            c = UN("not", c)
        return c

    def block(self, names, d, inloop, n=None):
        out, names = [], list(names)
        for _ in range(n or self.r.randint(1, 4)):
            sts = self.stmt(names, d, inloop)
            for st in (sts if isinstance(sts, list) else [sts]):
                out.append(st)
                if st["k"] == "assign" and st["n"] not in names and not st["n"].startswith("w"):
                    names.append(st["n"])
        return out

    def stmt(self, names, d, inloop):
        r = self.r
        c = r.random()
        if not names or c < 0.22:
            return ASSIGN(r.choice(["a", "b", "c", "t"]), self.expr(names))
        if c < 0.32:
            return AUG(r.choice(names), r.choice(self.ops), self.expr(names, 1))
        if c < 0.52:
            return WRITE(self.expr(names))
        if c < 0.58:
            return WRITE(FSTR("v=", V(r.choice(names)), ";"))
        if c < 0.62:
            return SLEEP(I(r.choice([0, 1, 5])))
        if inloop and c < 0.68:
            return IF([(self.cond(names), [BREAK])])
        if d > 0 and c < 0.82:
            br = [(self.cond(names), self.block(names, d - 1, inloop))]
            if r.random() < 0.3:
                br.append((self.cond(names), self.block(names, d - 1, inloop)))
            return IF(br, self.block(names, d - 1, inloop) if r.random() < 0.5 else [])
        if d > 0 and c < 0.92:
            self.k += 1
            return FOR(r.choice(["i", "j"]) + str(self.k), I(r.randint(0, 4)), self.block(names, d - 1, True))
        if d > 0 and c < 0.97:
            self.k += 1
            w = f"w{self.k}"
            return [ASSIGN(w, I(0)), WHILE(CMP(V(w), ("<", I(r.randint(1, 3)))), [AUG(w, "+", I(1))] + self.block(names, d - 1, True))]
        return WRITE(self.expr(names))

    def program(self, pid: str):
        r = self.r
        setup = [ASSIGN("a", AREAD()), ASSIGN("b", self.lit())] + self.block(["a", "b"], 2, False)
        loop = self.block(["a", "b"], 2, False) if r.random() < 0.8 else None
        return PROG(setup, loop, {}, npass=3, ain=[r.choice([-3, 0, 2, 5])], pid=pid)


# ------------------------------------------------------------------ C03: fold sites x routings (AST form)
ROUTINGS = ("literal", "constvar", "after", "untaken", "taken", "loop2", "loop0", "fn_called", "fn_uncalled", "sensor", "loopjump")


def route(routing: str, name: str, v: int, tag: str):
    """Put the int v into variable `name` by the given routing.  Returns (pre, expr, post, defs, ain)."""
    other = v + 1
    if routing == "literal":
        return [], I(v), [], {}, []
    if routing == "sensor":
        return [ASSIGN(name, AREAD())], V(name), [], {}, [v]
    if routing == "constvar":
        return [ASSIGN(name, I(v))], V(name), [], {}, []
    if routing == "after":
        return [ASSIGN(name, I(v))], V(name), [ASSIGN(name, I(other))], {}, []
    if routing == "untaken":
        return [ASSIGN(name, I(v)), IF([(CMP(AREAD(), (">", I(0))), [ASSIGN(name, I(other))])])], V(name), [], {}, [0]
    if routing == "taken":
        return [ASSIGN(name, I(other)), IF([(CMP(AREAD(), (">", I(0))), [ASSIGN(name, I(v))])])], V(name), [], {}, [1]
    if routing == "loop2":
        return [ASSIGN(name, I(v - 2)), FOR(f"lk_{tag}", I(2), [AUG(name, "+", I(1))])], V(name), [], {}, []
    if routing == "loop0":
        return [ASSIGN(name, I(v)), FOR(f"lk_{tag}", AREAD(), [AUG(name, "+", I(1))])], V(name), [], {}, [0]
    if routing == "loopjump":     # a constant-count loop that leaves before it re-binds the name
        return [ASSIGN(name, I(v)), FOR(f"lk_{tag}", I(2), [IF([(CMP(AREAD(), (">", I(0))), [BREAK])]), ASSIGN(name, I(other))])], V(name), [], {}, [1]
    if routing == "fn_called":
        return [ASSIGN(name, I(other)), EXPR(CALL(f"set_{tag}"))], V(name), [], {f"set_{tag}": DEF([], [ASSIGN(name, I(v))], [name])}, []
    if routing == "fn_uncalled":
        return [ASSIGN(name, I(v))], V(name), [], {f"set_{tag}": DEF([], [ASSIGN(name, I(other))], [name])}, []
    raise ValueError(routing)


FOLD_SITES = ("sleep", "range", "arith", "awrite", "index", "strlen", "listlen", "assign", "select-type", "select-arm", "minmax")


def fold_snippets() -> list:
    out = []
    n = 0
    for site in FOLD_SITES:
        for routing in ROUTINGS:
            for v in (3, 10):
                n += 1
                tag = f"{n}"
                name = f"fv{n}"
                pre, e, post, defs, ain = route(routing, name, v, tag)
                if site == "sleep":
                    st = [SLEEP(e)]
                elif site == "range":
                    st = [FOR(f"fi{n}", e, [WRITE(V(f"fi{n}"))])]
                elif site == "arith":
                    st = [WRITE(BIN("+", BIN("*", e, I(2)), I(1)))]
                elif site == "awrite":
                    st = [AWRITE(9, e)]
                elif site == "index":
                    st = [ASSIGN(f"fl{n}", COMP(f"fj{n}", I(12), BIN("*", V(f"fj{n}"), I(3)))), WRITE(INDEX(V(f"fl{n}"), e))]
                elif site == "strlen":
                    # the routed value selects which string the name holds; len() must follow it
                    st = [ASSIGN(f"fs{n}", IFEXP(CMP(e, (">", I(5))), S("abcdefgh"), S("abc"))), WRITE(CALL("len", V(f"fs{n}")))]
                elif site == "listlen":
                    st = [ASSIGN(f"fl{n}", COMP(f"fj{n}", e, V(f"fj{n}"))), WRITE(CALL("len", V(f"fl{n}")))]
                elif site == "assign":
                    # the FIRST assignment of a new name computed from the routed one (a declaration with initialiser)
                    st = [ASSIGN(f"fa{n}", BIN("+", e, I(5))), WRITE(V(f"fa{n}")), AWRITE(9, V(f"fa{n}"))]
                elif site == "select-type":
                    # the routed value selects the float arm: the new name must be able to hold it
                    st = [ASSIGN(f"fa{n}", IFEXP(CMP(e, ("==", I(v))), F(2.5), I(1))), WRITE(V(f"fa{n}"))]
                elif site == "select-arm":
                    st = [ASSIGN(f"fa{n}", IFEXP(CMP(e, ("==", I(v))), I(7), I(1))), WRITE(V(f"fa{n}")),
                          WRITE(BOOLOP("and", CMP(e, ("==", I(v))), CMP(e, ("<", I(v + 1)))))]
                elif site == "minmax":
                    st = [ASSIGN(f"fa{n}", CALL("min", e, F(v + 0.5))), WRITE(V(f"fa{n}")), WRITE(CALL("max", e, I(v)))]
                s = snip(f"fold-{site}-{routing}-{v}", pre + st + post, ain, f"fold:{site}:{routing}", defs)
                s["routing"], s["site"] = routing, site
                out.append(s)
    return out


def scope_fold_snippets() -> list:
    """Fold sites whose name is bound in more than one scope, or updated by augmented assignment inside a loop."""
    out = []
    # a helper parameter that has the name of a file-scope constant
    out.append(snip("fold-param-shadows-str", [ASSIGN("banner", S("hello")), WRITE(CALL("pad", S("hi"))), WRITE(CALL("pad", S("a much longer one"))),
                                                WRITE(CALL("len", V("banner")))], [], "fold:param-shadow",
                    {"pad": DEF(["banner"], [RETURN(BIN("-", I(16), CALL("len", V("banner"))))])}))
    out.append(snip("fold-param-shadows-int", [ASSIGN("nn", I(3)), EXPR(CALL("rep", I(2))), EXPR(CALL("rep", AREAD())), WRITE(V("nn"))], [4], "fold:param-shadow",
                    {"rep": DEF(["nn"], [SLEEP(V("nn")), FOR("ri", V("nn"), [WRITE(V("ri"))])])}))
    # augmented assignment inside a loop, then a name-based fold site in the same body / after the loop
    out.append(snip("fold-aug-str-in-loop", [ASSIGN("bar", S("#")), FOR("bi", I(4), [AUG("bar", "+", S("#")), WRITE(CALL("len", V("bar")))])],
                    [], "fold:aug-loop"))
    out.append(snip("fold-aug-str-after-loop", [ASSIGN("bar2", S("#")), FOR("bi2", I(4), [AUG("bar2", "+", S("#"))]), WRITE(CALL("len", V("bar2")))],
                    [], "fold:aug-loop"))
    out.append(snip("fold-aug-int-in-loop", [ASSIGN("dl", I(1)), FOR("di", I(3), [AUG("dl", "+", I(2)), SLEEP(V("dl"))]), SLEEP(V("dl")),
                                             FOR("dj", V("dl"), [WRITE(V("dj"))])], [], "fold:aug-loop"))
    out.append(snip("fold-aug-str-in-while", [ASSIGN("ws", S("ab")), ASSIGN("wk", I(0)),
                                              WHILE(CMP(V("wk"), ("<", I(3))), [AUG("wk", "+", I(1)), AUG("ws", "+", S("c")), WRITE(CALL("len", V("ws")))])],
                    [], "fold:aug-loop"))
    out.append(snip("fold-aug-in-branch", [ASSIGN("bs", S("ab")), IF([(CMP(AREAD(), (">", I(0))), [AUG("bs", "+", S("cd"))])]), WRITE(CALL("len", V("bs")))],
                    [0], "fold:aug-loop"))
    # arms of one if / elif / else chain: what an earlier arm assigns must not leak into a later arm (nor the other way round)
    for n, (a1, a2, tag) in enumerate([(0, 1, "second"), (0, 0, "else"), (1, 0, "first")]):
        sv, nv, lv = f"as{n}", f"an{n}", f"al{n}"
        out.append(snip(f"fold-sibling-arms-{tag}", [
            ASSIGN(sv, S("abc")), ASSIGN(nv, I(3)), ASSIGN(lv, LIST(I(1), I(0), I(0))),
            IF([(CMP(AREAD(), (">", I(0))), [ASSIGN(sv, S("abcdef")), ASSIGN(nv, I(10)), ASSIGN(lv, LIST(I(1), I(1), I(1))), SLEEP(V(nv))]),
                (CMP(AREAD(), (">", I(0))), [WRITE(CALL("len", V(sv))), SLEEP(V(nv)), FOR(f"ai{n}", V(nv), [WRITE(INDEX(V(lv), V(f"ai{n}")))])])],
               [WRITE(BIN("+", CALL("len", V(sv)), I(100))), SLEEP(BIN("+", V(nv), I(1))), AWRITE(9, BIN("*", V(nv), I(20)))])],
            [a1, a2], "fold:sibling-arms"))
    # tuple assignments: the whole right-hand side is evaluated before any target is bound - also for what is folded from constants
    out.append(snip("fold-tuple-swap-str", [ASSIGN("ta", S("ab")), ASSIGN("tb", S("abcdef")), TUPLE(["ta", "tb"], [V("tb"), V("ta")]),
                                            WRITE(CALL("len", V("ta"))), SLEEP(CALL("len", V("tb"))), WRITE(V("ta"))], [], "fold:tuple"))
    out.append(snip("fold-tuple-rotate-str", [ASSIGN("ra", S("a")), ASSIGN("rb", S("bb")), ASSIGN("rc", S("cccc")), TUPLE(["ra", "rb", "rc"], [V("rb"), V("rc"), V("ra")]),
                                              WRITE(BIN("+", BIN("*", CALL("len", V("ra")), I(100)), BIN("+", BIN("*", CALL("len", V("rb")), I(10)), CALL("len", V("rc")))))], [], "fold:tuple"))
    out.append(snip("fold-tuple-measure-then-rebind", [ASSIGN("tg", S("ab")), TUPLE(["tg", "tw"], [S("wide"), CALL("len", V("tg"))]), WRITE(V("tw")), WRITE(CALL("len", V("tg"))), SLEEP(BIN("*", V("tw"), I(25)))],
                    [], "fold:tuple"))
    out.append(snip("fold-tuple-swap-int-fold", [ASSIGN("na", I(2)), ASSIGN("nb", I(6)), TUPLE(["na", "nb"], [V("nb"), V("na")]), SLEEP(BIN("*", V("na"), I(100))),
                                                 FOR("ni", V("nb"), [WRITE(V("ni"))]), AWRITE(9, BIN("*", V("na"), I(10)))], [], "fold:tuple"))
    # a string built from a run-time value (a helper parameter, a sensor reading, a loop variable) is itself a run-time value: its
    # length is not a transpile-time quantity (nor is anything derived from that length)
    out.append(snip("fold-derived-str-param", [WRITE(CALL("banner", S("Bob"))), WRITE(CALL("banner", S("Alexandra"))), WRITE(CALL("framed", S("ab"))), WRITE(CALL("framed", S("abcdefg")))], [],
                    "fold:derived-str", {"banner": DEF(["who"], [ASSIGN("msg", BIN("+", S("Hi "), V("who"))), RETURN(CALL("len", V("msg")))]),
                                         "framed": DEF(["t"], [ASSIGN("fr", BIN("+", BIN("+", S("["), V("t")), S("]"))), ASSIGN("fw", CALL("len", V("fr"))), SLEEP(V("fw")), RETURN(BIN("*", V("fw"), I(2)))])}))
    out.append(snip("fold-derived-str-reading", [ASSIGN("rv", AREAD()), ASSIGN("rs", BIN("+", S("v="), CALL("str", V("rv")))), ASSIGN("rw", CALL("len", V("rs"))), WRITE(V("rw")),
                                                 ASSIGN("rf", FSTR("<", V("rv"), ">")), WRITE(CALL("len", V("rf"))), SLEEP(CALL("len", V("rf"))), WRITE(V("rs"))], [512], "fold:derived-str"))
    out.append(snip("fold-derived-str-loopvar", [FOR("dk", I(12), [ASSIGN("ds", BIN("+", S("n"), CALL("str", BIN("*", V("dk"), I(9))))), ASSIGN("dn", CALL("len", V("ds")))]), WRITE(V("dn")), WRITE(V("ds"))], [],
                    "fold:derived-str"))
    # a loop with a constant count runs at least once, but not necessarily to the end of its body: a re-binding below a taken
    # `continue` / `break` never happens
    for n, (jump, taken) in enumerate([(CONTINUE, 1), (BREAK, 1), (CONTINUE, 0), (BREAK, 0)]):
        tg, nv = f"jt{n}", f"jn{n}"
        out.append(snip(f"fold-loop-jump-{'continue' if jump is CONTINUE else 'break'}-{'taken' if taken else 'untaken'}",
                        [ASSIGN(tg, S("xy")), ASSIGN(nv, I(2)), FOR(f"ji{n}", I(3), [IF([(CMP(AREAD(), (">", I(0))), [jump])]), ASSIGN(tg, S("long")), ASSIGN(nv, I(9))]),
                         SLEEP(V(nv)), WRITE(V(tg)), FOR(f"jk{n}", V(nv), [WRITE(V(f"jk{n}"))]), AWRITE(9, BIN("*", V(nv), I(20)))], [taken, taken, taken], "fold:loop-jump"))
        # (the same with len() of the string is a trigger of the known finding len-folded-stale: probe stratum)
        out.append(snip(f"fold-loop-jump-len-{'continue' if jump is CONTINUE else 'break'}-{'taken' if taken else 'untaken'}",
                        [ASSIGN(tg + "l", S("xy")), FOR(f"jl{n}", I(3), [IF([(CMP(AREAD(), (">", I(0))), [jump])]), ASSIGN(tg + "l", S("long"))]), WRITE(CALL("len", V(tg + "l")))],
                        [taken, taken, taken], "fold:loop-jump"))
    # name-free arithmetic (foldable at transpile time) with floor division, modulo and powers of negative / inexact operands, at the
    # sites that bake a number into the firmware
    arith = [(BIN("*", BIN("//", I(7), I(2)), I(100)), "floordiv-then-mul"), (BIN("*", BIN("//", I(-7), I(2)), I(-100)), "neg-floordiv-then-mul"),
             (BIN("*", BIN("//", I(9), I(2)), I(2)), "floordiv-count"), (BIN("+", BIN("%", I(-7), I(3)), I(10)), "neg-mod"), (BIN("-", BIN("//", I(7), I(-2)), I(-10)), "floordiv-neg-divisor"),
             (BIN("*", BIN("%", I(7), I(-3)), I(-5)), "mod-neg-divisor"), (BIN("//", BIN("*", I(7), I(10)), I(4)), "mul-then-floordiv"), (BIN("*", BIN("**", I(2), I(3)), I(3)), "pow-then-mul")]
    for n, (e, tag) in enumerate(arith):
        kv = f"ak{n}"
        out.append(snip(f"fold-literal-arith-{tag}", [SLEEP(e), WRITE(e), FOR(f"ai{n}", e if tag == "floordiv-count" else I(2), [WRITE(V(f"ai{n}"))]), ASSIGN(kv, e),
                                                      ASSIGN(kv + "t", BIN("*", V(kv), I(2))), WRITE(V(kv + "t")), WRITE(BIN("+", V(kv), I(1)))], [], "fold:literal-arith"))
    # name-free comparison chains (foldable at transpile time): each comparison is with the PREVIOUS operand
    chains = [((0, "<", 10, "<", 5), 100, 500), ((0, "<=", 300, "<=", 255), 200, 10), ((3, ">", 1, ">", 2), 7, 8), ((1, "<", 2, "<", 3), 30, 40),
              ((2, "==", 2, "!=", 2), 5, 6), ((5, ">", 4, ">", 4), 11, 12), ((1, "<", 3, ">", 2), 21, 22), ((1, "<", 2, "<", 3, "<", 2), 31, 32)]
    for n, (ch, yes, no) in enumerate(chains):
        c = CMP(I(ch[0]), *[(ch[i], I(ch[i + 1])) for i in range(1, len(ch), 2)])
        out.append(snip(f"fold-literal-chain-{n}", [SLEEP(IFEXP(c, I(yes), I(no))), WRITE(c), AWRITE(9, IFEXP(c, I(yes), I(no))),
                                                    FOR(f"ci{n}", IFEXP(c, I(2), I(1)), [WRITE(V(f"ci{n}"))])], [], "fold:literal-chain"))
    for s in out:
        s["routing"], s["site"] = "scope", s["fam"]
    return out


def list_routing_snippets() -> list:
    """len()/index of a list that is mutated on some path before the site (taken / untaken branch, loop that runs
    0 / 2 times, called / uncalled function, through an alias)."""
    out = []
    n = 0
    # falsy elements: removing / appending 0 (the list is known at transpile time; its tracked copy must follow)
    for op in ("remove0", "append0", "remove0-var"):
        n += 1
        xs = f"lz{n}"
        pre0 = [ASSIGN(f"zv{n}", I(0))] if op == "remove0-var" else []
        mut = REMOVE(xs, V(f"zv{n}")) if op == "remove0-var" else (REMOVE(xs, I(0)) if op == "remove0" else APPEND(xs, I(0)))
        st = [ASSIGN(xs, LIST(I(1), I(0), I(1)))] + pre0 + [mut, WRITE(CALL("len", V(xs))), WRITE(INDEX(V(xs), I(1))), WRITE(INDEX(V(xs), I(-1)))]
        s = snip(f"listfalsy-{op}", st, [], "listroute:falsy", {})
        s["routing"], s["site"] = "straight", "list-" + op
        out.append(s)
    for routing in ("straight", "untaken", "taken", "loop2", "loop0", "fn_called", "fn_uncalled"):
        for op in ("append", "remove"):
            n += 1
            xs = f"lr{n}"
            mut = APPEND(xs, I(9)) if op == "append" else REMOVE(xs, I(2))
            defs, ain = {}, []
            if routing == "straight":
                pre = [mut]
            elif routing in ("untaken", "taken"):
                ain = [1 if routing == "taken" else 0]
                pre = [IF([(CMP(AREAD(), (">", I(0))), [mut])])]
            elif routing == "loop2":
                pre = [FOR(f"lk{n}", I(2), [APPEND(xs, V(f"lk{n}"))])] if op == "append" else [FOR(f"lk{n}", I(2), [REMOVE(xs, BIN("+", V(f"lk{n}"), I(1)))])]
            elif routing == "loop0":
                ain = [0]
                pre = [FOR(f"lk{n}", AREAD(), [mut])]
            elif routing == "fn_called":
                defs = {f"mut{n}": DEF([], [mut], [xs])}
                pre = [EXPR(CALL(f"mut{n}"))]
            else:
                defs = {f"mut{n}": DEF([], [mut], [xs])}
                pre = []
            st = [ASSIGN(xs, LIST(I(1), I(2), I(3)))] + pre + [WRITE(CALL("len", V(xs))), WRITE(INDEX(V(xs), I(-1)))]
            s = snip(f"listroute-{routing}-{op}", st, ain, f"listroute:{routing}", defs)
            s["routing"], s["site"] = routing, "list-" + op
            out.append(s)
            # the same with an element that is read from a sensor: the list has no transpile-time value, its length is a run-time
            # quantity on every path (len() must not be baked from bookkeeping that counts statements, not executions)
            if routing not in ("fn_called", "fn_uncalled"):
                import copy
                xr = f"lq{n}"
                pre_r = json.loads(json.dumps(pre).replace(f'"{xs}"', f'"{xr}"'))
                st = [ASSIGN(xr, LIST(I(1), I(2), AREAD()))] + pre_r + [WRITE(CALL("len", V(xr))), WRITE(INDEX(V(xr), I(-1))), ASSIGN(f"ln{n}", CALL("len", V(xr))), WRITE(BIN("*", V(f"ln{n}"), I(10)))]
                s = snip(f"listroute-rt-{routing}-{op}", st, [3] + ain, f"listroute:{routing}", {})
                s["routing"], s["site"] = routing, "list-rt-" + op
                out.append(s)
    return out
