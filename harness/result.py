"""Verdict bookkeeping: violations, known findings, evidence files, replay files."""
from __future__ import annotations

import json
import os
import time
from pathlib import Path

from .common import EVIDENCE, REPLAYS, VERIF, dumps

KNOWN_FILE = VERIF / "known_findings.json"


def load_known(prop: str) -> list[dict]:
    """The committed list (known_findings.json, assembled from known/*.json by harness/known_merge.py)."""
    if not KNOWN_FILE.exists():
        return []
    entries = json.loads(KNOWN_FILE.read_text()).get("findings", [])
    return [e for e in entries if e.get("property") == prop and e.get("status") == "known"]


class Run:
    """One execution of one property check."""

    def __init__(self, prop: str, tier: str, seed: int, level: str = "model_checking") -> None:
        self.prop, self.tier, self.seed, self.level = prop, tier, seed, level
        self.t0 = time.time()
        import shutil
        shutil.rmtree(REPLAYS / prop, ignore_errors=True)      # replay files of an earlier run must not linger
        self.violations: list[dict] = []
        self.known_hits: dict[str, str] = {}
        self.known = {e["id"]: e for e in load_known(prop)}
        self.cov: dict = {"states": 0, "transitions": 0, "traces_validated_against_impl": 0, "samples": [],
                          "evaluations": 0, "distinct_nontrivial": 0, "rule": ""}
        self.assumptions: list[str] = []
        self.notes: list[str] = []
        self._distinct: set = set()
        self.spec_gaps = 0

    # ---- coverage accounting -------------------------------------------------
    def add_tlc(self, res, label: str = "") -> None:
        self.cov["states"] += int(res.distinct)
        self.cov["transitions"] += int(res.generated)
        self.cov.setdefault("tlc_runs", []).append(
            {"what": label, "generated": res.generated, "distinct": res.distinct, "depth": res.depth, "wall_s": res.wall_s,
             **({"actions_covered": {k: v[1] for k, v in res.coverage.items()}} if res.coverage else {})})

    def count(self, key, nontrivial: bool = True) -> None:
        """Count one evaluated case; `key` identifies the case for distinctness."""
        self.cov["evaluations"] += 1
        if nontrivial:
            self._distinct.add(key if isinstance(key, (str, int, tuple)) else dumps(key))

    def sample(self, obj, limit: int = 4) -> None:
        if len(self.cov["samples"]) < limit:
            self.cov["samples"].append(obj)

    def traces(self, n: int) -> None:
        self.cov["traces_validated_against_impl"] += int(n)

    # ---- verdicts --------------------------------------------------------------
    def violation(self, what: str, replay: dict, finding: str | None = None) -> None:
        """Report a non-conformance. If `finding` names a listed known finding, it is a KNOWN-FINDING line."""
        if finding is not None and finding in self.known:
            self.known_hits.setdefault(finding, what)
            return
        REPLAYS.mkdir(parents=True, exist_ok=True)
        d = REPLAYS / self.prop
        d.mkdir(exist_ok=True)
        path = d / f"case-{len(self.violations) + 1:03d}.json"
        replay = dict(replay)
        replay.setdefault("property", self.prop)
        replay.setdefault("what", what)
        path.write_text(json.dumps(replay, indent=1, default=str))
        self.violations.append({"what": what, "replay": str(path)})

    def spec_gap(self, what: str) -> None:
        self.spec_gaps += 1
        print(f"SPEC-GAP property={self.prop} {what}")

    # ---- finish ----------------------------------------------------------------
    def finish(self) -> int:
        self.cov["distinct_nontrivial"] = len(self._distinct)
        self.cov["spec_gaps"] = self.spec_gaps
        if self.notes:
            self.cov["notes"] = self.notes
        self.cov["known_findings_reproduced"] = sorted(self.known_hits)
        ev = {
            "property_id": self.prop,
            "tier": self.tier,
            "seed": self.seed,
            "level": self.level,
            "coverage": self.cov,
            "assumptions": self.assumptions,
            "wall_s": round(time.time() - self.t0, 2),
            "violations": len(self.violations),
        }
        # extension checks (ids X..: behaviour beyond the listed properties) keep their evidence apart from the properties' files
        evdir = EVIDENCE if not self.prop.startswith("X") else EVIDENCE.parent / "extra" / "evidence"
        evdir.mkdir(parents=True, exist_ok=True)
        (evdir / f"{self.prop}.json").write_text(json.dumps(ev, indent=1, default=str) + "\n")
        for fid, what in sorted(self.known_hits.items()):
            print(f"KNOWN-FINDING: property={self.prop} {fid}: {what}")
        for v in self.violations[:20]:
            print(f"VIOLATION property={self.prop} replay={v['replay']}")
            print(f"  {v['what']}")
        if len(self.violations) > 20:
            print(f"  ... {len(self.violations) - 20} more violations (see evidence)")
        print(f"{self.prop} {self.tier}: evaluations={self.cov['evaluations']} distinct={self.cov['distinct_nontrivial']} "
              f"states={self.cov['states']} traces={self.cov['traces_validated_against_impl']} "
              f"violations={len(self.violations)} known={len(self.known_hits)} wall={ev['wall_s']}s")
        return 1 if self.violations else 0
