"""Assemble /verif/known_findings.json (the committed list) from the per-property work files known/*.json and the
table of repaired defects below.  Run by hand after triage: python3 harness/known_merge.py.  Never run by a check."""
import json
from pathlib import Path

V = Path(__file__).resolve().parent.parent

# finding id -> (property, commit, what failed)
FIXED = {
    ("C04", "timed-led-arguments-evaluated-per-iteration"): ("575ab9b", "the delay argument of Led.blink / fade_in / fade_out / flash_pattern was re-evaluated in every iteration of the emitted loop (a sensor read in the argument position was taken again and again), not at all for an empty pattern, and RGBLed.blink / fade evaluated times / duration before the colours; found by the `rti` rendering written after seeded change C04-12"),
    ("C11", "parser-stack-memoryerror-escapes"): ("68e133e", "an expression nested tens of thousands of levels deep (`x = ----...1`) escaped from parse() as MemoryError (\"Parser stack overflowed\"), an internal error class; reported by a seeding sub-agent, reproduced by the deep-nesting scripts"),
    ("C11", "folded-growth-not-prompt"): ("80dcd43", "a folded variable squared line after line (`a = a * a`) or a folded string doubled line after line made translation take minutes / gigabytes (not prompt); reported by a seeding sub-agent, reproduced by the growth scripts"),
    ("C02", "forward-helper-call-typed-int"): ("0a685e4", "a helper calling a helper defined further down took the callee's result for an int (`return scaled(v * 0.5)` truncated 7.5 to 7) and passed float arguments uncast (ambiguous call, no compile, when the callee had an int and a float variant); found by the program written after seeded change C01-9"),
    ("C07", "column0-comment-in-helper-hides-locals"): ("bc7d032", "a comment line at column 0 inside a helper body made the helper's local names (those that shadow a global) write the global: a re-layout with comments changed the firmware (introduced with ad7ffdb, reported by a seeding sub-agent, reproduced by the def-local skeleton)"),
    ("C01", "helper-global-shadowed-by-main-loop-local"): ("0aa309c", "a name a helper declared `global` and the main loop bound first was declared again as a local of loop(): the helper worked on a different variable and its updates were lost (introduced with ad7ffdb, found by the C09 thorough tier)"),
    ("C01", "helper-local-writes-global"): ("ad7ffdb", "a helper's assignment to a name that is also a file-scope variable wrote the global although the helper did not declare it `global`"),
    ("C01", "loop-born-variable-reset"): ("45dd9dc", "a name first assigned inside a branch at the top level of the main loop was a default-initialised local of loop(): it lost its value at every pass"),
    ("C01", "hoisted-variable-reset-in-nested-loop"): ("326804e", "a name hoisted out of a branch inside a loop was reset to its default at the top of every iteration"),
    ("C06", "prologue-tuple-new-name-local-to-setup"): ("d73a7fb", "a new name bound by a file-scope tuple assignment next to existing names was local to setup(); the main loop using it did not compile"),
    ("C07", "keyword-against-parenthesis-header-dropped"): ("befa577", "`if(x):` / `elif(x):` / `while(x):` headers were dropped silently and `while(True):` / `while (True):` were not the main loop"),
    ("C02", "hoisted-local-type-shared-between-helpers"): ("e87d46b", "helpers shared the record of hoisted declaration types: a float local hoisted in one helper was declared int because another helper had hoisted an int of the same name"),
    ("C01", "tuple-assign-global-in-helper"): ("dda3a1b", "a tuple assignment to `global` names inside a helper declared locals instead of assigning the globals"),
    ("C09", "list-alias-shallow-copy"): ("b5d87be", "`b = a` for a list shared the buffer: a later append / re-assignment through either name freed it under the other (heap-use-after-free)"),
    ("C09", "list-created-in-loop-leaks"): ("b5d87be", "a list created while loop() runs was never freed (no destructor): the heap grew every pass"),
    ("C15", "button-declared-in-loop-startup-click"): ("a4c5e9b", "a Button constructed inside the main loop got no initial sample: held down at power-up it fired on_click in pass 1"),
    ("C15", "is-pressed-in-earlier-handler-stale"): ("2fa4d9d", "is_pressed() of a later-polled button inside the on_click handler of an earlier one returned the previous pass's sample"),
    ("C20", "pot-fraction-outside-range"): ("6c8056d", "Potentiometer.read() accepted provider values in (-1, 0) and (1023, 1024) by truncating before the range check"),
    ("C17", "lcd-message-bottom-on-one-row"): ("0fad8de", "message(bottom=...) on a one-row display replaced the top text with the bottom text"),
    ("C17", "lcd-progress-nonpositive-max"): ("ca6cc00", "progress with max_value <= 0 drew a full bar (host: empty bar)"),
    ("C17", "lcd-progress-nonpositive-width"): ("ca6cc00", "progress with width <= 0 used the whole row (host: one cell)"),
    ("C16", "buzzer-subhertz-tone-zero"): ("12b43c5", "a positive frequency below 0.5 Hz was commanded as tone(pin, 0)"),
    ("C16", "buzzer-beep-zero-times-keeps-sounding"): ("1a83c4a", "beep(times <= 0) on a sounding buzzer left it sounding with get_state() true"),
    ("C16", "buzzer-negative-duration-wraps"): ("7fe27af", "a negative run-time duration was waited for as ULONG_MAX milliseconds"),
    ("C11", "syntaxerror-for-valid-python"): ("0802d00", "SyntaxError of a line fragment (walrus, starred argument, yield, non-ASCII identifier ...) escaped parse() for text that is valid Python"),
    ("C11", "pow-tower-timeout"): ("d3120d5", "a literal power such as 9**9**9 was folded on the host and did not return"),
    ("C11", "short-tuple-assignment-indexerror"): ("1eced2a", "`a, b = 1,` escaped as IndexError (and `a, b = 1, 2, 3` silently dropped a value)"),
    ("C11", "deep-expression-recursionerror"): ("76fecd5", "an expression nested >= 300 levels deep escaped parse() as RecursionError"),
    ("C11", "nonfinite-number-overflowerror"): ("76fecd5", "a numeric argument folding to +-inf or a huge int escaped parse() as OverflowError"),
    ("C10", "promotion-order-hash-seed"): ("37721ca", "the order of hoisted declarations (names first assigned in the branches of one if/try statement) followed set iteration order, so the C++ text changed with PYTHONHASHSEED"),
    ("C01", "floordiv-c-semantics"): ("4ff10d5", "`//` on ints of opposite sign used C truncation (7 // -2 gave -3)"),
    ("C01", "mod-c-semantics"): ("4ff10d5", "`%` used the C remainder (7 % -2 gave 1)"),
    ("C01", "float-floordiv-mod"): ("4ff10d5", "`//` with a float operand was C `/`; `%` with a float operand did not compile"),
    ("C01", "truediv-int-operands"): ("f04f419", "`/` on two ints was C integer division (7 / 2 gave 3)"),
    ("C01", "pow-operator-verbatim"): ("92ad480", "`**` was emitted verbatim and did not compile"),
    ("C01", "continue-dropped"): ("c13ea11", "`continue` was silently dropped"),
    ("C01", "macro-double-eval"): ("3d86b61", "abs/min/max were Arduino macros evaluating an argument twice"),
    ("C01", "list-append-float-expr"): ("5cee8b2", "append of a float expression to a float list did not compile"),
    ("C01", "global-statement-ignored"): ("ef16df5", "`global x` in a helper defined before x's first assignment declared a shadowing local"),
    ("C02", "function-variant-per-call-site"): ("d50ded7", "float argument at a call outside an assignment was narrowed to int (`void f(int p)`)"),
    ("C02", "abs-min-max-result-int"): ("6b190bf", "`y = abs(x)` with a float x declared `int y`"),
    ("C03", "global-reassigned-in-called-function"): ("ef16df5", "a value assigned to a global inside a called helper never reached sleep()/range()/device arguments"),
    ("C04", "rgb-fade-half-step"): ("835e628", "RGBLed.fade() rounded interpolation ties away from zero on the device, to even on the host"),
    ("C04", "motor-tiny-speed-mode"): ("5f68dcb", "DCMotor.get_mode() returned \"coast\" on the device for speeds below 1/510"),
    ("C04", "motor-buzzer-query-stored-in-variable"): ("4310eca", "`m = motor.get_mode()` / `s = motor.get_speed()` declared an int variable (did not compile / truncated)"),
    ("C15", "ultrasonic-zero-clock-sentinel"): ("59dd85b", "a measurement finishing while millis() read 0 disarmed the 60 ms trigger guard"),
    ("C20", "core-pullup-sticky"): ("7f27a7a", "pin_mode(p, INPUT_PULLUP) then pin_mode(p, INPUT) left an unwritten pin reading HIGH"),
    ("C06", "helper-calls-later-helper"): ("71a113f", "a helper / handler calling a function defined later, or measuring a distance, did not compile (no prototypes)"),
    ("C06", "newline-in-string-literal"): ("c4cf51b", "a string literal containing a newline / carriage return did not compile"),
    ("C06", "string-literal-concatenation"): ("2191558", "`\"a\" + \"b\"` was emitted as the sum of two C literals and did not compile"),
    ("C07", "top-header-trailing-comment"): ("663d419", "a trailing comment on a top-level block header changed the program (`while True:  # main` ran once in setup())"),
    ("C07", "clause-header-trailing-comment"): ("663d419", "a trailing comment on elif/else/except lost the clause"),
    ("C07", "comment-cuts-block"): ("d0b421e", "a comment line at a column <= the block's base ended the block"),
    ("C07", "tab-comment-cuts-block"): ("d0b421e", "a tab-indented comment line ended a block whose header sits at column 4"),
    ("C07", "continue-dropped"): ("c13ea11", "`continue` vanished without a diagnostic"),
    ("C12", "target-no-pio-no-upload"): ("d951bbe", "target(upload=False) raised RuntimeError when PlatformIO is not installed"),
}
for ch in ("red", "green", "blue"):
    FIXED[("C08", f"kw-ignored:RGBLed.on.{ch}")] = ("6c80c74", f"rgb.on({ch}=...) ignored the keyword and used 255")
for pin in ("rs", "en", "d4", "d5", "d6", "d7", "rw"):
    FIXED[("C08", f"i2c-drops:LCD.{pin}")] = ("5538784", f"LCD({pin}=..., i2c_addr=...) was accepted and the pin silently dropped (the host raises ValueError)")

EXTRA = [   # findings recorded directly (no work file)
]


def main():
    entries = []
    seen = set()
    for f in sorted((V / "known").glob("*.json")):
        for e in json.loads(f.read_text()).get("findings", []):
            key = (e["property"], e["id"])
            if key in seen:
                continue
            seen.add(key)
            if key in FIXED:
                e = dict(e, status="fixed", commit=FIXED[key][0])
            entries.append(e)
    for key, (commit, what) in FIXED.items():
        if key not in seen:
            entries.append({"property": key[0], "id": key[1], "status": "fixed", "commit": commit, "observed": what})
    fixed_log = [f"fixed: property={k[0]} {c} {w}" for k, (c, w) in sorted(FIXED.items())]
    out = {"_comment": "Genuine defects of the pinned tree. status=known: recorded, not repaired - a check prints 'KNOWN-FINDING: property=<id> ...' when it "
                       "reproduces exactly as recorded and exits 0. status=fixed: repaired by the named 'fix:' commit in /repo; suppresses nothing. "
                       "Never written at run time.",
           "fixed": fixed_log, "findings": entries}
    (V / "known_findings.json").write_text(json.dumps(out, indent=1) + "\n")
    print(len(entries), "entries;", sum(1 for e in entries if e["status"] == "known"), "known;", len(fixed_log), "fixed")


if __name__ == "__main__":
    main()
