"""Firmware leg for the Buzzer (C16): render a batch of TLC-generated call histories as ONE Reduino script (one
buzzer per history, distinct pins), run the emitted firmware on the mock Arduino core, split the event trace
per buzzer and per call (serial markers) and project every call to the abstract event of tla/BuzzerTrace:

    {act, a, m, sounding, cur, last, wave: [{lv, us, n}...], stray}

wave = what the buzzer's pin did during the call (module Buzzer: the first segment is the pin as the call found
it; every tone() opens a segment with lv = the hertz given to tone(); noTone() opens a silent segment unless the
pin is silent already; every delay() adds to the current segment).  Units: call arguments as in the spec
(frequencies in mHz, durations in ms), wave times in us, getters in mHz.  Nothing is compared here."""
from __future__ import annotations

import math

from . import fw
from .fw_act import Script, split_by_markers, num

PIN0 = 20
NONE = -999999
HUGE = 2_000_000_000
TONE0, TONEX = -1, -2
GETTERS = ("get_state", "get_frequency", "get_last_frequency")


def _freq_lit(mhz: int) -> str:
    return repr(mhz // 1000) if mhz % 1000 == 0 else repr(mhz / 1000.0)


def _freq_arg(s: Script, mhz: int) -> str:
    """A frequency argument: literal, or (run-time rendering) a value read from the scripted ADC."""
    if not s.runtime:
        return _freq_lit(mhz)
    if mhz % 1000 == 0:
        return s.val(mhz // 1000)
    if mhz % 100 == 0:
        return f"{s.val(mhz // 100)} * 0.1"
    return _freq_lit(mhz)


def call_source(s: Script, name: str, c: dict) -> str:
    """One buzzer call in a form the README documents.  Keyword / positional spelling alternates with the call's
    own arguments (not with its position), so a replayed single history is rendered exactly as in its batch."""
    act, a = c["act"], list(c["a"])
    kw = (sum(abs(int(x)) for x in a) + len(a)) % 2 == 1
    fx = c.get("fx") or {}          # argument position -> expression text ({n} = the buzzer) that has the value a[pos] when it is evaluated

    def _freq(s0, v, pos=None):      # noqa: ANN001
        return fx[str(pos)].format(n=name) if pos is not None and str(pos) in fx else _freq_arg(s0, v)
    if act == "stop":
        return f"{name}.stop()"
    if act == "play_tone":
        f = _freq(s, a[0], 0)
        if a[1] == NONE:
            return f"{name}.play_tone(frequency={f})" if kw else f"{name}.play_tone({f})"
        d = s.val(a[1])
        return f"{name}.play_tone(frequency={f}, duration_ms={d})" if kw else f"{name}.play_tone({f}, {d})"
    if act == "beep":
        parts = []
        if a[0] != NONE:
            f = _freq(s, a[0], 0)
            parts.append(f"frequency={f}" if kw else f)
        # an argument that has its documented default (on_ms=100, off_ms=100, times=1) is left out in every second rendering
        # (which ones: decided by the call's own arguments), so gaps are also given one at a time
        omit = (sum(abs(int(x)) for x in a[1:]) + (0 if a[0] == NONE else 1)) % 2 == 0
        for pname, v, dflt in (("on_ms", a[1], 100), ("off_ms", a[2], 100), ("times", a[3], 1)):
            if not (omit and v == dflt):
                parts.append(f"{pname}={s.val(v)}")
        return f"{name}.beep({', '.join(parts)})"
    if act == "sweep":
        f0, f1 = _freq(s, a[0], 0), _freq(s, a[1], 1)
        d, k = s.val(a[2]), s.val(a[3])
        # four spellings, chosen by the call's own arguments: all keywords, two / three / four positional arguments; a step
        # count that is the documented default (10) is left out of the positional spellings
        sel = (2 if kw else 0) + (a[2] // 10 + a[3]) % 2
        if sel == 3:
            return f"{name}.sweep(start_hz={f0}, end_hz={f1}, duration_ms={d}, steps={k})"
        if sel == 2:
            return f"{name}.sweep({f0}, {f1}, duration_ms={d}, steps={k})"
        if sel == 1:
            return f"{name}.sweep({f0}, {f1}, {d})" if a[3] == 10 else f"{name}.sweep({f0}, {f1}, {d}, steps={k})"
        return f"{name}.sweep({f0}, {f1}, {d})" if a[3] == 10 else f"{name}.sweep({f0}, {f1}, {d}, {k})"
    if act == "melody":
        m = c["m"]                    # the name of a tune is not case sensitive: "Siren", "SUCCESS", "Scale_C" name the same tunes
        m = [m, m.capitalize(), m.upper(), m.title()][(len(m) + (0 if a[0] == NONE else abs(int(a[0])))) % 4]
        if a[0] == NONE:
            return f'{name}.melody("{m}")'
        if a[0] >= 10000:             # a fractional tempo (tenths): a literal, a name-free expression, or a run-time product
            t10 = a[0] - 10000
            lit = repr(t10 / 10) if t10 % 4 else f"{t10} / 10"
            return f'{name}.melody("{m}", tempo={lit})' if not s.runtime else f'{name}.melody("{m}", tempo={s.val(t10)} * 0.1)'
        return f'{name}.melody("{m}", tempo={s.val(a[0])})'
    raise AssertionError(act)


def render(cases: list[dict], runtime: bool) -> Script:
    """cases: [{"dflt": mHz, "h": [call...]}]."""
    s = Script(runtime)
    for i, case in enumerate(cases):
        if case["dflt"] == 440000:
            s.add(f"bz{i} = Buzzer({PIN0 + i})")
        else:
            s.add(f"bz{i} = Buzzer({PIN0 + i}, default_frequency={_freq_lit(case['dflt'])})")
    for i, case in enumerate(cases):
        name = f"bz{i}"
        getters = [f"{name}.{g}()" for g in GETTERS]
        s.mark(i, 0, getters)
        for k, c in enumerate(case["h"], 1):
            s.add(call_source(s, name, c))
            s.mark(i, k, getters)
    return s


def _mhz(ev: dict) -> int:
    x = num(ev)
    if isinstance(x, bool) or not isinstance(x, (int, float)) or not math.isfinite(x) or abs(x) > 2_000_000:
        return -888888
    return int(math.floor(x * 1000 + 0.5))


def wave_of(level: int, raw: list[dict], pin: int, pins: set[int], drop: str | None = None):
    """Pin waveform of one call + number of tone events that hit another buzzer's pin (must be 0)."""
    segs = [{"lv": level, "us": 0, "n": 0}]
    stray = 0
    for e in raw:
        t = e.get("e")
        if t == drop:
            continue
        if t in ("tone", "notone") and e.get("p") != pin:
            if e.get("p") in pins:
                stray += 1
            continue
        if t == "tone":
            f = e["f"]
            if e.get("dur", 0) != 0:       # tone(pin, f, duration) stops by itself later: outside the modelled protocol
                stray += 1
            segs.append({"lv": TONE0 if f == 0 else TONEX if f >= 2 ** 30 else int(f), "us": 0, "n": 0})
        elif t == "notone":
            if segs[-1]["lv"] != 0:
                segs.append({"lv": 0, "us": 0, "n": 0})
        elif t == "d":
            ms = e["ms"]
            segs[-1]["us"] = HUGE if ms >= 2_000_000 else min(HUGE, segs[-1]["us"] + int(ms) * 1000)
            segs[-1]["n"] += 1
    return segs, stray


def project(cases: list[dict], events: list[dict], drop: str | None = None) -> list[list[dict] | None]:
    """Per history: the abstract trace, or None if its markers are missing (statements lost or reordered)."""
    segs = split_by_markers(events, len(GETTERS))
    pins = {PIN0 + i for i in range(len(cases))}
    out = []
    for i, case in enumerate(cases):
        h, pin = case["h"], PIN0 + i
        mine = segs.get(i, {})
        if any(k not in mine or len(mine[k]["get"]) != len(GETTERS) for k in range(len(h) + 1)):
            out.append(None)
            continue
        level, evs = 0, []
        for k in range(len(h) + 1):
            seg = mine[k]
            w, stray = wave_of(level, seg["raw"], pin, pins, drop)
            level = w[-1]["lv"]
            c = {"act": "init", "a": [], "m": ""} if k == 0 else h[k - 1]
            st = num(seg["get"][0])
            evs.append({"act": c["act"], "a": list(c["a"]), "m": c["m"], "sounding": bool(st) if isinstance(st, (int, float)) else False,
                        "cur": _mhz(seg["get"][1]), "last": _mhz(seg["get"][2]), "wave": w, "stray": stray})
        out.append(evs)
    return out


def run_pack(cases: list[dict], runtime: bool, drop: str | None = None) -> dict:
    """One packed firmware job (executed in a worker process)."""
    s = render(cases, runtime)
    r = fw.run_script({"src": s.source(), "passes": 0, "inputs": s.inputs()})
    res = {"transpile": r["transpile"], "msg": r.get("msg"), "cls": r.get("cls"), "compile": r.get("compile"),
           "stderr": r.get("stderr", "")[-800:] if r.get("compile") == "fail" else "", "src": s.source(), "inputs": s.inputs()}
    if r["transpile"] == "accept" and r.get("compile") == "ok":
        if r.get("rc", 0) != 0:
            res["compile"] = "fail"
            res["stderr"] = f"firmware exited with {r.get('rc')} {r.get('memerr')}: {r.get('stderr', '')[-400:]}"
        else:
            res["traces"] = project(cases, r["events"], drop)
    return res


def emitter_scores() -> dict:
    """The score table of the working tree, in the units of tla/Buzzer.tla (mHz, quarter beats)."""
    from Reduino.transpile import emitter, parser
    out = {}
    for name, d in emitter._BUZZER_MELODIES.items():
        out[name] = {"tempo": d["tempo"], "notes": [[round(f * 1000), b * 4] for f, b in d["sequence"]]}
    return {"emitter": out, "parser_names": sorted(parser._BUZZER_MELODIES)}
