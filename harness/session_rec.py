"""C10 - sessions of transpilations: script corpus, static trigger analysis, child process, recorder.

Three parts (this file is also the program run inside the observed subprocesses: `python session_rec.py --child`):
  * corpus(seed): a generated corpus of promotion-heavy Reduino scripts (names first assigned in if / elif /
    else / try / except / for / while bodies and used later, helper functions, button handlers, LCDs, ultrasonic
    sensors, lists, swaps, several devices) plus near-twins (one literal changed, same length) and minimal probes;
  * promotion_groups(src): the syntactic trigger of the known finding - for every if-chain / try statement the
    names first assigned in its branches (computed with CPython's ast, nothing of Reduino is consulted);
  * run_process(...): one fresh interpreter with a given PYTHONHASHSEED executes a plan of parse()/emit() calls
    of /repo's working tree and logs (pid, seq, script, sha256(cpp), canonical digests, module-state equality).
The parent side never decides conformance: events go to tla/SessionTrace.tla."""
from __future__ import annotations

import hashlib
import json
import os
import random
import re
import subprocess
import sys
from pathlib import Path

# --------------------------------------------------------------------------------------------------------------
# corpus generator
# --------------------------------------------------------------------------------------------------------------
_CONS, _VOW = "bcdfghjklmnprstvz", "aeiou"
_TYPES = ["int", "int", "int", "float", "str", "bool"]


def _pool(rng: random.Random, n: int) -> list[str]:
    seen, out = set(), []
    while len(out) < n:
        nm = rng.choice(_CONS) + rng.choice(_VOW) + rng.choice(_CONS) + "_" + rng.choice(_CONS) + rng.choice(_VOW)
        if nm not in seen:
            seen.add(nm)
            out.append(nm)
    return out


class _Gen:
    """One script.  Every block generator returns nothing and appends lines; names are tracked with their type."""

    def __init__(self, rng: random.Random, trigger: bool) -> None:
        self.r = rng
        self.trigger = trigger          # False: clean stratum - at most one name first assigned per if / try statement
        self.names = iter(_pool(rng, 400))
        self.L: list[str] = []
        self.ints: list[str] = []       # int-typed names visible at the current point (global level)
        self.dev: dict[str, str] = {}
        self.helpers: list[tuple[str, int]] = []
        self.cnt = 0

    # -- small helpers ---------------------------------------------------------------------------------------
    def fresh(self) -> str:
        return next(self.names)

    def lit(self, ty: str, ints: list[str]) -> str:
        r = self.r
        if ty == "int":
            c = r.random()
            if c < 0.45 or not ints:
                return str(r.randint(0, 200))
            if c < 0.8:
                return f"{r.choice(ints)} {r.choice('+-*')} {r.randint(1, 9)}"
            return f"{r.choice(ints)} + {r.choice(ints)}"
        if ty == "float":
            return r.choice(["0.5", "2.25", "1.5 * 2", "3.0", "0.125"])
        if ty == "str":
            return json.dumps(r.choice(["on", "off", "idle", "warm", "go", "x"]))
        return r.choice(["True", "False"])

    def cond(self, ints: list[str], loop: bool) -> str:
        r = self.r
        opts = []
        if ints:
            opts += [f"{r.choice(ints)} {r.choice(['<', '>', '==', '!=', '<=', '>='])} {r.randint(0, 50)}"] * 3
            opts += [f"{r.choice(ints)} % 2 == 0"]
        if loop and "btn" in self.dev:
            opts += [f"{self.dev['btn']}.is_pressed()"]
        return r.choice(opts) if opts else "True"

    def use(self, ind: str, defined: list[tuple[str, str]], ints: list[str], in_fn: bool = False) -> None:
        """Use the names after the block that first assigned them."""
        r = self.r
        nums = [n for n, t in defined if t == "int"]
        if len(nums) >= 2 and r.random() < 0.7:
            t = self.fresh()
            self.L.append(f"{ind}{t} = {' + '.join(nums[:3])}")
            ints.append(t)
        if in_fn:
            return
        if "mon" in self.dev and r.random() < 0.8:
            body = " ".join("{" + n + "}" for n, _ in defined[:4])
            self.L.append(f'{ind}{self.dev["mon"]}.write(f"{body}")')
        elif "lcd" in self.dev and defined:
            self.L.append(f'{ind}{self.dev["lcd"]}.line(0, f"{{{defined[0][0]}}}")')
        elif nums and "led" in self.dev:
            self.L.append(f"{ind}{self.dev['led']}.set_brightness({nums[0]})")

    def typed_names(self, lo: int, hi: int) -> list[tuple[str, str]]:
        k = self.r.randint(lo, hi) if self.trigger else 1
        return [(self.fresh(), self.r.choice(_TYPES)) for _ in range(k)]

    # -- blocks -----------------------------------------------------------------------------------------------
    def blk_if(self, ind: str, ints: list[str], loop: bool, depth: int = 0, in_fn: bool = False) -> list[tuple[str, str]]:
        r = self.r
        names = self.typed_names(2, 5)
        nbr = r.choice([1, 2, 2, 3])
        heads = [f"if {self.cond(ints, loop)}:"] + [f"elif {self.cond(ints, loop)}:" for _ in range(nbr - 2)] + (["else:"] if nbr >= 2 else [])
        for bi, head in enumerate(heads):
            self.L.append(ind + head)
            mine = names if bi == 0 else [n for n in names if r.random() < 0.6] or names[:1]
            mine = list(mine)
            r.shuffle(mine)
            local_ints = list(ints)
            for n, t in mine:
                self.L.append(f"{ind}    {n} = {self.lit(t, local_ints)}")
                if t == "int":
                    local_ints.append(n)
            if depth == 0 and self.trigger and r.random() < 0.3:
                self.blk_try(ind + "    ", local_ints, loop, depth + 1, in_fn)
        self.use(ind, names, ints, in_fn)
        ints += [n for n, t in names if t == "int"]
        return names

    def blk_try(self, ind: str, ints: list[str], loop: bool, depth: int = 0, in_fn: bool = False) -> list[tuple[str, str]]:
        r = self.r
        names = self.typed_names(2, 4)
        self.L.append(f"{ind}try:")
        order = list(names)
        r.shuffle(order)
        for n, t in order:
            self.L.append(f"{ind}    {n} = {self.lit(t, ints)}")
        self.L.append(ind + r.choice(["except Exception:", "except Exception as err:", "except:"]))
        exn = [n for n in names if r.random() < 0.4]
        extra = [(self.fresh(), "int")] if self.trigger and r.random() < 0.5 else []
        if not exn and not extra:
            self.L.append(f"{ind}    pass")
        for n, t in exn + extra:
            self.L.append(f"{ind}    {n} = {self.lit(t, ints)}")
        names = names + extra
        self.use(ind, names, ints, in_fn)
        ints += [n for n, t in names if t == "int"]
        return names

    def blk_for(self, ind: str, ints: list[str], loop: bool, in_fn: bool = False) -> list[tuple[str, str]]:
        r = self.r
        iv = self.fresh()
        names = [(self.fresh(), r.choice(["int", "int", "float", "bool"])) for _ in range(r.randint(1, 3))]
        self.L.append(f"{ind}for {iv} in range({r.randint(2, 6)}):")
        local = ints + [iv]
        for n, t in names:
            self.L.append(f"{ind}    {n} = {self.lit(t, local)}")
            if t == "int":
                local.append(n)
        inner: list[tuple[str, str]] = []
        c = r.random()
        if c < 0.4:
            inner = self.blk_try(ind + "    ", local, loop, 1, True)
        elif c < 0.75:
            inner = self.blk_if(ind + "    ", local, loop, 1, True)
        alln = names + inner
        self.use(ind, alln, ints, in_fn)
        ints += [n for n, t in alln if t == "int"]
        return alln

    def blk_while(self, ind: str, ints: list[str], loop: bool, in_fn: bool = False) -> list[tuple[str, str]]:
        r = self.r
        cv = self.fresh()
        self.L.append(f"{ind}{cv} = 0")
        names = [(self.fresh(), r.choice(["int", "int", "float"])) for _ in range(r.randint(1, 3))]
        self.L.append(f"{ind}while {cv} < {r.randint(2, 5)}:")
        local = ints + [cv]
        for n, t in names:
            self.L.append(f"{ind}    {n} = {self.lit(t, local)}")
        inner: list[tuple[str, str]] = []
        if r.random() < 0.5:
            inner = self.blk_if(ind + "    ", local, loop, 1, True)
        self.L.append(f"{ind}    {cv} += 1")
        alln = names + inner
        self.use(ind, alln, ints, in_fn)
        ints += [cv] + [n for n, t in alln if t == "int"]
        return alln

    def blocks(self, ind: str, ints: list[str], loop: bool, n: int, in_fn: bool = False) -> None:
        kinds = [self.blk_if, self.blk_if, self.blk_try, self.blk_for, self.blk_while]
        for _ in range(n):
            k = self.r.choice(kinds)
            if k in (self.blk_if, self.blk_try):
                k(ind, ints, loop, 0, in_fn)
            else:
                k(ind, ints, loop, in_fn)

    # -- whole script -----------------------------------------------------------------------------------------
    def helper(self) -> None:
        r = self.r
        fn = "fn_" + self.fresh()
        params = [self.fresh() for _ in range(r.randint(1, 2))]
        self.L.append(f"def {fn}({', '.join(params)}):")
        ints = list(params)
        self.blocks("    ", ints, False, r.randint(1, 2), True)
        self.L.append(f"    return {ints[-1]} + {params[0]}")
        self.L.append("")
        self.helpers.append((fn, len(params)))

    def build(self) -> str:
        r, L = self.r, self.L
        L += ["from Reduino import target", 'target("COM3")', "from Reduino.Actuators import Led", "from Reduino.Actuators import RGBLed",
              "from Reduino.Actuators import Buzzer", "from Reduino.Actuators import Servo", "from Reduino.Actuators import DCMotor",
              "from Reduino.Displays import LCD", "from Reduino.Sensors import Button", "from Reduino.Sensors import Potentiometer",
              "from Reduino.Sensors import Ultrasonic", "from Reduino.Communication import SerialMonitor", "from Reduino.Utils import sleep", ""]
        pins = list(range(2, 14))
        r.shuffle(pins)
        want = {k for k in ["led", "rgb", "bz", "sv", "mot", "lcd", "pot", "us", "us2", "btn", "btn2"] if r.random() < 0.6}
        want |= {"led"}
        mon = self.fresh()
        self.dev["mon"] = mon
        L.append(f"{mon} = SerialMonitor({r.choice([9600, 115200])})")
        if "led" in want:
            self.dev["led"] = self.fresh(); L.append(f"{self.dev['led']} = Led({pins.pop()})")
        if "rgb" in want and len(pins) >= 3:
            self.dev["rgb"] = self.fresh(); L.append(f"{self.dev['rgb']} = RGBLed({pins.pop()}, {pins.pop()}, {pins.pop()})")
        if "bz" in want and pins:
            self.dev["bz"] = self.fresh(); L.append(f"{self.dev['bz']} = Buzzer({pins.pop()})")
        if "sv" in want and pins:
            self.dev["sv"] = self.fresh(); L.append(f"{self.dev['sv']} = Servo({pins.pop()})")
        if "lcd" in want:
            self.dev["lcd"] = self.fresh(); L.append(f"{self.dev['lcd']} = LCD(i2c_addr=0x27, cols=16, rows=2)")
        if "pot" in want:
            self.dev["pot"] = self.fresh(); L.append(f'{self.dev["pot"]} = Potentiometer("A0")')
        if "us" in want and len(pins) >= 2:
            self.dev["us"] = self.fresh(); L.append(f"{self.dev['us']} = Ultrasonic(trig={pins.pop()}, echo={pins.pop()})")
        if "us2" in want and len(pins) >= 2:
            self.dev["us2"] = self.fresh(); L.append(f"{self.dev['us2']} = Ultrasonic({pins.pop()}, {pins.pop()})")
        items = self.fresh()
        L.append(f"{items} = [{', '.join(str(r.randint(0, 9)) for _ in range(r.randint(2, 4)))}]")
        L.append("")
        for _ in range(r.randint(1, 3)):
            self.helper()
        for key, apin in (("btn", "A2"), ("btn2", "A3")):
            if key in want:
                h = "on_" + self.fresh()
                L.append(f"def {h}():")
                tgt = self.dev["led"]
                L.append(f"    {tgt}.toggle()")
                if "bz" in self.dev and r.random() < 0.5:
                    L.append(f"    {self.dev['bz']}.beep(880, 50, 50, 1)")
                L.append("")
                self.dev[key] = self.fresh()
                L.append(f"{self.dev[key]} = Button({apin}, on_click={h})")
        if "lcd" in self.dev and r.random() < 0.6:
            L.append(f'{self.dev["lcd"]}.animate("scroll", 0, "scrolling text for the corpus", speed_ms=150, loop=True)')
        base = self.fresh()
        L.append(f"{base} = {r.randint(1, 9)}")
        ints = [base]
        a, b = self.fresh(), self.fresh()
        L += [f"{a} = 1", f"{b} = 2", f"{a}, {b} = {b}, {a}"]
        ints += [a, b]
        self.blocks("", ints, False, r.randint(2, 4))
        fn, ar = r.choice(self.helpers)
        t = self.fresh()
        L.append(f"{t} = {fn}({', '.join(r.choice(ints) for _ in range(ar))})")
        ints.append(t)
        L.append(f"{items}.append({t})")
        L.append("")
        L.append("while True:")
        lints = list(ints)
        ind = "    "
        if "us" in self.dev:
            d = self.fresh(); L.append(f"{ind}{d} = {self.dev['us']}.measure_distance()")
        if "us2" in self.dev:
            d = self.fresh(); L.append(f"{ind}{d} = {self.dev['us2']}.measure_distance()")
        if "pot" in self.dev:
            p = self.fresh(); L.append(f"{ind}{p} = {self.dev['pot']}.read()"); lints.append(p)
        self.blocks(ind, lints, True, r.randint(1, 3))
        if "sv" in self.dev:
            L.append(f"{ind}{self.dev['sv']}.write(90)")
        if "rgb" in self.dev:
            L.append(f"{ind}{self.dev['rgb']}.set_color({r.choice(lints)}, 0, 10)")
        if "btn" in self.dev:
            L.append(f"{ind}if {self.dev['btn']}.is_pressed():")
            L.append(f"{ind}    {self.dev['led']}.on()")
        fn, ar = r.choice(self.helpers)
        t = self.fresh()
        L.append(f"{ind}{t} = {fn}({', '.join(r.choice(lints) for _ in range(ar))})")
        L.append(f'{ind}{mon}.write(f"{{{t}}} {{len({items})}}")')
        L.append(f"{ind}sleep({r.choice([10, 50, 100])})")
        return "\n".join(L) + "\n"


PROBES = {   # minimal stimuli: the first two meet exactly the trigger of the known finding, the others are its clean neighbours
    "probe-if2": "if True:\n    bav_lo = 1\n    zek_ti = 2\n",
    "probe-try2": "try:\n    bav_lo = 1\n    zek_ti = 2\n    muf_ra = 3\nexcept Exception:\n    pass\n",
    "probe-fn-if3": "def fn_a(q):\n    if q > 1:\n        bav_lo = 1\n        zek_ti = 2\n        muf_ra = 3\n    else:\n        bav_lo = 0\n    return bav_lo\n\nkol_pe = fn_a(2)\n",
    "clean-if1": "if True:\n    bav_lo = 1\nzek_ti = bav_lo\n",
    "clean-for2": "for gi in range(3):\n    bav_lo = gi\n    zek_ti = gi + 1\n    muf_ra = 2\n",
    "clean-while2": "kol_pe = 0\nwhile kol_pe < 3:\n    bav_lo = kol_pe\n    zek_ti = 2\n    kol_pe += 1\n",
}


_FH = ("from Reduino.Actuators import Led, Servo, Buzzer, RGBLed\nfrom Reduino.Sensors import Button, Potentiometer\n"
       "from Reduino.Communication import SerialMonitor\nfrom Reduino.Utils import sleep\nmon = SerialMonitor(9600)\n")
_SWAP_LOOP = "pa = 1\npb = 2\nwhile True:\n    pa, pb = pb, pa\n    mon.write(pa)\n    sleep(10)\n"
_SWAP_FN = "def rot(u, v, w):\n    u, v, w = v, w, u\n    return u * 100 + v * 10 + w\n"
_SWAP_FOR = "qa = 1\nqb = 2\nfor gi in range(3):\n    qa, qb = qb, qa + qb\n"

FEATURES = {
    # state-bearing constructs (numbered temporaries, helper variants, device tables) in accepted scripts ...
    "feat-swap-loop": _FH + _SWAP_LOOP,
    "feat-swap-fn": _FH + _SWAP_FN + "mon.write(rot(1, 2, 3))\nwhile True:\n    mon.write(rot(4, 5, 6))\n    sleep(5)\n",
    "feat-swap-for": _FH + _SWAP_FOR + "mon.write(qa)\n",
    "feat-swap-many": _FH + _SWAP_FN + _SWAP_FOR + "def rev(a, b):\n    a, b = b, a\n    return a - b\n" + _SWAP_LOOP.replace("mon.write(pa)", "mon.write(rev(pa, qa) + rot(pa, pb, qb))"),
    # ... and the same constructs in scripts that are rejected late, after the construct was processed
    "rej-swap-then-break": _FH + _SWAP_FOR + "break\n",
    "rej-swap-fn-then-melody": _FH + _SWAP_FN + "bz = Buzzer(8)\nmon.write(rot(1, 2, 3))\nbz.melody(\"no-such-tune\")\n",
    "rej-swap-loop-then-align": _FH + "from Reduino.Displays import LCD\nlcd = LCD(i2c_addr=0x27)\npa = 1\npb = 2\nfor gi in range(2):\n    pa, pb = pb, pa\nled = Led(13)\nbtn = Button(2)\nxs = [1, 2]\nxs.append(3)\nlcd.line(0, \"x\", align=\"diagonal\")\n",
    "rej-conflict-after-defs": _FH + _SWAP_FN + _SWAP_FOR + "def bad(n):\n    if n > 1:\n        return \"a\"\n    return 1\nmon.write(bad(2))\n",
    # type merging: places where several candidate types meet (returns, list elements, conditional expressions, call sites)
    "merge-ret-lists": _FH + "def pick(flag):\n    if flag > 0:\n        return [1, 2, 3]\n    return [1.5, 2.5, 3.5]\nvals = pick(1)\nmon.write(vals[0])\n",
    "merge-ret-num": _FH + "def half(n):\n    if n > 10:\n        return n\n    if n > 5:\n        return n / 2\n    return True\nmon.write(half(3))\nmon.write(half(30))\n",
    "rej-ret-str-num": _FH + "def label(n):\n    if n > 1:\n        return \"many\"\n    if n == 1:\n        return 1\n    return 0.5\nmon.write(label(2))\n",
    "merge-list-elems": _FH + "xs = [1, 2.5, 3]\nys = [True, 2]\nzs = [\"a\", \"b\"]\nws = [[1, 2], [3, 4]]\nmon.write(xs[1])\nmon.write(ys[0])\nmon.write(zs[1])\n",
    "merge-ternary": _FH + "pot = Potentiometer(\"A0\")\nlv = pot.read()\nva = 1 if lv > 5 else 2.5\nvb = \"hi\" if lv > 5 else \"lo\"\nvc = True if lv > 5 else 0\nmon.write(va)\nmon.write(vb)\nmon.write(vc)\n",
    "merge-call-sites": _FH + "def twice(x):\n    return x * 2\ndef mix(a, b):\n    return a + b\nmon.write(twice(3))\nmon.write(twice(1.5))\nmon.write(mix(1, 2))\nmon.write(mix(1.5, 2))\nmon.write(mix(1, 2.5))\nmon.write(mix(twice(2), twice(0.5)))\n",
    # builtin-only constant expressions in the positions the parser checks for "constness"
    "feat-builtin-const": _FH + "period = max(200, 250)\nlow, high = min(3, 4), abs(-9)\nled = Led(int(\"13\"))\nflag = bool(1)\nlabel = str(12)\n"
                          "sleep(abs(-250))\nwhile True:\n    led.toggle()\n    sleep(period)\n    mon.write(len(\"abc\") + low + high)\n",
    "feat-loop-promotions": _FH + "cnt = 0\nwhile cnt < 3:\n    lo = cnt\n    hi = cnt + 1\n    cnt += 1\nfor gi in range(2):\n    hi2 = gi\n    lo2 = gi + 1\nmon.write(lo + hi + lo2 + hi2)\n",
    "feat-loop-promotions-rev": _FH + "cnt = 0\nwhile cnt < 3:\n    hi = cnt + 1\n    lo = cnt\n    cnt += 1\nfor gi in range(2):\n    lo2 = gi + 1\n    hi2 = gi\nmon.write(lo + hi + lo2 + hi2)\n",
    # names that any "natural" ordering (digit runs compared as numbers, case folded, ...) cannot tell apart: the injected polls / ticks
    # / handlers of such devices still come out in ONE order under every hash seed
    "feat-lookalike-names": _FH + "from Reduino.Displays import LCD\ndef h1():\n    mon.write(1)\ndef h01():\n    mon.write(2)\ndef h001():\n    mon.write(3)\n"
                            "btn1 = Button(2, on_click=h1)\nbtn01 = Button(3, on_click=h01)\nbtn001 = Button(4, on_click=h001)\nbtn0001 = Button(5)\nBtn1 = Button(6)\nbtn_1 = Button(7)\n"
                            "lcd2 = LCD(rs=22, en=23, d4=24, d5=25, d6=26, d7=27)\nlcd02 = LCD(i2c_addr=0x27, cols=16, rows=2)\nlcd002 = LCD(i2c_addr=0x3F, cols=16, rows=2)\n"
                            "lcd2.animate(\"scroll\", 0, \"abcdefghijklmnopqrstuvwxyz\", speed_ms=50, loop=True)\nlcd02.animate(\"blink\", 0, \"hey\", speed_ms=50, loop=True)\n"
                            "lcd002.animate(\"bounce\", 1, \"yo\", speed_ms=50, loop=True)\n"
                            "while True:\n    mon.write(btn1.is_pressed())\n    mon.write(btn01.is_pressed())\n    mon.write(btn001.is_pressed())\n    mon.write(btn0001.is_pressed())\n"
                            "    mon.write(Btn1.is_pressed())\n    mon.write(btn_1.is_pressed())\n    sleep(20)\n",
    # names first bound inside try / except clauses (hoisted, the clauses are rewritten) in the prologue, a helper and the main loop
    "feat-try-hoist": _FH + "try:\n    ta = 1\n    tb = ta + 1\nexcept Exception as e1:\n    ta = 3\n    tc = 4\ndef guarded(q):\n    try:\n        hv = q * 2\n    except Exception as e2:\n        hv = 0\n        hw = 1\n    return hv\n"
                      "mon.write(guarded(ta))\nwhile True:\n    try:\n        lv = ta + tb\n        mon.write(lv)\n    except Exception as e3:\n        lw = 5\n        mon.write(lw)\n    sleep(10)\n",
    # expressions nested close to / beyond what the interpreter's recursion limit allows (machine-generated): whatever the answer
    # is, it is the same in every process and leaves the interpreter as it was
    "deep-condition-1500": _FH + "led = Led(5)\nif " + " + ".join(["1"] * 1500) + " > 0:\n    led.on()\n",
    "deep-condition-2400": _FH + "led = Led(5)\nif " + " + ".join(["1"] * 2400) + " > 0:\n    led.on()\n",
    "feat-deep-condition-300": _FH + "led = Led(5)\nif " + " + ".join(["1"] * 300) + " > 0:\n    led.on()\n",
    # two unrelated scripts with a helper of the same NAME that needs a second (float) variant in both: transpiled side by side in
    # two threads, each still gets its own variants
    "thr-scale-a": _FH + "def scale(v):\n    return v * 2\ndef clampv(v):\n    if v > 9:\n        return 9\n    return v\nlow = scale(3)\ngain = scale(2.5)\ntop = clampv(4)\ncap = clampv(4.5)\nmon.write(gain + low + top + cap)\n",
    "thr-scale-b": _FH + "led = Led(5)\ndef scale(v):\n    return v + 1\ndef clampv(v):\n    return v\nwhile True:\n    step = scale(7)\n    ratio = scale(0.25)\n    keep = clampv(1)\n    frac = clampv(0.5)\n    mon.write(ratio + step + keep + frac)\n    led.toggle()\n",
    "merge-many-devices": _FH + "la = Led(3)\nlb = Led(4)\nlc = Led(5)\nsa = Servo(9)\nsb = Servo(10)\nra = RGBLed(6, 7, 8)\nba = Button(11)\nbb = Button(12)\nbz = Buzzer(2)\nwhile True:\n    la.toggle()\n    lb.on()\n    lc.off()\n    sa.write(10)\n    sb.write(20)\n    ra.set_color(1, 2, 3)\n    bz.beep(440, 5, 5, 2)\n    mon.write(ba.is_pressed())\n    mon.write(bb.is_pressed())\n",
}
EXPECT_REJECT = {k for k in FEATURES if k.startswith("rej-")}
FEATURE_GROUPS = [["feat-swap-loop", "rej-swap-then-break", "feat-swap-for"], ["feat-swap-fn", "rej-swap-fn-then-melody", "feat-swap-many"],
                  ["feat-swap-many", "rej-swap-loop-then-align", "feat-swap-loop"], ["feat-swap-for", "rej-conflict-after-defs", "feat-swap-fn"],
                  ["merge-ret-lists", "merge-ret-num", "rej-ret-str-num"], ["merge-list-elems", "merge-ternary", "merge-call-sites"],
                  ["merge-many-devices", "merge-ret-lists", "rej-swap-then-break"],
                  ["feat-builtin-const", "feat-loop-promotions", "feat-loop-promotions-rev"], ["feat-lookalike-names", "merge-many-devices", "feat-lookalike-names"], ["feat-try-hoist", "feat-swap-loop", "feat-loop-promotions"], ["thr-scale-a", "thr-scale-b", "feat-swap-fn"], ["deep-condition-1500", "feat-deep-condition-300", "deep-condition-2400"], ["feat-builtin-const", "merge-ternary", "feat-swap-loop"]]


def _twin(src: str, rng: random.Random) -> str | None:
    """Same script with one digit of one integer literal changed (same length, same names, same line count)."""
    spots = [m for m in re.finditer(r"(?<![\w.])([1-8])(?![\w.])", src) if "range(" not in src[max(0, m.start() - 6):m.start()]]
    spots = [m for m in spots if m.start() > len(src) // 3]
    if not spots:
        return None
    m = rng.choice(spots)
    return src[:m.start()] + str(int(m.group(1)) + 1) + src[m.end():]


def corpus(seed: int, n_trigger: int = 30, n_clean: int = 10, n_twins: int = 8) -> list[dict]:
    """Deterministic in `seed`.  Entries: {id, src, trigger (max names first assigned in one if/try), twin_of}."""
    out: list[dict] = []
    for i in range(n_trigger + n_clean):
        rng = random.Random(f"c10-{seed}-{i}")
        trig = i < n_trigger
        src = _Gen(rng, trig).build()
        out.append({"id": f"g{i:02d}", "src": src, "twin_of": None})
    rng = random.Random(f"c10-{seed}-twins")
    k = 0
    for e in list(out):
        if k >= n_twins:
            break
        t = _twin(e["src"], rng)
        if t and t != e["src"]:
            out.append({"id": f"{e['id']}t", "src": t, "twin_of": e["id"]})
            k += 1
    for pid, src in PROBES.items():
        out.append({"id": pid, "src": src, "twin_of": None})
    for pid, src in FEATURES.items():
        out.append({"id": pid, "src": src, "twin_of": None})
    for e in out:
        groups = promotion_groups(e["src"])
        e["groups"] = groups
        e["trigger"] = max([len(g) for g in groups], default=0)
        e["hoisted"] = sorted({n for g in groups if len(g) >= 2 for n in g})
    return out


# --------------------------------------------------------------------------------------------------------------
# trigger of the known finding: names first assigned in the branches of one if-chain / try statement
# --------------------------------------------------------------------------------------------------------------
def promotion_groups(src: str) -> list[list[str]]:
    """For every `if`/`elif`/`else` chain and every `try` statement (at any depth, in any function): the names
    whose first assignment (in program order, per Python scope) lies inside its branches.  Uses CPython's ast only."""
    import ast
    try:
        tree = ast.parse(src)
    except SyntaxError:
        return []
    groups: list[list[str]] = []

    def targets(node) -> list[str]:
        names: list[str] = []
        for n in ast.walk(node):
            if isinstance(n, ast.Assign):
                for t in n.targets:
                    for x in ast.walk(t):
                        if isinstance(x, ast.Name):
                            names.append(x.id)
            elif isinstance(n, (ast.AnnAssign, ast.AugAssign)) and isinstance(n.target, ast.Name):
                names.append(n.target.id)
        return names

    def walk(body: list, declared: set) -> None:
        for st in body:
            if isinstance(st, (ast.FunctionDef, ast.AsyncFunctionDef)):
                walk(st.body, {a.arg for a in st.args.args})
                continue
            if isinstance(st, (ast.If, ast.Try)):
                new = [n for n in dict.fromkeys(targets(st)) if n not in declared]
                if new:
                    groups.append(new)
                for sub in _bodies(st):
                    walk(sub, set(declared))
                declared |= set(new)
            elif isinstance(st, (ast.For, ast.While)):
                inner = set(declared)
                if isinstance(st, ast.For):
                    inner |= {x.id for x in ast.walk(st.target) if isinstance(x, ast.Name)}
                walk(st.body, inner)
                declared |= set(targets(st))
            else:
                declared |= set(targets(st))

    def _bodies(st) -> list:
        if isinstance(st, ast.If):
            return [st.body, st.orelse]
        return [st.body] + [h.body for h in st.handlers] + [st.orelse, st.finalbody]

    walk(tree.body, set())
    return groups


def hoisted_names(src: str) -> set:
    return {n for g in promotion_groups(src) if len(g) >= 2 for n in g}


# --------------------------------------------------------------------------------------------------------------
# canonical digests (the exact-match rule of the known finding is decided by TLC on these)
# --------------------------------------------------------------------------------------------------------------
_DEFAULT = r'(?:0|0\.0|0\.0f|false|""|String\(\)|String\(""\)|\{\})'


def digests(text: str, hoisted: set) -> dict:
    """d: sha256 of the text; m: sha256 of the sorted multiset of its lines; c: sha256 of the text after sorting
    every maximal run of consecutive lines that declare / default-initialise a hoisted name (`[type] name = default;`)."""
    lines = text.split("\n")
    d = hashlib.sha256(text.encode()).hexdigest()[:20]
    m = hashlib.sha256("\n".join(sorted(lines)).encode()).hexdigest()[:20]
    if hoisted:
        pat = re.compile(r"^\s*(?:[A-Za-z_][\w<>:]*\s+)?(" + "|".join(sorted(map(re.escape, hoisted))) + r")\s*=\s*" + _DEFAULT + r";\s*$")
    else:
        pat = None
    canon, run = [], []
    for ln in lines:
        if pat is not None and pat.match(ln):
            run.append(ln)
            continue
        canon += sorted(run)
        run = []
        canon.append(ln)
    canon += sorted(run)
    c = hashlib.sha256("\n".join(canon).encode()).hexdigest()[:20]
    return {"d": d, "m": m, "c": c}


# --------------------------------------------------------------------------------------------------------------
# child process
# --------------------------------------------------------------------------------------------------------------
def child_main() -> int:
    """stdin: {"pid":…, "scripts": {id: {"src":…, "hoisted":[…]}}, "plan": [[op, sid]…] | null, "threads": [[[op,sid]…], …] | null}
    stdout: NDJSON events.  ops: t = parse+emit, p = parse (kept), e = emit of the kept program (handed back), E = emit of the kept program (still kept)."""
    import threading
    here = Path(__file__).resolve().parent.parent
    sys.path.insert(0, str(here))
    repo = Path(os.environ.get("REDUINO_REPO", "/repo")) / "src"     # exactly as harness.common does
    sys.path.insert(0, str(repo))
    job = json.loads(sys.stdin.read())
    from harness import modstate
    from Reduino.transpile.parser import parse
    from Reduino.transpile.emitter import emit
    pid = job["pid"]
    seedv = os.environ.get("PYTHONHASHSEED", "random")
    out_lock = threading.Lock()
    seq = [0]
    kept: dict = {}

    def log(ev: dict) -> None:
        with out_lock:
            seq[0] += 1
            ev["p"] = pid
            ev["seq"] = seq[0]
            sys.stdout.write(json.dumps(ev) + "\n")

    log({"e": "spawn", "seed": int(seedv) if seedv.isdigit() else -1, "file": str(sys.modules["Reduino.transpile.parser"].__file__)})
    base = modstate.snapshot()

    def outcome(fn):
        try:
            return True, fn()
        except (ValueError, SyntaxError) as ex:
            return False, f"reject:{type(ex).__name__}:{ex}"
        except RecursionError as ex:
            return False, f"crash:RecursionError:{ex}"
        except Exception as ex:
            return False, f"crash:{type(ex).__name__}:{ex}"

    def do(op: str, sid: str, thr: int) -> None:
        sc = job["scripts"][sid]
        if op == "p":
            ok, val = outcome(lambda: parse(sc["src"]))
            kept[(thr, sid)] = (ok, val)
            log({"e": "parse", "s": sid, "thr": thr})
            return
        if op in ("e", "E"):              # E: the Program stays with the caller and may be emitted again
            ok, val = kept.pop((thr, sid)) if op == "e" else kept[(thr, sid)]
            if ok:
                ok, val = outcome(lambda: emit(val))
        else:
            ok, val = outcome(lambda: emit(parse(sc["src"])))
        text = val if ok else val
        dg = digests(text, set(sc["hoisted"]))
        log({"e": "emit" if op in ("e", "E") else "transpile", "keep": op == "E", "s": sid, "thr": thr, "acc": bool(ok), **dg,
             **({} if ok else {"out": val[:200]})})
        now = modstate.snapshot()
        same = now == base
        log({"e": "snap", "same": same, "what": "" if same else ",".join(modstate.diff(base, now))[:300]})

    if job.get("threads"):
        ths = [threading.Thread(target=lambda plan=plan, k=k: [do(o, s, k) for o, s in plan]) for k, plan in enumerate(job["threads"], 1)]
        sys.setswitchinterval(1e-5)
        for t in ths:
            t.start()
        for t in ths:
            t.join()
    else:
        for o, s in job["plan"]:
            do(o, s, 0)
    log({"e": "exit"})
    return 0


# --------------------------------------------------------------------------------------------------------------
# parent side
# --------------------------------------------------------------------------------------------------------------
def run_process(pid: str, seed: int, scripts: dict, plan=None, threads=None, timeout: int = 120) -> list[dict]:
    """One fresh interpreter with PYTHONHASHSEED=seed.  scripts: {id: corpus entry}.  Returns its events."""
    from harness.common import MachineryError, REPO
    used = {s for _o, s in (plan or [])} | {s for th in (threads or []) for _o, s in th}
    job = {"pid": pid, "plan": plan, "threads": threads,
           "scripts": {s: {"src": scripts[s]["src"], "hoisted": scripts[s]["hoisted"] if "hoisted" in scripts[s]
                           else sorted(hoisted_names(scripts[s]["src"]))} for s in sorted(used)}}
    env = dict(os.environ)
    env.update({"PYTHONHASHSEED": str(seed), "REDUINO_VERIF": "1", "REDUINO_REPO": str(REPO), "PYTHONDONTWRITEBYTECODE": "1"})
    env.pop("PYTHONPATH", None)
    p = subprocess.run(["/venv/bin/python", "-B", str(Path(__file__).resolve()), "--child"], input=json.dumps(job), env=env,
                       capture_output=True, text=True, timeout=timeout)
    evs = []
    for line in p.stdout.splitlines():
        if line.startswith("{"):
            evs.append(json.loads(line))
    if p.returncode != 0 or not evs or evs[-1].get("e") != "exit":
        raise MachineryError(f"session child {pid} failed rc={p.returncode}: {p.stderr[-1500:]}")
    return evs


def run_many(jobs: list[dict], scripts: dict, workers: int = 8) -> list[list[dict]]:
    """jobs: [{pid, seed, plan | threads}] -> events per job (thread pool; each job is its own interpreter)."""
    import concurrent.futures as cf
    with cf.ThreadPoolExecutor(max_workers=workers) as ex:
        futs = [ex.submit(run_process, j["pid"], j["seed"], scripts, j.get("plan"), j.get("threads")) for j in jobs]
        return [f.result() for f in futs]


if __name__ == "__main__":
    if "--child" in sys.argv:
        sys.exit(child_main())
    if "--dump" in sys.argv:
        for e in corpus(int(sys.argv[sys.argv.index("--dump") + 1])):
            print("#" * 30, e["id"], "trigger", e["trigger"], "twin_of", e["twin_of"])
            print(e["src"])
