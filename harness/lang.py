"""The Lang leg: programs as JSON ASTs (Appendix B of DESIGN.md), rendering to Python source, execution by
CPython against the host modules and by the firmware, normalisation of both traces to the event vocabulary
of tla/Lang.tla, and the three-way validation run by TLC (module LangTrace)."""
from __future__ import annotations

import ast
import concurrent.futures as cf
import re
import signal
from fractions import Fraction

from . import common, fw  # noqa: F401
from .common import MachineryError, NCPU
from .tlc import run_tlc, write_json

# ------------------------------------------------------------------ AST constructors
def I(v): return {"k": "int", "v": int(v)}
def F(x):
    fr = Fraction(x)
    return {"k": "float", "n": fr.numerator, "d": fr.denominator}
def B(b): return {"k": "bool", "v": bool(b)}
def S(t): return {"k": "str", "toks": tokenize(t), "text": t}
def V(n): return {"k": "var", "n": n}
def AREAD(): return {"k": "aread"}
def UN(op, e): return {"k": "un", "op": op, "e": e}
def BIN(op, l, r): return {"k": "bin", "op": op, "l": l, "r": r}
def CMP(first, *rest): return {"k": "cmp", "first": first, "rest": [{"op": o, "e": e} for o, e in rest]}
def BOOLOP(op, *es): return {"k": "boolop", "op": op, "es": list(es)}
def IFEXP(c, a, b): return {"k": "ifexp", "c": c, "a": a, "b": b}
def CALL(f, *args): return {"k": "call", "f": f, "args": list(args)}
def FSTR(*parts):
    out = []
    for p in parts:
        out.append({"k": "lit", "toks": tokenize(p), "text": p} if isinstance(p, str) else {"k": "fmt", "e": p})
    return {"k": "fstr", "parts": out}
def LIST(*es): return {"k": "list", "es": list(es)}
def COMP(var, count, e): return {"k": "comp", "var": var, "count": count, "e": e}
def INDEX(e, i): return {"k": "index", "e": e, "i": i}
def IN(x, e): return {"k": "in", "x": x, "e": e}

def ASSIGN(n, e): return {"k": "assign", "n": n, "e": e}
def AUG(n, op, e): return {"k": "aug", "n": n, "op": op, "e": e}
def TUPLE(ns, es): return {"k": "tuple", "ns": list(ns), "es": list(es)}
def WRITE(e): return {"k": "write", "e": e}
def SLEEP(e): return {"k": "sleep", "e": e}
def DWRITE(pin, e): return {"k": "dwrite", "pin": pin, "e": e}
def AWRITE(pin, e): return {"k": "awrite", "pin": pin, "e": e}
def PMODE(pin, mode): return {"k": "pmode", "pin": pin, "m": mode}       # mode: "out" | "in" | "inpu"
_PMODE_SRC = {"out": "OUTPUT", "in": "INPUT", "inpu": "INPUT_PULLUP"}
def EXPR(e): return {"k": "expr", "e": e}
def APPEND(n, e): return {"k": "append", "n": n, "e": e}
def REMOVE(n, e): return {"k": "remove", "n": n, "e": e}
PASS = {"k": "pass"}
BREAK = {"k": "break"}
CONTINUE = {"k": "continue"}
def RETURN(e=None): return {"k": "return", "has": e is not None, "e": e if e is not None else I(0)}
def IF(branches, orelse=()): return {"k": "if", "branches": [{"c": c, "body": list(b)} for c, b in branches], "orelse": list(orelse)}
def WHILE(c, body): return {"k": "while", "c": c, "body": list(body)}
def FOR(v, stop, body, start=None, step=None):
    return {"k": "for", "v": v, "start": start if start is not None else I(0), "stop": stop,
            "step": step if step is not None else I(1), "body": list(body), "form": 1 if start is None and step is None else (2 if step is None else 3)}
def DEF(params, body, globals_=(), ann=None):
    """ann: {parameter: annotation text} - a layout choice only (Python does not enforce annotations; the specification ignores them)."""
    return {"params": list(params), "globals": list(globals_), "body": list(body), "ann": dict(ann or {})}
def PROG(setup, loop=None, defs=None, npass=3, ain=(), pid="p", lead=0):
    """lead: how many prologue statements stand BEFORE the helper definitions in the script text (a layout choice only: the
    statements must not call the helpers; the meaning - and the specification's execution - is the same)."""
    return {"id": pid, "defs": defs or {}, "setup": list(setup), "loop": list(loop or []), "hasloop": loop is not None,
            "npass": npass, "ain": list(ain), "lead": int(lead)}


# ------------------------------------------------------------------ tokens
_NUM = re.compile(r"-?\d+(?:\.\d+)?")


def _numtok(text: str) -> dict:
    fr = Fraction(text)
    if "." not in text:
        if abs(fr) > 4000000:
            return {"k": "t", "v": "<big>"}
        return {"k": "n", "n": int(fr), "d": 1}
    k = int((fr * 1000 + Fraction(1, 2)).__floor__()) if len(text.split(".")[1]) > 2 else int(fr * 100)
    d = 1000 if len(text.split(".")[1]) > 2 else 100
    if abs(k) > 4000000:
        return {"k": "t", "v": "<big>"}
    return {"k": "n", "n": k, "d": d}


def tokenize(text: str) -> list:
    """A printed line (or a literal) as tokens: numbers compare as values, everything else as text."""
    toks, pos = [], 0
    text = text.replace("True", "1").replace("False", "0")
    for m in _NUM.finditer(text):
        if m.start() > pos:
            toks.append({"k": "t", "v": text[pos:m.start()]})
        toks.append(_numtok(m.group(0)))
        pos = m.end()
    if pos < len(text):
        toks.append({"k": "t", "v": text[pos:]})
    # fuse adjacent text tokens
    out = []
    for t in toks:
        if out and out[-1]["k"] == "t" and t["k"] == "t":
            out[-1] = {"k": "t", "v": out[-1]["v"] + t["v"]}
        else:
            out.append(t)
    return out


def value_toks(v) -> list:
    """A Python value handed to mon.write -> tokens."""
    if isinstance(v, bool):
        return [{"k": "n", "n": int(v), "d": 1}]
    if isinstance(v, int):
        return [{"k": "n", "n": v, "d": 1}] if abs(v) <= 4000000 else [{"k": "t", "v": "<big>"}]
    if isinstance(v, float):
        if v != v or v in (float("inf"), float("-inf")) or abs(v) > 4000:
            return [{"k": "t", "v": "<big>"}]
        return [{"k": "n", "n": int((Fraction(v) * 1000 + Fraction(1, 2)).__floor__()), "d": 1000}]
    return tokenize(str(v))


# ------------------------------------------------------------------ renderer
HEADER = ["from Reduino import target", "from Reduino.Communication import SerialMonitor", "from Reduino.Utils import sleep",
          "from Reduino.Sensors import Potentiometer", "from Reduino.Core import pin_mode, digital_write, analog_write, OUTPUT, INPUT, INPUT_PULLUP, HIGH, LOW",
          "", 'target("COM3", upload=False)', "mon = SerialMonitor(9600)"]


def rexpr(e) -> str:
    k = e["k"]
    if k == "int":
        return str(e["v"]) if e["v"] >= 0 else f"({e['v']})"
    if k == "float":
        x = e["n"] / e["d"]
        return repr(x) if x >= 0 else f"({x!r})"
    if k == "bool":
        return "True" if e["v"] else "False"
    if k == "str":
        return repr(e["text"])
    if k == "var":
        return e["n"]
    if k == "aread":
        return "feed.read()"
    if k == "un":
        return f"({'not ' if e['op'] == 'not' else e['op']}{rexpr(e['e'])})"
    if k == "bin":
        return f"({rexpr(e['l'])} {e['op']} {rexpr(e['r'])})"
    if k == "cmp":
        return "(" + rexpr(e["first"]) + "".join(f" {x['op']} {rexpr(x['e'])}" for x in e["rest"]) + ")"
    if k == "boolop":
        return "(" + f" {e['op']} ".join(rexpr(x) for x in e["es"]) + ")"
    if k == "ifexp":
        return f"({rexpr(e['a'])} if {rexpr(e['c'])} else {rexpr(e['b'])})"
    if k == "call":
        return f"{e['f']}({', '.join(rexpr(a) for a in e['args'])})"
    if k == "fstr":
        body = "".join(p["text"].replace("{", "{{").replace("}", "}}") if p["k"] == "lit" else "{" + rexpr(p["e"]) + "}" for p in e["parts"])
        return 'f"' + body.replace("\\", "\\\\").replace('"', '\\"') + '"'
    if k == "list":
        return "[" + ", ".join(rexpr(x) for x in e["es"]) + "]"
    if k == "comp":
        return f"[{rexpr(e['e'])} for {e['var']} in range({rexpr(e['count'])})]"
    if k == "index":
        return f"{rexpr(e['e'])}[{rexpr(e['i'])}]"
    if k == "in":
        return f"({rexpr(e['x'])} in {rexpr(e['e'])})"
    raise ValueError(k)


def rblock(b, ind, unit="    ") -> list:
    out, p = [], unit * ind
    for s in b:
        k = s["k"]
        if k == "assign":
            out.append(f"{p}{s['n']} = {rexpr(s['e'])}")
        elif k == "aug":
            out.append(f"{p}{s['n']} {s['op']}= {rexpr(s['e'])}")
        elif k == "tuple":
            out.append(f"{p}{', '.join(s['ns'])} = {', '.join(rexpr(x) for x in s['es'])}")
        elif k == "write":
            out.append(f"{p}mon.write({rexpr(s['e'])})")
        elif k == "sleep":
            out.append(f"{p}sleep({rexpr(s['e'])})")
        elif k == "dwrite":
            out.append(f"{p}digital_write({s['pin']}, {rexpr(s['e'])})")
        elif k == "awrite":
            out.append(f"{p}analog_write({s['pin']}, {rexpr(s['e'])})")
        elif k == "pmode":
            out.append(f"{p}pin_mode({s['pin']}, {_PMODE_SRC[s['m']]})")
        elif k == "expr":
            out.append(f"{p}{rexpr(s['e'])}")
        elif k == "append":
            out.append(f"{p}{s['n']}.append({rexpr(s['e'])})")
        elif k == "remove":
            out.append(f"{p}{s['n']}.remove({rexpr(s['e'])})")
        elif k in ("pass", "break", "continue"):
            out.append(p + k)
        elif k == "return":
            out.append(p + "return" + (" " + rexpr(s["e"]) if s["has"] else ""))
        elif k == "if":
            for n, br in enumerate(s["branches"]):
                out.append(f"{p}{'if' if n == 0 else 'elif'} {rexpr(br['c'])}:")
                out += rblock(br["body"], ind + 1, unit)
            if s["orelse"]:
                out.append(p + "else:")
                out += rblock(s["orelse"], ind + 1, unit)
        elif k == "while":
            out.append(f"{p}while {rexpr(s['c'])}:")
            out += rblock(s["body"], ind + 1, unit)
        elif k == "for":
            form = s.get("form", 3)
            args = [rexpr(s["stop"])] if form == 1 else [rexpr(s["start"]), rexpr(s["stop"])] + ([rexpr(s["step"])] if form == 3 else [])
            out.append(f"{p}for {s['v']} in range({', '.join(args)}):")
            out += rblock(s["body"], ind + 1, unit)
        else:
            raise ValueError(k)
    return out or [p + "pass"]


def pins_of(prog, kinds=("dwrite", "awrite")) -> set:
    pins = set()

    def walk(b):
        for s in b:
            if s["k"] in kinds:
                pins.add(s["pin"])
            for key in ("body", "orelse"):
                if key in s and isinstance(s[key], list):
                    walk(s[key])
            for br in s.get("branches", []):
                walk(br["body"])
    walk(prog["setup"]); walk(prog["loop"])
    for d in prog["defs"].values():
        walk(d["body"])
    return pins


def mode_pins(prog) -> set:
    """Pins the program configures with its own pin_mode statements (their mode events are part of the compared trace)."""
    return pins_of(prog, ("pmode",))


def uses_feed(prog) -> bool:
    import json
    return '"aread"' in json.dumps(prog)


def render(prog) -> str:
    L = list(HEADER)
    if uses_feed(prog):
        L.append('feed = Potentiometer("A0")')
    for pin in sorted(pins_of(prog) - mode_pins(prog)):       # pins whose mode the program sets itself get no automatic line
        L.append(f"pin_mode({pin}, OUTPUT)")
    lead = int(prog.get("lead", 0))
    L += rblock(prog["setup"][:lead], 0) if lead else []
    for f, d in prog["defs"].items():
        ann = d.get("ann", {})
        L.append(f"def {f}({', '.join(q + (': ' + ann[q] if q in ann else '') for q in d['params'])}):")
        for g in d["globals"]:
            L.append(f"    global {g}")
        L += rblock(d["body"], 1)
    L += rblock(prog["setup"][lead:], 0) if prog["setup"][lead:] else []
    if prog["hasloop"]:
        L.append("while True:")
        L += rblock(prog["loop"], 1)
    return "\n".join(L) + "\n"


# ------------------------------------------------------------------ CPython leg
class _Stop(Exception):
    pass


def _alarm(_s, _f):
    raise TimeoutError("cpython leg timeout")


def run_cpython(src: str, npass: int, ain: list, timeout_s: int = 10, watch_modes=frozenset()) -> dict:
    """Execute the script text under CPython against the real host modules, recording the event vocabulary."""
    import importlib
    import Reduino
    import Reduino.Utils as U
    import Reduino.Core as C
    SM = importlib.import_module("Reduino.Communication.SerialMonitor")
    POT = importlib.import_module("Reduino.Sensors.Potentiometer")
    evs: list = []
    feed = list(ain)
    cur = [0]

    def sleep(ms, **kw):
        if ms < 0:
            raise ValueError("duration must be non-negative")
        evs.append({"e": "d", "ms": ms if isinstance(ms, int) and not isinstance(ms, bool) else -1})

    def write(self, v):
        evs.append({"e": "w", "toks": value_toks(v)})
        return f"{v}"

    def pot_read(self):
        if cur[0] >= len(feed):
            raise _Stop("feed exhausted")
        cur[0] += 1
        return feed[cur[0] - 1]

    def dwrite(pin, value):
        evs.append({"e": "dw", "p": pin if isinstance(pin, int) else -1, "v": 1 if value else 0})

    def awrite(pin, value):
        evs.append({"e": "aw", "p": pin if isinstance(pin, int) else -1, "v": value if isinstance(value, int) else -1})

    def pmode(pin, mode):
        if pin in watch_modes:
            evs.append({"e": "pm", "p": pin, "m": {C.OUTPUT: "out", C.INPUT: "in", C.INPUT_PULLUP: "inpu"}.get(mode, "?")})

    cnt = {"k": 0}

    def passes():
        cnt["k"] += 1
        if cnt["k"] > npass:
            return False
        evs.append({"e": "pass", "k": cnt["k"]})
        return True

    try:
        tree = ast.parse(src)
    except SyntaxError as e:
        return {"status": "error", "cls": "SyntaxError", "msg": str(e), "ev": []}
    for node in tree.body:
        if isinstance(node, ast.While) and isinstance(node.test, ast.Constant) and node.test.value is True:
            node.test = ast.Call(func=ast.Name(id="__passes", ctx=ast.Load()), args=[], keywords=[])
    ast.fix_missing_locations(tree)
    saved = (U.sleep, SM.SerialMonitor.write, POT.Potentiometer.read, C.digital_write, C.analog_write, C.pin_mode, Reduino.target)
    U.sleep, SM.SerialMonitor.write, POT.Potentiometer.read = sleep, write, pot_read
    C.digital_write, C.analog_write, C.pin_mode = dwrite, awrite, pmode
    Reduino.target = lambda *a, **k: ""
    old = signal.signal(signal.SIGALRM, _alarm)
    signal.alarm(timeout_s)
    try:
        g = {"__passes": passes, "__name__": "__script__"}
        exec(compile(tree, "<script>", "exec"), g)
        return {"status": "ok", "ev": evs}
    except BaseException as e:  # noqa: BLE001
        return {"status": "error", "cls": type(e).__name__, "msg": str(e)[:200], "ev": evs}
    finally:
        signal.alarm(0)
        signal.signal(signal.SIGALRM, old)
        (U.sleep, SM.SerialMonitor.write, POT.Potentiometer.read, C.digital_write, C.analog_write, C.pin_mode, Reduino.target) = saved


# ------------------------------------------------------------------ firmware leg
def fw_events(raw: list, pins: set, mpins=frozenset()) -> list:
    out = []
    for e in raw:
        t = e.get("e")
        if t == "w":
            if e["t"] == "i":
                v = int(e["v"])
                out.append({"e": "w", "toks": [{"k": "n", "n": v, "d": 1}] if abs(v) <= 4000000 else [{"k": "t", "v": "<big>"}]})
            elif e["t"] == "f":
                out.append({"e": "w", "toks": tokenize(str(e["v"]) if isinstance(e["v"], str) else f"{e['v']:.2f}")})
            else:
                out.append({"e": "w", "toks": tokenize(e["v"])})
        elif t == "d":
            out.append({"e": "d", "ms": e["ms"] if e["ms"] < 2 ** 31 else -1})
        elif t == "phase" and e["v"] == "loop":
            out.append({"e": "pass", "k": e["k"]})
        elif t in ("dw", "aw") and e["p"] in pins:
            out.append({"e": t, "p": e["p"], "v": e["v"]})
        elif t == "pm" and e["p"] in mpins:
            out.append({"e": "pm", "p": e["p"], "m": {0: "in", 1: "out", 2: "inpu"}.get(e["m"], str(e["m"]))})
        elif t == "raw":
            out.append({"e": "w", "toks": [{"k": "t", "v": "<raw>"}]})
    return out


_DECL = re.compile(r"^\s*(?:static\s+)?(?:const\s+)?(int|long|float|double|bool|String|__redu_list<[^>]*>)\s+([A-Za-z_]\w*)\s*(?:=|;)")
_FUNC = re.compile(r"^(void|int|long|float|double|bool|String|__redu_list<[^>]*>)\s+([A-Za-z_]\w*)\s*\(([^)]*)\)\s*\{")


def declared_types(cpp: str) -> dict:
    """Light scanner over the regular emitter output: name -> declared C++ type (globals; "<fn>.<param>",
    "<fn>.<local>", "<fn>.return" for functions)."""
    decl: dict = {}
    fn = None
    depth = 0
    for line in cpp.splitlines():
        m = _FUNC.match(line)
        if m and depth == 0:
            fn = m.group(2)
            if fn not in ("setup", "loop"):
                # a helper may be emitted in several variants (one per call signature): a parameter / result is declared wide
                # enough when SOME variant is (the per-call-site choice of the variant is judged on the printed values)
                decl[f"{fn}.return"] = _wider(decl.get(f"{fn}.return"), _norm_type(m.group(1)))
                for p in [x.strip() for x in m.group(3).split(",") if x.strip()]:
                    parts = p.replace("&", " ").replace("const ", "").split()
                    if len(parts) >= 2:
                        decl[f"{fn}.{parts[-1]}"] = _wider(decl.get(f"{fn}.{parts[-1]}"), _norm_type(" ".join(parts[:-1])))
        d = _DECL.match(line)
        if d and not d.group(2).startswith("__"):
            key = d.group(2) if (depth == 0 or fn in ("setup", "loop", None)) else f"{fn}.{d.group(2)}"
            decl.setdefault(key, _norm_type(d.group(1)))
        depth += line.count("{") - line.count("}")
        if depth == 0:
            fn = None
    return decl


_RANK = {"void": -1, "bool": 0, "int": 1, "long": 1, "float": 2}


def _wider(old, new: str) -> str:
    if old is None or old == new:
        return new
    if old in _RANK and new in _RANK:
        return new if _RANK[new] > _RANK[old] else old
    return "mixed"          # variants of different families (a number here, a String there): LangTrace!Covers judges no single type


def _norm_type(t: str) -> str:
    t = t.strip()
    if t.startswith("__redu_list"):
        return "list"
    return {"double": "float"}.get(t, t)


def lang_job(job: dict) -> dict:
    """One program: firmware leg + CPython leg (runs in a pool worker)."""
    prog = job["prog"]
    src = job.get("src") or render(prog)
    inputs = ("a 14 " + " ".join(map(str, prog["ain"])) + "\n") if prog["ain"] else ""
    r = fw.run_script({"src": src, "passes": prog["npass"] if prog["hasloop"] else 0, "inputs": inputs, "keep_cpp": True,
                       "san": job.get("san", False)})
    out = {"src": src}
    if r["transpile"] != "accept":
        out["fw"] = {"status": r["transpile"], "cls": r.get("cls") or "", "msg": r.get("msg") or "", "ev": []}
    elif r.get("compile") != "ok":
        out["fw"] = {"status": "compile_fail", "cls": "", "msg": (r.get("stderr") or "")[-600:], "ev": []}
    elif r.get("rc", 0) != 0:
        out["fw"] = {"status": "run_fail", "cls": str(r.get("memerr")), "msg": (r.get("stderr") or "")[-400:], "ev": fw_events(r["events"], pins_of(prog), mode_pins(prog))}
    else:
        out["fw"] = {"status": "ok", "cls": "", "msg": "", "ev": fw_events(r["events"], pins_of(prog), mode_pins(prog))}
    out["decl"] = declared_types(r["cpp"]) if r.get("cpp") else {}
    if job.get("want_cpp"):
        out["cpp"] = r.get("cpp")
    if job.get("raw"):
        out["raw"] = r.get("events")
    py = run_cpython(src, prog["npass"] if prog["hasloop"] else 0, prog["ain"], watch_modes=mode_pins(prog))
    out["py"] = {"status": py["status"], "cls": py.get("cls", ""), "msg": py.get("msg", ""), "ev": py["ev"]}
    return out


def strip_for_tlc(prog: dict) -> dict:
    """Remove renderer-only fields ("text", "form") so records of one kind have one shape."""
    if isinstance(prog, dict):
        return {k: strip_for_tlc(v) for k, v in prog.items() if k not in ("text", "form")}
    if isinstance(prog, list):
        return [strip_for_tlc(x) for x in prog]
    return prog


def three_way(progs: list[dict], run=None, label: str = "", srcs: dict | None = None, san: bool = False, chunk: int = 400) -> dict:
    """Run every program on the firmware and on CPython, then let TLC (LangTrace) judge both traces.
    Returns {id: {"verdict": {...}, "fw": {...}, "py": {...}, "src": str, "decl": {...}}}."""
    fw.ensure_runtime(False)
    if san:
        fw.ensure_runtime(True)
    common.scratch()
    jobs = [{"prog": p, "src": (srcs or {}).get(p["id"]), "san": san} for p in progs]
    with cf.ProcessPoolExecutor(max_workers=NCPU) as ex:
        legs = list(ex.map(lang_job, jobs, chunksize=2))
    out = {}
    for i in range(0, len(progs), chunk):
        part = progs[i:i + chunk]
        recs = []
        for p, leg in zip(part, legs[i:i + chunk]):
            q = strip_for_tlc(p)
            q["fw"] = {"status": leg["fw"]["status"], "ev": leg["fw"]["ev"]}
            q["py"] = {"status": leg["py"]["status"], "ev": leg["py"]["ev"]}
            q["decl"] = leg["decl"]
            recs.append(q)
        f = write_json("progs.json", recs)
        res = run_tlc("LangTrace", "LangTrace.cfg", env={"PROGS_FILE": str(f)}, workers=8, timeout=1800)
        if not res.ok:
            raise MachineryError(f"LangTrace failed: {res.error}\n{res.stdout[-3000:]}")
        if run is not None:
            run.add_tlc(res, f"Lang three-way validation {label} ({len(part)} programs)")
        vd = {v["id"]: v for v in res.json if isinstance(v, dict) and "id" in v}
        for p, leg in zip(part, legs[i:i + chunk]):
            if p["id"] not in vd:
                raise MachineryError(f"LangTrace: no verdict for program {p['id']}\n{res.stdout[-2000:]}")
            out[p["id"]] = {"verdict": vd[p["id"]], **leg}
    if run is not None:
        run.traces(2 * len(progs))
    return out


def spec_eval(progs: list[dict], run=None, label: str = "", chunk: int = 1500) -> dict:
    """Let TLC execute the programs in the specification only: {id: {wd, feat, ty, nout, live}}."""
    out = {}
    for i in range(0, len(progs), chunk):
        recs = []
        for p in progs[i:i + chunk]:
            q = strip_for_tlc(p)
            q["fw"] = {"status": "skip", "ev": []}
            q["py"] = {"status": "skip", "ev": []}
            q["decl"] = {}
            recs.append(q)
        f = write_json("progs.json", recs)
        res = run_tlc("LangTrace", "LangTrace.cfg", env={"PROGS_FILE": str(f)}, workers=8, timeout=1800)
        if not res.ok:
            raise MachineryError(f"Lang evaluation failed: {res.error}\n{res.stdout[-3000:]}")
        if run is not None:
            run.add_tlc(res, f"Lang spec evaluation {label} ({len(recs)} programs)")
        for v in res.json:
            if isinstance(v, dict) and "id" in v:
                out[v["id"]] = v
        missing = [p["id"] for p in progs[i:i + chunk] if p["id"] not in out]
        if missing:
            raise MachineryError(f"Lang evaluation: no verdict for {missing[:3]}\n{res.stdout[-2000:]}")
    return out
