"""LCD text / progress / backlight / glyph histories (property C17): execute one TLC-generated call history on the
host class Reduino.Displays.LCD and as firmware, and project both executions onto the observation record of
tla/LCDText.tla (one record per call):

    {act, i, t, s, b,                       the call (same shape as LCDText!Call)
     res: "init" | "ok" | "raise",
     cell: [[code, ...], ...],              character codes of every cell after the call
     dsp, bl, br, pin, aws,                 display flag; host: backlight_on / brightness_level (pin = -1);
                                            firmware: last level on the backlight line, all levels written during the call
     gl: 8 x bitmap ([] = unset), gup: [{slot, bm}] uploads during the call,
     off: characters sent outside the visible window, clamped: characters sent after a cursor command whose row the
     controller clamped, stray: events on another display's lines}

The projection is the same code for both sides where both sides have the datum; cells come from LCD.buffer on the
host and from the mock HD44780's `ch`/`clear`/`begin` events on the device (0xFF and U+2588 are the same glyph: the
full block).  Nothing is compared here: comparison is membership in the specification, decided by TLC."""
from __future__ import annotations

from . import fw
from .fw_act import Script

BLOCK = "█"
BL_PIN0 = 20                # backlight pin of display i in a packed script
OFFSET = 10                 # run-time rendering of negative integers: (adc - OFFSET)


def code(ch: str) -> int:
    if ch == BLOCK:
        return 255
    o = ord(ch)
    return o if o < 256 else 999


def text(codes) -> str:
    return "".join(chr(c) for c in codes)


# ------------------------------------------------------------------------------------------------ host side
def make_host(g: dict):
    from Reduino.Displays import LCD
    if g["wiring"] == "i2c":
        return LCD(i2c_addr=0x27, cols=g["cols"], rows=g["rows"])
    return LCD(rs=2, en=3, d4=4, d5=5, d6=6, d7=7, cols=g["cols"], rows=g["rows"],
               backlight_pin=(9 if g["blpin"] else None))


def host_call(lcd, c: dict, j: int = 0) -> None:
    a, i, t, s, b = c["act"], c["i"], c["t"], c["s"], c["b"]
    if a in ("write", "line", "message"):
        s = [spell(x, 0, j + n) for n, x in enumerate(s)]      # labels in any letter case, as on the firmware side
    if a == "write":
        lcd.write(i[0], i[1], text(t[0]), clear_row=b[0], align=s[0])
    elif a == "line":
        lcd.line(i[0], text(t[0]), align=s[0], clear_row=b[0])
    elif a == "message":
        lcd.message(text(t[0]) if b[1] else None, text(t[1]) if b[2] else None, top_align=s[0], bottom_align=s[1], clear_rows=b[0])
    elif a == "clear":
        lcd.clear()
    elif a == "display":
        lcd.display(b[0])
    elif a == "backlight":
        lcd.backlight(b[0])
    elif a == "brightness":
        lcd.brightness(i[0])
    elif a == "glyph":
        lcd.glyph(i[0], list(t[0]))
    elif a == "progress":
        kw = {"style": s[0]}
        if b[0]:
            kw["width"] = i[3]
        if t[0]:
            kw["label"] = text(t[0])
        elif (i[1] + i[2]) % 2 == 1:
            kw["label"] = ""                  # an empty label is no label (spelled out in every second call without one)
        lcd.progress(i[0], i[1], i[2], **kw)
    else:
        raise AssertionError(a)


def host_obs(lcd, c: dict, res: str) -> dict:
    buf = lcd.buffer
    gl = [list(lcd.glyphs.get(k, [])) for k in range(8)]
    extra = [{"slot": int(k), "bm": list(v)} for k, v in lcd.glyphs.items() if not (isinstance(k, int) and 0 <= k <= 7)]
    return {"act": c["act"], "i": list(c["i"]), "t": [list(x) for x in c["t"]], "s": list(c["s"]), "b": list(c["b"]), "res": res,
            "cell": [[code(ch) for ch in row] for row in buf],
            "dsp": bool(lcd.display_on), "bl": bool(lcd.backlight_on), "br": int(lcd.brightness_level), "pin": -1, "aws": [],
            "gl": gl, "gup": extra, "off": 0, "clamped": 0, "stray": 0}


INIT = {"act": "init", "i": [], "t": [], "s": [], "b": []}


def host_trace(g: dict, h: list) -> list:
    lcd = make_host(g)
    out = [host_obs(lcd, INIT, "init")]
    for j, c in enumerate(h, 1):
        try:
            host_call(lcd, c, j)
            res = "ok"
        except Exception:          # the class of the exception is not part of the property
            res = "raise"
        out.append(host_obs(lcd, c, res))
    return out


# ------------------------------------------------------------------------------------------------ firmware side
def _b(v: bool) -> str:
    return "True" if v else "False"


def spell(label: str, k: int, j: int) -> str:
    """The host API takes alignment / style labels in any letter case; every third call spells them differently."""
    m = (k + j) % 3
    return label if m == 0 else (label.capitalize() if m == 1 else label.upper())


def render(cases: list, runtime) -> Script:
    """cases: [{"g":…, "h":[calls]}] -> one packed script, one display per case.
    runtime: False (literals) | True (run-time values) | one of fw_act.ROUTINGS (values and flags through variables)."""
    s = Script(runtime)
    routed = isinstance(runtime, str) and runtime not in ("lit", "rt")

    def fb(v: bool) -> str:
        return s.flag(v) if routed else _b(v)

    def iv(v: int) -> str:
        if not runtime or v < -OFFSET:
            return repr(int(v))
        return s.val(v) if v >= 0 else f"({s.val(v + OFFSET)} - {OFFSET})"

    for k, case in enumerate(cases):
        g = case["g"]
        if g["wiring"] == "i2c":
            s.add(f"lcd{k} = LCD(i2c_addr=39, cols={g['cols']}, rows={g['rows']})")
        else:
            # g["blspell"]: the backlight pin spelled out by the case (e.g. "0" or "8 - 8": pin 0 is a pin like any other)
            bl = f", backlight_pin={g.get('blspell', BL_PIN0 + k)}" if g["blpin"] else ""
            s.add(f"lcd{k} = LCD(rs=2, en=3, d4=4, d5=5, d6=6, d7=7, cols={g['cols']}, rows={g['rows']}{bl})")
    for k, case in enumerate(cases):
        n = f"lcd{k}"
        s.mark(k, 0, [])
        for j, c in enumerate(case["h"], 1):
            a, i, t, st, b = c["act"], c["i"], c["t"], c["s"], c["b"]
            if a == "write":
                s.add(f"{n}.write({iv(i[0])}, {iv(i[1])}, {text(t[0])!r}, clear_row={fb(b[0])}, align={spell(st[0], k, j)!r})")
            elif a == "line":
                s.add(f"{n}.line({iv(i[0])}, {text(t[0])!r}, align={spell(st[0], k, j)!r}, clear_row={fb(b[0])})")
            elif a == "message":
                args = [(repr(text(t[0])) if b[1] else "None"), (repr(text(t[1])) if b[2] else "None")]
                s.add(f"{n}.message({args[0]}, {args[1]}, top_align={spell(st[0], k, j)!r}, bottom_align={spell(st[1], k, j + 1)!r}, clear_rows={fb(b[0])})")
            elif a == "clear":
                s.add(f"{n}.clear()")
            elif a in ("display", "backlight"):
                s.add(f"{n}.{a}({fb(b[0])})" if (not runtime or routed) else f"{n}.{a}({s.val(1 if b[0] else 0)} > 0)")
            elif a == "brightness":
                s.add(f"{n}.brightness({iv(i[0])})")
            elif a == "glyph":
                s.add(f"{n}.glyph({iv(i[0])}, {list(t[0])!r})")
            elif a == "progress":
                kw = ""
                if b[0]:
                    kw += f", width={iv(i[3])}"
                kw += f", style={st[0]!r}"
                if t[0]:
                    kw += f", label={text(t[0])!r}"
                elif (i[1] + i[2]) % 2 == 1:
                    kw += ', label=""'               # as on the host side
                s.add(f"{n}.progress({iv(i[0])}, {iv(i[1])}, {iv(i[2])}{kw})")
            else:
                raise AssertionError(a)
            s.mark(k, j, [])
    return s


def expect_reject(case: dict) -> bool:
    """Calls the transpiler is entitled to refuse (the host raises on them as well): a glyph bitmap that has not 8 rows."""
    return any(c["act"] == "glyph" and len(c["t"][0]) != 8 for c in case["h"])


class _Disp:
    def __init__(self):
        self.cells = None; self.cols = self.rows = 0; self.kind = None
        self.dsp = True; self.pin = -1; self.gl = [[] for _ in range(8)]
        self.clampcur = False
        self.reset()

    def reset(self):
        self.off = 0; self.clamped = 0; self.aws = []; self.gup = []


def project(cases: list, events: list) -> list:
    """Per case: list of observation records (init + one per call) or None when its markers are missing."""
    disp: dict[int, _Disp] = {}
    pin2d = {(int(eval(c["g"]["blspell"])) if "blspell" in c["g"] else BL_PIN0 + k): k for k, c in enumerate(cases)}
    out: list = [[] for _ in cases]
    stray = 0
    cur = None                  # (display, call) whose segment the next events belong to

    def d_of(i):
        return disp.setdefault(i, _Disp())

    for e in events:
        t = e.get("e")
        if t == "w" and e.get("t") == "s" and isinstance(e.get("v"), str) and e["v"].startswith("#"):
            inst, k = (int(x) for x in e["v"][1:].split("."))
            if inst >= len(cases):
                continue
            d = d_of(inst)
            case = cases[inst]
            c = INIT if k == 0 else case["h"][k - 1] if k - 1 < len(case["h"]) else None
            if c is None or len(out[inst]) != k:
                out[inst].append(None)        # marker out of sequence
            else:
                out[inst].append({"act": c["act"], "i": list(c["i"]), "t": [list(x) for x in c["t"]], "s": list(c["s"]), "b": list(c["b"]),
                                  "res": "init" if k == 0 else "ok",
                                  "cell": [list(r) for r in (d.cells or [])], "dsp": d.dsp, "bl": True, "br": 0, "pin": d.pin,
                                  "aws": list(d.aws), "gl": [list(x) for x in d.gl], "gup": list(d.gup),
                                  "off": d.off, "clamped": d.clamped, "stray": 0 if k == 0 else stray,
                                  "_geom": [d.kind, d.cols, d.rows]})
            d.reset()
            stray = 0
            cur = (inst, k + 1)
            continue
        owner = None
        if t == "lcd":
            owner = e["d"]
            d = d_of(owner)
            op = e["op"]
            if op == "new":
                d.kind = e["kind"]
            elif op in ("begin", "init", "clear"):
                d.cells = [list(r) for r in e["cells"]]
                d.cols, d.rows = e["cols"], e["rows"]
                d.clampcur = False
            elif op == "cursor":
                d.clampcur = bool(e["clamped"])
            elif op == "ch":
                if e["in"] and d.cells is not None:
                    d.cells[e["r"]][e["c"]] = e["v"]
                else:
                    d.off += 1
                if d.clampcur:
                    d.clamped += 1
            elif op == "glyph":
                d.gup.append({"slot": e["slot"], "bm": list(e["bm"])})
                if 0 <= e["slot"] <= 7:
                    d.gl[e["slot"]] = list(e["bm"])
            elif op in ("display", "nodisplay"):
                d.dsp = op == "display"
            elif op in ("backlight", "nobacklight"):
                d.pin = 255 if op == "backlight" else 0
                d.aws.append(d.pin)
        elif t in ("aw", "dw") and e.get("p") in pin2d:
            owner = pin2d[e["p"]]
            d = d_of(owner)
            d.pin = e["v"] if t == "aw" else (255 if e["v"] else 0)
            d.aws.append(d.pin)
        if owner is not None and cur is not None and owner != cur[0]:
            stray += 1
    res = []
    for k, case in enumerate(cases):
        tr = out[k]
        g = case["g"]
        if len(tr) != len(case["h"]) + 1 or any(x is None for x in tr):
            res.append(None)
            continue
        kind, cols, rows = tr[0].pop("_geom")
        for x in tr[1:]:
            x.pop("_geom", None)
        if (kind, cols, rows) != ("i2c" if g["wiring"] == "i2c" else "par", g["cols"], g["rows"]):
            res.append(None)                 # the display was not declared with the geometry of the script
            continue
        res.append(tr)
    return res


def run_pack(cases: list, runtime: bool) -> dict:
    """One packed firmware job (executed in a worker process)."""
    s = render(cases, runtime)
    r = fw.run_script({"src": s.source(), "passes": 0, "inputs": s.inputs()})
    res = {"transpile": r["transpile"], "msg": r.get("msg"), "cls": r.get("cls"), "compile": r.get("compile"),
           "stderr": r.get("stderr", "")[-800:] if r.get("compile") == "fail" else "", "src": s.source(), "inputs": s.inputs()}
    if r["transpile"] == "accept" and r.get("compile") == "ok":
        res["traces"] = project(cases, r["events"])
    return res
