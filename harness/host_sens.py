"""Host-side recorders for C20: Reduino.Core (pin memory), Reduino.Utils (map / sleep), the provider-driven
sensor classes (Button, Potentiometer, Ultrasonic) and Communication.SerialMonitor.

Each recorder drives the *real* module from /repo's working tree with one TLC-generated behaviour and logs, after
every call, the outcome (ok / raise + exception class), the return value, the projected state and the backend
calls (injected sleep function, provider callables, fake serial backend).  Projection only: nothing is compared
here - the traces are judged by the *Trace.tla modules.

Numbers: the specifications work in units of 1/U (U = 8), integers only.  A value is {"t": "int"|"float"|"bool",
"m": value*U}; it is rendered as the Python object of that type and value."""
from __future__ import annotations

import contextlib
import io
import math
import sys
import time as _time
from fractions import Fraction

from . import common  # noqa: F401  (puts /repo/src of the working tree on sys.path)
from .common import MachineryError

U = 8
NONE = -1000000      # the call returned None
OTHER = -1000001     # the call returned something the specification has no value for
I32 = 2 ** 31 - 1


def pyval(v: dict):
    t, m = v["t"], v["m"]
    if t == "int":
        if m % U:
            raise MachineryError(f"int value not integral: {v}")
        return m // U
    if t == "bool":
        return bool(m // U)
    if t == "float":
        return m / U          # exact: m/8 is a dyadic rational
    if t == "frac":
        return Fraction(m, U)
    raise MachineryError(f"unknown value type {v}")


def outcome(exc: BaseException | None) -> tuple[str, str]:
    return ("ok", "") if exc is None else ("raise", type(exc).__name__)


def scaled(x) -> int:
    """A returned number in units of 1/U (exactly), NONE for None, OTHER for anything else."""
    if x is None:
        return NONE
    if isinstance(x, (bool, int, float, Fraction)):
        if isinstance(x, float) and not math.isfinite(x):
            return OTHER
        f = Fraction(x) * U
        if f.denominator == 1 and abs(f.numerator) < 900000:
            return int(f.numerator)
    return OTHER


# ------------------------------------------------------------------ Reduino.Core
def _core():
    import Reduino.Core as C
    for n in ("_pin_modes", "_digital_values", "_analog_values"):
        if not isinstance(getattr(C, n, None), dict):
            raise MachineryError(f"Reduino.Core.{n} (module-level pin state named by C20) not found: the recorder cannot reset the simulation")
    return C


def pyname(n: dict):
    return int(n["l"]) if n["k"] == "int" else n["l"]


def core_trace(beh: dict) -> list[dict]:
    """beh = {"labels": [...], "names": [{"k","l"}...], "h": [{"act","pin","mode","v"}...]}"""
    C = _core()
    stores = (C._pin_modes, C._digital_values, C._analog_values)
    for d in stores:
        d.clear()
    labels, names = list(beh["labels"]), list(beh["names"])
    const = {"INPUT": C.INPUT, "OUTPUT": C.OUTPUT, "INPUT_PULLUP": C.INPUT_PULLUP}

    def num(x, lo, hi):
        return int(x) if isinstance(x, (int, bool)) and lo <= int(x) <= hi else OTHER

    def observe() -> dict:
        before = [dict(d) for d in stores]
        reads = []
        for n in names:
            try:
                d, a = C.digital_read(pyname(n)), C.analog_read(pyname(n))
            except Exception:
                d, a = OTHER, OTHER
            reads.append({"k": n["k"], "l": n["l"], "d": num(d, -9, 9), "a": num(a, -100000, 100000)})
        pure = before == [dict(d) for d in stores]
        modes, seen, extra = {lb: "none" for lb in labels}, {}, 0
        for key, mode in C._pin_modes.items():
            lb = str(key)
            if lb in modes:
                seen[lb] = seen.get(lb, 0) + 1
                modes[lb] = str(mode) if seen[lb] == 1 else "SPLIT"      # 7 and "7" kept apart
            else:
                extra += 1
        for d in stores[1:]:
            keys = [str(k) for k in d]
            extra += sum(1 for k in keys if k not in modes) + (len(keys) - len(set(keys)))
        return {"modes": modes, "reads": reads, "extra": extra, "pure": pure}

    def ev(c, out, cls, ret):
        e = {"act": c["act"], "pin": c["pin"], "mode": c["mode"], "v": c["v"], "out": out, "cls": cls, "ret": ret}
        e.update(observe())
        return e

    none = {"act": "init", "pin": {"k": "int", "l": ""}, "mode": "", "v": {"t": "int", "m": 0}}
    evs = [ev(none, "init", "", NONE)]
    for c in beh["h"]:
        pin, act, exc, r = pyname(c["pin"]), c["act"], None, None
        try:
            if act == "pin_mode":
                r = C.pin_mode(pin, const[c["mode"]])
            elif act == "digital_write":
                r = C.digital_write(pin, pyval(c["v"]))
            elif act == "analog_write":
                r = C.analog_write(pin, pyval(c["v"]))
            elif act == "digital_read":
                r = C.digital_read(pin)
            elif act == "analog_read":
                r = C.analog_read(pin)
            else:
                raise MachineryError(f"unknown Core call {act}")
        except MachineryError:
            raise
        except Exception as e:  # noqa: BLE001
            exc = e
        out, cls = outcome(exc)
        ret = NONE if r is None else num(r, -100000, 100000)
        evs.append(ev(c, out, cls, ret))
    for d in stores:
        d.clear()
    return evs


# ------------------------------------------------------------------ Reduino.Utils
def _ret_none():
    return {"k": "none", "p": 0, "q": 1, "i": 0, "f1": 0, "f2": 0, "f3": 0}


def ret_number(x) -> dict:
    """Exact rationals as a reduced pair, binary floats as integer part + 12 decimals in three limbs (units of 1/U)."""
    r = _ret_none()
    if x is None:
        return r
    if isinstance(x, (bool, int, Fraction)):
        f = Fraction(x) * U
        if abs(f.numerator) <= I32 and f.denominator <= I32:
            r.update(k="frac", p=int(f.numerator), q=int(f.denominator))
            return r
    elif isinstance(x, float) and math.isfinite(x):
        f = Fraction(x) * U
        i = math.floor(f)
        frac12 = round((f - i) * 10 ** 12)
        if frac12 == 10 ** 12:
            i, frac12 = i + 1, 0
        if abs(i) < I32:
            r.update(k="float", i=int(i), f1=int(frac12 // 10 ** 8), f2=int(frac12 // 10 ** 4 % 10 ** 4), f3=int(frac12 % 10 ** 4))
            return r
    r["k"] = "other"
    return r


def sleep_entry(seconds) -> dict:
    """One call of the sleep function: whole microseconds (floor) + the rest in 10^-6 us, rounded."""
    try:
        f = Fraction(seconds) * 10 ** 6
    except (TypeError, ValueError, OverflowError):
        return {"us": -I32, "pf": 0}
    us = math.floor(f)
    pf = round((f - us) * 10 ** 6)
    if pf == 10 ** 6:
        us, pf = us + 1, 0
    if abs(us) >= I32:
        return {"us": -I32, "pf": 0}
    return {"us": int(us), "pf": int(pf)}


def _num(a: int, ty: str):
    if ty == "frac":
        return Fraction(a, U)
    if ty == "float":
        return a / U
    if ty == "int":
        if a % U:
            raise MachineryError("int typing of a non-integral value")
        return a // U
    if ty == "bool":
        return bool(a // U)
    raise MachineryError(f"typing {ty}")


def utils_trace(beh, offset: int = 0) -> list[dict]:
    """beh = [{"act": "map"|"sleep", "a": [...], "ty": ..., "via": ...}...] (arguments in units of 1/8).
    offset: every map call is executed with value, from_low and from_high translated by that integer (the logged arguments
    stay untranslated: the affine map does not depend on where its source window sits)."""
    import Reduino.Utils as UT
    calls = beh["h"] if isinstance(beh, dict) else beh
    evs = []
    for c in calls:
        log: list = []
        exc, r = None, None

        def rec(seconds, _log=log):
            _log.append(sleep_entry(seconds))

        try:
            if c["act"] == "map":
                args = [_num(a, c["ty"]) for a in c["a"]]
                if offset and c["ty"] != "bool":
                    args[:3] = [x + offset for x in args[:3]]
                r = UT.map(*args)
            elif c["act"] == "sleep":
                d = _num(c["a"][0], c["ty"])
                if c["via"] == "inject":
                    r = UT.sleep(d, sleep_func=rec)
                else:  # the default sleeper: time.sleep, observed by replacing it for the duration of the call
                    real = _time.sleep
                    _time.sleep = rec
                    try:
                        r = UT.sleep(d)
                    finally:
                        _time.sleep = real
            else:
                raise MachineryError(f"unknown Utils call {c['act']}")
        except MachineryError:
            raise
        except Exception as e:  # noqa: BLE001
            exc = e
        out, cls = outcome(exc)
        evs.append({"act": c["act"], "a": list(c["a"]), "ty": c["ty"], "via": c["via"], "out": out, "cls": cls,
                    "ret": ret_number(r) if exc is None else _ret_none(), "sleeps": list(log)})
    return evs


# ------------------------------------------------------------------ Button / Potentiometer / Ultrasonic
def sensors_trace(beh: dict) -> list[dict]:
    """beh = {"cfg": {"kind","prov","dflt"}, "h": [{"act","s"}...]}"""
    from Reduino.Sensors import Button, Potentiometer, Ultrasonic
    cfg = beh["cfg"]
    cur = {"sample": None, "polls": 0, "clicks": 0}

    def provider():
        cur["polls"] += 1
        return pyval(cur["sample"])

    def on_click():
        cur["clicks"] += 1

    prov = provider if cfg["prov"] else None
    if cfg["kind"] == "button":
        dev = Button(2, on_click=on_click, state_provider=prov)
    elif cfg["kind"] == "pot":
        dev = Potentiometer("A0", value_provider=prov)
    elif cfg["kind"] == "ultra":
        dev = Ultrasonic(7, 8, distance_provider=prov, default_distance=pyval(cfg["dflt"]))
    else:
        raise MachineryError(f"sensor kind {cfg['kind']}")
    evs = []
    for c in beh["h"]:
        cur.update(sample=c["s"], polls=0, clicks=0)
        exc, r = None, None
        try:
            if c["act"] == "is_pressed":
                r = dev.is_pressed()
            elif c["act"] == "set_pressed":
                r = dev.set_pressed(pyval(c["s"]))
            elif c["act"] == "read":
                r = dev.read()
            elif c["act"] == "measure":
                r = dev.measure_distance()
            else:
                raise MachineryError(f"unknown sensor call {c['act']}")
        except MachineryError:
            raise
        except Exception as e:  # noqa: BLE001
            exc = e
        out, cls = outcome(exc)
        evs.append({"act": c["act"], "s": c["s"], "out": out, "cls": cls, "ret": scaled(r) if exc is None else NONE,
                    "clicks": cur["clicks"], "polls": cur["polls"]})
    return evs


# ------------------------------------------------------------------ SerialMonitor
# str(value) -> Python values with that rendering (the harness computes str() with CPython, the reference)
VALUES = [0, 42, "42", Fraction(42), 2.5, "2.5", True, "True", None, "None", "hi", "a\nb", "é", [1, 2], "[1, 2]", -7, "-7", "",
          0.1, "x" * 70, b"raw", 10 ** 12, float("inf"), ("t", 1), "l\n", "\n", "a\r\n", "\r"]
BY_TEXT: dict[bytes, list] = {}
for _v in VALUES:
    BY_TEXT.setdefault(str(_v).encode("utf-8"), []).append(_v)


class FakeSerial:
    """Recording stand-in for the pyserial module."""

    def __init__(self):
        self.log: list[dict] = []
        self.handles: list = []
        self.line = b""
        fake = self

        class Serial:
            def __init__(self, *a, **kw):
                self.id = len(fake.handles) + 1
                self.port = kw.get("port", a[0] if a else None)
                self.baudrate = kw.get("baudrate", a[1] if len(a) > 1 else None)
                self.is_open = True
                fake.handles.append(self)
                baud = self.baudrate if isinstance(self.baudrate, int) and abs(self.baudrate) < I32 else -1
                fake.log.append({"op": "open", "id": self.id, "port": str(self.port), "baud": int(baud), "data": []})

            def _ev(self, op, data=()):
                fake.log.append({"op": op, "id": self.id, "port": "", "baud": 0, "data": list(data)})

            def write(self, payload):
                self._ev("write", payload if isinstance(payload, (bytes, bytearray)) else [-1])
                return len(payload)

            def readline(self):
                self._ev("readline")
                return fake.line

            def close(self):
                self._ev("close")
                self.is_open = False

            def flush(self):
                pass

        self.Serial = Serial


def serial_trace(beh: dict, variant: int = 0) -> list[dict]:
    """beh = {"cfg": {"baud","port","nl","backend"}, "h": [{"act","port","txt","emit"}...]}; h[0] is "new"."""
    import Reduino.Communication as COM
    from Reduino.Communication import SerialMonitor
    cfg = beh["cfg"]
    fake = FakeSerial()
    saved = COM.serial
    COM.serial = fake if cfg["backend"] else None
    mon = None
    evs = []
    try:
        for c in beh["h"]:
            fake.log.clear()
            exc, r = None, None
            buf = io.StringIO()
            try:
                with contextlib.redirect_stdout(buf):
                    if c["act"] == "new":
                        kw = {"baud_rate": cfg["baud"], "newline": bytes(cfg["nl"]).decode("utf-8")}
                        if cfg["port"]:
                            kw["port"] = cfg["port"]
                        mon = SerialMonitor(**kw)
                    elif mon is None:
                        raise MachineryError("serial behaviour uses the monitor before/without a successful constructor")
                    elif c["act"] == "connect":
                        r = mon.connect(c["port"])
                    elif c["act"] == "close":
                        r = mon.close()
                    elif c["act"] == "write":
                        vals = BY_TEXT.get(bytes(c["txt"]))
                        if not vals:
                            raise MachineryError(f"no Python value renders as {bytes(c['txt'])!r}")
                        r = mon.write(vals[variant % len(vals)])
                    elif c["act"] == "read":
                        fake.line = bytes(c["txt"])
                        r = mon.read(c["emit"])
                    else:
                        raise MachineryError(f"unknown serial call {c['act']}")
            except MachineryError:
                raise
            except Exception as e:  # noqa: BLE001
                exc = e
            out, cls = outcome(exc)
            if exc is not None or r is None:
                ret = {"k": "none", "b": []}
            elif isinstance(r, str):
                ret = {"k": "str", "b": list(r.encode("utf-8", "replace"))}
            else:
                ret = {"k": "other", "b": []}
            evs.append({"act": c["act"], "port": c["port"], "txt": list(c["txt"]), "emit": c["emit"], "out": out, "cls": cls,
                        "ret": ret, "calls": [dict(x) for x in fake.log], "echo": list(buf.getvalue().encode("utf-8")),
                        "open": [h.id for h in fake.handles if h.is_open]})
    finally:
        COM.serial = saved
    return evs
