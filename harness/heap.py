"""C09 stimuli and observation: list / string operation histories (TLC-enumerated) as Lang programs, executed as a
sanitizer build of the firmware with allocation tracing, projected to the events of tla/Heap.tla."""
from __future__ import annotations

from .lang import *  # noqa: F401,F403
from .lang import PROG

NPASS = 4


def build(case: dict, n: int) -> dict | None:
    """History of op codes + placement -> Lang program (None if the history is not constructible)."""
    ops, place = case["ops"], case["place"]
    have = set()
    pre, body, defs = [], [], {}
    ain = []

    def need(v):
        if v in have:
            return
        have.add(v)
        if v == "a":
            pre.append(ASSIGN("a", LIST(I(1), I(2), I(3))))
        elif v == "b":
            pre.append(ASSIGN("b", LIST(I(5), I(6), I(7))))
        else:
            pre.append(ASSIGN("s", S("ab")))

    for k, op in enumerate(ops):
        if op == "decl-literal":
            if "a" in have:
                body.append(ASSIGN("a", LIST(I(4), I(5), I(6))))
            else:
                have.add("a"); body.append(ASSIGN("a", LIST(I(1), I(2), I(3))))
        elif op == "decl-comp":
            if "b" in have:
                return None
            have.add("b"); body.append(ASSIGN("b", COMP(f"j{k}", I(3), BIN("*", V(f"j{k}"), I(2)))))
        elif op == "copy-b-from-a":
            need("a")
            if "b" in have:
                return None
            have.add("b"); body.append(ASSIGN("b", V("a")))
        elif op == "reassign-literal":
            need("a"); body.append(ASSIGN("a", LIST(I(7), I(8), I(9))))
        elif op == "reassign-copy":
            need("a"); need("b"); body.append(ASSIGN("a", V("b")))
        elif op == "append-a":
            need("a"); body.append(APPEND("a", AREAD())); ain.append(4)
        elif op == "append-b":
            need("b"); body.append(APPEND("b", I(4)))
        elif op == "remove-present":
            need("a"); body.append(REMOVE("a", INDEX(V("a"), I(0))))
        elif op == "remove-maybe-absent":
            need("a"); body.append(REMOVE("a", I(2)))
        elif op == "index-first":
            need("a"); body.append(WRITE(INDEX(V("a"), I(0))))
        elif op == "index-last-negative":
            need("a"); body.append(WRITE(INDEX(V("a"), I(-1))))
        elif op == "index-runtime":
            need("a"); body.append(WRITE(INDEX(V("a"), AREAD()))); ain.append(1)
        elif op == "len-a":
            need("a"); body.append(WRITE(CALL("len", V("a"))))
        elif op == "len-b":
            need("b"); body.append(WRITE(CALL("len", V("b"))))
        elif op == "pass-to-function":
            need("a")
            defs["total"] = DEF(["xs"], [ASSIGN("t", I(0)), FOR("q", CALL("len", V("xs")), [AUG("t", "+", INDEX(V("xs"), V("q")))]), RETURN(V("t"))])
            body.append(WRITE(CALL("total", V("a"))))
        elif op == "return-from-function":
            if "b" in have:
                return None
            defs["mk"] = DEF([], [RETURN(LIST(I(1), I(2), I(3)))])
            have.add("b"); body.append(ASSIGN("b", CALL("mk")))
        elif op == "append-own-first":
            need("a"); body.append(APPEND("a", INDEX(V("a"), I(0))))
        elif op == "append-own-last":
            need("a"); body.append(APPEND("a", INDEX(V("a"), I(-1))))
        elif op == "swap-a-b":
            need("a"); need("b"); body.append(TUPLE(["a", "b"], [V("b"), V("a")]))
        elif op == "swap-in-function":
            need("a"); need("b")
            defs["swp"] = DEF([], [TUPLE(["a", "b"], [V("b"), V("a")])], ["a", "b"])
            body.append(EXPR(CALL("swp")))
        elif op == "index-into-other":
            need("a"); need("b"); body.append(WRITE(INDEX(V("b"), INDEX(V("a"), I(0)))))
        elif op == "append-from-other":
            need("a"); need("b"); body.append(APPEND("a", INDEX(V("b"), I(-1))))
        elif op == "drain-then-append":
            # the list becomes empty (its last remaining element is removed), then grows again
            need("a")
            body += [REMOVE("a", INDEX(V("a"), I(0))), REMOVE("a", INDEX(V("a"), I(0))), REMOVE("a", INDEX(V("a"), I(0))), WRITE(CALL("len", V("a"))),
                     APPEND("a", AREAD()), APPEND("a", I(6)), APPEND("a", I(7)), WRITE(INDEX(V("a"), I(0)))]
            ain.append(4)
        elif op == "drain-then-reassign":
            need("a")
            body += [REMOVE("a", INDEX(V("a"), I(-1))), REMOVE("a", INDEX(V("a"), I(-1))), REMOVE("a", INDEX(V("a"), I(-1))),
                     ASSIGN("a", LIST(I(7), I(8), I(9))), WRITE(INDEX(V("a"), I(2)))]
        elif op == "grow-copy-append":
            # a list that has grown is copied into an already declared list of the same length, and the copy grows
            need("a")
            if "c" in have:
                return None
            have.add("c")
            body += [APPEND("a", AREAD()), ASSIGN("c", LIST(I(5), I(6), I(7), I(8))), ASSIGN("c", V("a")), APPEND("c", I(9)), APPEND("c", I(10)),
                     WRITE(INDEX(V("c"), I(-1))), WRITE(CALL("len", V("a"))),
                     REMOVE("c", I(9)), REMOVE("c", I(10)), REMOVE("a", INDEX(V("a"), I(-1))), REMOVE("c", INDEX(V("c"), I(-1)))]
            ain.append(4)
        elif op == "helper-assigns-global-list":
            # a helper declares the list `global` and assigns it afresh on every call
            if "w" in have:
                return None
            have.add("w")
            defs["refresh"] = DEF(["n"], [ASSIGN("w", LIST(V("n"), BIN("+", V("n"), I(1)), BIN("+", V("n"), I(2)))), RETURN(INDEX(V("w"), I(-1)))], ["w"])
            body += [WRITE(CALL("refresh", AREAD())), WRITE(CALL("refresh", I(7)))]
            ain.append(4)
        elif op == "cond-remove-then-negative-index":
            # the list shrinks at run time fewer times than the statement is executed; then a negative literal index
            if "m" in have:
                return None
            have.add("m")
            pre.append(ASSIGN("m", LIST(I(5), I(6), I(7), I(8))))
            pre.append(ASSIGN("cq", I(0)))
            body += [AUG("cq", "+", I(1)), IF([(CMP(V("cq"), ("<=", I(2))), [REMOVE("m", INDEX(V("m"), I(0)))])]),
                     WRITE(INDEX(V("m"), I(-1))), WRITE(INDEX(V("m"), I(-2)))]
        elif op == "cond-append-then-negative-index":
            if "g" in have:
                return None
            have.add("g")
            pre.append(ASSIGN("g", LIST(I(1), I(2))))
            pre.append(ASSIGN("cg", I(0)))
            body += [AUG("cg", "+", I(1)), IF([(CMP(V("cg"), ("<=", I(2))), [APPEND("g", V("cg"))])]), WRITE(INDEX(V("g"), I(-1))), WRITE(INDEX(V("g"), I(0)))]
        elif op == "self-assign-then-index":
            # re-assigning a list from itself leaves it as it is (the assignment helper must not clear its own source)
            need("a"); body += [ASSIGN("a", V("a")), WRITE(INDEX(V("a"), I(0))), WRITE(INDEX(V("a"), I(-1)))]
        elif op == "keep-or-replace-then-index":
            # `a = b if c else a`: on the passes where the condition selects the target itself this is a self-assignment
            need("a"); need("b")
            body += [ASSIGN("a", IFEXP(CMP(AREAD(), (">", I(0))), V("b"), V("a"))), WRITE(INDEX(V("a"), I(-1))), WRITE(INDEX(V("a"), I(0)))]
            ain.append(0)
        elif op == "string-list-copy-then-grow":
            # a list of strings (each element owns a buffer of its own) is copied to a new name; both copies live on and change
            if "sw" in have:
                return None
            have.add("sw")
            body += [ASSIGN("sw", LIST(S("a first string that is long"), S("a second string, also long"))), ASSIGN(f"sv{k}", V("sw")),
                     APPEND(f"sv{k}", S("a third one, appended to the copy")), APPEND("sw", S("and one for the original list")),
                     WRITE(INDEX(V("sw"), I(0))), WRITE(INDEX(V(f"sv{k}"), I(-1))), WRITE(INDEX(V("sw"), I(-1)))]
        elif op == "string-list-through-function":
            if "sl" in have:
                return None
            have.add("sl")
            defs["lastof"] = DEF(["ws"], [RETURN(INDEX(V("ws"), I(-1)))])
            defs["mkwords"] = DEF([], [RETURN(LIST(S("one long enough to own a buffer"), S("two long enough to own a buffer")))])
            body += [ASSIGN("sl", CALL("mkwords")), WRITE(CALL("lastof", V("sl"))), APPEND("sl", S("three, long enough as well, yes")), WRITE(CALL("lastof", V("sl")))]
        elif op == "string-concat":
            need("s"); body.append(ASSIGN("s", BIN("+", V("s"), S("x"))))
        elif op == "string-len":
            need("s"); body.append(WRITE(CALL("len", V("s"))))
        else:
            raise ValueError(op)
    tail = [WRITE(S("tick"))]
    if place == "setup":
        setup, loop, reps = pre + body, tail, 1
    elif place == "loop":
        setup, loop, reps = [], pre + body + tail, NPASS
    else:
        setup, loop, reps = pre, body + tail, NPASS
    return PROG(setup, loop, defs, npass=NPASS, ain=ain * (reps + 1), pid=f"heap{n}")


def project(raw: list, memerr: str | None) -> list:
    out = []
    for e in raw:
        t = e.get("e")
        if t == "alloc":
            out.append({"e": "alloc", "id": e["id"], "sz": e["sz"]})
        elif t == "free":
            out.append({"e": "free", "id": e["id"]})
        elif t == "phase" and e["v"] in ("loop", "end"):
            out.append({"e": "pass", "k": e["k"] - 1 if e["v"] == "loop" else e["k"], "live": e["live"], "bytes": e["bytes"]})
    if memerr:
        out.append({"e": "memerr", "k": str(memerr)})
    return out
