"""Verdict logic shared by the Lang-based checks (C01, C02, C03, C05, C09): strata (clean / probe), packing with
fall-back to single snippets, classification of three-way results."""
from __future__ import annotations

import json

from . import lang, langgen

# spec feature tag -> id of the known finding it triggers (known_findings.json / known/*.json).  A program whose
# execution in the spec raises one of these tags is kept out of the clean stratum; each tag has canonical probes.
TAG2FINDING = {
    "boolop-yields-operand": "boolop-yields-bool",
    "chained-cmp-call": "chained-cmp-double-eval",
    "list-alias-mutation": "list-alias-mutation",
    "list-alias-created": "list-alias-shallow-copy",
    "list-created-in-loop": "list-created-in-loop-leaks",
    "loop-born-carried": "loop-born-variable-reset",
    "len-after-nested-mutation": "len-folded-stale",
    "multi-effect-operands": "operand-evaluation-order",
    "membership": None,          # rejected by the transpiler: allowed
}


def syntactic_tags(prog: dict) -> list:
    """Triggers that depend on statements which may not execute (computed from the AST, not from the run).
    len-after-nested-mutation: len(X) where X is appended to / removed from / re-assigned inside a nested block, or
    updated by `X op= ...` inside a nested block that the len() is not itself part of (inside that block the pinned
    tree treats X as a run-time value; after it, the transpile-time length is stale)."""
    tags = []
    muts, lens = [], []            # (name, kind, path) / (name, path); path = tuple of block numbers from the root
    bound: dict = {}               # name -> [is this binding a list literal with a sensor element?]
    counter = [0]

    def expr(e, path):
        if isinstance(e, dict):
            if e.get("k") == "call" and e.get("f") == "len" and e["args"] and e["args"][0].get("k") == "var":
                lens.append((e["args"][0]["n"], path))
            for v in e.values():
                expr(v, path)
        elif isinstance(e, list):
            for x in e:
                expr(x, path)

    def block(b, path):
        for st in b:
            if st["k"] in ("append", "remove", "assign", "aug"):
                muts.append((st["n"], st["k"], path))
            if st["k"] in ("assign", "aug"):
                e = st["e"]
                bound.setdefault(st["n"], []).append(st["k"] == "assign" and e.get("k") == "list" and any(x.get("k") == "aread" for x in e["es"]))
            if st["k"] == "tuple":
                for n in st["ns"]:
                    bound.setdefault(n, []).append(False)
            expr({k: v for k, v in st.items() if k not in ("body", "orelse", "branches")}, path)
            counter[0] += 1
            node = counter[0]                      # arms of one if / elif / else chain share the node number
            for arm, br in enumerate(st.get("branches", [])):
                expr(br["c"], path)
                block(br["body"], path + ((node, arm),))
            for key in ("body", "orelse"):
                if isinstance(st.get(key), list):
                    block(st[key], path + ((node, -1 if key == "orelse" else 0),))

    block(prog["setup"], ())
    counter[0] += 1
    block(prog["loop"], ((counter[0], 0),))
    for d in prog["defs"].values():
        counter[0] += 1
        block(d["body"], ((counter[0], 0),))

    def exclusive(a, b) -> bool:
        """The two paths part at different arms of one if-chain: the code at one of them never follows the other."""
        for x, y in zip(a, b):
            if x == y:
                continue
            return x[0] == y[0] and x[1] != y[1]
        return False

    # a list whose every binding is a literal with an element read from a sensor has no transpile-time length: the finding
    # (a length folded at transpile time) does not apply to it (Lang!hr)
    runtime_lists = {n for n, lits in bound.items() if lits and all(lits)}
    for name, lpath in lens:
        if name in runtime_lists:
            continue
        for mname, kind, mpath in muts:
            if mname != name or not mpath:
                continue
            if exclusive(mpath, lpath):
                continue                           # a sibling arm: the pinned tree (correctly) uses the value from before the `if`
            if kind != "aug" or lpath[:len(mpath)] != mpath:
                tags.append("len-after-nested-mutation")
                break
    return sorted(set(tags))


# tags that matter only to some properties (a list created in the loop prints the right values: it only leaks)
# list-alias-mutation is a finding about VALUES (Python aliases, the firmware copies); C09 judges memory only, so programs that
# mutate through an alias stay in its clean stratum (their printed values are not compared there)
TAG_SCOPE = {"list-created-in-loop": {"C09"}, "list-alias-created": {"C09"},
             "list-alias-mutation": {"C01", "C02", "C03", "C04", "C05", "C06", "C07", "C08"}}


_STILL_KNOWN: set | None = None


def _still_known() -> set:
    """Ids of the findings whose status is `known` in the committed list: only those keep stimuli out of the clean stratum
    (a `fixed` finding excludes nothing - its trigger is back among the clean stimuli)."""
    global _STILL_KNOWN
    if _STILL_KNOWN is None:
        from .result import KNOWN_FILE
        try:
            _STILL_KNOWN = {e["id"] for e in json.loads(KNOWN_FILE.read_text()).get("findings", []) if e.get("status") == "known"}
        except OSError:
            _STILL_KNOWN = set()
    return _STILL_KNOWN


def known_tags(feat, prop: str | None = None) -> list:
    return [t for t in feat if TAG2FINDING.get(t) in _still_known() and (t not in TAG_SCOPE or prop in TAG_SCOPE[t])]


_HOLDS = {"i": {"i", "b"}, "b": {"b"}, "f": {"i", "b", "f"}, "s": {"s"}, "list": {"list"}}


def signature_names(prog: dict) -> set:
    """"<helper>.<parameter>" / "<helper>.return": what flows through them differs per call site by design (the transpiler emits
    one variant of the helper per call signature), so several types there are not the `name-retyped` finding."""
    out = set()
    for f, d in prog.get("defs", {}).items():
        out.add(f"{f}.return")
        out.update(f"{f}.{q}" for q in d["params"])
    return out


def retyped(ty: dict, ty0: dict | None = None, skip=frozenset()) -> list:
    """Names that later held a value their FIRST type cannot hold (spec-side predicate; the first assignment fixes the
    C++ type on the pinned tree: int then float is the known finding, float then int is harmless)."""
    out = []
    if not isinstance(ty, dict):      # an empty TLA+ function prints as []
        return out
    for n, ts in ty.items():
        s = set(ts) - {"none"}
        if len(s) <= 1 or n in skip:
            continue
        first = (ty0 or {}).get(n) if isinstance(ty0, dict) else None
        if first in _HOLDS and s <= _HOLDS[first]:
            continue
        out.append(n)
    return out


def outcome(res: dict) -> str:
    """Classify one three-way result: ok | specgap | reject | compile_fail | run_fail | mismatch | internal."""
    v, fwr, py = res["verdict"], res["fw"], res["py"]
    if py["status"] != "ok" or v["py"] != 0:
        return "specgap"
    st = fwr["status"]
    if st == "reject":
        return "reject"
    if st in ("crash", "timeout"):
        return "internal"
    if st == "compile_fail":
        return "compile_fail"
    if st == "run_fail":
        return "run_fail"
    return "ok" if v["fw"] == 0 else "mismatch"


def describe(pid: str, res: dict) -> str:
    v, fwr = res["verdict"], res["fw"]
    i = v["fw"]
    obs = fwr["ev"][i - 1] if 0 < i <= len(fwr["ev"]) else None
    return (f"{pid}: firmware diverges from Python at event {i} ({v.get('fwwhy')}): expected {json.dumps(v.get('exp'))[:160]} "
            f"observed {json.dumps(obs)[:160]}")


def body_of(src: str) -> str:
    return src.split("mon = SerialMonitor(9600)\n", 1)[-1]


def replay_of(prog: dict, res: dict) -> dict:
    return {"program": prog, "script": res["src"], "verdict": res["verdict"], "fw_status": res["fw"]["status"],
            "fw_msg": res["fw"].get("msg", "")[-500:], "fw_events": res["fw"]["ev"][:60]}


class Strata:
    """Splits candidate programs by their execution in the spec."""

    def __init__(self, run, prop: str):
        self.run, self.prop = run, prop
        self.ill = self.multi = 0
        self.probe: dict = {}
        self.solo: list = []          # constructs the transpiler may refuse (e.g. `in`): run unpacked

    def split(self, progs: list, label: str, extra_exclude=None) -> list:
        ev = lang.spec_eval(progs, self.run, label)
        clean = []
        for p in progs:
            v = ev[p["id"]]
            if not v["wd"]:
                self.ill += 1
                continue
            tags = known_tags(v["feat"], self.prop) + syntactic_tags(p)
            if retyped(v["ty"], v.get("ty0"), signature_names(p)):
                tags.append("name-retyped")
            if extra_exclude:
                tags = tags + list(extra_exclude(v))
            if not tags and any(t in TAG2FINDING and TAG2FINDING[t] is None for t in v["feat"]):
                self.solo.append(p)
            elif not tags:
                clean.append(p)
            elif len(set(tags)) == 1:
                self.probe.setdefault(tags[0], []).append(p)
            else:
                self.multi += 1
        self.run.cov["ill_defined_discarded"] = self.ill
        self.run.cov["multi_trigger_discarded"] = self.multi
        return clean


def judge(run, prog: dict, res: dict, what: str, counts: dict, types: bool = False) -> str:
    """Clean-stratum verdict for one executed program.  Returns the outcome class."""
    o = outcome(res)
    if types and o == "ok" and res["verdict"]["narrowed"]:
        counts["narrowed"] = counts.get("narrowed", 0) + 1
        nm = res["verdict"]["narrowed"]
        run.violation(f"{what} {prog['id']}: declared C++ type narrower than the values the name holds: "
                      + ", ".join(f"{n}: declared {res['decl'].get(n)} holds {res['verdict']['ty'].get(n)}" for n in nm[:4]), replay_of(prog, res))
        return "narrowed"
    counts[o] = counts.get(o, 0) + 1
    if o == "specgap":
        run.spec_gap(f"{prog['id']}: CPython disagrees with the Lang spec ({res['py'].get('cls')} {res['py'].get('msg')}; "
                     f"event {res['verdict']['py']} {res['verdict'].get('pywhy')})")
    elif o in ("mismatch", "run_fail"):
        run.violation(f"{what} {describe(prog['id'], res)}" if o == "mismatch" else
                      f"{what} {prog['id']}: firmware aborts at run time ({res['fw'].get('cls')})", replay_of(prog, res))
    return o


def run_packed(run, snips: list, mode: str, what: str, counts: dict, size: int = 24, prefix: str = "pk", types: bool = False) -> None:
    """Clean snippets packed `size` per firmware; a pack that does not conform is re-run snippet by snippet so
    the verdict names the failing snippet and one failing snippet cannot hide another."""
    packs = langgen.pack(snips, size, mode, prefix)
    byid = {s["id"]: s for s in snips}
    res = lang.three_way(packs, run, f"{what} packed/{mode}")
    redo = []
    for p in packs:
        r = res[p["id"]]
        for sid in p["snips"]:
            run.count(f"{what}:{mode}:{sid}")
        if outcome(r) != "ok" or (types and r["verdict"]["narrowed"]):
            redo += [byid[sid] for sid in p["snips"]]
        else:
            counts["ok"] = counts.get("ok", 0) + len(p["snips"])
    if redo:
        singles = [langgen.single(s, mode) for s in redo]
        sres = lang.three_way(singles, run, f"{what} singles/{mode}")
        for p in singles:
            judge(run, p, sres[p["id"]], what, counts, types)
    if packs:
        run.sample({"family": what, "mode": mode, "script": body_of(res[packs[0]["id"]]["src"])[:600]})
