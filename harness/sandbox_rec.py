"""C11 - observed transpilations: pooled worker processes with an audit hook, a watchdog and canaries.

This file is also the worker program (`python sandbox_rec.py --worker`).  A worker installs `sys.addaudithook`
*before* importing anything of Reduino, wraps `builtins.compile` (in its own process only) to learn the flags of
every compilation, imports parse()/emit() from /repo's working tree and then serves jobs: one input text per
job.  For each job it records every audit event raised during the call (aggregated by the projection `_key`),
the outcome class, CPU / wall time, the state of the job's canaries (a file under the scratch directory, a
builtins attribute, os.environ, the working directory) and whether the module-level state of the transpiler is
unchanged.  The parent side (Pool) kills a worker that uses more than LIMIT_S CPU seconds on one job
(outcome "timeout").  Nothing here decides conformance: the records go to tla/SandboxTrace + tla/PipelineTrace."""
from __future__ import annotations

import json
import os
import queue
import subprocess
import sys
import threading
import time
from pathlib import Path

LIMIT_S = 2.0            # "terminates promptly": CPU seconds of the worker for one input
WALL_KILL_S = 30.0       # hard wall-clock stop (a worker that sleeps / blocks instead of computing)
MEM_LIMIT = 2 << 30      # address-space limit of a worker (bytes)


# --------------------------------------------------------------------------------------------------------------
# worker
# --------------------------------------------------------------------------------------------------------------
def _key(name: str, args: tuple) -> str:
    """Projection of an audit event onto what the Sandbox specification looks at."""
    try:
        if name == "open":
            return f"{args[0]!r}|{args[1]!r}"
        if name == "import":
            return str(args[0])
        if name == "exec":
            return getattr(args[0], "co_name", "?") + "@" + str(getattr(args[0], "co_filename", "?"))
        if name in ("os.system", "os.exec", "os.posix_spawn", "os.spawn"):
            return repr(args[0])[:80]
        if name == "subprocess.Popen":
            return repr(args[0])[:80]
        if name == "compile":
            return str(args[1])
    except Exception:
        pass
    return ""


def worker_main() -> int:
    import builtins
    import resource
    import threading as _th
    rec = {"on": False, "ev": {}, "order": []}
    tl = _th.local()

    def hook(name, args):
        if not rec["on"]:
            return
        if name == "compile":
            fl = getattr(tl, "flags", None)
            k = ("compile", _key(name, args), "ast" if (fl is not None and fl & 0x400) else ("code" if fl is not None else "hidden"))
        else:
            k = (name, _key(name, args), "")
        if k not in rec["ev"]:
            rec["ev"][k] = 0
            rec["order"].append(k)
        rec["ev"][k] += 1

    sys.addaudithook(hook)                      # before any import of Reduino
    real_compile = builtins.compile

    def compile_with_flags(source, filename, mode, flags=0, dont_inherit=False, optimize=-1, **kw):
        tl.flags = int(flags)
        try:
            return real_compile(source, filename, mode, flags, dont_inherit, optimize, **kw)
        finally:
            tl.flags = None

    builtins.compile = compile_with_flags
    try:
        resource.setrlimit(resource.RLIMIT_AS, (MEM_LIMIT, MEM_LIMIT))
    except Exception:
        pass
    here = Path(__file__).resolve().parent.parent
    sys.path.insert(0, str(here))
    sys.path.insert(0, str(Path(os.environ.get("REDUINO_REPO", "/repo")) / "src"))   # exactly as harness.common does
    import traceback
    import unicodedata  # noqa: F401  (CPython's parser imports it to normalise non-ASCII identifiers; loaded here so that only the `import` event remains)
    import warnings
    warnings.simplefilter("ignore")             # SyntaxWarning of fragments compiled by the parser: not part of any property
    from harness import modstate
    from Reduino.transpile.parser import parse
    from Reduino.transpile.emitter import emit
    import Reduino.transpile.parser as _p
    out = sys.stdout
    sys.stdout = sys.stderr                     # anything the transpiler prints must not corrupt the protocol
    out.write(json.dumps({"ready": True, "file": str(_p.__file__), "pid": os.getpid()}) + "\n")
    out.flush()
    base = modstate.snapshot()
    env0 = dict(os.environ)
    cwd0 = os.getcwd()
    rl0 = sys.getrecursionlimit()
    for line in sys.stdin:
        job = json.loads(line)
        src = job["src"]
        cf, cg = job.get("canary_file"), job.get("canary_global")
        rec["ev"], rec["order"] = {}, []
        cls, msg, site = "", "", ""
        t0, w0 = time.process_time(), time.perf_counter()
        m0 = resource.getrusage(resource.RUSAGE_SELF).ru_maxrss      # peak resident set of this worker so far (KiB)
        rec["on"] = True
        cpp = ""
        try:
            cpp = emit(parse(src))
            outcome = "accept"
        except SyntaxError as ex:
            rec["on"] = False
            outcome, cls, msg = "reject", "SyntaxError", str(ex)[:160]
        except ValueError as ex:                # subclasses (UnicodeError ...) are ValueErrors too
            rec["on"] = False
            outcome, cls, msg = "reject", "ValueError", f"{type(ex).__name__}: {ex}"[:160]
        except BaseException as ex:             # incl. RecursionError, MemoryError, SystemExit, KeyboardInterrupt
            rec["on"] = False
            outcome, cls, msg = "crash", type(ex).__name__, str(ex)[:160]
            try:
                fr = [f for f in traceback.extract_tb(ex.__traceback__) if "Reduino" in f.filename]
                site = f"{os.path.basename(fr[-1].filename)}:{fr[-1].lineno}:{fr[-1].name}" if fr else ""
            except BaseException:
                site = ""
        finally:
            rec["on"] = False
        cpu, wall = time.process_time() - t0, time.perf_counter() - w0
        canary = bool((cf and os.path.exists(cf)) or (cg and hasattr(builtins, cg)))
        # a marker: text that only exists once the payload has been evaluated ON THE HOST (the name of a host class, a docstring);
        # finding it in the firmware is as good as a canary file
        canary = canary or any(m in cpp for m in job.get("markers", []) if isinstance(cpp, str))
        if cg and hasattr(builtins, cg):
            delattr(builtins, cg)
        now = modstate.snapshot()
        same = now == base
        what = "" if same else ",".join(modstate.diff(base, now))[:200]
        envsame = dict(os.environ) == env0 and os.getcwd() == cwd0 and sys.getrecursionlimit() == rl0
        if not envsame:
            os.environ.clear(); os.environ.update(env0); os.chdir(cwd0); sys.setrecursionlimit(rl0)
        out.write(json.dumps({"id": job["id"], "outcome": outcome, "cls": cls, "msg": msg, "site": site, "cpu_ms": int(cpu * 1000),
                              "wall_ms": int(wall * 1000), "canary": canary, "snap_same": same, "snap_what": what, "env_same": envsame,
                              "rss_grow_mb": max(0, resource.getrusage(resource.RUSAGE_SELF).ru_maxrss - m0) // 1024,
                              "audit": [[k[0], k[1], k[2], rec["ev"][k]] for k in rec["order"]]}) + "\n")
        out.flush()
    return 0


# --------------------------------------------------------------------------------------------------------------
# parent: pool with watchdog
# --------------------------------------------------------------------------------------------------------------
def _cpu_s(pid: int) -> float:
    try:
        f = open(f"/proc/{pid}/stat").read().rsplit(")", 1)[1].split()
        return (int(f[11]) + int(f[12])) / os.sysconf("SC_CLK_TCK")
    except Exception:
        return 0.0


class _Worker:
    def __init__(self) -> None:
        from harness.common import REPO
        env = dict(os.environ)
        env.update({"PYTHONHASHSEED": "0", "REDUINO_VERIF": "1", "REDUINO_REPO": str(REPO), "PYTHONDONTWRITEBYTECODE": "1",
                    "PYTHONIOENCODING": "utf-8"})
        env.pop("PYTHONPATH", None)
        self.p = subprocess.Popen(["/venv/bin/python", "-B", str(Path(__file__).resolve()), "--worker"], stdin=subprocess.PIPE,
                                  stdout=subprocess.PIPE, stderr=subprocess.DEVNULL, env=env, text=True, bufsize=1)
        self.q: queue.Queue = queue.Queue()
        threading.Thread(target=self._reader, daemon=True).start()
        first = self._get(60)
        if not first or not first.get("ready"):
            raise RuntimeError("worker did not start")
        self.file = first["file"]

    def _reader(self) -> None:
        for line in self.p.stdout:
            if line.startswith("{"):
                self.q.put(line)
        self.q.put(None)

    def _get(self, timeout: float):
        try:
            line = self.q.get(timeout=timeout)
        except queue.Empty:
            return None
        return json.loads(line) if line else {"dead": True}

    def run(self, job: dict) -> dict:
        c0, w0 = _cpu_s(self.p.pid), time.time()
        self.p.stdin.write(json.dumps(job) + "\n")
        self.p.stdin.flush()
        while True:
            r = self._get(0.05)
            if r is not None and not r.get("dead"):
                return r
            cpu, wall = _cpu_s(self.p.pid) - c0, time.time() - w0
            if (r is not None and r.get("dead")) or self.p.poll() is not None:
                return {"id": job["id"], "outcome": "died", "cls": f"exit{self.p.poll()}", "msg": "", "site": "", "cpu_ms": int(cpu * 1000),
                        "wall_ms": int(wall * 1000), "canary": False, "snap_same": True, "snap_what": "", "env_same": True, "audit": [], "dead": True}
            if cpu > LIMIT_S * 1.25 or wall > WALL_KILL_S:
                self.kill()
                return {"id": job["id"], "outcome": "timeout", "cls": "", "msg": "", "site": "", "cpu_ms": int(cpu * 1000),
                        "wall_ms": int(wall * 1000), "canary": False, "snap_same": True, "snap_what": "", "env_same": True, "audit": [], "dead": True}

    def kill(self) -> None:
        try:
            self.p.kill()
            self.p.wait(5)
        except Exception:
            pass

    def close(self) -> None:
        try:
            self.p.stdin.close()
            self.p.wait(5)
        except Exception:
            self.kill()


def run_inputs(jobs: list[dict], workers: int = 8) -> tuple[list[dict], str]:
    """jobs: [{"id", "src", "canary_file"?, "canary_global"?}] -> (records in job order, path of the parser module used)."""
    from harness.common import MachineryError
    todo: queue.Queue = queue.Queue()
    for i, j in enumerate(jobs):
        todo.put((i, j))
    res: list = [None] * len(jobs)
    files: list[str] = []
    errs: list[str] = []

    def serve() -> None:
        w = None
        try:
            while True:
                try:
                    i, j = todo.get_nowait()
                except queue.Empty:
                    break
                if w is None:
                    w = _Worker()
                    files.append(w.file)
                r = w.run({k: j[k] for k in ("id", "src", "canary_file", "canary_global", "markers") if k in j})
                if r.pop("dead", False):
                    w.kill()
                    w = None
                # canary files are checked again from outside (the worker may have died before looking)
                if j.get("canary_file") and os.path.exists(j["canary_file"]):
                    r["canary"] = True
                res[i] = r
        except Exception as ex:   # noqa: BLE001
            errs.append(repr(ex))
        finally:
            if w is not None:
                w.close()

    ths = [threading.Thread(target=serve) for _ in range(max(1, min(workers, len(jobs))))]
    for t in ths:
        t.start()
    for t in ths:
        t.join()
    if errs or any(r is None for r in res):
        raise MachineryError(f"sandbox pool failed: {errs[:2]} missing={sum(1 for r in res if r is None)}")
    return res, (files[0] if files else "")


# --------------------------------------------------------------------------------------------------------------
# stimuli: slot x payload scripts (the pairs are enumerated by TLC, tla/PipelineGen.tla), stdlib sources, noise
# --------------------------------------------------------------------------------------------------------------
PRE = """from Reduino import target
target("COM3")
from Reduino.Actuators import Led
from Reduino.Actuators import RGBLed
from Reduino.Actuators import Buzzer
from Reduino.Actuators import Servo
from Reduino.Actuators import DCMotor
from Reduino.Displays import LCD
from Reduino.Sensors import Button
from Reduino.Sensors import Potentiometer
from Reduino.Sensors import Ultrasonic
from Reduino.Communication import SerialMonitor
from Reduino.Utils import sleep
from Reduino.Utils import map
from Reduino.Core import pin_mode, digital_write, analog_write, digital_read, analog_read, OUTPUT, INPUT, HIGH, LOW
mon = SerialMonitor(9600)
led = Led(13)
"""
_D = {"rgb": "rgb = RGBLed(9, 10, 11)\n", "bz": "bz = Buzzer(8)\n", "sv": "sv = Servo(6)\n", "mot": "mot = DCMotor(2, 4, 5)\n",
      "lcd": "lcd = LCD(i2c_addr=0x27, cols=16, rows=2)\n", "items": "items = [1, 2, 3]\n",
      "fn": "def helper(x):\n    return x + 1\n"}

# (id, class, template).  class: pin | num (folded to a number) | cond | expr (any expression) | struct | text
SLOTS = [
    ("pin-led", "pin", "led2 = Led({P})\nled2.on()\n"),
    ("pin-led-kw", "pin", "led2 = Led(pin={P})\nled2.on()\n"),
    ("delay", "num", "sleep({P})\n"),
    ("delay-in-loop", "num", "while True:\n    led.toggle()\n    sleep({P})\n"),
    ("loop-count", "num", "for i in range({P}):\n    led.toggle()\n"),
    ("if-cond", "cond", "if {P}:\n    led.on()\n"),
    ("elif-cond", "cond", "x = 1\nif x > 2:\n    led.on()\nelif {P}:\n    led.off()\n"),
    ("while-cond", "cond", "while {P}:\n    led.toggle()\n"),
    ("ternary-cond", "cond", "x = 1 if {P} else 2\n"),
    ("list-item", "expr", "items = [1, {P}, 3]\n"),
    ("fstring-field", "expr", 'mon.write(f"v={{{P}}}")\n'),
    ("fn-default", "struct", "def helper(x={P}):\n    return x\ny = helper()\n"),
    ("decorator", "struct", "@{P}\ndef helper(x):\n    return x\ny = helper(1)\n"),
    ("annotation-var", "struct", "x: {P} = 1\n"),
    ("annotation-param", "struct", "def helper(x: {P}):\n    return x\ny = helper(1)\n"),
    ("annotation-return", "struct", "def helper(x) -> {P}:\n    return x\ny = helper(1)\n"),
    ("kw-buzzer-frequency", "num", "bz = Buzzer(pin=8, default_frequency={P})\nbz.beep()\n"),
    ("kw-servo-min-angle", "num", "sv = Servo(pin=6, min_angle={P})\nsv.write(10)\n"),
    ("kw-servo-max-pulse", "num", "sv = Servo(6, max_pulse_us={P})\nsv.write(10)\n"),
    ("kw-rgb-pin", "pin", "rgb = RGBLed(red_pin={P}, green_pin=10, blue_pin=11)\nrgb.on()\n"),
    ("kw-motor-in1", "pin", "mot = DCMotor(in1={P}, in2=4, enable=5)\nmot.stop()\n"),
    ("kw-lcd-addr", "num", "lcd = LCD(i2c_addr={P}, cols=16, rows=2)\nlcd.clear()\n"),
    ("kw-lcd-cols", "num", "lcd = LCD(rs=12, en=11, d4=5, d5=4, d6=3, d7=2, cols={P}, rows=2)\nlcd.clear()\n"),
    ("kw-lcd-backlight-pin", "pin", "lcd = LCD(rs=12, en=11, d4=5, d5=4, d6=3, d7=2, backlight_pin={P})\nlcd.brightness(10)\n"),
    ("kw-button-pin", "pin", "btn = Button(pin={P})\nif btn.is_pressed():\n    led.on()\n"),
    ("kw-button-handler", "struct", "def on_press():\n    led.toggle()\nbtn = Button(2, on_click={P})\n"),
    ("kw-pot-pin", "pin", "pot = Potentiometer(pin={P})\nv = pot.read()\n"),
    ("kw-ultrasonic-trig", "pin", "us = Ultrasonic(trig={P}, echo=8)\nd = us.measure_distance()\n"),
    ("kw-serial-baud", "num", "mon2 = SerialMonitor(baud_rate={P})\nmon2.write(1)\n"),
    ("led-pattern", "text", "led.flash_pattern({P})\n"),
    ("led-pattern-item", "num", "led.flash_pattern([1, {P}, 0])\n"),
    ("lcd-glyph-bitmap", "text", _D["lcd"] + "lcd.glyph(0, {P})\n"),
    ("lcd-glyph-item", "num", _D["lcd"] + "lcd.glyph(0, [0, {P}, 5, 8, 8, 5, 2, 0])\n"),
    ("ultrasonic-sensor-name", "text", "us = Ultrasonic(7, 8, sensor={P})\nd = us.measure_distance()\n"),
    ("melody-name", "text", _D["bz"] + "bz.melody({P})\n"),
    ("melody-tempo", "num", _D["bz"] + 'bz.melody("startup", tempo={P})\n'),
    ("target-port", "text", "target({P})\nled.on()\n"),
    ("subscript", "expr", _D["items"] + "y = items[{P}]\n"),
    ("helper-arg", "expr", _D["fn"] + "y = helper({P})\n"),
    ("assign", "expr", "x = {P}\n"),
    ("augassign", "expr", "x = 1\nx += {P}\n"),
    ("return-value", "expr", "def helper(x):\n    return {P}\ny = helper(1)\n"),
    ("print-arg", "expr", "print({P})\n"),
    ("serial-write", "expr", "mon.write({P})\n"),
    ("led-brightness", "num", "led.set_brightness({P})\n"),
    ("led-blink-times", "num", "led.blink(100, times={P})\n"),
    ("led-fade-step", "num", "led.fade_in(step={P}, delay_ms=5)\n"),
    ("servo-angle", "num", _D["sv"] + "sv.write({P})\n"),
    ("motor-speed", "num", _D["mot"] + "mot.set_speed({P})\n"),
    ("motor-ramp-duration", "num", _D["mot"] + "mot.ramp(0.5, duration_ms={P})\n"),
    ("rgb-channel", "num", _D["rgb"] + "rgb.set_color({P}, 0, 0)\n"),
    ("rgb-fade-steps", "num", _D["rgb"] + "rgb.fade(1, 2, 3, duration_ms=100, steps={P})\n"),
    ("buzzer-frequency", "num", _D["bz"] + "bz.play_tone({P}, 100)\n"),
    ("buzzer-sweep-steps", "num", _D["bz"] + "bz.sweep(200, 400, 100, steps={P})\n"),
    ("lcd-text", "expr", _D["lcd"] + "lcd.line(0, {P})\n"),
    ("lcd-column", "num", _D["lcd"] + 'lcd.write({P}, 0, "x")\n'),
    ("lcd-align", "text", _D["lcd"] + 'lcd.line(0, "x", align={P})\n'),
    ("lcd-progress-value", "num", _D["lcd"] + "lcd.progress(1, {P})\n"),
    ("lcd-progress-style", "text", _D["lcd"] + "lcd.progress(1, 5, style={P})\n"),
    ("lcd-animate-style", "text", _D["lcd"] + 'lcd.animate({P}, 0, "text")\n'),
    ("lcd-animate-speed", "num", _D["lcd"] + 'lcd.animate("scroll", 0, "text", speed_ms={P})\n'),
    ("core-pin", "pin", "pin_mode({P}, OUTPUT)\n"),
    ("core-analog-value", "num", "analog_write(6, {P})\n"),
    ("map-arg", "expr", "v = map({P}, 0, 1023, 0, 5)\n"),
    ("list-append", "expr", _D["items"] + "items.append({P})\n"),
    ("membership", "cond", _D["items"] + "if {P} in items:\n    led.on()\n"),
    ("tuple-assign", "expr", "a, b = {P}, 1\n"),
    ("comprehension-range", "num", "sq = [i for i in range({P})]\n"),
    ("comprehension-element", "expr", "sq = [{P} for i in range(3)]\n"),
    ("except-type", "struct", "try:\n    led.on()\nexcept {P}:\n    led.off()\n"),
    ("compare-operand", "cond", "x = 3\nif 1 < x < {P}:\n    led.on()\n"),
    ("statement", "expr", "{P}\n"),
]

# (id, class, expression).  {C}: a file under the scratch directory that must never appear; {G}: a name that must
# never be bound in builtins / os.environ.  class: exec (reaches the host if evaluated) | huge (arithmetic on
# literals with a huge result) | arith (arithmetic that raises in Python) | odd (unusual but harmless syntax)
PAYLOADS = [
    ("import-os-system", "exec", "__import__('os').system('touch {C}')"),
    ("open-write", "exec", "open('{C}', 'w').write('x')"),
    ("eval-string", "exec", "eval(\"open('{C}', 'w')\")"),
    ("exec-string", "exec", "exec(\"open('{C}', 'w')\")"),
    ("compile-exec", "exec", "exec(compile(\"open('{C}', 'w')\", 'x', 'exec'))"),
    ("attribute-chain", "exec", "().__class__.__base__.__subclasses__()"),
    ("lambda-call", "exec", "(lambda: open('{C}', 'w'))()"),
    ("comprehension-call", "exec", "[open('{C}', 'w') for q in range(1)]"),
    ("walrus", "exec", "(cv := open('{C}', 'w'))"),
    ("getattr-builtins", "exec", "getattr(__import__('builtins'), 'open')('{C}', 'w')"),
    ("set-builtins-global", "exec", "setattr(__import__('builtins'), '{G}', 1)"),
    ("set-environ", "exec", "__import__('os').environ.__setitem__('{G}', '1')"),
    ("subprocess-run", "exec", "__import__('subprocess').run(['touch', '{C}'])"),
    ("fstring-import", "exec", "f\"{__import__('os').system('touch {C}')}\""),
    ("int-of-call", "exec", "int(__import__('os').system('touch {C}'))"),
    ("len-of-call", "exec", "len([open('{C}', 'w')])"),
    ("max-of-call", "exec", "max(open('{C}', 'w').fileno(), 1)"),
    ("method-call", "exec", "'touch {C}'.__class__.__mro__[1].__subclasses__()"),
    ("type-call", "exec", "type('X', (), {'__del__': lambda s: open('{C}', 'w')})()"),
    ("socket", "exec", "__import__('socket').socket().connect(('127.0.0.1', 9))"),
    ("pow-tower", "huge", "9**9**9"),
    ("pow-tower-10", "huge", "10**10**10"),
    ("string-repeat", "huge", "'a'*10**9"),
    ("string-repeat-mid-sized-twice", "huge", "('=' * 25000) * 25000"),
    ("string-repeat-mid-sized-count-first", "huge", "25000 * ('=' * 25000)"),
    ("string-repeat-near-cap", "huge", "('ab' * 16000) * 32000"),
    ("list-repeat-mid-sized-twice", "huge", "([0] * 25000) * 25000"),
    ("shift-huge", "huge", "1<<10**9"),
    ("list-repeat", "huge", "[0]*10**9"),
    ("float-pow-overflow", "huge", "2.0**100000"),
    ("pow-wide", "huge", "9**99999"),
    ("int-literal-400-digits", "huge", "1" + "0" * 400),
    ("float-inf", "huge", "float('inf')"),
    ("float-inf-arith", "huge", "1e308*10"),
    ("float-nan", "huge", "float('nan')"),
    ("int-of-inf", "huge", "int(float('inf'))"),
    ("deep-parens", "huge", "(" * 90 + "1" + ")" * 90),
    ("deep-binop", "huge", "1+" * 400 + "1"),
    ("deep-unary", "huge", "not " * 300 + "True"),
    # towers: one construct nested 26 times (far below the recursion limit) - translating an argument more than once per
    # level would make these exponential; each must still be handled promptly
    ("tower-int-str", "huge", "int(str(" * 26 + "7" + "))" * 26),
    ("tower-float-str-concat", "huge", "float('0' + str(" * 26 + "1.5" + "))" * 26),
    ("tower-int-fstring", "huge", "int(f\"{int(f'{" * 10 + "3" + "}')}\")" * 10),
    ("tower-abs", "huge", "abs(" * 26 + "-3" + ")" * 26),
    ("tower-min-max", "huge", "min(9, max(1, " * 26 + "4" + "))" * 26),
    ("tower-len-str", "huge", "len(str(" * 26 + "12345" + "))" * 26),
    ("tower-str", "huge", "str(" * 26 + "5" + ")" * 26),
    ("tower-ternary", "huge", "(1 if True else " * 26 + "0" + ")" * 26),
    ("tower-bool-not", "huge", "(not " * 26 + "True" + ")" * 26),
    ("tower-index", "huge", "[1, 2, 3][" * 20 + "0" + "]" * 20),
    ("tower-list", "huge", "[" * 26 + "1" + "]" * 26),
    ("tower-compare", "huge", "(" * 26 + "1" + " < 2)" * 26),
    ("tower-round-int-float", "huge", "int(float(" * 26 + "2.5" + "))" * 26),
    ("tower-user-call", "huge", "ord(chr(" * 26 + "65" + "))" * 26),
    ("div-zero", "arith", "1/0"),
    ("mod-zero", "arith", "1%0"),
    ("floordiv-zero", "arith", "1//0"),
    ("mod-zero-float", "arith", "5%0.0"),
    ("zero-pow-negative", "arith", "0.0**-1"),
    ("negative-shift", "arith", "1<<-1"),
    ("float-shift", "arith", "1<<2.0"),
    ("complex-pow", "arith", "(-8)**0.5"),
    ("neg-string", "arith", "-'a'"),
    ("compare-mixed", "arith", "1 < 'a'"),
    ("abs-string", "arith", "abs('x')"),
    ("max-mixed", "arith", "max(1, 'a')"),
    ("len-int", "arith", "len(5)"),
    ("int-of-text", "arith", "int('x')"),
    ("invert", "arith", "~5"),
    ("and-div-zero", "arith", "True and 1/0"),
    ("bytes", "odd", "b'abc'"),
    ("ellipsis", "odd", "..."),
    ("star-args", "odd", "*[1, 2]"),
    # str.format / % / f-string fields that look attributes or items up on a host object: nothing of the host may reach the firmware
    ("format-attr-class", "exec", "\"{0.__class__.__name__}#{0.denominator}\".format(7)", ("int#1",)),
    ("format-attr-doc", "exec", "\"{0.__doc__}\".format(True)", ("bool(x) -> bool", "Returns True when the argument")),
    ("format-attr-real", "exec", "\"{0.real}|{0.imag}|{0.numerator}\".format(5)", ("5|0|5",)),
    ("format-item", "exec", "\"{0[1]}{0[0]}#\".format(\"ab\")", ("ba#",)),
    ("format-kw-attr", "exec", "\"{v.__class__.__mro__}\".format(v=1.5)", ("<class 'float'>", "<class 'object'>")),
    ("format-width-attr", "exec", "\"{0:{1.__class__.__name__}}\".format(1, 2)", ()),
    ("percent-format-repr", "exec", "\"%r|%s\" % (1.5, None)", ("1.5|None",)),
    ("fstring-attr", "exec", "f\"{(7).__class__.__name__}#{(7).denominator}\"", ("int#1",)),
    ("fstring-doc", "exec", "f\"{True.__doc__}\"", ("bool(x) -> bool", "Returns True when the argument")),
    ("str-method-chain", "exec", "\"ab\".upper().__class__.__name__", ("\"str\"",)),
    # string repetition with a large count, both operand orders (nothing of that size is built on the host)
    ("str-repeat-count-first", "odd", "20000000 * \"ab\""),
    ("str-repeat-count-first-huge", "odd", "3000000000 * \"ab\""),
    ("str-repeat-text-first", "odd", "\"ab\" * 20000000"),
    ("str-repeat-chain", "odd", "\"ab\" * 3000 * 3000 * 3000"),
    ("str-repeat-pow-count", "odd", "2 ** 31 * \"x\""),
    ("list-repeat", "odd", "[0] * 400000000"),
    ("list-repeat-count-first", "odd", "400000000 * [1, 2]"),
    ("double-star", "odd", "**{'a': 1}"),
    ("nested-fstring", "odd", "f\"{f'{1+1}'}\""),
    ("fstring-spec", "odd", "f\"{1:{2}}\""),
    ("fstring-conversion", "odd", "f\"{1!r}\""),
    # replacement-field spellings: every part after the expression may be there or not, and may be empty
    ("fstring-empty-spec", "odd", "f\"{1.5:}\""),
    ("fstring-float-spec", "odd", "f\"{1.5:.1f}\""),
    ("fstring-align-spec", "odd", "f\"{1.5:>8}\""),
    ("fstring-debug", "odd", "f\"{1.5=}\""),
    ("fstring-conversion-empty-spec", "odd", "f\"{1.5!s:}\""),
    ("fstring-conversion-and-spec", "odd", "f\"{1.5!r:>6}\""),
    ("fstring-str-empty-spec", "odd", "f\"{'a':}{'b'!s}\""),
    ("fstring-escaped-braces", "odd", "f\"{{}}{1:}{{\""),
    ("fstring-name-empty-spec", "odd", "f\"{led:}\""),
    ("fstring-only-spec-fields", "odd", "f\"{1:{2}.{3}}\""),
    ("none", "odd", "None"),
    ("complex-literal", "odd", "1j"),
    ("dict-literal", "odd", "{1: 2}"),
    ("set-literal", "odd", "{1, 2}"),
    ("tuple-literal", "odd", "(1, 2)"),
    ("nested-list", "odd", "[[1], [2.0]]"),
    ("undefined-name", "odd", "qq if qq else qq"),
    ("lambda", "odd", "lambda: 0"),
    ("nul-in-string", "odd", "\"a\\x00b\""),
    ("newline-in-string", "odd", "\"a\\nb\""),
    ("implicit-concat", "odd", "\"a\" \"b\""),
    ("bare-tuple", "odd", "1, 2"),
    ("empty", "odd", ""),
    ("unbalanced", "odd", "(1"),
    ("unicode-name", "odd", "π"),
    ("hex-underscore", "odd", "0x1_0"),
    ("yield", "odd", "(yield 1)"),
    ("await", "odd", "await qq"),
    ("slice", "odd", "[1, 2, 3][::2]"),
    ("string-index", "odd", "\"abc\"[5]"),
    ("starred-assign-target", "odd", "[*range(3)]"),
]
# Whole scripts in which a value that the transpiler folds grows line after line (every line is cheap for CPython as written:
# the scripts are never run, only translated) - translation must stay prompt and small.
def growth_scripts() -> list[tuple[str, str]]:
    out = []
    def add(name, first, step, n, last="sleep(1)\n"):
        out.append((f"{name}-x{n}", PRE + first + step * n + last))
    for n in (12, 24, 48):
        add("int-square", "ga = 2 ** 2000\n", "ga = ga * ga\n", n)
        add("int-cube-chain", "ga = 3 ** 1000\n", "ga = ga * ga * ga\n", n)
        add("int-square-through-two-names", "ga = 7 ** 700\ngb = 1\n", "gb = ga * ga\nga = gb * gb\n", n)
        add("str-double", 'gs = "ab"\n', "gs = gs + gs\n", n, "mon.write(len(gs))\n")
        add("fstr-double", 'gs = "ab"\n', 'gs = f"{gs}{gs}"\n', n, "mon.write(len(gs))\n")
        add("str-double-aug", 'gs = "ab"\n', "gs += gs\n", n, "mon.write(len(gs))\n")
        add("shift-chain", "ga = 1\n", "ga = ga << 3000\n", n)
        add("pow-chain", "ga = 3\n", "ga = ga ** ga\n", n // 4)
        add("list-double", "gl = [1, 2]\n", "gl = gl + gl\n", n)
        add("float-square", "gf = 1.5\n", "gf = gf * gf\n", n)
    # one expression nested far deeper than CPython's own parser goes (it gives up with MemoryError / RecursionError / SyntaxError)
    for name, text in (("deep-unary-minus", "gx = " + "-" * 100000 + "1\n"), ("deep-unary-invert", "gx = " + "~" * 60000 + "1\n"),
                       ("deep-not", "gx = " + "not " * 40000 + "True\n"), ("deep-parens", "gx = " + "(" * 3000 + "1" + ")" * 3000 + "\n"),
                       ("deep-brackets", "gx = " + "[" * 3000 + "1" + "]" * 3000 + "\n"), ("deep-unary-in-call", "sleep(" + "-" * 100000 + "1)\n"),
                       ("deep-unary-in-condition", "if " + "-" * 100000 + "1:\n    led.on()\n"), ("deep-attribute-chain", "gx = led" + ".a" * 20000 + "\n"),
                       ("deep-call-chain", "gx = helper" + "(1)" * 20000 + "\n")):
        out.append((name, PRE + text))
    # texts that stop in the middle of something (a file cut off, an editor buffer saved too early)
    for name, text in (("cut-after-backslash", "led.blink(250 + \\"), ("cut-after-backslash-newline", "led.blink(250 + \\\n"),
                       ("cut-after-backslash-in-loop", "while True:\n    led.toggle()\n    sleep(100 + \\"), ("cut-after-backslash-in-def", "def f(a):\n    return a + \\\n"),
                       ("cut-after-backslash-blank", "x = 1 + \\   "), ("cut-after-backslash-comment", "x = 1 + \\  # more\n"), ("cut-bare-backslash", "\\"),
                       ("cut-two-backslashes", "x = 1 + \\\n\\\n"), ("cut-in-string", "mon.write(\"abc"), ("cut-in-triple-string", "s = \"\"\"abc\ndef"),
                       ("cut-in-parens", "led.blink(250,"), ("cut-in-brackets", "xs = [1, 2,\n"), ("cut-after-def-header", "def f(a):"), ("cut-after-if-header", "if led.get_state():\n"),
                       ("cut-after-while-true", "while True:"), ("cut-after-decorator", "@staticmethod\n"), ("cut-after-else", "if 1:\n    led.on()\nelse:"),
                       ("cut-after-operator", "x = 1 +"), ("cut-after-dot", "led."), ("cut-after-equals", "x ="), ("cut-after-comma-tuple", "a, b = 1,"),
                       ("cut-in-fstring", "mon.write(f\"{1 + "), ("cut-after-try", "try:\n    led.on()\n"),
                       # statements that are legal Python where they stand but mean nothing there (a `global` outside a function, ...)
                       ("global-at-file-scope", "count = 0\nglobal count\ncount = 1\nled.on()\n"), ("global-in-main-loop", "count = 0\nwhile True:\n    global count\n    count += 1\n    led.toggle()\n"),
                       ("global-in-branch", "count = 0\nif count == 0:\n    global count\n    led.on()\n"), ("global-tab-in-helper", "count = 0\ndef bump():\n    global\tcount\n    count = count + 1\nbump()\n"),
                       ("global-two-names", "a = 0\nb = 0\nglobal a, b\nled.on()\n"), ("pass-at-file-scope", "pass\npass\nled.on()\n"), ("nonlocal-at-file-scope", "nonlocal count\n"),
                       ("return-at-file-scope", "led.on()\nreturn\n"), ("continue-at-file-scope", "led.on()\ncontinue\n"), ("break-at-file-scope", "led.on()\nbreak\n"), ("cut-after-for", "for i in range(3):\n")):
        out.append((name, PRE + text))
    return out


SLOT = {s[0]: s for s in SLOTS}
PAYLOAD = {p[0]: p for p in PAYLOADS}


def render(slot: str, payload: str, canary_file: str, canary_global: str) -> str:
    expr = PAYLOAD[payload][2].replace("{C}", canary_file).replace("{G}", canary_global)
    return PRE + SLOT[slot][2].replace("{P}", expr)


def is_python(text: str) -> bool:
    """The reference for 'text that is not Python': does CPython itself compile it?  (compile only - nothing is
    executed; CPython's constant folder refuses large results, so hostile arithmetic is not evaluated here.)"""
    import warnings
    try:
        with warnings.catch_warnings():
            warnings.simplefilter("ignore")
            compile(text, "<input>", "exec", dont_inherit=True)
        return True
    except (SyntaxError, ValueError, RecursionError, MemoryError, OverflowError):
        return False


# ---- triggers of the known findings: predicates on the stimulus text, computed before anything is run ----------
import math as _math
import re as _re

_RE_POW = _re.compile(r"(\d+)\s*\*\*\s*(\d+)(?:\s*\*\*\s*(\d+))?")
_RE_NONFINITE = _re.compile(r"""float\(\s*['"]\s*[+-]?(?:inf|infinity)\s*['"]\s*\)|\d[eE]\+?(?:30[89]|3[1-9]\d|\d{4,})\b|\d{309,}|\*\*\s*\d{5,}|<<\s*\d{4,}|<<\s*10\s*\*\*""", _re.I)
_RE_NONASCII_TARGET = _re.compile(r"^\s*[^\x00-\x7f\s][^=\n]*=")
_RE_HEADER_LIKE = _re.compile(r"^\s*(?:if|elif|while)\s+.+:\s*$")
_RE_TUPLE_ASSIGN = _re.compile(r"^\s*\(?\s*([A-Za-z_]\w*(?:\s*,\s*[A-Za-z_]\w*)+)\s*,?\s*\)?\s*=(?!=)\s*(.+?)\s*$")


def _pow_tower(text: str) -> bool:
    """A literal power a ** b [** c] whose exact value has more than 2e7 bits (9**9**9 has about 1.2e9)."""
    for m in _RE_POW.finditer(text):
        a, b, c = int(m.group(1)), int(m.group(2)), m.group(3)
        if a < 2:
            continue
        if c is not None:
            c = int(c)
            if b >= 2 and c * _math.log2(b) > 60:
                return True
            b = b ** c if b >= 1 else 0
        if b * _math.log2(a) > 2e7:
            return True
    return False


def _split_top(s: str) -> tuple[list[str], bool]:
    """Split on top-level commas (brackets and quotes respected). Returns (parts, saw_top_level_comma)."""
    parts, depth, cur, q, saw = [], 0, "", "", False
    for ch in s:
        if q:
            cur += ch
            if ch == q:
                q = ""
            continue
        if ch in "'\"":
            q = ch
        elif ch in "([{":
            depth += 1
        elif ch in ")]}":
            depth -= 1
        elif ch == "," and depth == 0:
            parts.append(cur)
            cur = ""
            saw = True
            continue
        cur += ch
    parts.append(cur)
    return parts, saw


def _short_tuple(text: str) -> bool:
    """A physical line `n1, n2, ..., nk = v1, ..., vj` (or with a list / parenthesised display on the right) with j < k."""
    for line in text.split("\n"):
        m = _RE_TUPLE_ASSIGN.match(line)
        if not m:
            continue
        k = len([t for t in m.group(1).split(",") if t.strip()])
        rhs = m.group(2).strip()
        display = False
        if (rhs.startswith("[") and rhs.endswith("]")) or (rhs.startswith("(") and rhs.endswith(")")):
            inner, _ = _split_top(rhs[1:-1])
            if len(_split_top(rhs)[0]) == 1:
                rhs, display = rhs[1:-1], True
        parts, saw = _split_top(rhs)
        vals = [p for p in parts if p.strip()]
        if (saw or display) and len(vals) < k:
            return True
    return False


def tags_of(text: str, python: bool) -> list[str]:
    import ast
    tags = set()
    if _pow_tower(text):
        tags.add("pow-tower")
    if _RE_NONFINITE.search(text):
        tags.add("nonfinite-or-huge-number")
    if _short_tuple(text):
        tags.add("short-tuple-assignment")
    if any(sum(line.count(o) for o in "+-*/%") >= 300 for line in text.split("\n")):
        tags.add("deep-expression")
    if python:
        try:
            tree = ast.parse(text)
        except Exception:
            return sorted(tags)
        lines = text.split("\n")
        if any(_RE_NONASCII_TARGET.match(x) for x in lines):     # (the ast normalises identifiers, so this one is textual)
            tags.add("non-ascii-target")
        stack = [(tree, 0)]
        while stack:
            n, d = stack.pop()
            if isinstance(n, ast.expr) and d >= 300:
                tags.add("deep-expression")
            if isinstance(n, ast.NamedExpr):
                tags.add("walrus")
            elif isinstance(n, (ast.Yield, ast.YieldFrom)):
                tags.add("yield")
            elif isinstance(n, ast.Starred) and isinstance(n.ctx, ast.Load):
                tags.add("starred-expression")
            elif isinstance(n, ast.Call):
                if any(k.arg is None for k in n.keywords):
                    tags.add("starred-expression")
                if isinstance(n.func, ast.Attribute) and n.func.attr == "write" and any(k.arg is not None for k in n.keywords):
                    tags.add("write-keyword-argument")
            elif isinstance(n, (ast.Constant, ast.JoinedStr)) and getattr(n, "end_lineno", n.lineno) > n.lineno:
                inner = lines[n.lineno:n.end_lineno]      # continuation lines of a string literal that spans lines
                if any(_RE_HEADER_LIKE.match(x) for x in inner):
                    tags.add("header-like-line-in-multiline-string")
            for ch in ast.iter_child_nodes(n):
                stack.append((ch, d + 1 if isinstance(ch, ast.expr) else d))
    return sorted(tags)


def stdlib_files(n: int, seed: int, max_bytes: int = 200_000) -> list[tuple[str, str]]:
    """A seeded sample of the interpreter's own library sources (valid Python by construction)."""
    import random
    import sysconfig
    root = Path(sysconfig.get_path("stdlib"))
    files = sorted(str(p) for p in root.rglob("*.py") if "site-packages" not in p.parts and "lib2to3/tests/data" not in str(p)
                   and "bad_" not in p.name and "badsyntax" not in p.name)
    random.Random(f"c11-files-{seed}").shuffle(files)
    out = []
    for f in files:
        if len(out) >= n:
            break
        try:
            t = Path(f).read_text(encoding="utf-8")
        except Exception:
            continue
        if len(t) <= max_bytes and is_python(t):
            out.append((f, t))
    return out


def fragments(files: list[tuple[str, str]], per_file: int, seed: int) -> list[tuple[str, str]]:
    """Function definitions and function bodies cut out of the sampled files: valid Python that gets past the
    first 'unsupported' rejection a whole module usually meets."""
    import ast
    import random
    import textwrap
    rng = random.Random(f"c11-frag-{seed}")
    out = []
    for f, src in files:
        try:
            tree = ast.parse(src)
        except Exception:
            continue
        cand = []
        for node in ast.walk(tree):
            if isinstance(node, (ast.FunctionDef, ast.AsyncFunctionDef)) and node.body:
                seg = ast.get_source_segment(src, node, padded=True)
                if seg:
                    cand.append(textwrap.dedent(seg))
                lines = src.splitlines()
                b = "\n".join(lines[node.body[0].lineno - 1:node.body[-1].end_lineno])
                cand.append(textwrap.dedent(b))
        rng.shuffle(cand)
        k = 0
        for c in cand:
            if k >= per_file:
                break
            if 0 < len(c) < 20_000 and is_python(c):
                out.append((f"{f}#frag{k}", c + "\n"))
                k += 1
    return out


TOKENS = ["led", "Led", "(", ")", "[", "]", "{", "}", ":", ",", ".", "=", "==", "+", "-", "*", "**", "/", "//", "%", "<<", "if", "else",
          "elif", "while", "True", "for", "in", "range", "def", "return", "try", "except", "import", "from", "Reduino", "target", "sleep",
          "1", "0", "13", "2.5", "9**9", "'a'", '"b"', "f\"{x}\"", "x", "y", "items", "append", "on", "off", "toggle", "lambda", "@", "->",
          "\n", "\n    ", "\n        ", "\t", "#", "\\", "print", "mon", "write", "LCD", "Button", "on_click", "Ultrasonic", "measure_distance",
          "len", "int", "float", "str", "max", "min", "abs", "and", "or", "not", "is", "None", "pass", "break", "continue", "global", "A0",
          "SerialMonitor", "Servo", "Buzzer", "melody", "RGBLed", "DCMotor", "Potentiometer", "read", "is_pressed", "a, b = b, a", "*", "**kw"]


def noise(n: int, seed: int) -> list[tuple[str, str]]:
    """hypothesis-generated inputs: arbitrary unicode text, byte noise (decoded as latin-1) and token soup."""
    from hypothesis import HealthCheck, Phase, given, settings, strategies as st
    out: list[tuple[str, str]] = []
    soup = st.lists(st.sampled_from(TOKENS), min_size=1, max_size=40).map(lambda ts: " ".join(ts) + "\n")
    lines = st.lists(st.lists(st.sampled_from(TOKENS), min_size=1, max_size=9).map(" ".join), min_size=1, max_size=12).map(lambda ls: "\n".join(ls) + "\n")
    strat = st.one_of(st.text(max_size=200), st.binary(max_size=200).map(lambda b: b.decode("latin-1")), soup, lines,
                      st.text(alphabet=st.characters(codec="ascii"), max_size=300))

    @settings(max_examples=n, database=None, derandomize=False, deadline=None, phases=[Phase.generate],
              suppress_health_check=list(HealthCheck))
    @given(strat)
    def collect(t):
        out.append((f"noise-{len(out)}", t))

    from hypothesis import seed as hseed
    hseed(seed)(collect)()
    return out[:n]


if __name__ == "__main__":
    if "--worker" in sys.argv:
        sys.exit(worker_main())
