"""X01 - firmware leg of the Core pin helpers and Utils.map: render TLC-generated call histories as scripts (literal or
run-time arguments), run them as firmware, project the mock core's events per call to the observations of tla/CoreFw.tla."""
from __future__ import annotations

from . import fw
from .fw_act import Script, split_by_markers

MODE_SRC = {1: "INPUT", 2: "OUTPUT", 3: "INPUT_PULLUP"}
MODE_EV = {0: "in", 1: "out", 2: "inpu"}
IMPORTS = ("from Reduino.Utils import map\n"
           "from Reduino.Core import pin_mode, digital_write, analog_write, INPUT, OUTPUT, INPUT_PULLUP, HIGH, LOW\n")


def render(histories: list, runtime: bool) -> Script:
    s = Script(runtime)
    s.lines.insert(0, IMPORTS.strip())
    for k, h in enumerate(histories):
        s.mark(k, 0, [])
        for j, c in enumerate(h, 1):
            a = c["a"]
            if c["act"] == "pin_mode":
                s.add(f"pin_mode({a[0]}, {MODE_SRC[a[1]]})")
            elif c["act"] == "digital_write":
                s.add(f"digital_write({a[0]}, {s.val(a[1]) if a[1] >= 0 else repr(a[1])})")
            elif c["act"] == "analog_write":
                s.add(f"analog_write({a[0]}, {s.val(a[1]) if a[1] >= 0 else repr(a[1])})")
            elif c["act"] == "map":
                v = s.val(a[0]) if a[0] >= 0 else repr(a[0])
                s.add(f"mon.write(map({v}, {a[1]}, {a[2]}, {a[3]}, {a[4]}))")
            else:
                raise AssertionError(c["act"])
            s.mark(k, j, [])
    return s


def project(histories: list, events: list) -> list:
    segs = split_by_markers(events, 0)
    out = []
    for k, h in enumerate(histories):
        mine = segs.get(k, {})
        if any(j not in mine for j in range(len(h) + 1)):
            out.append(None)
            continue
        ev = []
        for j, c in enumerate(h, 1):
            raw = mine[j]["raw"]
            pin = c["a"][0] if c["act"] != "map" else None
            o = {"pm": [], "dw": [], "aw": [], "ret": []}
            for e in raw:
                t = e.get("e")
                if t == "pm" and e.get("p") == pin:
                    o["pm"].append(MODE_EV.get(e.get("m"), "?"))
                elif t == "dw" and e.get("p") == pin:
                    o["dw"].append(int(e.get("v", -1)))
                elif t == "aw" and e.get("p") == pin:
                    o["aw"].append(int(e.get("v", -1)) if abs(int(e.get("v", 0))) < 2 ** 30 else 2 ** 30)
                elif t == "w" and c["act"] == "map" and not o["ret"]:
                    v = e.get("v")
                    if e.get("t") == "i" and isinstance(v, int) and abs(v) < 2 ** 24:
                        o["ret"] = [v, 1]
                    elif e.get("t") == "f" and isinstance(v, (int, float)) and abs(v) < 2 ** 20:
                        o["ret"] = [int(round(float(v) * 100)), 100]
            ev.append({"c": {"act": c["act"], "a": list(c["a"])}, "o": o})
        out.append(ev)
    return out


def run_pack(histories: list, runtime: bool) -> dict:
    s = render(histories, runtime)
    r = fw.run_script({"src": s.source(), "passes": 0, "inputs": s.inputs()})
    res = {"transpile": r["transpile"], "msg": r.get("msg"), "cls": r.get("cls"), "compile": r.get("compile"),
           "stderr": (r.get("stderr") or "")[-600:] if r.get("compile") == "fail" else "", "src": s.source(), "inputs": s.inputs()}
    if r["transpile"] == "accept" and r.get("compile") == "ok":
        res["traces"] = project(histories, r["events"])
    return res
