"""Firmware-side drivers for device histories: render a batch of call histories as ONE Reduino script (packing:
independent instances, one per history), transpile/compile/run it, split the event trace per instance and
per call by serial markers, and project every call to the same abstract event the host recorders produce."""
from __future__ import annotations

from . import fw
from .wave import merge

HEADER = [
    "from Reduino import target",
    "from Reduino.Actuators import Led, RGBLed, Servo, DCMotor, Buzzer",
    "from Reduino.Sensors import Button, Potentiometer, Ultrasonic",
    "from Reduino.Displays import LCD",
    "from Reduino.Communication import SerialMonitor",
    "from Reduino.Utils import sleep, map",
    "",
    'target("COM3", upload=False)',
    "mon = SerialMonitor(9600)",
]


ROUTINGS = ("constvar", "after", "untaken", "taken", "loop2", "loop0", "fn_called", "fn_uncalled", "loopjump")


class Script:
    """Builds a packed script.  An argument value reaches its call site by the chosen routing:
    "lit" a literal; "rt" a run-time value read from a scripted ADC (Potentiometer on A0); or one of ROUTINGS,
    ways of putting the value into a variable that Python evaluates to the same value but that tempt a
    transpile-time evaluator (C03): a constant variable, a variable re-assigned after the site, re-assigned
    before it in an untaken / taken branch, in a loop body that runs 2 / 0 times, in a called / uncalled function."""

    def __init__(self, runtime=False):
        self.lines = list(HEADER)
        self.routing = runtime if isinstance(runtime, str) else ("rt" if runtime else "lit")
        # "fnq": literal arguments; the state queries after every call are made by a helper that is defined ABOVE the device's
        # first command (what a query returns depends on when it runs, not on where its text stands)
        self.fnq = self.routing == "fnq"
        if self.fnq:
            self.routing = "lit"
        self.qdefs: set = set()
        # "rti": like "rt", but the sensor read stands IN the argument position (an argument is evaluated exactly once: a second
        # evaluation would consume the next scripted reading and shift every later one)
        self.inline = self.routing == "rti"
        if self.inline:
            self.routing = "rt"
        self.runtime = self.routing == "rt"
        self.feed: list[int] = []
        self.nvar = 0
        self.post: list[str] = []
        if self.routing != "lit":
            self.lines.append('feed = Potentiometer("A0")')

    def _read(self, v: int) -> str:
        self.feed.append(int(v))
        return "feed.read()"

    def val(self, v) -> str:
        """An argument: a literal, a run-time value, or a variable set up by the routing."""
        r = self.routing
        if r == "lit" or (r == "rt" and not isinstance(v, int)):
            return repr(v)
        self.nvar += 1
        if r == "rt" and self.inline:
            return self._read(v)
        if r == "rt":
            name = f"rv{self.nvar}"
            self.lines.append(f"{name} = {self._read(v)}")
            return name
        name = f"cv{self.nvar}"
        other = v + 1
        L = self.lines
        if r == "constvar":
            L.append(f"{name} = {v!r}")
        elif r == "after":
            L.append(f"{name} = {v!r}")
            self.post.append(f"{name} = {other!r}")
        elif r == "untaken":
            L += [f"{name} = {v!r}", f"if {self._read(0)} > 0:", f"    {name} = {other!r}"]
        elif r == "taken":
            L += [f"{name} = {other!r}", f"if {self._read(1)} > 0:", f"    {name} = {v!r}"]
        elif r == "loop2":
            L += [f"{name} = {v - 2!r}", f"for lk{self.nvar} in range(2):", f"    {name} += 1"]
        elif r == "loop0":
            L += [f"{name} = {v!r}", f"for lk{self.nvar} in range({self._read(0)}):", f"    {name} += 1"]
        elif r == "fn_called":
            L += [f"def set{self.nvar}():", f"    global {name}", f"    {name} = {v!r}", f"{name} = {other!r}", f"set{self.nvar}()"]
        elif r == "fn_uncalled":
            L += [f"def set{self.nvar}():", f"    global {name}", f"    {name} = {other!r}", f"{name} = {v!r}"]
        elif r == "loopjump":       # a loop with a constant count whose body re-binds the name BELOW a `break` that is taken at once
            L += [f"{name} = {v!r}", f"for lk{self.nvar} in range(2):", f"    if {self._read(1)} > 0:", "        break", f"    {name} = {other!r}"]
        else:
            raise ValueError(r)
        return name

    def flag(self, b: bool) -> str:
        """A boolean argument: a literal, a run-time comparison, or a bool variable set up by the routing (the other
        value of the routing is `not b`)."""
        r = self.routing
        b = bool(b)
        if r == "lit":
            return "True" if b else "False"
        if r == "rt":
            return f"({self._read(1 if b else 0)} > 0)"
        self.nvar += 1
        name = f"cf{self.nvar}"
        L = self.lines
        if r == "constvar":
            L.append(f"{name} = {b!r}")
        elif r == "after":
            L.append(f"{name} = {b!r}")
            self.post.append(f"{name} = {(not b)!r}")
        elif r == "untaken":
            L += [f"{name} = {b!r}", f"if {self._read(0)} > 0:", f"    {name} = {(not b)!r}"]
        elif r == "taken":
            L += [f"{name} = {(not b)!r}", f"if {self._read(1)} > 0:", f"    {name} = {b!r}"]
        elif r == "loop2":
            L += [f"{name} = {(not b)!r}", f"for lk{self.nvar} in range(3):", f"    {name} = not {name}"]
        elif r == "loop0":
            L += [f"{name} = {b!r}", f"for lk{self.nvar} in range({self._read(0)}):", f"    {name} = not {name}"]
        elif r == "fn_called":
            L += [f"def set{self.nvar}():", f"    global {name}", f"    {name} = {b!r}", f"{name} = {(not b)!r}", f"set{self.nvar}()"]
        elif r == "fn_uncalled":
            L += [f"def set{self.nvar}():", f"    global {name}", f"    {name} = {(not b)!r}", f"{name} = {b!r}"]
        elif r == "loopjump":
            L += [f"{name} = {b!r}", f"for lk{self.nvar} in range(2):", f"    if {self._read(1)} > 0:", "        continue", f"    {name} = {(not b)!r}"]
        else:
            raise ValueError(r)
        return name

    def add(self, line: str) -> None:
        self.lines.append(line)
        if self.post:
            self.lines += self.post
            self.post = []

    def mark(self, inst: int, k: int, getters: list[str]) -> None:
        """Serial marker after call k of instance inst, followed by the state queries.  In the run-time rendering the
        queries are first stored in variables (a state query keeps its value - and its type - when it is assigned)."""
        if self.fnq and getters:
            if inst not in self.qdefs:
                self.qdefs.add(inst)
                self.lines.append(f"def q{inst}():")
                self.lines += [f"    mon.write({g})" for g in getters]
            self.lines.append(f'mon.write("#{inst}.{k}")')
            self.lines.append(f"q{inst}()")
            return
        self.lines.append(f'mon.write("#{inst}.{k}")')
        for j, g in enumerate(getters):
            if self.routing == "rt" and not self.inline:
                self.ngv = getattr(self, "ngv", 0) + 1
                self.lines.append(f"gq{self.ngv} = {g}")
                self.lines.append(f"mon.write(gq{self.ngv})")
            else:
                self.lines.append(f"mon.write({g})")

    def source(self) -> str:
        return "\n".join(self.lines) + "\n"

    def inputs(self) -> str:
        return ("a 14 " + " ".join(map(str, self.feed)) + "\n") if self.feed else ""


def split_by_markers(events: list[dict], ngetters: int) -> dict:
    """-> {inst: {k: {"raw": [events of call k], "get": [getter events]}}}"""
    out: dict = {}
    cur: list = []
    i = 0
    n = len(events)
    while i < n:
        e = events[i]
        if e.get("e") == "w" and e.get("t") == "s" and isinstance(e.get("v"), str) and e["v"].startswith("#"):
            inst, k = e["v"][1:].split(".")
            gets = events[i + 1:i + 1 + ngetters]
            out.setdefault(int(inst), {})[int(k)] = {"raw": cur, "get": gets}
            cur = []
            i += 1 + ngetters
            continue
        cur.append(e)
        i += 1
    return out


def num(ev: dict):
    """Numeric value of a serial print event."""
    v = ev.get("v")
    if isinstance(v, str):
        try:
            return float(v) if "." in v else int(v)
        except ValueError:
            return v
    return v


# ------------------------------------------------------------------ Led
LED_PIN0 = 20


def led_render(histories: list[list[dict]], runtime: bool) -> Script:
    s = Script(runtime)
    for i, _h in enumerate(histories):
        s.add(f"led{i} = Led({LED_PIN0 + i})")
    for i, h in enumerate(histories):
        name = f"led{i}"
        s.mark(i, 0, [f"{name}.get_state()", f"{name}.get_brightness()"])
        for k, c in enumerate(h, 1):
            act, a = c["act"], c["a"]
            if act in ("on", "off", "toggle"):
                s.add(f"{name}.{act}()")
            elif act == "set_brightness" and s.routing == "lit" and not s.fnq and 0 <= a[0] < 255:
                # a name-free expression with a fractional value: an integer-valued argument takes int(value) (the host class and the
                # emitted C++ both truncate), whether the transpiler folds the expression or not
                s.add(f"{name}.set_brightness({2 * a[0] + 1} * 0.5)")
            elif act == "set_brightness":
                s.add(f"{name}.set_brightness({s.val(a[0])})")
            elif act == "blink":
                s.add(f"{name}.blink({s.val(a[0])}, {s.val(a[1])})")
            elif act in ("fade_in", "fade_out"):
                s.add(f"{name}.{act}({s.val(a[0])}, {s.val(a[1])})")
            elif act == "flash_pattern" and s.routing not in ("lit", "rt") and c["p"]:
                # the pattern is passed BY NAME, and the list is changed in place after the call (Python: no effect on the call that
                # has already run; the name-based renderings of C03 use one variable per call)
                s.nvar += 1
                pv = f"pv{s.nvar}"
                d = s.val(a[0])
                s.lines.append(f"{pv} = {list(c['p'])!r}")
                s.add(f"{name}.flash_pattern({pv}, {d})" if s.nvar % 2 else f"{name}.flash_pattern(pattern={pv}, delay_ms={d})")
                s.lines += [f"{pv}.append(1)", f"{pv}.remove({list(c['p'])[0]!r})"]
            elif act == "flash_pattern":
                s.add(f"{name}.flash_pattern({list(c['p'])!r}, {s.val(a[0])})")
            else:
                raise AssertionError(act)
            s.mark(i, k, [f"{name}.get_state()", f"{name}.get_brightness()"])
    return s


def led_project(histories: list[list[dict]], events: list[dict]) -> list[list[dict] | None]:
    """Per history: the abstract trace (same vocabulary as host_act.led_host_trace) or None if markers are missing."""
    segs = split_by_markers(events, 2)
    out = []
    for i, h in enumerate(histories):
        pin = LED_PIN0 + i
        mine = segs.get(i, {})
        if any(k not in mine for k in range(len(h) + 1)):
            out.append(None)
            continue
        level = 0
        evs = []
        for k in range(len(h) + 1):
            seg = mine[k]
            micro = []
            stray = []
            for e in seg["raw"]:
                t = e.get("e")
                if t == "aw" and e["p"] == pin:
                    micro.append(("lv", e["v"]))
                elif t == "dw" and e["p"] == pin:
                    micro.append(("lv", 255 if e["v"] else 0))
                elif t == "d":
                    micro.append(("sl", e["ms"]))
                elif t in ("aw", "dw"):
                    stray.append(e)
            w = merge(level, micro)
            level = w[-1]["lv"]
            c = {"act": "init", "a": [], "p": []} if k == 0 else h[k - 1]
            st, br = num(seg["get"][0]), num(seg["get"][1])
            evs.append({"act": c["act"], "a": list(c["a"]), "p": list(c["p"]), "on": bool(st), "bright": br if isinstance(br, int) else -999,
                        "wave": w, "res": "init" if k == 0 else "ok", **({"stray": stray} if stray else {})})
        out.append(evs)
    return out


# ------------------------------------------------------------------ RGBLed
RGB_PIN0 = 20


def rgb_render(histories, runtime: bool) -> Script:
    s = Script(runtime)
    for i, _h in enumerate(histories):
        p = RGB_PIN0 + 3 * i
        s.add(f"rgb{i} = RGBLed({p}, {p + 1}, {p + 2})")
    for i, h in enumerate(histories):
        name = f"rgb{i}"
        # the transpiler rejects RGBLed getters in expressions (allowed: an error, not a wrong value), so the
        # device state of an RGB LED is observed on its three pins only
        getters = []
        s.mark(i, 0, getters)
        for k, c in enumerate(h, 1):
            act, a = c["act"], c["a"]
            if act == "off":
                s.add(f"{name}.off()")
            else:
                s.add(f"{name}.{act}({', '.join(s.val(x) for x in a)})")
            s.mark(i, k, getters)
    return s


def rgb_project(histories, events):
    segs = split_by_markers(events, 0)
    out = []
    for i, h in enumerate(histories):
        pins = [RGB_PIN0 + 3 * i + j for j in range(3)]
        mine = segs.get(i, {})
        if any(k not in mine for k in range(len(h) + 1)):
            out.append(None)
            continue
        level = [0, 0, 0]
        evs = []
        for k in range(len(h) + 1):
            seg = mine[k]
            micro, cur, pending = [], list(level), 0
            for e in seg["raw"]:
                t = e.get("e")
                if t in ("aw", "dw") and e["p"] in pins:
                    j = pins.index(e["p"])
                    cur[j] = e["v"] if t == "aw" else (255 if e["v"] else 0)
                    pending += 1
                    if j == 2:            # the three channels are always driven together, blue last
                        micro.append(("lv", list(cur)))
                        pending = 0
                elif t == "d":
                    if pending:
                        micro.append(("lv", list(cur)))
                        pending = 0
                    micro.append(("sl", e["ms"]))
            if pending:
                micro.append(("lv", list(cur)))
            w = merge(level, micro)
            level = list(w[-1]["lv"])
            c = {"act": "init", "a": []} if k == 0 else h[k - 1]
            evs.append({"act": c["act"], "a": list(c["a"]), "col": list(level), "on": any(x > 0 for x in level),
                        "wave": w, "res": "init" if k == 0 else "ok"})
        out.append(evs)
    return out


# ------------------------------------------------------------------ Servo (milli-units; run-time values = feed/10.0)
def _milli_lit(m: int) -> str:
    return repr(m // 1000) if m % 1000 == 0 else repr(m / 1000.0)


def servo_render(cases, runtime: bool) -> Script:
    s = Script(runtime)
    for i, case in enumerate(cases):
        c = case["cal"]
        s.add(f"srv{i} = Servo({20 + i}, min_angle={_milli_lit(c['mina'])}, max_angle={_milli_lit(c['maxa'])}, "
              f"min_pulse_us={_milli_lit(c['minp'])}, max_pulse_us={_milli_lit(c['maxp'])})")
    for i, case in enumerate(cases):
        name = f"srv{i}"
        getters = [f"{name}.read()", f"{name}.read_us()"]
        s.mark(i, 0, getters)
        for k, c in enumerate(case["h"], 1):
            if s.routing == "rt" and c["v"] % 100 == 0:
                v = s.val(c["v"] // 100)              # tenths through the ADC feed, scaled at run time
                s.add(f"{name}.{c['act']}({v} * 0.1)")
            elif s.routing in ("lit", "rt"):
                s.add(f"{name}.{c['act']}({_milli_lit(c['v'])})")
            else:
                m = c["v"]
                s.add(f"{name}.{c['act']}({s.val(m // 1000 if m % 1000 == 0 else m / 1000.0)})")
            s.mark(i, k, getters)
    return s


def servo_project(cases, events):
    # servo ids are assigned by the mock in construction order of the global Servo objects = declaration order
    segs = split_by_markers(events, 2)
    attach = [e for e in events if e.get("e") == "servo" and e.get("op") == "attach"]
    pin2id = {e["p"]: e["s"] for e in attach}
    out = []
    for i, case in enumerate(cases):
        sid = pin2id.get(20 + i)
        mine = segs.get(i, {})
        if sid is None or any(k not in mine for k in range(len(case["h"]) + 1)):
            out.append(None)
            continue
        evs = []
        for k in range(len(case["h"]) + 1):
            seg = mine[k]
            cmds = [e for e in seg["raw"] if e.get("e") == "servo" and e.get("s") == sid and e.get("op") in ("write", "us")]
            c = {"act": "init", "v": 0} if k == 0 else case["h"][k - 1]
            cmd = {"op": "none", "v": 0}
            extra = {}
            if k > 0 and cmds:
                cmd = {"op": cmds[-1]["op"], "v": cmds[-1]["v"]}
                if len(cmds) > 1 or not cmds[-1].get("att"):
                    extra = {"anomaly": "multiple-or-unattached-servo-commands"}
            a, p = num(seg["get"][0]), num(seg["get"][1])
            evs.append({"act": c["act"], "v": c["v"], "angle": milli_f(a), "pulse": milli_f(p), "cmd": cmd,
                        "res": "init" if k == 0 else "ok", **extra})
        out.append(evs)
    return out


def milli_f(x) -> int:
    from fractions import Fraction
    try:
        f = Fraction(str(x)) * 1000
    except (ValueError, ZeroDivisionError):
        return -999999
    return int((f + Fraction(1, 2)).__floor__())


# ------------------------------------------------------------------ DCMotor (speeds in U = 1/20000)
MOTOR_ONE = 20000


def _speed_lit(u: int) -> str:
    return repr(u / MOTOR_ONE)


def motor_render(histories, runtime: bool) -> Script:
    s = Script(runtime)
    for i, _h in enumerate(histories):
        p = 20 + 3 * i
        s.add(f"mot{i} = DCMotor({p}, {p + 1}, {p + 2})")
    for i, h in enumerate(histories):
        name = f"mot{i}"
        # speeds are printed scaled by 1000 so that Serial's two decimals resolve 1e-5
        getters = [f"{name}.get_speed() * 1000.0", f"{name}.get_applied_speed() * 1000.0", f"{name}.is_inverted()", f"{name}.get_mode()"]
        s.mark(i, 0, getters)
        for k, c in enumerate(h, 1):
            act, a = c["act"], c["a"]

            def sp(u):
                if s.routing == "rt" and u % 20 == 0:
                    return f"({s.val(u // 20)} * 0.001)"     # thousandths through the ADC feed
                if s.routing in ("lit", "rt"):
                    return _speed_lit(u)
                return s.val(u / MOTOR_ONE)

            if act in ("stop", "coast", "invert"):
                s.add(f"{name}.{act}()")
            elif act == "backward" and not a:
                s.add(f"{name}.backward()")                  # the default speed
            elif act in ("set_speed", "backward"):
                s.add(f"{name}.{act}({sp(a[0])})")
            elif act == "ramp":
                v = sp(a[0])
                s.add(f"{name}.ramp({v}, {s.val(a[1])})")
            elif act == "run_for":
                d = s.val(a[0])
                s.add(f"{name}.run_for({d}, {sp(a[1])})")
            s.mark(i, k, getters)
    return s


def motor_project(histories, events):
    segs = split_by_markers(events, 4)
    out = []
    for i, h in enumerate(histories):
        pins = [20 + 3 * i + j for j in range(3)]
        mine = segs.get(i, {})
        if any(k not in mine for k in range(len(h) + 1)):
            out.append(None)
            continue
        level = ["coast", 0]
        pinv = [0, 0, 0]
        evs = []
        for k in range(len(h) + 1):
            seg = mine[k]
            micro = []
            for e in seg["raw"]:
                t = e.get("e")
                if t in ("aw", "dw") and e["p"] in pins:
                    j = pins.index(e["p"])
                    pinv[j] = e["v"] if t == "aw" else (1 if e["v"] else 0)
                    if j == 2:                       # enable (PWM) is always written last
                        in1, in2, en = pinv
                        d = "brake" if (in1 and in2) else "fwd" if in1 else "rev" if in2 else "coast"
                        micro.append(("lv", [d, 0 if d == "brake" else en] if d != "brake" or en == 0 else ["brake", en]))
                elif t == "d":
                    micro.append(("sl", e["ms"]))
            w = merge(level, micro)
            level = list(w[-1]["lv"])
            c = {"act": "init", "a": []} if k == 0 else h[k - 1]
            g = seg["get"]

            def u(ev):
                x = num(ev)
                if not isinstance(x, (int, float)):
                    return -999999
                from fractions import Fraction
                f = Fraction(str(x)) * 20            # printed value is speed*1000; U = speed*20000
                return int((f + Fraction(1, 2)).__floor__())

            evs.append({"act": c["act"], "a": list(c["a"]), "speed": u(g[0]), "applied": u(g[1]), "inv": bool(num(g[2])),
                        "mode": str(g[3].get("v")), "wave": w, "res": "init" if k == 0 else "ok"})
        out.append(evs)
    return out


def run_pack(kind: str, histories: list[list[dict]], runtime: bool) -> dict:
    """One packed firmware job (executed in a worker process)."""
    render, project = {"led": (led_render, led_project), "rgb": (rgb_render, rgb_project),
                       "servo": (servo_render, servo_project), "motor": (motor_render, motor_project)}[kind]
    s = render(histories, runtime)
    r = fw.run_script({"src": s.source(), "passes": 0, "inputs": s.inputs()})
    res = {"transpile": r["transpile"], "msg": r.get("msg"), "cls": r.get("cls"), "compile": r.get("compile"),
           "stderr": r.get("stderr", "")[-800:] if r.get("compile") == "fail" else "", "src": s.source(), "inputs": s.inputs()}
    if r["transpile"] == "accept" and r.get("compile") == "ok":
        res["traces"] = project(histories, r["events"])
    return res
