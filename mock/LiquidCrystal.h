#pragma once
#include "Arduino.h"
class __MockLcd : public Print {
 protected:
  int id, cols, rows, cr, cc; bool ready; char cell[4][40];
  void dump(const char *op);
 public:
  __MockLcd();
  void start(int c, int r, const char *how);
  void clear();
  void home() { setCursor(0, 0); }
  void setCursor(int c, int r);
  size_t write(uint8_t ch) override;
  void display(); void noDisplay();
  void createChar(uint8_t slot, uint8_t *bm);
  void snapshot();
  using Print::print;
};
class LiquidCrystal : public __MockLcd {
 public:
  LiquidCrystal(int rs, int en, int d4, int d5, int d6, int d7);
  LiquidCrystal(int rs, int rw, int en, int d4, int d5, int d6, int d7);
  void begin(int c, int r) { start(c, r, "begin"); }
};
