#pragma once
