// Mock Arduino core for host-side execution of Reduino-emitted sketches.
// min/max/abs are macros exactly as in the AVR core (double evaluation is observable behaviour).
#pragma once
#include <cstdio>
#include <cstdlib>
#include <cstring>
#include <cstdint>
#include <cstddef>
#include <cmath>
#include <string>

#define HIGH 0x1
#define LOW 0x0
#define INPUT 0x0
#define OUTPUT 0x1
#define INPUT_PULLUP 0x2
#define A0 14
#define A1 15
#define A2 16
#define A3 17
#define A4 18
#define A5 19
#define A6 20
#define A7 21

// AVR Arduino.h defines these as macros (double evaluation is real behaviour)
#ifdef abs
#undef abs
#endif
#define min(a,b) ((a)<(b)?(a):(b))
#define max(a,b) ((a)>(b)?(a):(b))
#define abs(x) ((x)>0?(x):-(x))

typedef bool boolean;
typedef uint8_t byte;

class __FlashStringHelper;
#define F(string_literal) (reinterpret_cast<const __FlashStringHelper *>(string_literal))

class String {
 public:
  std::string s;
  String() {}
  String(const char *c) : s(c ? c : "") {}
  String(const __FlashStringHelper *f) : s(reinterpret_cast<const char *>(f)) {}
  String(const String &o) : s(o.s) {}
  explicit String(char c) : s(1, c) {}
  explicit String(unsigned char v, unsigned char base = 10) { (void)base; s = std::to_string((unsigned)v); }
  explicit String(int v, unsigned char base = 10) { (void)base; s = std::to_string(v); }
  explicit String(unsigned int v, unsigned char base = 10) { (void)base; s = std::to_string(v); }
  explicit String(long v, unsigned char base = 10) { (void)base; s = std::to_string(v); }
  explicit String(unsigned long v, unsigned char base = 10) { (void)base; s = std::to_string(v); }
  explicit String(float v, unsigned char d = 2) { char b[64]; snprintf(b, sizeof b, "%.*f", (int)d, (double)v); s = b; }
  explicit String(double v, unsigned char d = 2) { char b[64]; snprintf(b, sizeof b, "%.*f", (int)d, v); s = b; }
  String &operator=(const String &o) { s = o.s; return *this; }
  String &operator=(const char *c) { s = c ? c : ""; return *this; }
  String &operator=(const __FlashStringHelper *f) { s = reinterpret_cast<const char *>(f); return *this; }
  unsigned int length() const { return (unsigned int)s.size(); }
  String substring(unsigned int a, unsigned int b) const { String r; if (a > b) { unsigned t = a; a = b; b = t; } if (a >= s.size()) return r; if (b > s.size()) b = s.size(); r.s = s.substr(a, b - a); return r; }
  String substring(unsigned int a) const { return substring(a, (unsigned int)s.size()); }
  char operator[](unsigned int i) const { return i < s.size() ? s[i] : 0; }
  char charAt(unsigned int i) const { return (*this)[i]; }
  String &operator+=(const String &o) { s += o.s; return *this; }
  String &operator+=(char c) { s += c; return *this; }
  String &operator+=(const char *c) { s += c; return *this; }
  String &operator+=(int v) { s += std::to_string(v); return *this; }
  bool operator==(const String &o) const { return s == o.s; }
  bool operator==(const char *o) const { return s == o; }
  bool operator!=(const String &o) const { return s != o.s; }
  bool operator<(const String &o) const { return s < o.s; }
  long toInt() const { return atol(s.c_str()); }
  float toFloat() const { return (float)atof(s.c_str()); }
  const char *c_str() const { return s.c_str(); }
};
// Arduino's StringSumHelper overloads
inline String operator+(const String &a, const String &b) { String r(a); r += b; return r; }
inline String operator+(const String &a, const char *b) { String r(a); r += b; return r; }
inline String operator+(const String &a, char b) { String r(a); r += b; return r; }
inline String operator+(const String &a, int b) { String r(a); r += String(b); return r; }
inline String operator+(const String &a, float b) { String r(a); r += String(b); return r; }
inline String operator+(const String &a, double b) { String r(a); r += String(b); return r; }

void __ev(const char *fmt, ...);
void __ev_str(const char *tag, const char *s);

class Print {
 public:
  virtual ~Print() {}
  virtual size_t write(uint8_t) = 0;
  size_t print(const String &v) { for (char c : v.s) write((uint8_t)c); return v.s.size(); }
  size_t print(const char *v) { size_t n = 0; while (v && *v) { write((uint8_t)*v++); ++n; } return n; }
  size_t print(const __FlashStringHelper *f) { return print(reinterpret_cast<const char *>(f)); }
  size_t print(char c) { write((uint8_t)c); return 1; }
  size_t print(int v) { return print(String(v)); }
  size_t print(unsigned int v) { return print(String(v)); }
  size_t print(long v) { return print(String(v)); }
  size_t print(unsigned long v) { return print(String(v)); }
  size_t print(double v, int d = 2) { return print(String(v, (unsigned char)d)); }
};

struct SerialT {
  void begin(long b);
  void println(const String &v);
  void println(const char *v);
  void println(const __FlashStringHelper *v);
  void println(char v);
  void println(int v);
  void println(unsigned int v);
  void println(long v);
  void println(unsigned long v);
  void println(double v, int d = 2);
  void println();
  void print(const String &v);
  void print(const char *v);
  void print(int v);
  void print(long v);
  void print(double v, int d = 2);
  String readStringUntil(char);
  int available();
  operator bool() const { return true; }
};
extern SerialT Serial;

void pinMode(int, int);
void digitalWrite(int, int);
int digitalRead(int);
void analogWrite(int, int);
int analogRead(int);
void delay(unsigned long);
void delayMicroseconds(unsigned int);
unsigned long millis();
unsigned long micros();
unsigned long pulseIn(int, int, unsigned long timeout = 1000000UL);
void tone(int, unsigned int, unsigned long duration = 0);
void noTone(int);
inline long map(long x, long in_min, long in_max, long out_min, long out_max) { return (x - in_min) * (out_max - out_min) / (in_max - in_min) + out_min; }
void setup();
void loop();
