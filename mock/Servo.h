#pragma once
#include "Arduino.h"
class Servo {
  int id; bool att;
 public:
  Servo();
  uint8_t attach(int pin, int mn = 544, int mx = 2400);
  void write(int v);
  void writeMicroseconds(int v);
  int read() { return 0; }
  bool attached() { return att; }
};
