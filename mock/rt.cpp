// Mock Arduino runtime: executes a Reduino-emitted sketch on the host and writes one NDJSON event per
// Arduino API call to stdout.  Inputs (pin levels, ADC values, echo times, extra ms per pass) are scripted.
//   usage: fw <passes> [inputs-file]
//   inputs file lines:  d <pin> v v v   (digitalRead values, last value repeats)
//                       a <pin> v v v   (analogRead values)
//                       p <pin> us us   (pulseIn echo durations; 0 = timeout)
//                       x <ms>          (extra milliseconds added to the clock before every loop pass)
//                       t <ms>          (clock value at start of setup)
//                       s <k> b b b     (bytes, decimal, that have arrived on the serial line when the k-th read of the line
//                                        starts; k = 1, 2, ...; several lines for one k are concatenated)
#include <cstdarg>
#include <vector>
#include <map>
#include <string>
#include <new>
#include "Arduino.h"
#include "Servo.h"
#include "LiquidCrystal.h"
#include "LiquidCrystal_I2C.h"

SerialT Serial;
static unsigned long now_ms = 0;
static std::map<int, std::vector<long>> in_d, in_a, in_p;
static std::map<int, size_t> cur_d, cur_a, cur_p;
static std::vector<long> extra_per_pass;
static bool heap_trace = false;
static long heap_live = 0, heap_bytes = 0, heap_next_id = 0;

void __ev(const char *fmt, ...) { va_list ap; va_start(ap, fmt); vprintf(fmt, ap); va_end(ap); putchar('\n'); }
static void jstr(const char *s) {
  putchar('"');
  for (; *s; ++s) {
    unsigned char c = (unsigned char)*s;
    if (c == '"' || c == '\\') { putchar('\\'); putchar(c); }
    else if (c < 32 || c > 126) printf("\\u%04x", c);
    else putchar(c);
  }
  putchar('"');
}
static long nextv(std::map<int, std::vector<long>> &m, std::map<int, size_t> &c, int p, long dflt) {
  auto it = m.find(p);
  if (it == m.end() || it->second.empty()) return dflt;
  size_t &i = c[p];
  long v = it->second[i < it->second.size() ? i : it->second.size() - 1];
  ++i;
  return v;
}

// ---- heap interposition (array forms only: that is all the emitted helpers use) ----
struct HeapHdr { long id; size_t sz; };
// blocks allocated by global initialisers, before main() has read the inputs: reported once tracing starts
static HeapHdr *heap_early[4096];
static int heap_nearly = 0;
static bool heap_started = false;
void *operator new[](size_t sz) {
  HeapHdr *h = (HeapHdr *)malloc(sizeof(HeapHdr) + sz);
  if (!h) abort();
  h->id = ++heap_next_id; h->sz = sz;
  ++heap_live; heap_bytes += (long)sz;
  if (!heap_started && heap_nearly < 4096) heap_early[heap_nearly++] = h;
  if (heap_trace) __ev("{\"e\":\"alloc\",\"id\":%ld,\"sz\":%zu}", h->id, sz);
  return (void *)(h + 1);
}
void operator delete[](void *p) noexcept {
  if (!p) return;
  HeapHdr *h = ((HeapHdr *)p) - 1;
  if (!heap_started) for (int i = 0; i < heap_nearly; ++i) if (heap_early[i] == h) heap_early[i] = nullptr;
  --heap_live; heap_bytes -= (long)h->sz;
  if (heap_trace) __ev("{\"e\":\"free\",\"id\":%ld}", h->id);
  free(h);
}
void operator delete[](void *p, size_t) noexcept { operator delete[](p); }

// ---- Serial ----
void SerialT::begin(long b) { __ev("{\"e\":\"sbegin\",\"baud\":%ld}", b); }
static void wline(const char *ev, const char *t, const char *v, bool q) {
  printf("{\"e\":\"%s\",\"t\":\"%s\",\"v\":", ev, t);
  if (q) jstr(v); else fputs(v, stdout);
  puts("}");
}
void SerialT::println(const String &v) { wline("w", "s", v.c_str(), true); }
void SerialT::println(const char *v) { wline("w", "s", v, true); }
void SerialT::println(const __FlashStringHelper *v) { wline("w", "s", reinterpret_cast<const char *>(v), true); }
void SerialT::println(char v) { char b[2] = {v, 0}; wline("w", "s", b, true); }
void SerialT::println(int v) { wline("w", "i", std::to_string(v).c_str(), false); }
void SerialT::println(unsigned int v) { wline("w", "i", std::to_string(v).c_str(), false); }
void SerialT::println(long v) { wline("w", "i", std::to_string(v).c_str(), false); }
void SerialT::println(unsigned long v) { wline("w", "i", std::to_string(v).c_str(), false); }
void SerialT::println(double v, int d) { char b[64]; snprintf(b, sizeof b, "%.*f", d, v); wline("w", "f", b, false); }
void SerialT::println() { wline("w", "s", "", true); }
void SerialT::print(const String &v) { wline("wp", "s", v.c_str(), true); }
void SerialT::print(const char *v) { wline("wp", "s", v, true); }
void SerialT::print(int v) { wline("wp", "i", std::to_string(v).c_str(), false); }
void SerialT::print(long v) { wline("wp", "i", std::to_string(v).c_str(), false); }
void SerialT::print(double v, int d) { char b[64]; snprintf(b, sizeof b, "%.*f", d, v); wline("wp", "f", b, false); }
// Serial input: the bytes scripted for read k are appended to the receive buffer when read k starts; readStringUntil consumes
// up to and including the terminator (which it discards) or, when there is none, everything (the time-out of the real core).
static std::map<int, std::string> ser_sched;
static std::string ser_buf;
static int ser_reads = 0;
String SerialT::readStringUntil(char term) {
  ++ser_reads;
  auto it = ser_sched.find(ser_reads);
  if (it != ser_sched.end()) ser_buf += it->second;
  size_t pos = ser_buf.find(term);
  std::string got = pos == std::string::npos ? ser_buf : ser_buf.substr(0, pos);
  ser_buf = pos == std::string::npos ? std::string() : ser_buf.substr(pos + 1);
  printf("{\"e\":\"sread\",\"n\":%d,\"to\":%d,\"r\":[", ser_reads, pos == std::string::npos ? 1 : 0);
  for (size_t i = 0; i < got.size(); ++i) printf(i ? ",%d" : "%d", (int)(unsigned char)got[i]);
  puts("]}");
  String out; out.s = got; return out;
}
int SerialT::available() { return (int)ser_buf.size(); }

// ---- pins / time ----
void pinMode(int p, int m) { __ev("{\"e\":\"pm\",\"p\":%d,\"m\":%d}", p, m); }
void digitalWrite(int p, int v) { __ev("{\"e\":\"dw\",\"p\":%d,\"v\":%d}", p, v ? 1 : 0); }
int digitalRead(int p) { int r = (int)nextv(in_d, cur_d, p, 0); __ev("{\"e\":\"dr\",\"p\":%d,\"r\":%d}", p, r); return r; }
void analogWrite(int p, int v) { __ev("{\"e\":\"aw\",\"p\":%d,\"v\":%d}", p, v); }
int analogRead(int p) { int r = (int)nextv(in_a, cur_a, p, 0); __ev("{\"e\":\"ar\",\"p\":%d,\"r\":%d}", p, r); return r; }
void delay(unsigned long ms) { now_ms += ms; __ev("{\"e\":\"d\",\"ms\":%lu}", ms); }
void delayMicroseconds(unsigned int us) { __ev("{\"e\":\"dus\",\"us\":%u}", us); }
unsigned long millis() { __ev("{\"e\":\"ms\",\"r\":%lu}", now_ms); return now_ms; }
unsigned long micros() { return now_ms * 1000UL; }
unsigned long pulseIn(int p, int, unsigned long timeout) {
  long r = nextv(in_p, cur_p, p, 0);
  unsigned long us = r > 0 ? (unsigned long)r : timeout;
  now_ms += us / 1000UL;
  __ev("{\"e\":\"pulse\",\"p\":%d,\"r\":%ld,\"to\":%lu}", p, r > 0 ? r : 0L, timeout);
  return r > 0 ? (unsigned long)r : 0UL;
}
void tone(int p, unsigned int f, unsigned long dur) { __ev("{\"e\":\"tone\",\"p\":%d,\"f\":%u,\"dur\":%lu}", p, f, dur); }
void noTone(int p) { __ev("{\"e\":\"notone\",\"p\":%d}", p); }

// ---- Servo ----
static int servo_ids = 0, lcd_ids = 0;
Servo::Servo() : id(servo_ids++), att(false) {}
uint8_t Servo::attach(int pin, int mn, int mx) {
  att = true;
  __ev("{\"e\":\"servo\",\"s\":%d,\"op\":\"attach\",\"p\":%d,\"mn\":%d,\"mx\":%d}", id, pin, mn, mx);
  return 1;
}
void Servo::write(int v) { __ev("{\"e\":\"servo\",\"s\":%d,\"op\":\"write\",\"v\":%d,\"att\":%d}", id, v, att ? 1 : 0); }
void Servo::writeMicroseconds(int v) { __ev("{\"e\":\"servo\",\"s\":%d,\"op\":\"us\",\"v\":%d,\"att\":%d}", id, v, att ? 1 : 0); }

// ---- LCD (HD44780 model: visible window cols x rows; setCursor clamps the row like the real library) ----
__MockLcd::__MockLcd() : id(lcd_ids++), cols(0), rows(0), cr(0), cc(0), ready(false) { memset(cell, ' ', sizeof cell); }
void __MockLcd::dump(const char *op) {
  printf("{\"e\":\"lcd\",\"d\":%d,\"op\":\"%s\",\"ready\":%d,\"cols\":%d,\"rows\":%d,\"cells\":[", id, op, ready ? 1 : 0, cols, rows);
  for (int r = 0; r < rows; ++r) {
    if (r) putchar(',');
    putchar('[');
    for (int c = 0; c < cols; ++c) { if (c) putchar(','); printf("%d", (int)(unsigned char)cell[r][c]); }
    putchar(']');
  }
  puts("]}");
}
void __MockLcd::start(int c, int r, const char *how) {
  cols = c > 40 ? 40 : (c < 0 ? 0 : c); rows = r > 4 ? 4 : (r < 0 ? 0 : r); ready = true;
  memset(cell, ' ', sizeof cell); cr = cc = 0; dump(how);
}
void __MockLcd::clear() { memset(cell, ' ', sizeof cell); cr = cc = 0; dump("clear"); }
void __MockLcd::setCursor(int c, int r) {
  int r0 = r;
  if (rows > 0 && r >= rows) r = rows - 1;
  if (r < 0) r = 0;
  cr = r; cc = c;
  __ev("{\"e\":\"lcd\",\"d\":%d,\"op\":\"cursor\",\"c\":%d,\"r\":%d,\"clamped\":%d,\"ready\":%d}", id, c, r0, r0 != r ? 1 : 0, ready ? 1 : 0);
}
size_t __MockLcd::write(uint8_t ch) {
  bool in = cc >= 0 && cc < cols && cr >= 0 && cr < rows;
  if (in) cell[cr][cc] = (char)ch;
  __ev("{\"e\":\"lcd\",\"d\":%d,\"op\":\"ch\",\"r\":%d,\"c\":%d,\"v\":%d,\"in\":%d,\"ready\":%d}", id, cr, cc, (int)ch, in ? 1 : 0, ready ? 1 : 0);
  ++cc;
  return 1;
}
void __MockLcd::display() { dump("display"); }
void __MockLcd::noDisplay() { dump("nodisplay"); }
void __MockLcd::createChar(uint8_t slot, uint8_t *bm) {
  __ev("{\"e\":\"lcd\",\"d\":%d,\"op\":\"glyph\",\"slot\":%d,\"bm\":[%d,%d,%d,%d,%d,%d,%d,%d],\"ready\":%d}", id, slot,
       bm[0], bm[1], bm[2], bm[3], bm[4], bm[5], bm[6], bm[7], ready ? 1 : 0);
}
void __MockLcd::snapshot() { dump("snap"); }
LiquidCrystal::LiquidCrystal(int rs, int en, int d4, int d5, int d6, int d7) {
  __ev("{\"e\":\"lcd\",\"d\":%d,\"op\":\"new\",\"kind\":\"par\",\"pins\":[%d,%d,%d,%d,%d,%d]}", id, rs, en, d4, d5, d6, d7);
}
LiquidCrystal::LiquidCrystal(int rs, int rw, int en, int d4, int d5, int d6, int d7) {
  __ev("{\"e\":\"lcd\",\"d\":%d,\"op\":\"new\",\"kind\":\"par\",\"pins\":[%d,%d,%d,%d,%d,%d,%d]}", id, rs, rw, en, d4, d5, d6, d7);
}
LiquidCrystal_I2C::LiquidCrystal_I2C(int addr, int c, int r) : c0(c), r0(r) {
  __ev("{\"e\":\"lcd\",\"d\":%d,\"op\":\"new\",\"kind\":\"i2c\",\"addr\":%d,\"cols\":%d,\"rows\":%d}", id, addr, c, r);
}
void LiquidCrystal_I2C::backlight() { dump("backlight"); }
void LiquidCrystal_I2C::noBacklight() { dump("nobacklight"); }

// ---- driver ----
static void load_inputs(const char *path) {
  FILE *f = fopen(path, "r");
  if (!f) return;
  char k; char buf[65536];
  while (fscanf(f, " %c", &k) == 1) {
    if (!fgets(buf, sizeof buf, f)) break;
    std::vector<long> vals; char *t = strtok(buf, " \n");
    while (t) { vals.push_back(atol(t)); t = strtok(nullptr, " \n"); }
    if (vals.empty()) continue;
    if (k == 'x') { extra_per_pass = vals; continue; }
    if (k == 't') { now_ms = (unsigned long)vals[0]; continue; }
    if (k == 'h') { heap_trace = vals[0] != 0; continue; }
    if (k == 's') { for (size_t i = 1; i < vals.size(); ++i) ser_sched[(int)vals[0]] += (char)vals[i]; continue; }
    int pin = (int)vals[0]; vals.erase(vals.begin());
    auto &m = k == 'd' ? in_d : k == 'a' ? in_a : in_p;
    for (long v : vals) m[pin].push_back(v);
  }
  fclose(f);
}
int main(int argc, char **argv) {
  int n = argc > 1 ? atoi(argv[1]) : 3;
  if (argc > 2) load_inputs(argv[2]);
  heap_started = true;
  if (heap_trace) for (int i = 0; i < heap_nearly; ++i) if (heap_early[i]) __ev("{\"e\":\"alloc\",\"id\":%ld,\"sz\":%zu}", heap_early[i]->id, heap_early[i]->sz);
  if (getenv("RT_FLUSH")) setvbuf(stdout, nullptr, _IOLBF, 1 << 12); else setvbuf(stdout, nullptr, _IOFBF, 1 << 16);
  __ev("{\"e\":\"phase\",\"v\":\"setup\",\"k\":0,\"live\":%ld,\"bytes\":%ld}", heap_live, heap_bytes);
  setup();
  for (int i = 1; i <= n; ++i) {
    if (!extra_per_pass.empty()) now_ms += (unsigned long)extra_per_pass[(size_t)(i - 1) < extra_per_pass.size() ? (size_t)(i - 1) : extra_per_pass.size() - 1];
    __ev("{\"e\":\"phase\",\"v\":\"loop\",\"k\":%d,\"live\":%ld,\"bytes\":%ld}", i, heap_live, heap_bytes);
    loop();
  }
  __ev("{\"e\":\"phase\",\"v\":\"end\",\"k\":%d,\"live\":%ld,\"bytes\":%ld}", n, heap_live, heap_bytes);
  fflush(stdout);
  return 0;
}
