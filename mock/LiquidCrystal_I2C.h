#pragma once
#include "LiquidCrystal.h"
class LiquidCrystal_I2C : public __MockLcd {
  int c0, r0;
 public:
  LiquidCrystal_I2C(int addr, int c, int r);
  void init() { start(c0, r0, "init"); }
  void backlight(); void noBacklight();
};
