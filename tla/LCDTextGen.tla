----------------------------- MODULE LCDTextGen -----------------------------
(* Behaviour generation for LCDText: call histories on a display geometry, by bounded BFS (CONSTRAINT Emit) or
   random walks (-simulate, CONSTRAINT EmitSim); each complete history leaves TLC as one JSON line {g, h}.
   GWalk: random walks on any geometry - texts of length 0, 1, 2, cols/2, cols-1, cols, cols+1, cols+3 (letter / digit
   patterns, one with an inner blank), start columns over the whole row and -1 / cols, rows mostly valid and
   sometimes -1 / rows, all alignments and clear flags, message with/without either line, progress over
   value/max/width/label/style (exact multiples, halves, max <= 0, width <= 0 and > cols), display / backlight /
   brightness (in and out of 0..255), glyphs (rows beyond 5 bits, bad slots, short bitmaps).
   GNext + Emit: BFS over the exhaustive grid of LCDTextMC (Facet selects it).                             *)
EXTENDS LCDTextMC, Json
CONSTANTS MaxLen
VARIABLE h

PatFrom(k, a) == IF k <= 0 THEN <<>> ELSE [j \in 1..k |-> a + ((j - 1) % 15)]
Pick(S) == RandomElement(S)                    \* one random element per evaluation (TLC module), seeded by -seed
Of(seq) == seq[Pick(1..Len(seq))]              \* weighted choice: repeat an entry to make it likelier

(* Walk grid: one random call per step (no enumeration of the whole grid: the walks stay cheap on 40x4). *)
WalkText(geo) ==
    LET k == Of(<<0, 1, 2, geo.cols - 1, geo.cols - 1, geo.cols, geo.cols, geo.cols + 1, geo.cols + 3, geo.cols \div 2>>) IN
    IF k < 0 THEN <<>> ELSE Of(<<PatFrom(k, 97), PatFrom(k, 65), PatFrom(k, 48), IF k >= 3 THEN <<120, 32>> \o PatFrom(k - 2, 108) ELSE PatFrom(k, 112)>>)
WalkCol(geo) == Of(<<0, 0, 1, geo.cols \div 2, geo.cols - 1, geo.cols - 2, Pick(0..geo.cols - 1), Pick(0..geo.cols - 1), -1, geo.cols>>)
WalkRow(geo) == LET k == Pick(1..40) IN IF k = 1 THEN -1 ELSE IF k = 2 THEN geo.rows ELSE Pick(0..geo.rows - 1)
WalkAlign(geo) == Pick(Aligns)               \* (a parameter keeps TLC from caching the choice as a constant)
ActsW == <<"write", "write", "write", "write", "line", "line", "line", "message", "message", "clear",
           "progress", "progress", "progress", "display", "backlight", "brightness", "brightness", "glyph">>
WalkCall(geo) ==
    LET a == Of(ActsW) IN
    CASE a = "write" -> Call("write", <<WalkCol(geo), WalkRow(geo)>>, <<WalkText(geo)>>, <<WalkAlign(geo)>>, <<Pick(BOOLEAN)>>)
      [] a = "line" -> Call("line", <<WalkRow(geo)>>, <<WalkText(geo)>>, <<WalkAlign(geo)>>, <<Pick(BOOLEAN)>>)
      [] a = "message" -> Call("message", <<>>, <<WalkText(geo), WalkText(geo)>>, <<WalkAlign(geo), WalkAlign(geo)>>,
                               <<Pick(BOOLEAN), Of(<<TRUE, TRUE, FALSE>>), Of(<<TRUE, TRUE, FALSE>>)>>)
      [] a = "clear" -> Call("clear", <<>>, <<>>, <<>>, <<>>)
      [] a = "progress" ->
            LET m == Of(<<100, 100, 100, 2, 2, 3, 4, 4, 7, 10, 10, 1, 8, 16, 20, 0, -1>>)
                v == Of(<<0, 1, 2, 3, m \div 2, m - 1, m, m + 1, -1, 50, 25, 99>>)
                w == Of(<<1, 2, 3, 4, 5, 8, geo.cols, geo.cols, geo.cols - 1, geo.cols + 2, geo.cols \div 2 + 1, 10, 12, 6, 7, 0, -1>>)
            IN Call("progress", <<WalkRow(geo), v, m, w>>, <<Of(<<<<>>, <<>>, <<76, 111>>, PatFrom(geo.cols - 2, 97)>>)>>,
                    <<Pick({"block", "hash", "pipe", "dot"})>>, <<Of(<<TRUE, TRUE, FALSE>>)>>)
      [] a \in {"display", "backlight"} -> Call(a, <<>>, <<>>, <<>>, <<Pick(BOOLEAN)>>)
      [] a = "brightness" -> Call("brightness", <<Of(<<0, 1, 64, 128, 200, 254, 255, Pick(0..255), -1, 256, 300>>)>>, <<>>, <<>>, <<>>)
      [] OTHER -> Call("glyph", <<Of(<<0, 1, 3, 7, Pick(0..7), -1, 8>>)>>,
                       <<Of(<<<<0, 2, 5, 8, 8, 5, 2, 0>>, <<31, 31, 31, 31, 31, 31, 31, 31>>, <<32, 255, 256, 33, 64, 95, 1, 0>>,
                              [k \in 1..8 |-> Pick(0..31)], [k \in 1..8 |-> Pick(0..31)], [k \in 1..8 |-> Pick(0..255)], [k \in 1..8 |-> Pick(0..31)],
                              <<4, 14, 31, 4, 4, 4, 4, 0>>, <<0, 10, 31, 31, 14, 4, 0, 0>>, <<1, 3, 7, 15, 31, 63, 127, 255>>, <<1, 2, 3, 4, 5, 6, 7>>>>)>>, <<>>, <<>>)

MinFill(c) == LET F == FillSet(c.i[2], c.i[3], EffWidth(g, c)) IN CHOOSE f \in F : \A x \in F : f <= x
GInit == \E geo \in Geoms : InitFor("host", geo) /\ h = <<>>
(* BFS over the exhaustive small grid (Grid = "small", CONSTRAINT Emit) *)
GNext == \E c \in CallTab[g] : Do(c, IF c.act = "progress" THEN MinFill(c) ELSE 0) /\ n' = n + 1 /\ h' = Append(h, c)
(* random walk (Grid = "walk", -simulate): MaxLen random calls, then one step that prints the history *)
GWalk == IF Len(h) < MaxLen
         THEN \E c \in {WalkCall(g)} : Do(c, IF c.act = "progress" THEN MinFill(c) ELSE 0) /\ n' = n + 1 /\ h' = Append(h, c)
         ELSE n <= MaxLen /\ PrintT(ToJson([g |-> g, h |-> h])) /\ n' = n + 1 /\ UNCHANGED <<side, g, cell, light, gl, pg, res, bad, h>>
Out == [g |-> g, h |-> h]
Emit == IF Len(h) >= MaxLen THEN PrintT(ToJson(Out)) /\ FALSE ELSE TRUE

(* geometries for the walks: the small ones of the model-checking grid and sampled real-world sizes *)
BigGeoms == {Geom(c, r, "parallel", p) : c \in {8, 16, 20, 40}, r \in 1..4, p \in BOOLEAN}
            \cup {Geom(c, r, "i2c", FALSE) : c \in {8, 16, 20, 40}, r \in 1..4}
SmallGeoms == {Geom(c, r, "parallel", p) : c \in 1..5, r \in 1..2, p \in BOOLEAN} \cup {Geom(c, r, "i2c", FALSE) : c \in 1..5, r \in 1..2}
AllGeoms == BigGeoms \cup SmallGeoms
=============================================================================
