----------------------------- MODULE SketchTrace -----------------------------
(* Batch validation of item sequences scanned from really emitted sketches against Sketch: each item must be
   one the specification could have written next (ItemDiff = ""), and the end of the text must be a legal Close.
   Verdicts are total: {id, ok, l (items accepted), clause (first failing obligation), item}.               *)
EXTENDS Sketch, Json, IOUtils

Traces == JsonDeserialize(IOEnv.TRACE_FILE)     \* [{id, items: [{k, n, t}...]}...]
VARIABLES tid, l, bad
T == Traces[tid]
N == Len(T.items)

TInit == tid \in 1..Len(Traces) /\ l = 1 /\ bad = "" /\ SInit
TNext == /\ bad = "" /\ l <= N + 1
         /\ IF l <= N
            THEN LET it == It(T.items[l].k, T.items[l].n, T.items[l].t) IN bad' = ItemDiff(it) /\ Read(it)
            ELSE /\ bad' = CloseDiff /\ closed' = (CloseDiff = "")
                 /\ UNCHANGED <<items, included, classes, names, sigs, fnames, nsetup, nloop>>
         /\ l' = l + 1 /\ UNCHANGED tid
Done == bad # "" \/ l > N + 1
Verdict == Done => PrintT(ToJson([id |-> T.id, ok |-> bad = "", l |-> l - 1, clause |-> bad]))
AcceptedIsWellFormed == (bad = "" /\ closed) => WellFormed(items)
=============================================================================
