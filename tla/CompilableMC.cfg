SPECIFICATION CSpec
CONSTANTS
  Inputs <- InputsDef
INVARIANT AcceptedAlwaysCompiles
INVARIANT CompiledOnlyIfAccepted
INVARIANT CompileOnlyAfterAccept
CHECK_DEADLOCK FALSE
