------------------------------- MODULE RGBLed -------------------------------
(* The RGB LED as a state machine; levels are triples <<r, g, b>> driven together on three PWM pins.
   side = "host": documented Python class (invalid scalar -> raise, object unchanged);
   side = "fw"  : firmware contract of C04 (valid calls as on the host; invalid ones clamped to 0..255). *)
EXTENDS Integers, Sequences, TLC, Wave

VARIABLES side, col, on, wave, res, last
vars == <<side, col, on, wave, res, last>>

Call(act, a) == [act |-> act, a |-> a]
NoCall == Call("none", <<>>)
St(c, o) == [col |-> c, on |-> o]
Cur == St(col, on)
Black == <<0, 0, 0>>
IsOn(c) == c[1] > 0 \/ c[2] > 0 \/ c[3] > 0
Comp(v) == 0 <= v /\ v <= 255
Clamp(v) == IF v < 0 THEN 0 ELSE IF v > 255 THEN 255 ELSE v
Tri(a) == <<a[1], a[2], a[3]>>

(* Arguments: set_color/on <<r,g,b>>; off <<>>; fade <<r,g,b,duration_ms,steps>>; blink <<r,g,b,times,delay_ms>> *)
Valid(c) ==
    CASE c.act = "off" -> TRUE
      [] c.act \in {"set_color", "on"} -> Comp(c.a[1]) /\ Comp(c.a[2]) /\ Comp(c.a[3])
      [] c.act = "fade" -> Comp(c.a[1]) /\ Comp(c.a[2]) /\ Comp(c.a[3]) /\ c.a[4] >= 0 /\ c.a[5] > 0
      [] c.act = "blink" -> Comp(c.a[1]) /\ Comp(c.a[2]) /\ Comp(c.a[3]) /\ c.a[4] > 0 /\ c.a[5] >= 0
      [] OTHER -> FALSE

(* Python's round(): nearest integer, ties to even; num/den with den > 0. *)
RoundHalfEven(num, den) ==
    LET q == num \div den   r == num % den IN      \* floor division, 0 <= r < den
    IF 2 * r < den THEN q ELSE IF 2 * r > den THEN q + 1 ELSE IF q % 2 = 0 THEN q ELSE q + 1
RoundHalfAway(num, den) ==
    LET q == num \div den   r == num % den IN
    IF 2 * r < den THEN q ELSE IF 2 * r > den THEN q + 1 ELSE IF num >= 0 THEN q + 1 ELSE q

FadeStep(from, to, i, steps) ==
    [k \in 1..3 |-> RoundHalfEven(from[k] * steps + (to[k] - from[k]) * i, steps)]
(* A fade step lands exactly on a half for some channel and the two rounding rules disagree there. *)
HalfStep(from, to, steps) ==
    \E i \in 1..steps, k \in 1..3 :
        LET num == from[k] * steps + (to[k] - from[k]) * i IN
        RoundHalfEven(num, steps) # RoundHalfAway(num - from[k] * steps, steps) + from[k]

FadeStepAway(from, to, i, steps) ==      \* the deviation the pinned firmware shows: ties rounded away from zero
    [k \in 1..3 |-> from[k] + RoundHalfAway((to[k] - from[k]) * i, steps)]
RECURSIVE FadeW(_, _, _, _, _, _), FadeAwayW(_, _, _, _, _, _), BlinkW(_, _, _, _)
FadeAwayW(w, from, to, i, steps, stepUs) ==
    IF i > steps THEN w
    ELSE LET w1 == WLv(w, FadeStepAway(from, to, i, steps)) IN
         FadeAwayW(IF i # steps THEN WSl(w1, stepUs) ELSE w1, from, to, i + 1, steps, stepUs)
FadeW(w, from, to, i, steps, stepUs) ==
    IF i > steps THEN w
    ELSE LET w1 == WLv(w, FadeStep(from, to, i, steps)) IN
         FadeW(IF i # steps THEN WSl(w1, stepUs) ELSE w1, from, to, i + 1, steps, stepUs)
BlinkW(w, c, us, n) == IF n = 0 THEN w ELSE BlinkW(WSl(WLv(WSl(WLv(w, c), us), Black), us), c, us, n - 1)

(* duration_ms / steps in microseconds, rounded to the nearest microsecond like the recorder does *)
StepUs(dur, steps) == (2000 * dur + steps) \div (2 * steps)

WaveOf(cur, c) ==
    LET w0 == WStart(cur) IN
    CASE c.act \in {"set_color", "on"} -> WLv(w0, Tri(c.a))
      [] c.act = "off" -> WLv(w0, Black)
      [] c.act = "fade" -> IF c.a[4] = 0 \/ cur = Tri(c.a) THEN WLv(w0, Tri(c.a))
                           ELSE FadeW(w0, cur, Tri(c.a), 1, c.a[5], StepUs(c.a[4], c.a[5]))
      [] c.act = "blink" -> WLv(BlinkW(w0, Tri(c.a), 1000 * c.a[5], c.a[4]), cur)
      [] OTHER -> w0

(* Known deviation (known_findings.json: rgb-fade-half-step): a valid fade with a step landing exactly on a half
   is rendered by the device with ties away from zero; everything else about the call is as specified. *)
KnownHalfStep(s, c, t, w, r) ==
    /\ c.act = "fade" /\ Valid(c) /\ c.a[4] # 0 /\ s.col # Tri(c.a) /\ HalfStep(s.col, Tri(c.a), c.a[5])
    /\ r = "ok" /\ t = St(Tri(c.a), IsOn(Tri(c.a)))
    /\ WaveDevice(w, FadeAwayW(WStart(s.col), s.col, Tri(c.a), 1, c.a[5], StepUs(c.a[4], c.a[5])))

LevelsOK(w) == \A i \in 1..Len(w) : \A k \in 1..3 : Comp(w[i].lv[k])

HostStep(s, c, t, w, r) ==
    IF ~Valid(c) THEN r = "raise" /\ t = s /\ w = WStart(s.col)
    ELSE r = "ok" /\ WaveExact(w, WaveOf(s.col, c)) /\ t = St(WLast(w), IsOn(WLast(w)))

FwStep(s, c, t, w, r) ==
    /\ r = "ok"
    /\ t = St(WLast(w), IsOn(WLast(w)))           \* getters track the pins
    /\ LevelsOK(w)                                \* nothing unclamped ever reaches a pin
    /\ Valid(c) => WaveDevice(w, WaveOf(s.col, c))
    /\ (~Valid(c) /\ c.act \in {"set_color", "on"}) => WLast(w) = <<Clamp(c.a[1]), Clamp(c.a[2]), Clamp(c.a[3])>>

Step(sd, s, c, t, w, r) == IF sd = "host" THEN HostStep(s, c, t, w, r) ELSE FwStep(s, c, t, w, r)

StepDiff(sd, s, c, t, w, r) ==
    IF Step(sd, s, c, t, w, r) THEN ""
    ELSE IF sd = "host" /\ ~Valid(c) THEN (IF r # "raise" THEN "invalid-call-accepted" ELSE "failed-call-changed-state")
    ELSE IF r # "ok" THEN "result"
    ELSE IF ~LevelsOK(w) THEN "unclamped-level"
    ELSE IF t # St(WLast(w), IsOn(WLast(w))) THEN "getter-not-tracking-pin"
    ELSE IF Valid(c) THEN WaveDiff(w, WaveOf(s.col, c), sd = "fw")
    ELSE "clamp-value"

-----------------------------------------------------------------------------
CONSTANTS Colours, Durations, Times, StepsG
Calls ==
    {Call("off", <<>>)}
    \cup {Call(a, c) : a \in {"set_color", "on"}, c \in Colours}
    \cup {Call("fade", c \o <<d, s>>) : c \in Colours, d \in Durations, s \in StepsG}
    \cup {Call("blink", c \o <<n, d>>) : c \in Colours, n \in Times, d \in Durations}

Init == /\ side \in {"host", "fw"} /\ col = Black /\ on = FALSE
        /\ wave = WStart(Black) /\ res = "init" /\ last = NoCall

ClampCall(c) ==
    IF Valid(c) THEN c
    ELSE LET k == <<Clamp(c.a[1]), Clamp(c.a[2]), Clamp(c.a[3])>> IN
         CASE c.act = "fade" -> Call("fade", k \o <<IF c.a[4] < 0 THEN 0 ELSE c.a[4], IF c.a[5] <= 0 THEN 1 ELSE c.a[5]>>)
           [] c.act = "blink" -> Call("blink", k \o <<IF c.a[4] <= 0 THEN 1 ELSE c.a[4], IF c.a[5] < 0 THEN 0 ELSE c.a[5]>>)
           [] OTHER -> Call(c.act, k)

Do(c) ==
    /\ last' = c /\ UNCHANGED side
    /\ IF side = "host" /\ ~Valid(c)
       THEN res' = "raise" /\ wave' = WStart(col) /\ UNCHANGED <<col, on>>
       ELSE LET w == WaveOf(col, ClampCall(c)) IN
            res' = "ok" /\ wave' = w /\ col' = WLast(w) /\ on' = IsOn(WLast(w))

Next == \E c \in Calls : Do(c)
Spec == Init /\ [][Next]_vars

-----------------------------------------------------------------------------
ChannelsInRange == \A k \in 1..3 : Comp(col[k])
OnIffNonZero == on <=> IsOn(col)
NeverUnclamped == LevelsOK(wave)
ShadowTracksPins == col = WLast(wave)
CanonicalIsAllowed == last # NoCall => Step(side, St(wave[1].lv, IsOn(wave[1].lv)), last, Cur, wave, res)
FadeEndsOnTarget == (last.act = "fade" /\ res = "ok" /\ Valid(last)) => col = Tri(last.a)
FadeStepsMonotone ==   \* every channel moves monotonically towards the target, in at most `steps` level changes
    (last.act = "fade" /\ res = "ok" /\ Valid(last)) =>
        /\ Len(wave) <= last.a[5] + 1
        /\ \A i \in 2..Len(wave) : \A k \in 1..3 :
              IF last.a[k] >= wave[1].lv[k] THEN wave[i].lv[k] >= wave[i - 1].lv[k] ELSE wave[i].lv[k] <= wave[i - 1].lv[k]
FadeNeverLonger == (last.act = "fade" /\ res = "ok" /\ Valid(last)) => WTotal(wave) <= 1000 * last.a[4]
BlinkRestores == (last.act = "blink" /\ res = "ok" /\ Valid(last)) => col = wave[1].lv
BlinkSleepsExactly == (last.act = "blink" /\ res = "ok" /\ Valid(last)) => WTotal(wave) = 2 * last.a[4] * 1000 * last.a[5]
FailedCallLeavesState == [][(side = "host" /\ ~Valid(last')) => (res' = "raise" /\ col' = col /\ on' = on)]_vars
=============================================================================
