----------------------------- MODULE ServoTrace -----------------------------
EXTENDS Servo, Json, IOUtils
Traces == JsonDeserialize(IOEnv.TRACE_FILE)   \* [{id, side, cal, ev: [{act, v, angle, pulse, cmd:{op,v}, res}...]}...]
VARIABLES tid, l, bad, known
T == Traces[tid]
InvDiff(c, a, p, tol) == IF ~InBounds(c, a, p, tol) THEN "inv-out-of-bounds"
                         ELSE IF ~Corresponds(c, a, p, tol + 1) THEN "inv-angle-pulse-correspondence" ELSE ""
TInit == /\ tid \in 1..Len(Traces) /\ l = 1 /\ bad = "" /\ known = {}
         /\ side = Traces[tid].side /\ cal = Traces[tid].cal
         /\ angle = cal.mina /\ pulse = cal.minp /\ cmd = NoCmd /\ res = "init" /\ last = NoCall
TNext == /\ bad = "" /\ l <= Len(T.ev)
         /\ LET e == T.ev[l]
                k == Call(e.act, e.v)
                t == St(e.angle, e.pulse)
                tol == IF side = "host" THEN 1 ELSE 6
                d == IF e.act = "init"
                     THEN (IF Abs(e.angle - cal.mina) <= tol /\ Abs(e.pulse - cal.minp) <= tol THEN "" ELSE "initial-state")
                     ELSE StepDiff(side, cal, Cur, k, t, e.cmd, e.res)
                kn == d = "device-command" /\ KnownNegativeRound(side, cal, k, t, e.cmd, e.res)
            IN /\ angle' = e.angle /\ pulse' = e.pulse /\ cmd' = e.cmd /\ res' = e.res /\ last' = k
               /\ bad' = IF d # "" /\ ~kn THEN d ELSE InvDiff(cal, e.angle, e.pulse, tol)
               /\ known' = IF kn THEN known \cup {"servo-negative-angle-rounds-toward-zero"} ELSE known
         /\ l' = l + 1 /\ UNCHANGED <<tid, side, cal>>
Done == bad # "" \/ l > Len(T.ev)
Verdict == Done => PrintT(ToJson([id |-> T.id, ok |-> bad = "", l |-> l - 1, clause |-> bad, known |-> known]))
=============================================================================
