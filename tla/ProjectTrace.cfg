INIT TInit
NEXT TNext
CONSTANTS
  Dirs = {}
  Sources = {}
  Ports = {}
  PairsG = {}
  LibLists = {}
CONSTRAINT Verdict
CHECK_DEADLOCK FALSE
