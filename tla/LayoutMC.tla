------------------------------ MODULE LayoutMC ------------------------------
(* Alphabets for exhaustive model checking of the Layout machine: every sequence of physical lines over these
   indentations and line kinds, up to MaxLines lines, legal or not (illegal ones end in the error state, as
   Python rejects them). *)
EXTENDS Layout
IndentsDef == {<<>>, <<1>>, <<2>>, <<4>>, <<0>>, <<8>>, <<2, 2>>, <<4, 4>>, <<4, 0>>, <<0, 0>>, <<0, 4>>, <<2, 2, 2>>, <<4, 4, 4>>}
IndentsQ   == {<<>>, <<2>>, <<4>>, <<0>>, <<8>>, <<4, 4>>, <<4, 0>>, <<0, 2>>}
HKindsDef  == {"if", "elif", "else", "for", "try", "except", "main", "def"}
HKindsQ    == {"if", "elif", "else", "try", "except", "main"}
=============================================================================
