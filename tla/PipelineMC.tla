------------------------------ MODULE PipelineMC ------------------------------
EXTENDS Pipeline
InputsDef == {[python |-> b, tags |-> t] : b \in BOOLEAN, t \in {{}, {"walrus"}, {"pow-tower"}}}
=============================================================================
