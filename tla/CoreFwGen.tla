------------------------------ MODULE CoreFwGen ------------------------------
(* Call histories (length <= MaxLen) over the grids, one JSON object per history. *)
EXTENDS CoreFwMC, Json
CONSTANT MaxLen
Pins == {5, 9}
WriteVals == {-1, 0, 1, 2, 127, 255, 256, 300}
Calls == {[act |-> "pin_mode", a |-> <<p, m>>] : p \in Pins, m \in {1, 2, 3}}
         \cup {[act |-> "digital_write", a |-> <<p, v>>] : p \in Pins, v \in {0, 1, 2, 255, -1}}
         \cup {[act |-> "analog_write", a |-> <<p, v>>] : p \in Pins, v \in WriteVals}
         \cup {[act |-> "map", a |-> <<v, f[1], f[2], t[1], t[2]>>] : v \in {-1, 0, 5, 512, 700, 1023}, f \in RangesDef \ {<<7, 7>>}, t \in {<<0, 255>>, <<255, 0>>, <<0, 5>>, <<-100, 100>>}}
VARIABLE h
GInit == h = <<>> /\ done = FALSE
GNext == Len(h) < MaxLen /\ (\E c \in Calls : h' = Append(h, c)) /\ UNCHANGED done
Emit == (Len(h) >= 1) => PrintT(ToJson([h |-> h]))
=============================================================================
