SPECIFICATION Spec
CONSTANTS
  Indents <- IndentsQ
  HKinds <- HKindsQ
  MaxLines = 4
INVARIANT TypeOK
INVARIANT StackStrictlyIncreasing
INVARIANT PathDepthIsStackDepth
INVARIANT ErrorIsAbsorbing
INVARIANT PrefixChain
INVARIANT ClausesInOrder
INVARIANT OpenersAreStatements
PROPERTY CommentNeverMovesAnything
PROPERTY DedentPopsToEnclosingLevel
PROPERTY IndentOnlyAfterHeader
PROPERTY AssignOnlyGrows
CHECK_DEADLOCK FALSE
