---------------------------- MODULE UltrasonicMC ----------------------------
(* Grids for exhaustive model checking / behaviour generation of Ultrasonic. *)
EXTENDS Ultrasonic
GapsDef   == {0, 10, 59, 60, 61, 200}        \* ms between the return of a call and the next call
EchoesDef == {0, 1, 580, 29999}              \* us; 0 = timeout
T0sDef    == {0, 1000}                       \* clock not started / started
\* reduced grids for exhaustive generation of short schedules
GapsQ   == {0, 59, 60}
EchoesQ == {0, 580}
ShapesDef == {<<>>, <<0>>, <<10, 60>>}        \* sleeps between the calls of one pass
PassesDef == 1..4
=============================================================================
