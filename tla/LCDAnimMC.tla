------------------------------ MODULE LCDAnimMC ------------------------------
(* Exhaustive model checking of LCDAnim: every style x text length 0..cols+2 x width x loop x speed, every
   tick-time sequence built from the deltas {0, 1, speed-1, speed, speed+1, 3 speed}, both padding rules,
   clock starting at 0 or running.  The absolute clock is abstracted by a VIEW (what a tick can depend on is
   whether the clock is running and the time since the last step, capped at speed), so the graph is finite for
   non-looping animations and cut at StepsCap steps for looping ones.                                      *)
EXTENDS LCDAnim

CONSTANTS ColsG, RowsG, SpeedsG, MaxAnims, LensG(_)

DeltasFor(s) == {x \in {0, 1, s - 1, s, s + 1, 3 * s} : x >= 0}
DeltaSet == UNION {DeltasFor(a[i].speed) : i \in 1..Len(a)}

MCInit ==
    /\ impl \in {"host", "fw"}
    /\ \E c \in ColsG, rw \in RowsG : geo = <<[cols |-> c, rows |-> rw]>>
    /\ a = <<>> /\ disp = [d \in 1..Len(geo) |-> Blank(geo[d])]
    /\ now \in {0, 1} /\ pass = 0 /\ ticked = <<>> /\ blocked = 0

MCStart ==
    /\ pass = 0 /\ Len(a) < MaxAnims
    /\ \E st \in Styles, row \in 0..(geo[1].rows - 1), n \in LensG(geo[1].cols), sp \in SpeedsG, lp \in BOOLEAN :
           Start(1, st, row, TextOf(n), sp, lp)
MCPass == Len(a) > 0 /\ \E dl \in DeltaSet : PassBoundary(dl)
MCAdvance == \E i \in 1..Len(a) : Advance(i)
MCTooEarly == \E i \in 1..Len(a) : TooEarly(i)
MCInactive == \E i \in 1..Len(a) : Inactive(i)
MCNext == MCStart \/ MCPass \/ MCAdvance \/ MCTooEarly \/ MCInactive

MCSpec == MCInit /\ [][MCNext]_vars

(* looping animations never stop: cut the exploration two steps beyond the bound every non-looping one must meet *)
StepsCap == \A i \in 1..Len(a) : a[i].steps <= StepBound(a[i]) + 2

MCView ==
    <<impl, geo, [i \in 1..Len(a) |-> [a[i] EXCEPT !.last = IF @ = 0 THEN 0 ELSE 1]],
      [i \in 1..Len(a) |-> IF a[i].last = 0 THEN 0 ELSE Min(now - a[i].last, a[i].speed)],
      now > 0, disp, IF pass > 0 THEN 1 ELSE 0, ticked, blocked>>

(* sanity of the specification itself *)
StepsMatchImplementations ==   \* the documented step counts (see StepBound) hold exactly in the model
    \A i \in 1..Len(a) :
        LET r == a[i]  len == Len(r.text)  c == geo[r.d].cols IN
        (~r.loop /\ ~r.active) =>
            r.steps = CASE r.style = "scroll" -> PadLen(impl, len, c)
                        [] r.style = "blink" -> 1
                        [] r.style = "typewriter" -> Max(1, len - 1)
                        [] OTHER -> IF len = 0 \/ len >= c THEN 1 ELSE 2 * (c - len)

\* grids (cfg files cannot hold expressions)
ColsFull == 1..5
ColsQuick == {1, 2, 3, 5}
RowsOne == {1}
RowsTwo == {2}
SpeedsFull == {0, 1, 100}
SpeedsPair == {0, 3}
SpeedsQuick == {0, 1, 5}
ColsPair == {2, 3}
SpeedsOne == {2}
LensAll(c) == 0..(c + 2)
LensEdge(c) == {0, c - 1, c + 1}
=============================================================================
