------------------------------- MODULE CoreFw -------------------------------
(* Extension beyond the listed properties: the Core pin helpers and Utils.map AS FIRMWARE, judged by what the host modules
   (the documented behaviour, specified in CorePins / Utils for C20) do for the same call:
     pin_mode(p, m)        configures pin p with mode m                                  -> pinMode(p, m)
     digital_write(p, v)   drives HIGH when v is truthy, LOW otherwise                   -> digitalWrite(p, 0 | 1)
     analog_write(p, v)    writes the duty clamped to 0..255                             -> analogWrite(p, Clamp(v))
     map(v, fl, fh, tl, th) the exact affine map through (fl, tl) and (fh, th)           -> the printed value
   A call is [act, a]; an observation [pm, dw, aw, ret] holds the events the call produced on its pin (sequences) and,
   for map, the printed result as <<num, den>> (den = 1 for an integer print, 100 for a two-decimal print).
   Diff names the first clause an observation breaks.  Two deviations of the pinned tree are matched exactly. *)
EXTENDS Integers, Sequences, TLC

Clamp(v, lo, hi) == IF v < lo THEN lo ELSE IF v > hi THEN hi ELSE v
Abs(x) == IF x < 0 THEN -x ELSE x
Modes == {"in", "out", "inpu"}

MapNum(a) == a[4] * (a[3] - a[2]) + (a[1] - a[2]) * (a[5] - a[4])     \* result = MapNum / MapDen
MapDen(a) == a[3] - a[2]
\* C integer division truncates toward zero
TruncDiv(n, d) == LET q == Abs(n) \div Abs(d) IN IF (n < 0) = (d < 0) \/ n = 0 THEN q ELSE -q
ArduinoMap(a) == TruncDiv((a[1] - a[2]) * (a[5] - a[4]), a[3] - a[2]) + a[4]

\* |obs - exact| <= 1/200 (a float printed with two decimals), decided in integers: obs = on/od, exact = n/d
Close(on, od, n, d) == Abs(on * d * 200 - n * od * 200) <= Abs(od * d)

Diff(c, o) ==
    CASE c.act = "pin_mode" ->
            IF Len(o.dw) + Len(o.aw) # 0 THEN "other-event-on-the-pin"
            ELSE IF o.pm # <<c.a[2]>> THEN "pin-mode" ELSE ""
      [] c.act = "digital_write" ->
            IF Len(o.pm) + Len(o.aw) # 0 THEN "other-event-on-the-pin"
            ELSE IF o.dw # <<IF c.a[2] # 0 THEN 1 ELSE 0>> THEN "digital-level" ELSE ""
      [] c.act = "analog_write" ->
            IF Len(o.pm) + Len(o.dw) # 0 THEN "other-event-on-the-pin"
            ELSE IF Len(o.aw) # 1 THEN "analog-write-count"
            ELSE IF o.aw[1] # Clamp(c.a[2], 0, 255) THEN "analog-level-not-clamped" ELSE ""
      [] c.act = "map" ->
            IF MapDen(c.a) = 0 THEN ""                         \* the host refuses a zero span; the firmware's behaviour is not specified
            ELSE IF o.ret = <<>> THEN "map-result-missing"
            ELSE IF ~Close(o.ret[1], o.ret[2], MapNum(c.a), MapDen(c.a)) THEN "map-not-affine" ELSE ""
      [] OTHER -> "unknown-call"

(* listed deviations, matched exactly *)
KnownMapTruncates(c, o) == c.act = "map" /\ MapDen(c.a) # 0 /\ o.ret # <<>> /\ o.ret[2] = 1 /\ o.ret[1] = ArduinoMap(c.a)
KnownAnalogUnclamped(c, o) == c.act = "analog_write" /\ (c.a[2] < 0 \/ c.a[2] > 255) /\ o.aw = <<c.a[2]>> /\ Len(o.pm) + Len(o.dw) = 0
KnownTag(c, o) == IF KnownMapTruncates(c, o) THEN "fw-map-integer-arithmetic"
                  ELSE IF KnownAnalogUnclamped(c, o) THEN "fw-analog-write-unclamped" ELSE ""

(* laws of the reference itself, checked by TLC over the grids (CoreFwMC) *)
MapLaws(Vs, Rs) ==
    \A v \in Vs, f \in Rs, t \in Rs :
        LET a == <<v, f[1], f[2], t[1], t[2]>> IN
        f[1] # f[2] =>
          /\ (v = f[1] => MapNum(a) = t[1] * MapDen(a))                       \* endpoints
          /\ (v = f[2] => MapNum(a) = t[2] * MapDen(a))
          /\ (Abs(MapNum(a)) % Abs(MapDen(a)) = 0 => ArduinoMap(a) * MapDen(a) = MapNum(a))   \* where the result is whole, integer arithmetic agrees
ClampLaws(Vs) == \A v \in Vs : Clamp(v, 0, 255) \in 0..255 /\ (v \in 0..255 => Clamp(v, 0, 255) = v)
=============================================================================
