---------------------------- MODULE LCDTextTrace ----------------------------
(* Batch trace validation for LCDText (idiom of LedTrace): every recorded call of every trace - host class or
   firmware - must be a step the specification allows (StepDiff names the first failing clause); every law of
   C17 is evaluated on the implementation's own transitions and states.  A step outside the specification that
   is exactly one of the listed deviations is recorded in `known` and the trace goes on from the
   implementation's state; anything else ends the trace with its clause.
   Trace: [id, side, g: [cols, rows, wiring, blpin], ev: [act, i, t, s, b, res, cell, dsp, bl, br, pin, aws, gl, gup, off, clamped, stray]] *)
EXTENDS LCDText, Json, IOUtils

Traces == JsonDeserialize(IOEnv.TRACE_FILE)
VARIABLES tid, l, clause, known
T == Traces[tid]

InitDiff(o) ==
    IF o.res # "init" THEN "result"
    ELSE IF ~ShapeOK(g, o.cell) \/ o.cell # Blank(g) THEN "initial-cells"
    ELSE IF o.off # 0 \/ o.clamped # 0 \/ o.stray # 0 THEN "initial-writes"
    ELSE IF o.dsp # TRUE THEN "initial-display"
    ELSE IF side = "host" /\ (o.bl # TRUE \/ o.br # 255) THEN "initial-backlight"
    ELSE IF side = "fw" /\ o.pin # LightInit(g).pin THEN "initial-backlight-pin"
    ELSE IF o.gl # NoGlyphs \/ Len(o.gup) # 0 THEN "initial-glyphs"
    ELSE ""
StateLaws ==
    IF ~LightLaw(g, light) THEN "law-BacklightLaw"
    ELSE IF ~GlyphLaw(gl) THEN "law-GlyphRows5bit"
    ELSE IF ~(Monotone(pg) /\ Saturating(pg)) THEN "law-ProgressMonotoneSaturating"
    ELSE ""

TInit == /\ tid \in 1..Len(Traces) /\ l = 1 /\ clause = "" /\ known = {}
         /\ InitFor(Traces[tid].side, Traces[tid].g)

TNext == /\ clause = "" /\ l <= Len(T.ev)
         /\ LET o  == T.ev[l]
                c  == Call(o.act, o.i, o.t, o.s, o.b)
                d0 == IF o.act = "init" THEN InitDiff(o) ELSE StepDiff(side, g, Cur, c, o)
                kn == IF d0 # "" /\ o.act # "init" THEN KnownOf(side, g, Cur, c, o) ELSE {}
                d  == IF kn # {} THEN "" ELSE d0
                lw == IF o.act = "init" \/ kn # {} \/ d # "" THEN {} ELSE LawsBroken(side, g, cell, c, o.cell, o.res)
                nx == IF o.act = "init" THEN Cur
                      ELSE IF kn # {} THEN [Cur EXCEPT !.cell = o.cell, !.light = LightPost(side, g, light, c)]
                      ELSE IF d # "" THEN Cur
                      ELSE StatePost(side, g, Cur, c, o)
            IN /\ cell' = nx.cell /\ light' = nx.light /\ gl' = nx.gl /\ pg' = nx.pg
               /\ res' = o.res /\ bad' = bad \cup lw /\ n' = n + 1
               /\ known' = known \cup kn
               /\ clause' = IF d # "" THEN d
                            ELSE IF lw # {} THEN "law-" \o (CHOOSE x \in lw : TRUE)
                            ELSE ""
         /\ l' = l + 1 /\ UNCHANGED <<tid, side, g>>

(* state laws on the implementation's states (after the step has been taken) *)
Done == clause # "" \/ StateLaws # "" \/ l > Len(T.ev)
Verdict == Done => PrintT(ToJson([id |-> T.id, ok |-> (clause = "" /\ StateLaws = ""), l |-> l - 1,
                                  clause |-> IF clause # "" THEN clause ELSE StateLaws, known |-> known]))
Stop == ~(clause = "" /\ StateLaws # "")     \* a broken state law ends the trace (verdict already printed)
=============================================================================
