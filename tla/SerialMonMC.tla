----------------------------- MODULE SerialMonMC -----------------------------
(* Grids for SerialMon.  Texts are UTF-8 byte sequences of str(value): "", "42", "2.5", "True", "None", "hi",
   a text containing a newline ("a\nb"), non-ASCII ("é"), "[1, 2]", "-7", and texts that already end with a
   terminator ("l\n", "\n", "a\r\n", "\r"). *)
EXTENDS SerialMon
NL == <<10>>
CRLF == <<13, 10>>
Cf(b, p, nl, be) == [baud |-> b, port |-> p, nl |-> nl, backend |-> be]
CfgsDef == {Cf(9600, "", NL, TRUE), Cf(115200, "COM4", NL, TRUE), Cf(9600, "", CRLF, TRUE), Cf(9600, "", NL, FALSE),
            Cf(9600, "COM4", NL, FALSE), Cf(0, "", NL, TRUE), Cf(-1, "COM4", NL, TRUE), Cf(1, "/dev/ttyUSB0", <<>>, TRUE)}
CfgsQ   == {Cf(9600, "", NL, TRUE), Cf(115200, "COM4", CRLF, TRUE), Cf(9600, "", NL, FALSE), Cf(0, "", NL, TRUE),
            Cf(9600, "COM4", NL, FALSE)}
PortsDef == {"COM3", "/dev/ttyACM0"}
PortsQ   == {"COM3"}
TextsDef == {<<>>, <<52, 50>>, <<50, 46, 53>>, <<84, 114, 117, 101>>, <<78, 111, 110, 101>>, <<104, 105>>,
             <<97, 10, 98>>, <<195, 169>>, <<91, 49, 44, 32, 50, 93>>, <<45, 55>>,
             <<108, 10>>, <<10>>, <<97, 13, 10>>, <<13>>}      \* texts that already end with (part of) a line terminator
TextsQ   == {<<>>, <<52, 50>>, <<50, 46, 53>>, <<84, 114, 117, 101>>, <<97, 10, 98>>, <<195, 169>>, <<108, 10>>, <<97, 13, 10>>}
\* lines the backend delivers: nothing (timeout), "ok\n", "ok\r\n", "a\n\n", "\n", "x" (no terminator)
LinesDef == {<<>>, <<111, 107, 10>>, <<111, 107, 13, 10>>, <<97, 10, 10>>, <<10>>, <<120>>}
LinesQ   == {<<>>, <<111, 107, 13, 10>>, <<10>>}
EmitsDef == {"host", "mcu", "both", "bogus"}
EmitsQ   == {"both", "mcu", "bogus"}
=============================================================================
