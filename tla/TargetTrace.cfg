INIT TInit
NEXT TNext
CONSTRAINT Verdict
INVARIANT ImplInv
CHECK_DEADLOCK FALSE
