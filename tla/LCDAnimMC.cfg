SPECIFICATION MCSpec
CONSTANTS
  ColsG <- ColsFull
  RowsG <- RowsOne
  SpeedsG <- SpeedsFull
  MaxAnims = 1
  LensG <- LensAll
VIEW MCView
CONSTRAINT StepsCap
INVARIANT TypeOK
INVARIANT FrameWidth
INVARIANT NonLoopingStops
INVARIANT LoopingNeverStops
INVARIANT StartNeverBlocks
INVARIANT TickedAtMostOnce
INVARIANT StepsMatchImplementations
PROPERTY FrameInsideRow
PROPERTY StoppedStaysStopped
PROPERTY RateLimit
PROPERTY TickOncePerPass
CHECK_DEADLOCK FALSE
