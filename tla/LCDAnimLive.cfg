SPECIFICATION LiveSpec
CONSTANTS
  ColsG <- ColsLive
  RowsG <- RowsOne
  SpeedsG <- SpeedsLive
  MaxAnims = 1
  LensG <- LensAll
INVARIANT TypeOK
INVARIANT FrameWidth
INVARIANT NonLoopingStops
PROPERTY EventuallyInactive
PROPERTY StaysInactive
CHECK_DEADLOCK FALSE
