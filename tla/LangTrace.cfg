INIT Init
NEXT Next
CONSTRAINT Verdict
CHECK_DEADLOCK FALSE
