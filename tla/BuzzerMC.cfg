SPECIFICATION Spec
CONSTANTS
  Freqs <- FreqsDef
  Durs <- DursDef
  OnOffs <- OnOffsDef
  Times <- TimesDef
  StepsG <- StepsDef
  SweepDurs <- SweepDursDef
  Tempos <- TemposDef
  Melodies <- MelodiesDef
  Defaults <- DefaultsDef
INVARIANT TypeOK
INVARIANT NoToneAtOrBelowZero
INVARIANT SilentAfterTimedCall
INVARIANT StopStops
INVARIANT BeepCount
INVARIANT BeepSilentWhenNotPositive
INVARIANT SweepMonotoneEndsOnEnd
INVARIANT SweepWithinDuration
INVARIANT MelodyFollowsScore
INVARIANT GettersTrackTone
INVARIANT CanonicalIsAllowed
INVARIANT NoKnownDeviationInSpec
PROPERTY ToneOnlyPositive
CHECK_DEADLOCK FALSE
