--------------------------- MODULE UltrasonicTrace ---------------------------
(* Batch trace validation for Ultrasonic: every abstract event of every recorded firmware run must be a step the
   specification allows; total verdicts naming the failing clause; the known deviation is matched exactly. *)
EXTENDS Ultrasonic, Json, IOUtils

Traces == JsonDeserialize(IOEnv.TRACE_FILE)   \* [{id, t0, ev: [{k, v, t}...]}...]
VARIABLES tid, l, bad, known
tvars == <<vars, tid, l, bad, known>>
T == Traces[tid]

TInit == /\ tid \in 1..Len(Traces) /\ l = 1 /\ bad = "" /\ known = {}
         /\ now = Traces[tid].t0 /\ pc = "idle" /\ attempts = 0 /\ hasTrig = FALSE /\ lastTrig = 0 /\ lastDone = 0
         /\ waited = 0 /\ prevGap = -1 /\ hasDist = FALSE /\ lastDist = NoEchoD /\ echo = 0 /\ calls = 0 /\ ret = 0
         /\ callEchoes = <<>> /\ goodBefore = 0 /\ nEch = 0

InvDiff(r) == IF r.attempts > MaxAttempts THEN "inv-attempts"
              ELSE IF r.hasTrig /\ r.prevGap >= 0 /\ r.lastTrig > 0 /\ r.prevGap < MinIntervalMs THEN "inv-trigger-spacing"
              ELSE ""

TNext == /\ bad = "" /\ l <= Len(T.ev)
         /\ LET e == T.ev[l]
                d == Diff(Rec, e)
                kz == KnownZeroSentinel(Rec, e)
                r == Apply(Rec, e)
            IN IF d = "" THEN SetRec(r) /\ bad' = (IF e.k = "trig" THEN InvDiff(r) ELSE "") /\ UNCHANGED known
               ELSE IF kz THEN SetRec(r) /\ bad' = "" /\ known' = known \cup {"ultrasonic-zero-clock-sentinel"}
               ELSE bad' = d /\ UNCHANGED <<uvars, known>>
         /\ l' = l + 1 /\ UNCHANGED <<tid, callEchoes, goodBefore, nEch>>

Done == bad # "" \/ l > Len(T.ev)
Verdict == Done => PrintT(ToJson([id |-> T.id, ok |-> bad = "", l |-> l - 1, clause |-> bad, known |-> known, calls |-> calls]))
=============================================================================
