INIT TInit
NEXT TNext
CONSTANTS
  Freqs = {}
  Durs = {}
  OnOffs = {}
  Times = {}
  StepsG = {}
  SweepDurs = {}
  Tempos = {}
  Melodies = {}
  Defaults = {}
CONSTRAINT Verdict
CHECK_DEADLOCK FALSE
