---------------------------- MODULE UltrasonicGen ----------------------------
(* Behaviour generation for Ultrasonic: a behaviour = a call schedule and the echoes the environment answers.
   Shape of the rendered sketch: setupCall (one call in setup()), inpass = the sleeps between the calls of one
   loop() pass (<<>>: one call per pass; <<0>>: two calls back to back; <<10, 60>>: three calls ...), passes.
   The first call of a pass comes `gap` ms after the previous call returned (clock advanced between passes),
   the others after the fixed in-pass sleep.  Each call record lists the echoes of its attempts in order. *)
EXTENDS UltrasonicMC, Json
CONSTANTS Shapes, PassesSet, MaxCalls
VARIABLES h, t0, setupCall, inpass, passes
gvars == <<vars, h, t0, setupCall, inpass, passes>>

PerPass == Len(inpass) + 1
Total == (IF setupCall THEN 1 ELSE 0) + passes * PerPass
GInit == /\ Init /\ t0 = now /\ h = <<>>
         /\ setupCall \in BOOLEAN /\ inpass \in Shapes /\ passes \in PassesSet
         /\ Total <= MaxCalls /\ Total >= 1
Shape == UNCHANGED <<t0, setupCall, inpass, passes>>
LoopIdx == Len(h) - (IF setupCall THEN 1 ELSE 0)            \* index (from 0) of the next call among the loop calls
GapsNow == IF setupCall /\ Len(h) = 0 THEN {0}
           ELSE IF LoopIdx % PerPass = 0 THEN Gaps ELSE {inpass[LoopIdx % PerPass]}
GNext == \/ \E g \in GapsNow : Len(h) < Total /\ Call(g) /\ h' = Append(h, [gap |-> g, echoes |-> <<>>, ret |-> 0]) /\ Shape
         \/ (\E w \in 1..MinIntervalMs : Guard(w)) /\ UNCHANGED h /\ Shape
         \/ Trigger /\ UNCHANGED h /\ Shape
         \/ \E d \in Echoes : Echo(d) /\ h' = [h EXCEPT ![Len(h)].echoes = Append(@, d)] /\ Shape
         \/ Return /\ h' = [h EXCEPT ![Len(h)].ret = ret'] /\ Shape
         \/ Fallback /\ h' = [h EXCEPT ![Len(h)].ret = ret'] /\ Shape
Complete == pc = "idle" /\ Len(h) = Total
Out == [t0 |-> t0, setup |-> setupCall, inpass |-> inpass, passes |-> passes, calls |-> h]
Emit == IF Complete THEN PrintT(ToJson(Out)) /\ FALSE ELSE TRUE
EmitSim == Emit
=============================================================================
