INIT GInit
NEXT GNext
CONSTANTS
  Gaps <- GapsQ
  Echoes <- EchoesQ
  T0s <- T0sDef
  MaxEchoes = 99
  Shapes <- ShapesDef
  PassesSet <- PassesDef
  MaxCalls = 2
CONSTRAINT Emit
CHECK_DEADLOCK FALSE
