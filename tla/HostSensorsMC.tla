---------------------------- MODULE HostSensorsMC ----------------------------
(* Grids for HostSensors (units of 1/8). *)
EXTENDS HostSensors
\* False, True, 0, 1, 2, 0.0, 0.5, -1
LevelsDef == {Val("bool", 0), Val("bool", 8), Val("int", 0), Val("int", 8), Val("int", 16), Val("float", 0),
              Val("float", 4), Val("int", -8)}
LevelsQ   == {Val("bool", 0), Val("bool", 8), Val("int", 0), Val("int", 16)}
\* -1, 0, 1, 512, 1023, 1024, 5000, 511.5, 1022.875, 0.125, True, and the two edges -0.5 / 1023.5 (known finding)
AdcsDef   == {Val("int", -8), Val("int", 0), Val("int", 8), Val("int", 4096), Val("int", 8184), Val("int", 8192),
              Val("int", 40000), Val("float", 4092), Val("float", 8183), Val("float", 1), Val("bool", 8),
              Val("float", 4096), Val("float", -8), Val("float", 8192), Val("float", -4), Val("float", 8188)}
AdcsQ     == {Val("int", -8), Val("int", 0), Val("int", 4096), Val("int", 8184), Val("int", 8192), Val("float", 4092),
              Val("float", -4), Val("float", 8188)}
\* -1, -0.125, 0, 0.0, 0.125, 23.75, 400, 4000.5, True
DistsDef  == {Val("int", -8), Val("float", -1), Val("int", 0), Val("float", 0), Val("float", 1), Val("float", 190),
              Val("int", 3200), Val("float", 32004), Val("bool", 8), Val("float", -8)}
DistsQ    == {Val("int", -8), Val("float", -1), Val("int", 0), Val("float", 190), Val("int", 3200)}
CfgsDef   == {Cf("button", TRUE, NoVal), Cf("button", FALSE, NoVal), Cf("pot", TRUE, NoVal), Cf("pot", FALSE, NoVal),
              Cf("ultra", TRUE, NoVal), Cf("ultra", FALSE, NoVal), Cf("ultra", FALSE, Val("float", 190)),
              Cf("ultra", FALSE, Val("int", -8)), Cf("ultra", TRUE, Val("int", -8))}
\* every boolean signal x every interleaving with set_pressed (exhaustive button histories)
LevelsB    == {Val("bool", 0), Val("bool", 8)}
CfgsButton == {Cf("button", TRUE, NoVal), Cf("button", FALSE, NoVal)}
=============================================================================
