------------------------------ MODULE LangTrace ------------------------------
(* Validation of recorded executions against Lang: for every program the firmware trace (emitted C++ compiled
   and run on the mock Arduino core) and the CPython trace (same script against the host modules) are compared,
   event by event, with the trace the specification computes.  Numbers compare as values: the device prints a
   float32 with two decimals, CPython the shortest repr of a double; the slack is written here, once.
   A verdict is printed for every program (total), naming the first diverging event. *)
EXTENDS Lang

(* numeric token o = on/od observed, e = en/ed specified; od in {1, 100, 1000}, ed <= 64 *)
NumClose(on, od, en, ed, slack10k) ==       \* |o - e| <= slack10k / 10000
    LET diff == Abs(on * ed - en * od) IN
    /\ diff <= od * ed
    /\ diff * 10000 <= slack10k * od * ed
TokOK(o, e, slack10k) ==
    IF o.k # e.k THEN FALSE
    ELSE IF e.k = "t" THEN o.v = e.v
    ELSE IF Abs(o.n) > 300000000 \div 64 THEN FALSE
    ELSE IF o.d = 1 /\ e.d = 1 THEN o.n = e.n
    ELSE NumClose(o.n, o.d, e.n, e.d, slack10k)
ToksOK(os, es, slack10k) == Len(os) = Len(es) /\ \A i \in 1..Len(es) : TokOK(os[i], es[i], slack10k)
EvOK(o, e, slack10k) ==
    /\ o.e = e.e
    /\ CASE e.e = "w" -> ToksOK(o.toks, e.toks, slack10k)
         [] e.e = "d" -> o.ms = e.ms
         [] e.e = "pass" -> o.k = e.k
         [] e.e \in {"dw", "aw"} -> o.p = e.p /\ o.v = e.v
         [] e.e = "pm" -> o.p = e.p /\ o.m = e.m
         [] OTHER -> FALSE
RECURSIVE FirstDiff(_, _, _, _)
FirstDiff(obs, exp, i, slack10k) ==
    IF i > Len(exp) /\ i > Len(obs) THEN 0
    ELSE IF i > Len(exp) THEN i
    ELSE IF i > Len(obs) THEN i
    ELSE IF ~EvOK(obs[i], exp[i], slack10k) THEN i
    ELSE FirstDiff(obs, exp, i + 1, slack10k)
Describe(obs, exp, i) ==
    IF i = 0 THEN ""
    ELSE IF i > Len(exp) THEN "extra-event"
    ELSE IF i > Len(obs) THEN "missing-event"
    ELSE IF obs[i].e # exp[i].e THEN "event-kind"
    ELSE IF exp[i].e = "w" THEN "serial-value"
    ELSE IF exp[i].e = "d" THEN "delay"
    ELSE IF exp[i].e = "pass" THEN "pass-marker"
    ELSE "pin-command"

(* C02: declared C++ type of a name must cover every runtime type the name held *)
Covers(c, T) ==
    CASE c = "float" -> T \subseteq {"i", "b", "f"}
      [] c \in {"int", "long"} -> T \subseteq {"i", "b"}
      [] c = "bool" -> T \subseteq {"b"}
      [] c = "String" -> T \subseteq {"s"}
      [] c = "list" -> T \subseteq {"list"}
      [] OTHER -> TRUE
Narrowed == {n \in DOMAIN st.ty \cap DOMAIN Prog.decl : ~Covers(Prog.decl[n], st.ty[n] \ {"none"})}

FwDiff == IF Prog.fw.status # "ok" THEN 0 ELSE FirstDiff(Prog.fw.ev, st.out, 1, 52)
PyDiff == IF Prog.py.status # "ok" THEN 0 ELSE FirstDiff(Prog.py.ev, st.out, 1, 6)
Verdict ==
    Done => PrintT(ToJson([id |-> Prog.id, wd |-> WellDefined, nout |-> Len(st.out),
                           fw |-> FwDiff, fwwhy |-> (IF Prog.fw.status = "ok" THEN Describe(Prog.fw.ev, st.out, FwDiff) ELSE ""),
                           py |-> PyDiff, pywhy |-> (IF Prog.py.status = "ok" THEN Describe(Prog.py.ev, st.out, PyDiff) ELSE ""),
                           feat |-> st.feat, ty |-> st.ty, ty0 |-> st.ty0, narrowed |-> Narrowed, live |-> LiveLen, lv |-> st.lv,
                           exp |-> (IF FwDiff > 0 /\ FwDiff <= Len(st.out) THEN st.out[FwDiff] ELSE [e |-> "none"])]))
=============================================================================
