------------------------------- MODULE LibsMC -------------------------------
(* Exhaustive model checking of Libs.
   (1) Every reachable state of the promised transpiler (all declaration sequences over DeclKinds x Places up to
       MaxDevs) satisfies every clause of the property and is accepted by the step relation (IdealAccepted).
   (2) The verdict function applied to the real code is sound and complete w.r.t. the declarative clauses: in
       every finished state EVERY observation of a bounded universe (lists over the library names + a foreign
       entry "Wire", over the library headers, over the library classes - so duplicates, omissions and needless
       entries of each kind all occur) is judged: ObsDiff = "" exactly when Agree holds; the known-finding
       predicate matches only observations that do disagree, and only when a nested device exists.       *)
EXTENDS Libs
CONSTANTS ULibsLen, UInclLen, UInstLen

USeq(S, n) == UNION {[1..k -> S] : k \in 0..n}
ULibs == USeq(Libraries \cup {"Wire"}, ULibsLen)
UIncl == USeq(LibHeaders, UInclLen)
UInst == USeq(Libraries, UInstLen)

MCKindsDef == {"servo", "lcdp", "lcdi", "led"}

VerdictSound ==
    done => \A lb \in ULibs, ic \in UIncl, is \in UInst :
               /\ (ObsDiff(devs, lb, ic, is) = "") <=> Agree(devs, lb, ic, is)
               /\ KnownNestedDropped(devs, lb, ic, is)
                     => (ObsDiff(devs, lb, ic, is) # "" /\ \E i \in DOMAIN devs : devs[i].place = "nested")
KnownNeverOnIdeal   == ~KnownNestedDropped(devs, libs, incl, inst)
PlacementIrrelevant == Needed(devs) = Needed([i \in DOMAIN devs |-> Dev(devs[i].kind, "pre")])
(* the known deviation is reachable in the universe (the predicate is not vacuous) - checked as an ASSUME *)
ASSUME LET d == <<Dev("servo", "nested"), Dev("lcdp", "pre")>> IN
         /\ KnownNestedDropped(d, <<"Servo", "LiquidCrystal">>, <<"Arduino.h", "LiquidCrystal.h">>, <<"LiquidCrystal">>)
         /\ ~KnownNestedDropped(d, <<"Servo", "LiquidCrystal">>, <<"Arduino.h">>, <<"LiquidCrystal">>)
         /\ ~KnownNestedDropped(d, <<"LiquidCrystal">>, <<"Arduino.h", "LiquidCrystal.h">>, <<"LiquidCrystal">>)
=============================================================================
