INIT GInit
NEXT GNext
CONSTANTS
  MapVals <- MapValsQ
  FromRanges <- FromRangesQ
  ToRanges <- ToRangesQ
  MapTypings <- MapTypingsDef
  SleepVals <- SleepValsQ
  SleepTypings <- SleepTypingsDef
  Vias <- ViasDef
  MaxLen = 1
CONSTRAINT Emit
CHECK_DEADLOCK FALSE
