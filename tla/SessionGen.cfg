INIT GInit
NEXT GNext
CONSTANTS
  Procs = {"g"}
  Scripts = {"a", "b", "c"}
  Seeds = {0, 1}
  Digests = {"x"}
  MaxOps = 9
  Guarded = TRUE
  Subsets = {{"a", "b", "c"}}
  Mode = "atomic"
  MaxLen = 4
CONSTRAINT Emit_
VIEW View
CHECK_DEADLOCK FALSE
