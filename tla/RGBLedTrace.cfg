INIT TInit
NEXT TNext
CONSTANTS
  Colours = {}
  Durations = {}
  Times = {}
  StepsG = {}
CONSTRAINT Verdict
CHECK_DEADLOCK FALSE
