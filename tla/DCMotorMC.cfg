SPECIFICATION Spec
CONSTANTS
  Speeds <- SpeedsDef
  Durations <- DurationsDef
INVARIANT SpeedInRange
INVARIANT AppliedIsSpeedNegatedWhenInverted
INVARIANT ModeLaw
INVARIANT RampEndsAtTarget
INVARIANT RampNeverLonger
INVARIANT RunForEndsBraked
INVARIANT RunForSleepsExactly
INVARIANT DutyNeverAboveOne
INVARIANT RampMonotone
PROPERTY FailedCallLeavesState
PROPERTY InvertTwiceRestores
CHECK_DEADLOCK FALSE
