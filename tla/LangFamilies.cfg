INIT Init
NEXT Next
CONSTANTS
  Family = "bin"
  MaxNodes = 2
CONSTRAINT Emit
CHECK_DEADLOCK FALSE
