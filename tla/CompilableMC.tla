----------------------------- MODULE CompilableMC -----------------------------
EXTENDS Compilable
InputsDef == {[python |-> b, tags |-> t] : b \in BOOLEAN, t \in {{}, {"try-except"}}}
=============================================================================
