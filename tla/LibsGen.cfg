INIT GInit
NEXT GNext
CONSTANTS
  DeclKinds = {}
  MaxDevs = 0
  Plans <- PlansQ
  Shapes <- ShapesClean
  Alts = {0}
CONSTRAINT Emit
INVARIANT IdealAccepted
CHECK_DEADLOCK FALSE
