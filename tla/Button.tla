------------------------------- MODULE Button -------------------------------
(* A push button as the firmware is documented to treat it (C15): the input is SAMPLED exactly once per loop()
   pass; the on_click handler runs exactly once per released->pressed transition of the sampled signal (never
   while held, on release, or at start-up); every is_pressed() of a pass returns that pass's sample.

   The behaviour is given as a step relation over ABSTRACT EVENTS (the same vocabulary for the firmware trace
   and for the host class driven by a recorder):
       setup            the sketch enters setup()                      (firmware only)
       sample v         the input is sampled, v \in {0,1}              (digitalRead / state_provider call)
       click            the on_click handler runs
       read v           an is_pressed() call returns v
       pass             a loop() pass begins
       end hc           the run ends; hc = clicks of the host-side Button for the same per-pass signal (-1: n/a)
   handler = FALSE: the button was declared without on_click - nothing is owed, any click is spurious.
   Diff(s, e) names the first clause of the property that event e breaks in state s ("" = allowed) and
   Apply(s, e) is the state after it.  The canonical machine below (Boot / PassStart / Poll / Click / IsPressed)
   only takes allowed steps; TLC checks the property's invariants over all its behaviours (ButtonMC), generates
   stimuli from it (ButtonGen) and validates recorded traces against the same relation (ButtonTrace).

   side = "fw"  : nothing is known about the input before the first sample -> the first sample never clicks.
   side = "host": the documented Python class starts "released" (_was_pressed = False), so a signal whose first
                  sample is 1 clicks at once; C15 only claims equal click counts when the signal starts released. *)
EXTENDS Integers, Sequences, FiniteSets, TLC

CONSTANTS
    \* @type: Int;
    MaxPasses,
    \* @type: Int;
    MaxReads
VARIABLES                                  \* the button
    \* @type: Str;
    side,
    \* @type: Bool;
    handler,
    \* @type: Str;
    phase,
    \* @type: Int;
    pass,
    \* @type: Int;
    prev,
    \* @type: Int;
    value,
    \* @type: Int;
    clicks,
    \* @type: Int;
    owed,
    \* @type: Int;
    sampledThisPass,
    \* @type: Int;
    first,
    \* @type: Seq(Int);
    sig,                                   \* history / reference shadow
    \* @type: Seq(Int);
    reads,
    \* @type: Int;
    hostWas,
    \* @type: Int;
    hostClicks
bvars == <<side, handler, phase, pass, prev, value, clicks, owed, sampledThisPass, first>>
vars == <<bvars, sig, reads, hostWas, hostClicks>>

None == 2                       \* "no sample yet"
\* @type: (Str, Int) => { k: Str, v: Int, h: Int };
Ev(k, v) == [k |-> k, v |-> v, h |-> 0]

Rec == [side |-> side, handler |-> handler, phase |-> phase, pass |-> pass, prev |-> prev, value |-> value, clicks |-> clicks,
        owed |-> owed, sampled |-> sampledThisPass, first |-> first]
\* @type: (Str, Bool) => { side: Str, handler: Bool, phase: Str, pass: Int, prev: Int, value: Int, clicks: Int, owed: Int, sampled: Int, first: Int };
InitRec(sd, hd) == [side |-> sd, handler |-> hd, phase |-> "setup", pass |-> 0, prev |-> None, value |-> IF sd = "host" THEN 0 ELSE None,
                clicks |-> 0, owed |-> 0, sampled |-> 0, first |-> None]
\* @type: ({ side: Str, handler: Bool, phase: Str, pass: Int, prev: Int, value: Int, clicks: Int, owed: Int, sampled: Int, first: Int }) => Bool;
SetRec(r) == /\ side' = r.side /\ handler' = r.handler /\ phase' = r.phase /\ pass' = r.pass /\ prev' = r.prev /\ value' = r.value
             /\ clicks' = r.clicks /\ owed' = r.owed /\ sampledThisPass' = r.sampled /\ first' = r.first

-----------------------------------------------------------------------------
(* The step relation. *)
\* @type: ({ side: Str, handler: Bool, phase: Str, pass: Int, prev: Int, value: Int, clicks: Int, owed: Int, sampled: Int, first: Int }, Int) => Bool;
Rising(s, v) == s.phase = "loop" /\ s.value = 0 /\ v = 1       \* released -> pressed, seen by a loop() pass
\* @type: ({ side: Str, handler: Bool, phase: Str, pass: Int, prev: Int, value: Int, clicks: Int, owed: Int, sampled: Int, first: Int }, Int) => Bool;
Owes(s, v) == s.handler /\ Rising(s, v)                         \* ... and there is an on_click handler to run

\* @type: ({ side: Str, handler: Bool, phase: Str, pass: Int, prev: Int, value: Int, clicks: Int, owed: Int, sampled: Int, first: Int }, { k: Str, v: Int, h: Int }) => { side: Str, handler: Bool, phase: Str, pass: Int, prev: Int, value: Int, clicks: Int, owed: Int, sampled: Int, first: Int };
Apply(s, e) ==
    CASE e.k = "pass"   -> [s EXCEPT !.phase = "loop", !.pass = @ + 1, !.sampled = 0]
      [] e.k = "sample" -> [s EXCEPT !.prev = s.value, !.value = e.v, !.sampled = @ + 1,
                                     !.owed = IF Owes(s, e.v) THEN 1 ELSE 0,
                                     !.first = IF @ = None THEN e.v ELSE @]
      [] e.k = "click"  -> [s EXCEPT !.clicks = @ + 1, !.owed = 0]
      [] OTHER -> s

\* @type: ({ side: Str, handler: Bool, phase: Str, pass: Int, prev: Int, value: Int, clicks: Int, owed: Int, sampled: Int, first: Int }) => Str;
ClickClause(s) ==            \* why a handler run that is not owed is wrong
    IF s.phase = "setup" \/ s.value = None \/ (s.prev = None /\ s.side = "fw") THEN "click-at-startup"
    ELSE IF s.value = 1 /\ s.prev = 1 THEN "click-while-held"
    ELSE IF s.value = 0 /\ s.prev = 1 THEN "click-on-release"
    ELSE IF s.value = 0 THEN "click-while-released"
    ELSE "duplicate-click"

\* @type: ({ side: Str, handler: Bool, phase: Str, pass: Int, prev: Int, value: Int, clicks: Int, owed: Int, sampled: Int, first: Int }, { k: Str, v: Int, h: Int }) => Str;
Diff(s, e) ==
    CASE e.k = "setup"  -> IF s.pass = 0 /\ s.value = None /\ s.clicks = 0 THEN "" ELSE "setup-not-first"
      [] e.k = "pass"   -> IF s.owed = 1 THEN "missed-click"
                           ELSE IF s.phase = "loop" /\ s.sampled = 0 THEN "pass-without-sample" ELSE ""
      [] e.k = "sample" -> IF ~(e.v \in {0, 1}) THEN "sample-not-a-level"
                           ELSE IF s.owed = 1 THEN "missed-click"
                           ELSE IF s.phase = "loop" /\ s.sampled >= 1 THEN "sampled-twice-in-pass" ELSE ""
      [] e.k = "click"  -> IF s.owed = 1 THEN "" ELSE ClickClause(s)
      [] e.k = "read"   -> IF s.value = None \/ (s.phase = "loop" /\ s.sampled = 0) THEN "read-before-sample"
                           ELSE IF e.v # s.value THEN "read-differs-from-sample" ELSE ""
      [] e.k = "end"    -> IF s.owed = 1 THEN "missed-click"
                           ELSE IF s.phase = "loop" /\ s.sampled = 0 THEN "pass-without-sample"
                           ELSE IF s.handler /\ e.v >= 0 /\ s.first = 0 /\ s.clicks # e.v THEN "host-click-count" ELSE ""
      [] OTHER -> "unknown-event"

\* @type: ({ side: Str, handler: Bool, phase: Str, pass: Int, prev: Int, value: Int, clicks: Int, owed: Int, sampled: Int, first: Int }, { k: Str, v: Int, h: Int }, { side: Str, handler: Bool, phase: Str, pass: Int, prev: Int, value: Int, clicks: Int, owed: Int, sampled: Int, first: Int }) => Bool;
Step(s, e, t) == Diff(s, e) = "" /\ t = Apply(s, e)
\* @type: ({ side: Str, handler: Bool, phase: Str, pass: Int, prev: Int, value: Int, clicks: Int, owed: Int, sampled: Int, first: Int }, { k: Str, v: Int, h: Int }, { side: Str, handler: Bool, phase: Str, pass: Int, prev: Int, value: Int, clicks: Int, owed: Int, sampled: Int, first: Int }) => Str;
StepDiff(s, e, t) == IF Diff(s, e) # "" THEN Diff(s, e) ELSE IF t # Apply(s, e) THEN "state" ELSE ""

(* Known deviations of the pinned tree, matched exactly (see known/C15.json).
   1. is_pressed() of button B inside the on_click handler of a button polled before B (event field h = 1): the
      handler runs before B is sampled in that pass and sees the previous pass's sample.
   2. a Button constructed inside the main loop body (decl = "loop") has no sample before the first pass, yet its
      edge detector starts from "released": a button held at power-up clicks in pass 1. *)
\* @type: ({ side: Str, handler: Bool, phase: Str, pass: Int, prev: Int, value: Int, clicks: Int, owed: Int, sampled: Int, first: Int }, { k: Str, v: Int, h: Int }) => Bool;
KnownStaleReadInHandler(s, e) ==
    e.k = "read" /\ e.h = 1 /\ s.phase = "loop" /\ s.sampled = 0 /\ s.value # None /\ e.v = s.value
\* @type: ({ side: Str, handler: Bool, phase: Str, pass: Int, prev: Int, value: Int, clicks: Int, owed: Int, sampled: Int, first: Int }, { k: Str, v: Int, h: Int }, Str) => Bool;
KnownLoopDeclStartupClick(s, e, decl) ==
    decl = "loop" /\ e.k = "click" /\ s.owed = 0 /\ s.side = "fw" /\ s.phase = "loop" /\ s.pass = 1
    /\ s.prev = None /\ s.value = 1 /\ s.clicks = 0

-----------------------------------------------------------------------------
(* The canonical machine. *)
Init == /\ side \in {"fw", "host"} /\ handler \in BOOLEAN /\ phase = "setup" /\ pass = 0 /\ prev = None
        /\ value = (IF side = "host" THEN 0 ELSE None) /\ clicks = 0 /\ owed = 0 /\ sampledThisPass = 0 /\ first = None
        /\ sig = <<>> /\ reads = <<>> /\ hostWas = 0 /\ hostClicks = 0

\* @type: ({ k: Str, v: Int, h: Int }) => Bool;
Do(e) == Diff(Rec, e) = "" /\ SetRec(Apply(Rec, e))

Boot(s) ==       \* the firmware samples once in setup(): that sample can never click
    /\ side = "fw" /\ phase = "setup" /\ value = None
    /\ Do(Ev("sample", s)) /\ sig' = Append(sig, s) /\ UNCHANGED <<reads, hostWas, hostClicks>>
PassStart ==
    /\ pass < MaxPasses /\ (side = "fw" => value # None)
    /\ Do(Ev("pass", 0)) /\ reads' = <<>> /\ UNCHANGED <<sig, hostWas, hostClicks>>
Poll(s) ==       \* the one sample of this pass; the host reference is driven with the same per-pass sample
    /\ phase = "loop" /\ sampledThisPass = 0
    /\ Do(Ev("sample", s)) /\ sig' = Append(sig, s)
    /\ hostClicks' = hostClicks + (IF s = 1 /\ hostWas = 0 THEN 1 ELSE 0) /\ hostWas' = s
    /\ UNCHANGED reads
Click == Do(Ev("click", 0)) /\ UNCHANGED <<sig, reads, hostWas, hostClicks>>
IsPressed ==
    /\ phase = "loop" /\ Len(reads) < MaxReads /\ owed = 0
    /\ Do(Ev("read", value)) /\ reads' = Append(reads, value) /\ UNCHANGED <<sig, hostWas, hostClicks>>

Next == (\E s \in {0, 1} : Boot(s) \/ Poll(s)) \/ PassStart \/ Click \/ IsPressed
Spec == Init /\ [][Next]_vars

-----------------------------------------------------------------------------
(* The properties C15 names. *)
\* @type: (Seq(Int), Int) => Int;
RisingEdges(q, i) == Cardinality({j \in DOMAIN q : j >= i /\ q[j - 1] = 0 /\ q[j] = 1})     \* rising edges of q at positions >= i (i >= 2)
Signal == IF side = "host" THEN <<0>> \o sig ELSE sig       \* the host class starts from "released"

TypeOK == /\ side \in {"fw", "host"} /\ phase \in {"setup", "loop"} /\ prev \in 0..2 /\ value \in 0..2
          /\ owed \in 0..1 /\ clicks \in Nat /\ sampledThisPass \in Nat /\ first \in 0..2
SampledAtMostOncePerPass == phase = "loop" => sampledThisPass <= 1
SampledExactlyOncePerPass == [][(pass' # pass /\ phase = "loop") => sampledThisPass = 1]_vars
ClicksEqualRisingEdges == clicks + owed = (IF handler THEN RisingEdges(Signal, 2) ELSE 0)
NoClickAtStartup == (side = "fw" /\ Len(sig) <= 1) => clicks + owed = 0
ClickOnlyOnRisingEdge == [][clicks' # clicks => (clicks' = clicks + 1 /\ prev = 0 /\ value = 1 /\ owed = 1)]_vars
NoMissedClick == [][(owed = 1 /\ (pass' # pass \/ sig' # sig)) => FALSE]_vars
StableWithinPass == \A i \in 1..Len(reads) : reads[i] = value /\ value = sig[Len(sig)]
HostAgreement == (side = "fw" /\ handler /\ first = 0) => clicks + owed = hostClicks    \* same count as the host whenever it starts released
=============================================================================
