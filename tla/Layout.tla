------------------------------- MODULE Layout -------------------------------
(* Python's block structure as a state machine over PHYSICAL lines, and the two definitions property C07
   quantifies over: Ignorable(kind) - the fixed set of lines that have no meaning on the device - and
   Relayouts(skeleton) - the meaning-preserving re-layouts of a script.

   Prescriptive: this is the INDENT/DEDENT algorithm of the language reference (Lexical analysis, 2.1.8):
   an indent stack that starts at column 0; a logical line at a larger column pushes (only legal right after
   a block header), at a smaller column pops to an ENCLOSING level (any other column is an error); blank,
   whitespace-only and comment-only lines are ignored at ANY column; a trailing comment is not part of the
   line; a tab advances to the next multiple of 8 (and indentation must not depend on the tab size).

   An indentation is a sequence of unit codes: n > 0 = n spaces, 0 = one tab.
   A block path is a sequence of steps [o |-> id of the statement that opened the compound statement,
   b |-> index of the clause: 0 = first suite, 1.. = elif / else / except suites in order]; the empty path
   is the top level.  The phase/function a statement belongs to is read off its first step (Phase).      *)
EXTENDS Integers, Sequences, FiniteSets, TLC

-----------------------------------------------------------------------------
(* Columns *)
RECURSIVE ColFrom(_, _, _, _)
ColFrom(ind, i, c, tab) ==
    IF i > Len(ind) THEN c
    ELSE ColFrom(ind, i + 1, IF ind[i] = 0 THEN ((c \div tab) + 1) * tab ELSE c + ind[i], tab)
Col(ind)    == ColFrom(ind, 1, 0, 8)       \* the column Python uses
AltCol(ind) == ColFrom(ind, 1, 0, 1)       \* the same with tab size 1: both must order two indentations alike

ASSUME /\ Col(<<>>) = 0 /\ Col(<<4>>) = 4 /\ Col(<<0>>) = 8 /\ Col(<<2, 0>>) = 8 /\ Col(<<8, 0>>) = 16
       /\ Col(<<0, 0>>) = 16 /\ Col(<<7, 0, 1>>) = 9 /\ Col(<<4, 4>>) = 8 /\ AltCol(<<2, 0>>) = 3

-----------------------------------------------------------------------------
(* Line kinds *)
Openers == {"if", "for", "while", "def", "try", "main"}     \* "main" = the top-level `while True:` (Reduino: loop())
Clauses == {"elif", "else", "except"}
HeaderKinds == Openers \cup Clauses
CanFollow(hk, prev) ==      \* which clause may continue a compound statement whose latest clause is prev
    CASE hk = "elif"   -> prev \in {"if", "elif"}
      [] hk = "else"   -> prev \in {"if", "elif", "for", "while", "main", "except"}
      [] hk = "except" -> prev \in {"try", "except"}
      [] OTHER -> FALSE

Step(o, b) == [o |-> o, b |-> b]
NoLast == [o |-> 0, b |-> 0, k |-> "none"]
Lvl(c, a) == [c |-> c, a |-> a]

(* physical lines: t = "stmt" | "comment" | "blank" | "ws" (whitespace-only); hk = "" for a simple statement *)
PLine(t, ind, hk, id) == [t |-> t, ind |-> ind, hk |-> hk, id |-> id]
Transparent(ln) == ln.t \in {"comment", "blank", "ws"}

-----------------------------------------------------------------------------
(* The machine as a pure step function over a state record (used for folding over a given layout and, through
   the variables below, by TLC for model checking). *)
S0 == [stack |-> <<Lvl(0, 0)>>, path |-> <<>>, last |-> <<NoLast>>, pend |-> FALSE, assign |-> <<>>, n |-> 0, err |-> ""]
Fail(s, why) == [S0 EXCEPT !.err = why, !.n = s.n + 1]
Top(s) == s.stack[Len(s.stack)]

Push(s, c, a) == [s EXCEPT !.stack = Append(@, Lvl(c, a)), !.last = Append(@, NoLast), !.pend = FALSE]
Pop(s, k) == [s EXCEPT !.stack = SubSeq(@, 1, Len(@) - k), !.last = SubSeq(@, 1, Len(@) - k),
                       !.path = SubSeq(@, 1, Len(@) - k)]
DedentTargets(s, c) == {k \in 1..(Len(s.stack) - 1) : s.stack[Len(s.stack) - k].c = c}

(* bring the machine to the block the line's indentation selects, or fail as Python does *)
Enter(s, ind) ==
    LET c == Col(ind)  a == AltCol(ind)  t == Top(s) IN
    IF s.pend THEN (IF c > t.c THEN (IF a > t.a THEN Push(s, c, a) ELSE Fail(s, "tab-error"))
                    ELSE Fail(s, "expected-indented-block"))
    ELSE IF c = t.c THEN (IF a = t.a THEN s ELSE Fail(s, "tab-error"))
    ELSE IF c > t.c THEN Fail(s, "unexpected-indent")
    ELSE IF DedentTargets(s, c) = {} THEN Fail(s, "dedent-matches-no-outer-level")
    ELSE LET k == CHOOSE k \in DedentTargets(s, c) : TRUE IN
         IF s.stack[Len(s.stack) - k].a = a THEN Pop(s, k) ELSE Fail(s, "tab-error")

Place(s, hk, id) ==
    LET L == Len(s.stack)  lst == s.last[L]
        put == [s EXCEPT !.assign = Append(@, [id |-> id, path |-> s.path]), !.n = @ + 1] IN
    IF hk = "" THEN [put EXCEPT !.last[L] = NoLast]
    ELSE IF hk \in Openers THEN
        [put EXCEPT !.last[L] = [o |-> id, b |-> 0, k |-> hk], !.path = Append(s.path, Step(id, 0)), !.pend = TRUE]
    ELSE IF lst = NoLast \/ ~CanFollow(hk, lst.k) THEN Fail(s, "clause-without-statement")
    ELSE [put EXCEPT !.last[L] = [o |-> lst.o, b |-> lst.b + 1, k |-> hk],
                     !.path = Append(s.path, Step(lst.o, lst.b + 1)), !.pend = TRUE]

Feed(s, ln) ==
    IF s.err # "" THEN s
    ELSE IF Transparent(ln) THEN [s EXCEPT !.n = @ + 1]
    ELSE LET e == Enter(s, ln.ind) IN IF e.err # "" THEN e ELSE Place(e, ln.hk, ln.id)

RECURSIVE RunFrom(_, _, _)
RunFrom(s, lines, i) == IF i > Len(lines) THEN s ELSE RunFrom(Feed(s, lines[i]), lines, i + 1)
Run(lines) == LET s == RunFrom(S0, lines, 1) IN
              IF s.err = "" /\ s.pend THEN Fail(s, "expected-indented-block") ELSE s
Assign(lines) == Run(lines).assign          \* <<[id, path] ...>> in the order of the logical lines

-----------------------------------------------------------------------------
(* Reading a path *)
IsPrefix(p, q) == Len(p) <= Len(q) /\ SubSeq(q, 1, Len(p)) = p
Phase(path, mains, defs) ==       \* where the statement runs: mains/defs = ids of main-loop headers / of defs
    IF path = <<>> THEN "setup" ELSE IF path[1].o \in mains THEN "loop" ELSE IF path[1].o \in defs THEN "function" ELSE "setup"

(* Why an observed placement differs from the specified one ("" = it does not).  obs = the set of places (as a
   sequence of paths) where the implementation's IR holds the statement. *)
PathDiff(spec, obs, mains, defs) ==
    IF Len(obs) = 0 THEN "statement-missing"
    ELSE IF Len(obs) > 1 THEN "statement-duplicated"
    ELSE LET o == obs[1] IN
         IF o = spec THEN ""
         ELSE IF Phase(o, mains, defs) # Phase(spec, mains, defs) THEN "statement-moved-to-" \o Phase(o, mains, defs)
         ELSE IF IsPrefix(o, spec) THEN "statement-left-its-block"
         ELSE IF IsPrefix(spec, o) THEN "statement-captured-by-block"
         ELSE IF Len(o) = Len(spec) /\ \A i \in 1..Len(o) : o[i].o = spec[i].o THEN "statement-in-wrong-branch"
         ELSE "statement-in-other-block"

-----------------------------------------------------------------------------
(* C07, first half: the fixed set of lines that may vanish from the firmware without a diagnostic.
   (imports, the target() call, pass, global declarations, comments, docstrings, host-only print) *)
IgnorableKinds == {
    "import-reduino", "import-reduino-multi", "import-module", "from-import-other", "target-call",
    "pass", "global", "comment-line",
    "docstring", "docstring-single", "docstring-multiline",
    "print", "print-str"}
(* An expression statement that consists of a literal has no effect in Python either (CPython compiles it to
   nothing); `...` is the usual placeholder; a bare annotation `x: int` declares nothing at run time.  They are
   counted with the docstrings. *)
LiteralKinds == {"ellipsis", "bare-number", "annotated-decl"}
Ignorable(kind) == kind \in IgnorableKinds \cup LiteralKinds

(* Every statement kind of the catalogue (harness/layout_rec.py renders them; the check refuses kinds that are
   not listed here). *)
SupportedKinds == {
    "assign-const", "assign-expr", "augassign", "tuple-assign", "list-decl", "list-append", "list-remove",
    "ternary-assign", "bare-name", "expr-arith", "led-method", "led-on", "sleep", "serial-write", "serial-write-str",
    "fstring-write", "func-call", "builtin-call", "if-stmt", "if-else", "if-elif", "while-stmt", "for-range",
    "try-except", "break", "continue", "return-value", "return-bare",
    \* a keyword standing directly against its operand (optional spacing)
    "return-paren-tight", "return-minus-tight", "return-tab", "if-paren-tight", "elif-paren-tight", "while-paren-tight",
    "elif-pass-else", "elif-print-elif", "if-pass-else",
    \* identifiers that begin with a keyword / a word the line dispatch knows are ordinary names
    "assign-name-import-prefix", "assign-name-from-prefix", "assign-name-def-prefix", "assign-name-if-prefix", "assign-name-for-prefix",
    "assign-name-while-prefix", "assign-name-return-prefix", "assign-name-pass-prefix", "assign-name-print-prefix", "assign-name-global-prefix",
    "assign-name-try-prefix", "assign-name-else-prefix", "assign-name-target-prefix", "assign-name-sleep-prefix",
    "augassign-name-import-prefix", "call-helper-import-prefix", "call-helper-print-prefix",
    "call-helper-named-help", "call-helper-named-input", "call-helper-named-exit", "call-helper-named-quit", "call-helper-named-breakpoint",
    "call-helper-named-vars", "call-helper-named-id", "call-helper-named-dir",
    "call-helper-suffix-target", "call-helper-suffix-sleep", "call-helper-suffix-print", "call-helper-suffix-import",
    "after-docstring-trailing-comment", "after-docstring-trailing-blanks", "after-sq-docstring-trailing-tab",
    \* string literals that contain `#` after escaped quotes (a comment stripper must respect the literal), and a loop
    \* sitting next to a first assignment in the same `if` (the promotion pass rewrites that branch)
    "serial-write-hash-dq", "serial-write-hash-sq", "if-hash-literal", "if-first-assign-and-for", "else-first-assign-and-while"}
OtherKinds == {
    "for-range-2", "for-in-list", "del-name", "del-subscript", "assert", "raise", "raise-bare", "with",
    "chained-assign", "annotated-assign", "subscript-assign", "attribute-assign", "aug-subscript",
    "augassign-matmul", "starred-assign", "tuple-from-call", "walrus", "lambda-call", "lambda-assign",
    "unknown-device-method", "known-method-undeclared", "unknown-function-call", "for-else", "while-else",
    "try-finally", "try-except-else", "match", "async-def", "await", "yield", "nonlocal", "class-def",
    "nested-def", "decorator", "if-inline-suite", "while-inline-suite", "for-inline-suite", "semicolon-pair"}
StatementKinds == SupportedKinds \cup OtherKinds \cup IgnorableKinds \cup LiteralKinds
Contexts == {"top", "if", "elif", "else", "for", "while", "def", "main", "nested2"}
Outcomes == {"translated", "rejected", "skipped"}

(* Why a line is not accounted for ("" = it is). *)
AccountDiff(kind, outcome) ==
    IF kind \notin StatementKinds THEN "kind-not-in-catalogue"
    ELSE IF outcome \notin Outcomes THEN "outcome-not-classified"
    ELSE IF outcome \in {"translated", "rejected"} THEN ""
    ELSE IF Ignorable(kind) THEN ""
    ELSE "silently-dropped"

-----------------------------------------------------------------------------
(* C07, second half: the re-layouts of a skeleton.  A skeleton is the sequence of logical lines of a script,
   sk[i] = [d |-> nesting depth, hk |-> header kind or "", id |-> unique number, sps |-> <<spacing variants
   the line's text has>>, kind |-> name of the line's text template (harness/layout_rec.py)]; its canonical
   layout indents 4 spaces per level and has no extra line.
   A re-layout is a set of deviations from the canonical layout, at most one per site:
     [w |-> "unit", at |-> header i, v |-> u]   the suite of header i is indented by u in {1,2,3,8, 0 = tab}
     [w |-> "gap",  at |-> g, v |-> code]       a line inserted after logical line g (g = 0: before the first):
                                                 100 blank, 101 three spaces, 102 one tab, or a comment line whose
                                                 indentation is: j < 90 -> that of nesting level j around the gap,
                                                 90 -> deeper than everything around, 91 -> one tab, 92 -> one column
                                                 left of the deepest line around (between two levels)
     [w |-> "tc",   at |-> i, v |-> 1]          trailing comment on line i (also on block headers)
     [w |-> "tw",   at |-> i, v |-> 1]          trailing whitespace on line i
     [w |-> "sp",   at |-> i, v |-> s]          optional spacing inside line i: 1 loose (around = , ( ) : operators),
                                                 2 tight, 3 before the call parenthesis, 4 around the attribute dot,
                                                 5 doubled blanks between words                                  *)
Units == {1, 2, 3, 4, 8, 0}
IsHeader(sk, i) == sk[i].hk # ""
RECURSIVE ParentOf(_, _, _)
ParentOf(sk, i, j) == IF j = 0 THEN 0 ELSE IF sk[j].d = sk[i].d - 1 THEN j ELSE ParentOf(sk, i, j - 1)
Parent(sk, i) == IF sk[i].d = 0 THEN 0 ELSE ParentOf(sk, i, i - 1)

DevAt(devs, w, at) == {d \in devs : d.w = w /\ d.at = at}
ValAt(devs, w, at, dflt) == IF DevAt(devs, w, at) = {} THEN dflt ELSE (CHOOSE d \in DevAt(devs, w, at) : TRUE).v
UnitOf(devs, h) == ValAt(devs, "unit", h, 4)

RECURSIVE IndOf(_, _, _)
IndOf(sk, devs, i) == IF i = 0 \/ sk[i].d = 0 THEN <<>>
                      ELSE LET p == Parent(sk, i) IN Append(IndOf(sk, devs, p), UnitOf(devs, p))
(* the deepest indentation next to gap g: the suite of line g if it is a header, else line g itself *)
GapRef(sk, devs, g) == IF g = 0 THEN <<>>
                       ELSE IF IsHeader(sk, g) THEN Append(IndOf(sk, devs, g), UnitOf(devs, g)) ELSE IndOf(sk, devs, g)
GapDepth(sk, g) == IF g = 0 THEN 0 ELSE IF IsHeader(sk, g) THEN sk[g].d + 1 ELSE sk[g].d
GapCodes(sk, g) == {100, 101, 102, 90, 91, 92} \cup 0..GapDepth(sk, g)
GapLine(sk, devs, g, code) ==
    LET r == GapRef(sk, devs, g) IN
    CASE code = 100 -> PLine("blank", <<>>, "", 0)
      [] code = 101 -> PLine("ws", <<3>>, "", 0)
      [] code = 102 -> PLine("ws", <<0>>, "", 0)
      [] code = 90  -> PLine("comment", Append(r, 2), "", 0)
      [] code = 91  -> PLine("comment", <<0>>, "", 0)
      [] code = 92  -> PLine("comment", IF Col(r) >= 2 THEN <<Col(r) - 1>> ELSE <<>>, "", 0)
      [] OTHER      -> PLine("comment", SubSeq(r, 1, code), "", 0)

Sites(sk) == {<<"unit", i>> : i \in {j \in 1..Len(sk) : IsHeader(sk, j)}}
             \cup {<<"gap", g>> : g \in 0..Len(sk)}
             \cup {<<w, i>> : w \in {"tc", "tw", "sp"}, i \in 1..Len(sk)}
Dev(w, at, v) == [w |-> w, at |-> at, v |-> v]
Range(f) == {f[x] : x \in DOMAIN f}
SiteDevs(sk, site) ==
    LET w == site[1]  at == site[2] IN
    CASE w = "unit" -> {Dev(w, at, u) : u \in Units \ {4}}
      [] w = "gap"  -> {Dev(w, at, c) : c \in GapCodes(sk, at)}
      [] w = "sp"   -> {Dev(w, at, s) : s \in Range(sk[at].sps)}
      [] OTHER      -> {Dev(w, at, 1)}
Devs(sk) == UNION {SiteDevs(sk, s) : s \in Sites(sk)}
SiteOf(d) == <<d.w, d.at>>
Consistent(devs) == \A d1, d2 \in devs : SiteOf(d1) = SiteOf(d2) => d1 = d2

(* the physical lines of the re-layout `devs` of `sk`; statement lines carry their layout attributes *)
StmtLine(sk, devs, i) ==
    [t |-> "stmt", ind |-> IndOf(sk, devs, i), hk |-> sk[i].hk, id |-> sk[i].id, ln |-> i,
     tc |-> ValAt(devs, "tc", i, 0), tw |-> ValAt(devs, "tw", i, 0), sp |-> ValAt(devs, "sp", i, 0)]
GapLines(sk, devs, g) ==
    IF DevAt(devs, "gap", g) = {} THEN <<>>
    ELSE LET gl == GapLine(sk, devs, g, ValAt(devs, "gap", g, 100)) IN
         <<[t |-> gl.t, ind |-> gl.ind, hk |-> "", id |-> 0, ln |-> 0, tc |-> 0, tw |-> 0, sp |-> 0]>>
RECURSIVE RenderFrom(_, _, _)
RenderFrom(sk, devs, i) == IF i > Len(sk) THEN <<>>
                           ELSE <<StmtLine(sk, devs, i)>> \o GapLines(sk, devs, i) \o RenderFrom(sk, devs, i + 1)
Render(sk, devs) == GapLines(sk, devs, 0) \o RenderFrom(sk, devs, 1)
Canonical(sk) == Render(sk, {})

(* Relayouts(sk): every consistent set of deviations, rendered.  (Defined for reference; TLC enumerates its
   members with a bounded number of deviations - LayoutGen - rather than this set as a whole.) *)
Relayouts(sk) == {Render(sk, devs) : devs \in {x \in SUBSET Devs(sk) : Consistent(x)}}

(* A skeleton is well-formed when its canonical layout is a legal Python block structure. *)
WellFormed(sk) == Run(Canonical(sk)).err = ""

-----------------------------------------------------------------------------
(* Layout features of a re-layout that are triggers of known findings (computed on the stimulus only).
   Continues(sk, h, j): line j belongs to the compound statement that header h started or continued - it lies in
   h's suite, or it is the next clause header (elif/else/except) of the same statement. *)
RECURSIVE IsAncestor(_, _, _)
IsAncestor(sk, h, j) == IF j = 0 THEN FALSE ELSE LET p == Parent(sk, j) IN p = h \/ IsAncestor(sk, h, p)
Continues(sk, h, j) ==
    /\ h < j /\ IsHeader(sk, h)
    /\ \/ IsAncestor(sk, h, j)
       \/ /\ sk[j].hk \in Clauses /\ sk[j].d = sk[h].d /\ Parent(sk, j) = Parent(sk, h)
          /\ \A m \in (h + 1)..(j - 1) : sk[m].d > sk[h].d
(* Headers whose statement a comment line in gap g cuts, if a block ends at the first non-blank line that is not
   indented deeper than its header: the comment's column is not right of the header's column and the statement
   continues after the gap.  tab = 8 is Python's measure of a tab; tab = 4 is the measure under which the known
   finding tab-comment-cuts-block is stated. *)
CutHeaders(sk, devs, g, tab) ==
    IF g >= Len(sk) \/ DevAt(devs, "gap", g) = {} THEN {}
    ELSE LET gl == GapLine(sk, devs, g, ValAt(devs, "gap", g, 100)) IN
         IF gl.t # "comment" THEN {}
         ELSE {h \in 1..g : Continues(sk, h, g + 1) /\ ColFrom(gl.ind, 1, 0, tab) <= ColFrom(IndOf(sk, devs, h), 1, 0, tab)}
(* line kinds of the skeletons whose text is a method call on a device / serial object, or a `for ... in range(...)`:
   only there is a blank before the call parenthesis a trigger (plain calls, constructors and `def` are not) *)
MethodOrRangeKinds == {"mark", "bright", "blink", "for"}
(* feature tags of a re-layout, one <<tag, site>> per instance *)
TagsOf(sk, devs) ==
    {<<"comment-cuts-block", g>> : g \in {x \in 0..Len(sk) : CutHeaders(sk, devs, x, 8) # {}}}
    \cup {<<"tab-comment-cuts-block", g>> : g \in {x \in 0..Len(sk) : CutHeaders(sk, devs, x, 4) # CutHeaders(sk, devs, x, 8)}}
    \cup {<<"top-header-trailing-comment", i>> : i \in {x \in 1..Len(sk) : IsHeader(sk, x) /\ sk[x].d = 0 /\ ValAt(devs, "tc", x, 0) = 1}}
    \cup {<<"clause-header-trailing-comment", i>> : i \in {x \in 1..Len(sk) : sk[x].hk \in Clauses /\ sk[x].d > 0 /\ ValAt(devs, "tc", x, 0) = 1}}
    \cup {<<"space-before-call-paren", i>> : i \in {x \in 1..Len(sk) : ValAt(devs, "sp", x, 0) = 3 /\ sk[x].kind \in MethodOrRangeKinds}}
    \cup {<<"space-around-dot", i>> : i \in {x \in 1..Len(sk) : ValAt(devs, "sp", x, 0) = 4}}
TagNames(sk, devs) == {t[1] : t \in TagsOf(sk, devs)}

-----------------------------------------------------------------------------
(* The machine with state variables, one named action per kind of physical line; the alphabet of a line is its
   indentation (from the constant Indents) and its kind. *)
CONSTANTS Indents, HKinds, MaxLines
VARIABLES stack, path, last, pend, assign, lineNo, err
vars == <<stack, path, last, pend, assign, lineNo, err>>
Cur == [stack |-> stack, path |-> path, last |-> last, pend |-> pend, assign |-> assign, n |-> lineNo, err |-> err]
Becomes(s) == /\ stack' = s.stack /\ path' = s.path /\ last' = s.last /\ pend' = s.pend
              /\ assign' = s.assign /\ lineNo' = s.n /\ err' = s.err

MInit == /\ stack = S0.stack /\ path = S0.path /\ last = S0.last /\ pend = S0.pend
         /\ assign = S0.assign /\ lineNo = 0 /\ err = ""
Live == err = "" /\ lineNo < MaxLines
Accepts(ind, hk) == Feed(Cur, PLine("stmt", ind, hk, lineNo + 1)).err = ""

BlankOrComment(ind, t) == Live /\ Becomes(Feed(Cur, PLine(t, ind, "", 0)))
Simple(ind) == /\ Live /\ Accepts(ind, "") /\ Col(ind) >= Top(Cur).c
               /\ Becomes(Feed(Cur, PLine("stmt", ind, "", lineNo + 1)))
Header(ind, hk) == /\ Live /\ Accepts(ind, hk) /\ Col(ind) >= Top(Cur).c
                   /\ Becomes(Feed(Cur, PLine("stmt", ind, hk, lineNo + 1)))
Dedent(k, ind, hk) == /\ Live /\ ~pend /\ k \in DedentTargets(Cur, Col(ind)) /\ Accepts(ind, hk)
                      /\ Becomes(Feed(Cur, PLine("stmt", ind, hk, lineNo + 1)))
Reject(ind, hk) == /\ Live /\ ~Accepts(ind, hk) /\ Becomes(Feed(Cur, PLine("stmt", ind, hk, lineNo + 1)))

DoBlankOrComment == \E ind \in Indents, t \in {"comment", "blank", "ws"} : BlankOrComment(ind, t)
DoSimple == \E ind \in Indents : Simple(ind)
DoHeader == \E ind \in Indents, hk \in HKinds : Header(ind, hk)
DoDedent == \E ind \in Indents, k \in 1..3, hk \in HKinds \cup {""} : Dedent(k, ind, hk)
DoReject == \E ind \in Indents, hk \in HKinds \cup {""} : Reject(ind, hk)
Next == DoBlankOrComment \/ DoSimple \/ DoHeader \/ DoDedent \/ DoReject
Spec == MInit /\ [][Next]_vars

-----------------------------------------------------------------------------
(* Properties of the block structure *)
TypeOK == /\ pend \in BOOLEAN /\ lineNo \in 0..MaxLines /\ Len(stack) >= 1 /\ Len(last) = Len(stack)
          /\ \A i \in 1..Len(assign) : assign[i].id \in 1..MaxLines
StackStrictlyIncreasing == stack[1] = Lvl(0, 0) /\ \A i \in 2..Len(stack) : stack[i].c > stack[i - 1].c /\ stack[i].a > stack[i - 1].a
PathDepthIsStackDepth == err = "" => Len(path) = Len(stack) - 1 + (IF pend THEN 1 ELSE 0)
ErrorIsAbsorbing == err # "" => /\ stack = S0.stack /\ path = <<>> /\ assign = <<>>
(* every statement's block path extends or is a prefix of what the previous logical line left open *)
PrefixChain == \A i \in 2..Len(assign) :
                  \/ IsPrefix(assign[i].path, assign[i - 1].path)                          \* same block or dedent
                  \/ /\ Len(assign[i].path) = Len(assign[i - 1].path) + 1                 \* first line of a suite
                     /\ IsPrefix(assign[i - 1].path, assign[i].path)
(* clause indices of one compound statement are 0, 1, 2, ... in order, all at one nesting level *)
ClausesInOrder == \A i \in 1..Len(assign) : \A q \in 1..Len(assign[i].path) :
                     LET st == assign[i].path[q] IN
                     st.b > 0 => \E j \in 1..(i - 1) : /\ Len(assign[j].path) >= q
                                                        /\ SubSeq(assign[j].path, 1, q - 1) = SubSeq(assign[i].path, 1, q - 1)
                                                        /\ assign[j].path[q] = Step(st.o, st.b - 1)
(* an opener's id is the id of a logical line that was placed in the enclosing block *)
OpenersAreStatements == \A i \in 1..Len(assign) : \A q \in 1..Len(assign[i].path) :
                           \E j \in 1..(i - 1) : assign[j].id = assign[i].path[q].o /\ assign[j].path = SubSeq(assign[i].path, 1, q - 1)
(* action properties *)
CommentNeverMovesAnything ==      \* blank / whitespace-only / comment lines at ANY column change nothing but the line count
    [][DoBlankOrComment => UNCHANGED <<stack, path, last, pend, assign, err>>]_vars
DedentPopsToEnclosingLevel ==
    [][(err' = "" /\ Len(stack') < Len(stack)) =>
         /\ stack' = SubSeq(stack, 1, Len(stack'))
         /\ IsPrefix(SubSeq(path', 1, Len(stack') - 1), path)]_vars
IndentOnlyAfterHeader == [][(err' = "" /\ Len(stack') > Len(stack)) => (pend /\ Len(stack') = Len(stack) + 1)]_vars
AssignOnlyGrows == [][err' = "" => (Len(assign') >= Len(assign) /\ SubSeq(assign', 1, Len(assign)) = assign)]_vars
=============================================================================
