SPECIFICATION MCSpec
CONSTANTS
  Geoms <- GSeq
  Sides = {"host", "fw"}
  Facet = "text"
  MaxOps = 0
  Extra = 2
  Alphabet <- A1
  Marked = FALSE
INVARIANT NeverOffRow
INVARIANT NeverBeyondWidth
INVARIANT OtherRowsUntouched
INVARIANT AlignmentLaw
INVARIANT CanonicalIsAllowed
INVARIANT ProgressMonotoneSaturating
INVARIANT BacklightLaw
INVARIANT GlyphRows5bit
PROPERTY FailedCallLeavesState
CHECK_DEADLOCK FALSE
