SPECIFICATION MCSpec
CONSTANTS
  Geoms <- GeomsQ
  Sides = {"host", "fw"}
  Facet = "text"
  MaxOps = 0
  Extra = 2
  Alphabet <- AB
INVARIANT NeverOffRow
INVARIANT NeverBeyondWidth
INVARIANT OtherRowsUntouched
INVARIANT AlignmentLaw
INVARIANT CanonicalIsAllowed
INVARIANT ProgressMonotoneSaturating
INVARIANT BacklightLaw
INVARIANT GlyphRows5bit
INVARIANT FillLaw
PROPERTY FailedCallLeavesState
CHECK_DEADLOCK FALSE
