SPECIFICATION Spec
CONSTANTS
  Adcs <- AdcsDef
  Pins <- PinsDef
  MaxCalls = 5
INVARIANT TypeOK
INVARIANT FreshReadPerCall
INVARIANT AtMostOneReadPerCall
PROPERTY ReturnsTheRead
CHECK_DEADLOCK FALSE
