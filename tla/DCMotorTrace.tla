---------------------------- MODULE DCMotorTrace ----------------------------
EXTENDS DCMotor, Json, IOUtils
Traces == JsonDeserialize(IOEnv.TRACE_FILE)  \* [{id, side, ev: [{act, a, speed, inv, mode, applied, wave, res}...]}...]
VARIABLES tid, l, bad, known
T == Traces[tid]
InvDiff(sd, t, r, k) ==
    LET tol == IF sd = "host" THEN 0 ELSE 1 IN
    IF ~(-ONE <= t.speed /\ t.speed <= ONE) THEN "inv-speed-range"
    ELSE IF Abs(t.applied - Appl(t.speed, t.inv)) > tol THEN "inv-applied-vs-inverted"
    ELSE IF sd = "host" /\ ((t.mode = "drive") # (t.applied # 0)) THEN "inv-mode-drive-iff-moving"
    ELSE IF sd = "host" /\ t.applied = 0 /\ r = "ok" /\ ((t.mode = "brake") # (k.act \in {"stop", "run_for"})) THEN "inv-mode-brake-coast"
    ELSE IF t.mode \notin {"drive", "coast", "brake"} THEN "inv-mode-name"
    ELSE ""
TInit == /\ tid \in 1..Len(Traces) /\ l = 1 /\ bad = "" /\ known = {}
         /\ side = Traces[tid].side /\ speed = 0 /\ inv = FALSE /\ mode = "coast" /\ applied = 0
         /\ wave = WStart(<<"coast", 0>>) /\ res = "init" /\ last = NoCall
TNext == /\ bad = "" /\ l <= Len(T.ev)
         /\ LET e == T.ev[l]
                c == Call(e.act, e.a)
                t == St(e.speed, e.inv, e.mode, e.applied)
                d0 == IF e.act = "init" THEN (IF t = St(0, FALSE, "coast", 0) THEN "" ELSE "initial-state")
                      ELSE StepDiff(side, Cur, c, t, e.wave, e.res)
                kn == d0 # "" /\ side = "fw" /\ e.act # "init" /\ KnownTinyMode(Cur, c, t, e.wave, e.res)
                d == IF kn THEN "" ELSE d0
            IN /\ speed' = e.speed /\ inv' = e.inv /\ mode' = e.mode /\ applied' = e.applied
               /\ wave' = e.wave /\ res' = e.res /\ last' = c
               /\ known' = IF kn THEN known \cup {"motor-tiny-speed-mode"} ELSE known
               /\ bad' = IF d # "" THEN d ELSE IF e.act = "init" THEN "" ELSE InvDiff(side, t, e.res, c)
         /\ l' = l + 1 /\ UNCHANGED <<tid, side>>
Done == bad # "" \/ l > Len(T.ev)
Verdict == Done => PrintT(ToJson([id |-> T.id, ok |-> bad = "", l |-> l - 1, clause |-> bad, known |-> known]))
=============================================================================
