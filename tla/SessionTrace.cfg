INIT TInit
NEXT TNext
CONSTANTS
  Procs = {}
  Scripts = {}
  Seeds = {}
  Digests = {}
  MaxOps = 0
  Guarded = TRUE
CONSTRAINT Verdict
CHECK_DEADLOCK FALSE
