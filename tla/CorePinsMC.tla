----------------------------- MODULE CorePinsMC -----------------------------
(* Grids for CorePins (cfg files cannot hold negative literals) and the bounded-history machine: the history h
   gives an independent formulation of "a memory" - what a read returns is determined by the *last* write to
   an alias of that pin in h (MemoryLaw), checked against the state machine for every history up to MaxLen. *)
EXTENDS CorePins
LabelsDef == {"7", "8", "A0"}
NamesDef  == {Nm("int", "7"), Nm("str", "7"), Nm("int", "8"), Nm("str", "A0")}
LabelsQ   == {"7", "A0"}
NamesQ    == {Nm("int", "7"), Nm("str", "7"), Nm("str", "A0")}
ModesDef  == {"INPUT", "OUTPUT", "INPUT_PULLUP"}
\* values are in units of 1/8:  -1, 0, 1, 255, 0.5, 0.0, True, False
DValsDef  == {Val("int", -8), Val("int", 0), Val("int", 8), Val("int", 2040), Val("float", 4), Val("float", 0),
              Val("bool", 8), Val("bool", 0)}
DValsQ    == {Val("int", 0), Val("int", 8), Val("int", -8), Val("float", 4), Val("bool", 8)}
\* -1, 0, 1, 127, 255, 256, 300, 0.375, 0.5, 254.5, 255.5, -0.5, 127.0, True
AValsDef  == {Val("int", -8), Val("int", 0), Val("int", 8), Val("int", 1016), Val("int", 2040), Val("int", 2048),
              Val("int", 2400), Val("float", 3), Val("float", 4), Val("float", 2036), Val("float", 2044),
              Val("float", -4), Val("float", 1016), Val("bool", 8)}
AValsQ    == {Val("int", -8), Val("int", 0), Val("int", 1016), Val("int", 2040), Val("int", 2048), Val("float", 3),
              Val("float", 2044), Val("bool", 8)}
\* smallest grids that still exercise every law (quick tier of the exhaustive check)
ModesT    == {"INPUT", "INPUT_PULLUP"}
DValsT    == {Val("int", 0), Val("int", 8), Val("float", 4)}
AValsT    == {Val("int", -8), Val("int", 2048), Val("float", 3)}

CONSTANT MaxLen
VARIABLE h
hvars == <<vars, h>>
HInit == Init /\ h = <<>>
HNext == \E c \in Calls : Do(c) /\ h' = Append(h, c)
HSpec == HInit /\ [][HNext]_hvars
UInit == Init /\ h = <<>>              \* unbounded exploration of the (finite) state graph: h is not recorded
UNext == Next /\ UNCHANGED h
HNextB == Len(h) < MaxLen /\ HNext        \* NEXT of the bounded-history check: all histories of length <= MaxLen

RECURSIVE LastIdx(_, _, _, _)
LastIdx(hh, i, p, act) ==
    IF i = 0 THEN 0 ELSE IF hh[i].act = act /\ Label(hh[i].pin) = p THEN i ELSE LastIdx(hh, i - 1, p, act)
HistD(hh, p) ==
    LET w == LastIdx(hh, Len(hh), p, "digital_write")
        m == LastIdx(hh, Len(hh), p, "pin_mode")
    IN IF w # 0 THEN (IF Truth(hh[w].v) THEN 1 ELSE 0) ELSE IF m # 0 /\ hh[m].mode = "INPUT_PULLUP" THEN 1 ELSE 0
HistA(hh, p) ==
    LET w == LastIdx(hh, Len(hh), p, "analog_write") IN IF w # 0 THEN AnalogAllowed(hh[w].v) ELSE {0}
MemoryLaw == \A p \in Labels : RD(Cur, p) = HistD(h, p) /\ RA(Cur, p) \in HistA(h, p)
LastReadLaw ==
    (Len(h) > 0 /\ h[Len(h)].act \in Reads) =>
        LET c == h[Len(h)] IN
        IF c.act = "digital_read" THEN ret = HistD(h, Label(c.pin)) ELSE ret \in HistA(h, Label(c.pin))
=============================================================================
