SPECIFICATION Spec
CONSTANTS
  Colours <- ColoursDef
  Durations <- DurationsDef
  Times <- TimesDef
  StepsG <- StepsDef
INVARIANT ChannelsInRange
INVARIANT OnIffNonZero
INVARIANT NeverUnclamped
INVARIANT ShadowTracksPins
INVARIANT CanonicalIsAllowed
INVARIANT FadeEndsOnTarget
INVARIANT FadeStepsMonotone
INVARIANT FadeNeverLonger
INVARIANT BlinkRestores
INVARIANT BlinkSleepsExactly
PROPERTY FailedCallLeavesState
CHECK_DEADLOCK FALSE
