----------------------------- MODULE CompileTrace -----------------------------
EXTENDS Compilable, Json, IOUtils
Recs == JsonDeserialize(IOEnv.TRACE_FILE)      \* [{id, tags: [...], o: {transpile, compile, echo}}...]
VARIABLES i, done
TInit == i \in 1..Len(Recs) /\ done = FALSE /\ Init
TNext == done = FALSE /\ done' = TRUE /\ UNCHANGED <<i, stage, input, outcome, elapsed>>
TagsOf(r) == {r.tags[k] : k \in 1..Len(r.tags)}
Verdict == done => LET r == Recs[i]   d == CompileDiff(r.o)   kn == KnownCompile(r.o, TagsOf(r)) IN
                   PrintT(ToJson([id |-> r.id, ok |-> (d = "" \/ kn # ""), l |-> 1, clause |-> (IF kn # "" THEN "" ELSE d), known |-> (IF kn # "" THEN {kn} ELSE {})]))
=============================================================================
