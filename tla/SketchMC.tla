------------------------------ MODULE SketchMC ------------------------------
(* Model checking of Sketch over ALL item sequences (legal or not) up to MaxLen over a small alphabet:
   the operational verdict (ItemDiff / CloseDiff, first failing clause) rejects a sequence exactly when the
   declarative obligations (PrefixOK / WellFormed) fail.  The sequences with bad = "" are exactly the behaviours
   of the building specification SSpec, so its invariants are checked on the way.                          *)
EXTENDS Sketch
VARIABLES bad, tried       \* bad: first failing clause so far; tried: a Close was attempted
avars == <<svars, bad, tried>>

AlphabetDef ==
    {It("include", h, "") : h \in {"Servo.h", "Wire.h", "LiquidCrystal_I2C.h"}}
    \cup {It("global", n, t) : n \in {"a", "b"}, t \in {"Servo", "LiquidCrystal_I2C", "int"}}
    \cup {It("fn", "a", "a()"), It("fn", "f", "f()"), It("fn", "f", "f(int x)")}
    \cup {It("setup", "setup", "setup()"), It("loop", "loop", "loop()")}
AlphabetQ ==
    {It("include", h, "") : h \in {"Servo.h", "Wire.h", "LiquidCrystal_I2C.h"}}
    \cup {It("global", "a", t) : t \in {"Servo", "LiquidCrystal_I2C", "int"}}
    \cup {It("fn", "a", "a()"), It("fn", "f", "f()")}
    \cup {It("setup", "setup", "setup()"), It("loop", "loop", "loop()")}

AInit == SInit /\ bad = "" /\ tried = FALSE
Feed(it) == /\ bad = "" /\ ~tried /\ Len(items) < MaxLen
            /\ bad' = ItemDiff(it) /\ Read(it) /\ UNCHANGED tried
TryClose == /\ bad = "" /\ ~tried
            /\ bad' = CloseDiff /\ tried' = TRUE /\ closed' = (CloseDiff = "")
            /\ UNCHANGED <<items, included, classes, names, sigs, fnames, nsetup, nloop>>
ANext == (\E it \in Alphabet : Feed(it)) \/ TryClose
ASpec == AInit /\ [][ANext]_avars

StepMatchesDeclarative  == ~tried => ((bad = "") <=> PrefixOK(items))
CloseMatchesDeclarative == tried => ((bad = "") <=> WellFormed(items))
LegalKeepsInvariants    == (bad = "") => (AlwaysPrefixOK /\ ClosedIsWellFormed /\ ExactlyOneSetupLoop /\ IncludeIffInstance)
=============================================================================
