INIT TInit
NEXT TNext
CONSTANTS
  Cfgs = {}
  Levels = {}
  Adcs = {}
  Dists = {}
CONSTRAINT Verdict
CHECK_DEADLOCK FALSE
