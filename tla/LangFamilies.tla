---------------------------- MODULE LangFamilies ----------------------------
(* Bounded program families enumerated by TLC (the stimuli of C01/C02/C03/C05).  Every case leaves TLC as one
   JSON line; harness/langgen.py decorates it into a full Lang program (markers, run-time routing, packing).
   AST records have the JSON shapes of harness/lang.py / Appendix B of DESIGN.md.                          *)
EXTENDS Integers, Sequences, FiniteSets, TLC, Json

CONSTANT Family, MaxNodes

EInt(v) == [k |-> "int", v |-> v]
EFloat(n, d) == [k |-> "float", n |-> n, d |-> d]
EVar(n) == [k |-> "var", n |-> n]
ERead == [k |-> "aread"]
EBin(op, l, r) == [k |-> "bin", op |-> op, l |-> l, r |-> r]

BinOps == <<"+", "-", "*", "/", "//", "%", "**", "&", "|", "^", "<<", ">>">>
CmpOps == <<"<", "<=", "==", "!=", ">", ">=">>
IntVals == <<-7, -2, -1, 0, 1, 2, 7>>
HalfVals == <<-3, -1, 1, 4>>          \* floats -1.5, -0.5, 0.5, 2.0 as halves
(* operand descriptor: [t |-> "i", v |-> n] an int read at run time; [t |-> "f", v |-> h] the float h/2 *)
Operands == [i \in 1..(Len(IntVals) + Len(HalfVals)) |->
               IF i <= Len(IntVals) THEN [t |-> "i", v |-> IntVals[i]] ELSE [t |-> "f", v |-> HalfVals[i - Len(IntVals)]]]

VARIABLES a, b, c, done
vars == <<a, b, c, done>>

(* ---- family "bin": every binary operator x operand pair; "cmp": comparisons; "aug": augmented assignment ---- *)
BinInit == a \in 1..Len(BinOps) /\ b \in 1..Len(Operands) /\ c \in 1..Len(Operands) /\ done = FALSE
CmpInit == a \in 1..Len(CmpOps) /\ b \in 1..Len(Operands) /\ c \in 1..Len(Operands) /\ done = FALSE
BinCase == [fam |-> Family, op |-> (IF Family = "cmp" THEN CmpOps[a] ELSE BinOps[a]), l |-> Operands[b], r |-> Operands[c]]

(* ---- family "skel": control skeletons.  A node is [k, a, b]: k in m(arker-only) if ifelse elif while for
        break continue pass; a, b are blocks (sequences of nodes).  Blocks(n, inloop) = all blocks with exactly
        n nodes; break/continue only inside a loop.                                                        ---- *)
Leaf(k) == [k |-> k, a |-> <<>>, b |-> <<>>]
RECURSIVE Blocks(_, _), Stmts(_, _)
Stmts(n, inloop) ==
    IF n = 1 THEN {Leaf("pass")} \cup (IF inloop THEN {Leaf("break"), Leaf("continue")} ELSE {})
                 \cup {[k |-> "if", a |-> <<>>, b |-> <<>>], [k |-> "while", a |-> <<>>, b |-> <<>>], [k |-> "for", a |-> <<>>, b |-> <<>>]}
    ELSE {[k |-> "if", a |-> x, b |-> <<>>] : x \in Blocks(n - 1, inloop)}
         \cup {[k |-> "while", a |-> x, b |-> <<>>] : x \in Blocks(n - 1, TRUE)}
         \cup {[k |-> "for", a |-> x, b |-> <<>>] : x \in Blocks(n - 1, TRUE)}
         \cup UNION {{[k |-> kk, a |-> x, b |-> y] : x \in Blocks(j, inloop), y \in Blocks(n - 1 - j, inloop)} :
                      j \in 0..(n - 1), kk \in {"ifelse", "elif"}}
Blocks(n, inloop) ==
    IF n = 0 THEN {<<>>}
    ELSE UNION {{<<s>> \o rest : s \in Stmts(j, inloop), rest \in Blocks(n - j, inloop)} : j \in 1..n}
SkelSet == UNION {Blocks(n, FALSE) : n \in 1..MaxNodes}
VARIABLE sk
SkelInit == sk \in SkelSet /\ a = 0 /\ b = 0 /\ c = 0 /\ done = FALSE

(* ---- family "tflow": sequences of up to MaxNodes types assigned to one name, at each kind of site (C02) ---- *)
Types == <<"int", "float", "bool", "str">>
Sites == <<"straight", "taken-branch", "untaken-branch", "else-branch", "for-body", "while-body", "function-local",
           "param-two-call-sites", "return-join", "hoisted-from-branch", "hoisted-from-loop", "augmented", "swap",
           "tuple-reads-earlier-target", "comprehension-shadows-name", "comprehension-shadows-parameter", "query-result">>
TFlowInit == /\ a \in 1..Len(Sites) /\ b \in 1..Len(Types)
             /\ c \in (IF MaxNodes >= 2 THEN 0..Len(Types) ELSE {0}) /\ done = FALSE
TFlowCase == [fam |-> "tflow", site |-> Sites[a], t1 |-> Types[b], t2 |-> (IF c = 0 THEN "none" ELSE Types[c])]

Init == IF Family = "skel" THEN SkelInit
        ELSE (IF Family = "cmp" THEN CmpInit ELSE IF Family = "tflow" THEN TFlowInit ELSE BinInit) /\ sk = <<>>
Next == done = FALSE /\ done' = TRUE /\ UNCHANGED <<a, b, c, sk>>
Emit == done => PrintT(ToJson(IF Family = "skel" THEN [fam |-> "skel", body |-> sk]
                              ELSE IF Family = "tflow" THEN TFlowCase ELSE BinCase))
=============================================================================
