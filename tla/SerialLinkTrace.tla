--------------------------- MODULE SerialLinkTrace ---------------------------
(* Batch validation of recorded link histories: every event is one operation with what the REAL side produced -
     hw: the bytes SerialMonitor.write handed to the port      dw: the bytes of the line the firmware printed
     dr: the value the firmware's variable holds after mon.read()   hr: the value SerialMonitor.read returned
   - replayed through SerialLink's operations; total verdicts naming the first failing clause. *)
EXTENDS SerialLink, Json, IOUtils
Traces == JsonDeserialize(IOEnv.TRACE_FILE)     \* [{id, nl: [bytes], ev: [{k, t: [bytes], p: [bytes], to}...]}...]
VARIABLES tid, l, bad, known
T == Traces[tid]
Bytes(x) == [i \in 1..Len(x) |-> x[i]]          \* (JSON arrays arrive as sequences; an empty one as <<>>)
TInit == tid \in 1..Len(Traces) /\ l = 1 /\ bad = "" /\ known = {} /\ LInit
Diff(e) ==
    CASE e.k = "hw" -> IF Bytes(e.p) # HostPayload(Bytes(e.t), Bytes(T.nl)) THEN "host-payload-differs" ELSE ""
      [] e.k = "dw" -> IF Bytes(e.p) # DevPayload(Bytes(e.t)) THEN "device-payload-differs" ELSE ""
      [] e.k = "dr" -> LET r == DevReadOf(h2d) IN
                       IF Bytes(e.p) # r[1] THEN "device-read-differs" ELSE IF e.to # r[3] THEN "device-timeout-differs" ELSE ""
      [] e.k = "hr" -> IF Bytes(e.p) # HostReadOf(d2h)[1] THEN "host-read-differs" ELSE ""
      [] OTHER -> "unknown-event"
Apply(e) ==
    CASE e.k = "hw" -> HostWrite(Bytes(e.t), Bytes(T.nl))
      [] e.k = "dw" -> DevWrite(Bytes(e.t))
      [] e.k = "dr" -> DevRead
      [] e.k = "hr" -> HostRead
      [] OTHER -> UNCHANGED lvars
TNext == /\ bad = "" /\ l <= Len(T.ev)
         /\ bad' = Diff(T.ev[l]) /\ Apply(T.ev[l])
         /\ l' = l + 1 /\ UNCHANGED <<tid, known>>
Done == bad # "" \/ l > Len(T.ev)
(* the delivery laws hold in every state a recorded history reaches *)
LawsHold == H2DFaithful(Bytes(T.nl)) /\ H2DKeepsCR(Bytes(T.nl)) /\ D2HFaithful /\ NoInvention(Bytes(T.nl))
Verdict == Done => PrintT(ToJson([id |-> T.id, ok |-> (bad = ""), l |-> l - 1, clause |-> bad, known |-> known]))
=============================================================================
