INIT Init
NEXT NextOnce
CONSTANTS
  MapVals <- MapValsQ
  FromRanges <- FromRangesQ
  ToRanges <- ToRangesQ
  MapTypings <- MapTypingsDef
  SleepVals <- SleepValsQ
  SleepTypings <- SleepTypingsDef
  Vias <- ViasDef
INVARIANT CanonicalIsAllowed
INVARIANT AllInRange
INVARIANT ZeroSpanRefused
INVARIANT MapEndpoints
INVARIANT SleepExactlyOnce
INVARIANT NegativeSleepRefused
INVARIANT RefusedSleepDoesNotWait
CHECK_DEADLOCK FALSE
