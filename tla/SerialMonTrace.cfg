INIT TInit
NEXT TNext
CONSTANTS
  Cfgs = {}
  Ports = {}
  Texts = {}
  Lines = {}
  Emits = {}
CONSTRAINT Verdict
CHECK_DEADLOCK FALSE
