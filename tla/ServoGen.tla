------------------------------ MODULE ServoGen ------------------------------
EXTENDS ServoMC, Json
CONSTANT MaxLen
VARIABLE h
GInit == Init /\ side = "host" /\ h = <<>>
GNext == \E k \in Calls(cal) : Do(k) /\ h' = Append(h, k)
Emit  == IF Len(h) >= MaxLen THEN PrintT(ToJson([cal |-> cal, h |-> h])) /\ FALSE ELSE TRUE
EmitSim == Len(h) < MaxLen \/ PrintT(ToJson([cal |-> cal, h |-> h]))
=============================================================================
