INIT TInit
NEXT TNext
CONSTANTS
  Inputs = {}
CONSTRAINT Verdict
CHECK_DEADLOCK FALSE
