-------------------------------- MODULE Bind --------------------------------
(* Python's call-argument binding, as a machine.  A signature is a sequence of parameters
   [name, kind \in {"pos_or_kw","kw_only"}, dflt \in BOOLEAN] (positional-or-keyword parameters first, required
   before defaulted among them - what `def` itself enforces); a call shape is <<np, kw>>: the number of positional
   arguments and the ordered list of keywords.  A keyword is a parameter index 1..N, or 0 for a name no parameter
   has, or N+j for the j-th *alias* the transpiler is known to read although the host signature has no such name
   (to Python both are unknown keywords).
   The machine consumes the positional arguments left to right, then the keywords in call order, then fills the
   declared defaults; it fails with the first reason it meets.  The result is bound: parameter -> argument slot
   (PosSlot(i) / KwSlot(k)) or Default.  Every argument slot carries the literal that the harness chose for the
   parameter the slot *should* reach (i-th positional: the i-th parameter's literal; keyword n: n's literal), so
   ValTok(p) - the literal parameter p ends up with - is readable from an IR field or from inspect.BoundArguments.
   Prescriptive: this is what `inspect.Signature.bind` + `apply_defaults` does on the host classes (property C08:
   every calling convention Python accepts is bound by the transpiler to the same values, or rejected).         *)
EXTENDS Integers, Sequences, FiniteSets, TLC, SequencesExt

CONSTANT ShapeMode    \* "enum": the C08 enumeration per callable; "all": every shape over the signature (small signatures only)
\* A signature record: [name |-> "RGBLed.on", nalias |-> 0, fullperm |-> 4,
\*                      params |-> <<[name |-> "red", kind |-> "pos_or_kw", dflt |-> TRUE], ...>>]
\* fullperm: every keyword order is enumerated up to this many keywords; rotations + reversal beyond.
\* The sequence of signatures is an argument of InitOver (a plain definition of the extending module - TLC caches
\* those, whereas a CONSTANT substituted in the cfg is re-evaluated on every use).

VARIABLES c, sig, shape, npb, nkb, bound, err
vars == <<c, sig, shape, npb, nkb, bound, err>>
\* c: index of the callable in the sequence of signatures, sig: its signature; shape: <<np, kw>>;
\* npb / nkb: positionals / keywords consumed so far; bound: parameter index -> Unbound | Default | slot;
\* err: "" or the reason of the failure

Unbound == 0
Default == -1
PosSlot(i) == i
KwSlot(k) == 100 + k
IsPos(s) == s >= 1 /\ s <= 100
IsKw(s) == s > 100
Reasons == {"too-many-positionals", "duplicate", "unknown-keyword", "missing-required"}

P(s) == s.params
N(s) == Len(P(s))
NPos(s) == Cardinality({p \in 1..N(s) : P(s)[p].kind = "pos_or_kw"})
BMin(a, b) == IF a < b THEN a ELSE b
RangeOf(s) == {s[i] : i \in 1..Len(s)}

(* s: a signature record.  What `def` guarantees about a signature (the harness refuses anything else: *args,
   **kwargs, positional-only parameters). *)
WellFormed(s) ==
    /\ \A i, j \in 1..N(s) : i < j /\ P(s)[i].kind = "kw_only" => P(s)[j].kind = "kw_only"
    /\ \A i, j \in 1..N(s) : i < j /\ P(s)[j].kind = "pos_or_kw" /\ P(s)[i].dflt => P(s)[j].dflt
    /\ \A i \in 1..N(s) : P(s)[i].kind \in {"pos_or_kw", "kw_only"} /\ P(s)[i].dflt \in BOOLEAN

-----------------------------------------------------------------------------
(* Declarative reading of a shape: which parameters receive an argument, what is wrong with the call. *)
Provided(s, sh) == (1..BMin(sh[1], NPos(s))) \cup (RangeOf(sh[2]) \cap (1..N(s)))
PassedByKeyword(sh, p) == \E k \in 1..Len(sh[2]) : sh[2][k] = p
PassedByPosition(s, sh, p) == p <= BMin(sh[1], NPos(s))
Defects(s, sh) ==
    (IF sh[1] > NPos(s) THEN {"too-many-positionals"} ELSE {})
    \cup (IF \E k \in 1..Len(sh[2]) : sh[2][k] \notin 1..N(s) THEN {"unknown-keyword"} ELSE {})
    \cup (IF \E k \in 1..Len(sh[2]) : \/ sh[2][k] \in 1..BMin(sh[1], NPos(s))
                                       \/ \E k2 \in 1..(k - 1) : sh[2][k2] = sh[2][k] /\ sh[2][k] \in 1..N(s)
          THEN {"duplicate"} ELSE {})
    \cup (IF \E p \in 1..N(s) : ~P(s)[p].dflt /\ p \notin Provided(s, sh) THEN {"missing-required"} ELSE {})
Legal(s, sh) == Defects(s, sh) = {}
KwPos(sh, p) == CHOOSE k \in 1..Len(sh[2]) : sh[2][k] = p
Expect(s, sh) ==    \* the binding of a legal shape, in closed form
    [p \in 1..N(s) |-> IF p <= sh[1] THEN PosSlot(p) ELSE IF PassedByKeyword(sh, p) THEN KwSlot(KwPos(sh, p)) ELSE Default]

-----------------------------------------------------------------------------
(* The call shapes of one callable. *)
RECURSIVE Perms(_)
Perms(S) == IF S = {} THEN {<<>>} ELSE UNION {{<<x>> \o q : q \in Perms(S \ {x})} : x \in S}
Asc(S) == SetToSortSeq(S, LAMBDA a, b : a < b)      \* the elements of a set of integers in ascending order
Rev(q) == Reverse(q)
Rot(q, r) == SubSeq(q, r + 1, Len(q)) \o SubSeq(q, 1, r)
Orders(s, S) == IF Cardinality(S) <= s.fullperm THEN Perms(S)
                ELSE LET a == Asc(S) IN {Rot(a, r) : r \in 0..(Len(a) - 1)} \cup {Rev(a)}
Sh(n, o) == <<n, o>>     \* a shape is the pair <<np, kw>> (TLC handles sets of tuples much faster than sets of records)
(* positional prefix length x every subset of the remaining parameters by keyword x keyword order: contains every
   legal shape (every subset of defaults omitted) and every shape whose only defect is a missing required argument *)
SubsetFamily(s) ==
    UNION {UNION {{Sh(n, o) : o \in Orders(s, S)} : S \in SUBSET ((n + 1)..N(s))} : n \in 0..NPos(s)}
(* canonical base per prefix length: the remaining required parameters by keyword, in signature order *)
BaseKw(s, n) == Asc({p \in (n + 1)..N(s) : ~P(s)[p].dflt})
IllegalFamily(s) ==
    {Sh(NPos(s) + 1, BaseKw(s, NPos(s)))}
    \cup UNION {UNION {{Sh(n, <<d>> \o BaseKw(s, n)), Sh(n, BaseKw(s, n) \o <<d>>)} : d \in 1..n} : n \in 1..NPos(s)}
    \cup UNION {UNION {{Sh(n, <<u>> \o BaseKw(s, n)), Sh(n, BaseKw(s, n) \o <<u>>)}
                       : u \in {0} \cup ((N(s) + 1)..(N(s) + s.nalias))} : n \in 0..NPos(s)}
AllShapes(s) ==   \* no keyword repeated (that is a SyntaxError before any binding happens)
    {Sh(n, o) : n \in 0..(N(s) + 1), o \in UNION {Perms(S) : S \in SUBSET (0..N(s))}}
ShapeSet(s) == IF ShapeMode = "all" THEN AllShapes(s) ELSE SubsetFamily(s) \cup IllegalFamily(s)

-----------------------------------------------------------------------------
(* The machine. *)
Start(i, s, sh) == /\ c = i /\ sig = s /\ shape = sh /\ npb = 0 /\ nkb = 0
                   /\ bound = [p \in 1..N(s) |-> Unbound] /\ err = ""
(* Initial states: one per callable and shape.  For the enumeration the nested quantifiers spell out
   ShapeSet(s) = SubsetFamily(s) \cup IllegalFamily(s) without building the set (TLC: much cheaper). *)
InitOver(all) ==
    \E i \in 1..Len(all) :
        IF ShapeMode = "all" THEN \E sh \in AllShapes(all[i]) : Start(i, all[i], sh)
        ELSE \/ \E n \in 0..NPos(all[i]) : \E S \in SUBSET ((n + 1)..N(all[i])) : \E o \in Orders(all[i], S) :
                   Start(i, all[i], Sh(n, o))
             \/ \E sh \in IllegalFamily(all[i]) : Start(i, all[i], sh)

Running == err = ""
PosDone == npb = shape[1]
SlotsDone == PosDone /\ nkb = Len(shape[2])
Terminal == err # "" \/ (SlotsDone /\ \A p \in 1..N(sig) : bound[p] # Unbound)

BindPositional(i) ==           \* the i-th positional argument goes to the i-th positional-or-keyword parameter
    /\ Running /\ i = npb + 1 /\ i <= shape[1] /\ i <= NPos(sig)
    /\ bound' = [bound EXCEPT ![i] = PosSlot(i)] /\ npb' = i
    /\ UNCHANGED <<c, sig, shape, nkb, err>>
BindKeyword(k) ==              \* the k-th keyword goes to the parameter of that name, if it is still free
    /\ Running /\ PosDone /\ k = nkb + 1 /\ k <= Len(shape[2])
    /\ shape[2][k] \in 1..N(sig) /\ bound[shape[2][k]] = Unbound
    /\ bound' = [bound EXCEPT ![shape[2][k]] = KwSlot(k)] /\ nkb' = k
    /\ UNCHANGED <<c, sig, shape, npb, err>>
FillDefault(p) ==              \* a parameter nobody named takes its declared default (in any order)
    /\ Running /\ SlotsDone /\ p \in 1..N(sig) /\ bound[p] = Unbound /\ P(sig)[p].dflt
    /\ bound' = [bound EXCEPT ![p] = Default]
    /\ UNCHANGED <<c, sig, shape, npb, nkb, err>>
FillAllDefaults ==             \* every remaining default at once: what FillDefault reaches in any order (checked by BindMC)
    /\ Running /\ SlotsDone /\ {p \in 1..N(sig) : bound[p] = Unbound} # {}
    /\ \A p \in 1..N(sig) : bound[p] = Unbound => P(sig)[p].dflt
    /\ bound' = [p \in 1..N(sig) |-> IF bound[p] = Unbound THEN Default ELSE bound[p]]
    /\ UNCHANGED <<c, sig, shape, npb, nkb, err>>
CanFail(r) ==
    CASE r = "too-many-positionals" -> npb < shape[1] /\ npb + 1 > NPos(sig)
      [] r = "unknown-keyword" -> PosDone /\ nkb < Len(shape[2]) /\ shape[2][nkb + 1] \notin 1..N(sig)
      [] r = "duplicate" -> PosDone /\ nkb < Len(shape[2]) /\ shape[2][nkb + 1] \in 1..N(sig) /\ bound[shape[2][nkb + 1]] # Unbound
      [] r = "missing-required" -> SlotsDone /\ \E p \in 1..N(sig) : bound[p] = Unbound /\ ~P(sig)[p].dflt
      [] OTHER -> FALSE
Fail(r) == /\ Running /\ CanFail(r) /\ err' = r /\ UNCHANGED <<c, sig, shape, npb, nkb, bound>>

DoPositional == \E i \in 1..(NPos(sig) + 1) : BindPositional(i)
DoKeyword == \E k \in 1..Len(shape[2]) : BindKeyword(k)
DoDefault == \E p \in 1..N(sig) : FillDefault(p)
DoFail == \E r \in Reasons : Fail(r)
Next == DoPositional \/ DoKeyword \/ DoDefault \/ FillAllDefaults \/ DoFail

(* A deterministic schedule of the same machine (trace validation): failures first, all defaults in one step.
   DetNext => Next; the model check shows that the order of FillDefault does not matter. *)
DetNext == \/ \E r \in Reasons : Fail(r)
           \/ /\ \A r \in Reasons : ~CanFail(r)
              /\ \/ BindPositional(npb + 1)
                 \/ BindKeyword(nkb + 1)
                 \/ FillAllDefaults

-----------------------------------------------------------------------------
(* The value a parameter ends up with: the index of the parameter whose literal it received, or 0 for its own
   documented default. *)
SlotLit(sh, s) == IF IsPos(s) THEN s ELSE sh[2][s - 100]
ValTok(p) == IF bound[p] = Default THEN 0 ELSE IF bound[p] = Unbound THEN -1 ELSE SlotLit(shape, bound[p])
ValToks == [p \in 1..N(sig) |-> ValTok(p)]

-----------------------------------------------------------------------------
(* Properties (checked by TLC in every reachable state of every shape). *)
SigWellFormed == WellFormed(sig)
TypeOK == /\ npb \in 0..shape[1] /\ nkb \in 0..Len(shape[2])
          /\ err \in Reasons \cup {""}
          /\ \A p \in 1..N(sig) : bound[p] \in {Unbound, Default} \cup (1..shape[1]) \cup {KwSlot(k) : k \in 1..Len(shape[2])}
SlotUsedOnce == \A p, q \in 1..N(sig) : p # q /\ bound[p] > 0 => bound[p] # bound[q]
PositionalInOrder == \A p \in 1..N(sig) : IsPos(bound[p]) => bound[p] = p /\ p <= NPos(sig) /\ p <= npb
KeywordByName == \A p \in 1..N(sig) : IsKw(bound[p]) => bound[p] - 100 <= nkb /\ shape[2][bound[p] - 100] = p
DefaultOnlyIfDeclaredAndFree == \A p \in 1..N(sig) : bound[p] = Default => P(sig)[p].dflt /\ p \notin Provided(sig, shape)
FailureIsJustified == err # "" => err \in Defects(sig, shape)
TerminalIsDeclarative ==       \* the machine and the closed form agree: legality, and the binding of legal calls
    Terminal => /\ (err = "") <=> Legal(sig, shape)
                /\ err = "" => bound = Expect(sig, shape)
EverySlotConsumed == Terminal /\ err = "" =>
    /\ \A i \in 1..shape[1] : \E p \in 1..N(sig) : bound[p] = PosSlot(i)
    /\ \A k \in 1..Len(shape[2]) : \E p \in 1..N(sig) : bound[p] = KwSlot(k)
(* The statement of C08 at specification level: for a call Python accepts, the value every parameter receives
   depends only on *which* parameters are given - not on the positional/keyword split nor on keyword order. *)
ConventionIrrelevant == Terminal /\ err = "" =>
    \A p \in 1..N(sig) : ValTok(p) = IF p \in Provided(sig, shape) THEN p ELSE 0
Progress == Terminal \/ ENABLED Next
DetEnabled == Terminal \/ ENABLED DetNext
Bounded == npb + nkb + Cardinality({p \in 1..N(sig) : bound[p] = Default}) <= shape[1] + Len(shape[2]) + N(sig)

-----------------------------------------------------------------------------
(* KNOWN deviations of the pinned transpiler, matched exactly (callable, parameter, passing mode, observed token)
   so that any other mis-binding of the same call is still reported.  o is the observed token of parameter p. *)
CName(s) == s.name
PName(s, p) == P(s)[p].name
ParamNamed(s, n) == CHOOSE p \in 1..N(s) : PName(s, p) = n
HasParam(s, n) == \E p \in 1..N(s) : PName(s, p) = n
(* 1. RGBLed.on reads its three components by position only: a component passed by keyword is silently ignored and
      the IR carries the documented default (255). *)
PositionalOnlyReaders == {"RGBLed.on"}
KnownKeywordIgnored(s, sh, p, o) ==
    CName(s) \in PositionalOnlyReaders /\ PassedByKeyword(sh, p) /\ ~PassedByPosition(s, sh, p) /\ o = 0
(* 2. LCD(..., i2c_addr=a) selects the I2C backpack and silently drops every parallel pin given in the same call
      (the host class raises ValueError for that combination): the IR field holds None, the default. *)
ParallelPins == {"rs", "en", "d4", "d5", "d6", "d7", "rw"}
KnownI2cDropsParallelPin(s, sh, p, o) ==
    /\ CName(s) = "LCD" /\ PName(s, p) \in ParallelPins /\ p \in Provided(s, sh)
    /\ HasParam(s, "i2c_addr") /\ ParamNamed(s, "i2c_addr") \in Provided(s, sh) /\ o = 0
KnownTag(s, sh, p, o) ==
    IF KnownKeywordIgnored(s, sh, p, o) THEN "kw-ignored:" \o CName(s) \o "." \o PName(s, p)
    ELSE IF KnownI2cDropsParallelPin(s, sh, p, o) THEN "i2c-drops:" \o CName(s) \o "." \o PName(s, p)
    ELSE ""
=============================================================================
