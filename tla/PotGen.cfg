INIT GInit
NEXT GNext
CONSTANTS
  Adcs <- AdcsQ
  Pins <- PinsDef
  MaxCalls = 4
  MaxLen = 4
CONSTRAINT Emit
CHECK_DEADLOCK FALSE
