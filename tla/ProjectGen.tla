------------------------------ MODULE ProjectGen ------------------------------
(* Stimulus generation: every library list of length <= MaxLibs over LibNames, with the list the
   specification expects in lib_deps. *)
EXTENDS Project
CONSTANT MaxLibs
VARIABLE q
GInit == q \in LibSeqs(MaxLibs) /\ fs = <<>> /\ res = NoRes
GNext == UNCHANGED <<q, fs, res>>
EmitLibs == PrintT(ToJson([libs |-> q, expect |-> Dedup(q)])) /\ FALSE
=============================================================================
