----------------------------- MODULE SessionTrace -----------------------------
(* Batch trace validation for Session.  One trace = the events of every process that worked on one group of
   scripts (all seeds, all schedules, the split parse/emit plans and the two-thread processes) in the order
   the recorder collected them, preceded by the reference process.  Every reported digest must be a step of
   Session (EmitDiff / TranspileDiff), observations made under one seed must agree whatever else happened
   (SeedClash - never excused), and the module-level state of the transpiler must be unchanged after every
   call.  Verdicts are total: a trace is followed to its end or to the first rejected event, whose failing
   clause is named.  `found` collects the known deviations that were matched exactly on the way.
   T = [id, procs: [pid...], scripts: [sid...], trigger: [sid |-> n], ev: [[e, p, ...]...]]                 *)
EXTENDS Session, Json, IOUtils

Traces == JsonDeserialize(IOEnv.TRACE_FILE)
VARIABLES tid, l, bad, found, ref
T == Traces[tid]
ToSet(q) == {q[i] : i \in 1..Len(q)}
NoRef == [m |-> None, c |-> None]

TInit == /\ tid \in 1..Len(Traces) /\ l = 1 /\ bad = "" /\ found = {}
         /\ alive = {}
         /\ seed = [p \in ToSet(Traces[tid].procs) |-> 0]
         /\ hist = [p \in ToSet(Traces[tid].procs) |-> <<>>]
         /\ pending = [p \in ToSet(Traces[tid].procs) |-> {}]
         /\ known = [s \in ToSet(Traces[tid].scripts) |-> None]
         /\ ref = [s \in ToSet(Traces[tid].scripts) |-> NoRef]
         /\ obs = {}

Skip(d) == bad' = d /\ UNCHANGED <<vars, found, ref>>

TReport(e) ==
    LET strict == IF e.p \in alive THEN SeedClash(e.s, seed[e.p], hist[e.p], e.d) ELSE ""
        d0 == IF strict # "" THEN strict
              ELSE IF e.e = "emit" THEN EmitDiff(e.p, e.s, e.d) ELSE TranspileDiff(e.p, e.s, e.d)
        kn == /\ d0 = "digest-differs-across-seeds" /\ strict = ""
              /\ KnownPromotionOrder(T.trigger[e.s], [d |-> known[e.s], m |-> ref[e.s].m, c |-> ref[e.s].c], e)
    IN IF d0 # "" /\ ~kn THEN Skip(d0)
       ELSE /\ IF e.e = "emit" THEN (IF e.keep THEN EmitKeepAny(e.p, e.s, e.d) ELSE EmitAny(e.p, e.s, e.d)) ELSE TranspileAny(e.p, e.s, e.d)
            /\ ref' = [ref EXCEPT ![e.s] = IF known[e.s] = None THEN [m |-> e.m, c |-> e.c] ELSE @]
            /\ found' = IF kn THEN found \cup {"promotion-order-hash-seed"} ELSE found
            /\ bad' = ""

TNext == /\ bad = "" /\ l <= Len(T.ev)
         /\ LET e == T.ev[l] IN
              CASE e.e = "spawn" -> (IF e.p \in alive THEN Skip("spawn-of-live-process")
                                     ELSE Spawn(e.p, e.seed) /\ UNCHANGED <<bad, found, ref>>)
                [] e.e = "parse" -> (IF e.p \notin alive THEN Skip("process-not-alive")
                                     ELSE Parse(e.p, e.s) /\ UNCHANGED <<bad, found, ref>>)
                [] e.e \in {"emit", "transpile"} -> TReport(e)
                [] e.e = "snap"  -> (IF e.same THEN UNCHANGED <<vars, bad, found, ref>> ELSE Skip("module-state-mutated"))
                [] e.e = "exit"  -> (IF e.p \notin alive THEN Skip("process-not-alive")
                                     ELSE Exit(e.p) /\ UNCHANGED <<bad, found, ref>>)
                [] OTHER -> Skip("unknown-event")
         /\ l' = l + 1 /\ UNCHANGED tid

Done == bad # "" \/ l > Len(T.ev)
(* The invariant of the property on the implementation's own observations (evaluated once, on the final state:
   obs only grows).  With no known deviation matched it is OneDigestPerScript itself. *)
FinalInv == /\ \A o1, o2 \in obs : (o1.s = o2.s /\ o1.seed = o2.seed) => o1.d = o2.d
            /\ (found = {} => OneDigestPerScript)
Verdict == Done => LET inv == bad # "" \/ FinalInv IN
                   PrintT(ToJson([id |-> T.id, ok |-> bad = "" /\ inv, l |-> l - 1,
                                  clause |-> IF inv THEN bad ELSE "inv-one-digest-per-script", known |-> found]))
=============================================================================
