------------------------------- MODULE Pipeline -------------------------------
(* C11, second half (and the protocol C06 builds on) - one transpilation as a protocol:
       Start(input) -> Tick* -> ( Accept | Reject(cls) ) [ -> Compile(ok) ]
   An input descriptor is a record with python \in BOOLEAN (does CPython itself compile the text? - the
   reference for "text that is not Python") and tags (syntactic features of the stimulus, used only by the
   named known deviations below).  Outcome classes of the specification:
       Accept, Reject("ValueError"), and Reject("SyntaxError") only for text that is not Python.
   Crash(any other exception class) and Timeout (more than 2 s of CPU for one input) are NOT behaviours of
   this specification - there is no such action.  elapsed is a bucket: "le100ms" < "le2s" < "gt2s".        *)
EXTENDS Integers, Sequences, FiniteSets, TLC

CONSTANTS Inputs
VARIABLES stage, input, outcome, elapsed
pvars == <<stage, input, outcome, elapsed>>

NoInput == [python |-> TRUE, tags |-> {}]
Out(class, cls, bucket) == [class |-> class, cls |-> cls, bucket |-> bucket]
NoOut == Out("none", "", "le100ms")
Prompt(b) == b \in {"le100ms", "le2s"}
RejectClasses(inp) == {"ValueError"} \cup (IF inp.python THEN {} ELSE {"SyntaxError"})

Init == stage = "idle" /\ input = NoInput /\ outcome = NoOut /\ elapsed = "le100ms"
Start(inp) == stage = "idle" /\ stage' = "transpiling" /\ input' = inp /\ UNCHANGED <<outcome, elapsed>>
Tick == /\ stage = "transpiling" /\ elapsed # "gt2s"
        /\ elapsed' = (IF elapsed = "le100ms" THEN "le2s" ELSE "gt2s") /\ UNCHANGED <<stage, input, outcome>>
Accept == /\ stage = "transpiling" /\ Prompt(elapsed)
          /\ stage' = "accepted" /\ outcome' = Out("accept", "", elapsed) /\ UNCHANGED <<input, elapsed>>
Reject(cls) == /\ stage = "transpiling" /\ Prompt(elapsed) /\ cls \in RejectClasses(input)
               /\ stage' = "rejected" /\ outcome' = Out("reject", cls, elapsed) /\ UNCHANGED <<input, elapsed>>
Compile(ok) == stage = "accepted" /\ stage' = (IF ok THEN "compiled" ELSE "compile-failed") /\ UNCHANGED <<input, outcome, elapsed>>
Next == (\E i \in Inputs : Start(i)) \/ Tick \/ Accept \/ (\E c \in {"ValueError", "SyntaxError"} : Reject(c)) \/ (\E ok \in BOOLEAN : Compile(ok))
Spec == Init /\ [][Next]_pvars

-----------------------------------------------------------------------------
(* Step relation for trace validation: may input inp end with the observed outcome o ?  "" or the failing clause. *)
OutcomeDiff(inp, o) ==
    IF o.class = "timeout" THEN "timeout"
    ELSE IF o.class = "died" THEN "interpreter-died"
    ELSE IF o.class = "crash" THEN "crash-" \o o.cls
    ELSE IF ~Prompt(o.bucket) THEN "not-prompt"
    ELSE IF o.class = "accept" THEN ""
    ELSE IF o.class # "reject" THEN "unknown-outcome"
    ELSE IF o.cls = "SyntaxError" /\ inp.python THEN "syntaxerror-for-valid-python"
    ELSE IF o.cls \notin RejectClasses(inp) THEN "reject-class"
    ELSE ""

(* Known deviations (known/C11.json).  Each trigger is a predicate on the stimulus (a tag computed from the text
   / from the slot x payload pair before anything is run); each match is exact in the outcome class. *)
KnownPowTower(inp, o)    == "pow-tower" \in inp.tags /\ o.class = "timeout"
KnownDeepExpr(inp, o)    == "deep-expression" \in inp.tags /\ o.class = "crash" /\ o.cls = "RecursionError"
KnownOverflow(inp, o)    == "nonfinite-or-huge-number" \in inp.tags /\ o.class = "crash" /\ o.cls = "OverflowError"
KnownShortTuple(inp, o)  == "short-tuple-assignment" \in inp.tags /\ o.class = "crash" /\ o.cls = "IndexError"
SxConstructs == {"walrus", "yield", "starred-expression", "non-ascii-target", "write-keyword-argument",
                 "header-like-line-in-multiline-string"}
KnownSyntaxError(inp, o) == /\ inp.python /\ inp.tags \cap SxConstructs # {}
                            /\ o.class = "reject" /\ o.cls = "SyntaxError" /\ Prompt(o.bucket)
KnownId(inp, o) ==
    IF KnownPowTower(inp, o) THEN "pow-tower-timeout"
    ELSE IF KnownDeepExpr(inp, o) THEN "deep-expression-recursionerror"
    ELSE IF KnownOverflow(inp, o) THEN "nonfinite-number-overflowerror"
    ELSE IF KnownShortTuple(inp, o) THEN "short-tuple-assignment-indexerror"
    ELSE IF KnownSyntaxError(inp, o) THEN "syntaxerror-for-valid-python"
    ELSE ""

-----------------------------------------------------------------------------
TypeOK == stage \in {"idle", "transpiling", "accepted", "rejected", "compiled", "compile-failed"}
CleanOutcome == stage \in {"accepted", "rejected", "compiled", "compile-failed"} => OutcomeDiff(input, outcome) = ""
AlwaysPrompt == stage # "idle" /\ stage # "transpiling" => Prompt(outcome.bucket)
SyntaxErrorOnlyForNonPython == (outcome.class = "reject" /\ outcome.cls = "SyntaxError") => ~input.python
CompileOnlyAfterAccept == stage \in {"compiled", "compile-failed"} => outcome.class = "accept"
=============================================================================
