------------------------------ MODULE UtilsTrace ------------------------------
(* Batch trace validation for Reduino.Utils: every recorded call must be a step Utils allows. *)
EXTENDS Utils, Json, IOUtils
Traces == JsonDeserialize(IOEnv.TRACE_FILE)
\* [{id, ev: <<[act, a, ty, via, out, ret:[k,p,q,i,f1,f2,f3], sleeps:<<[us,pf]...>>]...>>}...]
VARIABLES tid, l, bad
T == Traces[tid]
TInit == tid \in 1..Len(Traces) /\ l = 1 /\ bad = "" /\ Init
TNext == /\ bad = "" /\ l <= Len(T.ev)
         /\ LET e == T.ev[l]
                c == Call(e.act, e.a, e.ty, e.via)
            IN /\ res' = e.out /\ ret' = e.ret /\ slept' = e.sleeps /\ last' = c
               /\ bad' = StepDiff(c, e.out, e.ret, e.sleeps)
         /\ l' = l + 1 /\ UNCHANGED tid
Done == bad # "" \/ l > Len(T.ev)
Verdict == Done => PrintT(ToJson([id |-> T.id, ok |-> bad = "", l |-> l - 1, clause |-> bad]))
=============================================================================
