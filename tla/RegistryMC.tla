----------------------------- MODULE RegistryMC -----------------------------
(* The validation machine over (candidate platform names) x (candidate board names), checked exhaustively;
   prints the registry facts (sizes, boards with more than one owner). *)
EXTENDS Registry

(* Machine for model checking / case generation: one validation of any candidate pair.  The state holds the
   *positions* of the candidate names, not the names: TLC fingerprints only the low byte of each character of a
   string, so two names differing in high bytes only (full-width look-alikes) would count as one state.     *)
VARIABLES pi, bi, out
rvars == <<pi, bi, out>>
plat  == Input.plats[pi]
board == Input.boards[bi]

RInit == pi \in 1..Len(Input.plats) /\ bi \in 1..Len(Input.boards) /\ out = "none"
Validate == /\ out = "none"
            /\ out' = IF Accept(plat, board) THEN "accept" ELSE "ValueError"
            /\ UNCHANGED <<pi, bi>>
RNext == Validate
RSpec == RInit /\ [][RNext]_rvars

Exact == out # "none" => (out = "accept" <=> (plat \in Platforms /\ board \in AllBoards /\ \E i \in PlatIdx : RegSeq[i].p = plat /\ board \in BoardsAt[i]))
CanonicalIsAllowed == out # "none" => ValDiff(plat, board, out) = ""
AcceptedUnderExactlyOnePlatform ==     \* consequence of the registry law: no board is accepted under two names
    (Partition /\ out = "accept") => Cardinality({q \in PlatNames : Accept(q, board)}) = 1
RegisteredAreCandidates == Platforms \subseteq PlatNames /\ AllBoards \subseteq BoardNames
DistinctCandidates == Cardinality(PlatNames) = Len(Input.plats) /\ Cardinality(BoardNames) = Len(Input.boards)

ASSUME RegisteredAreCandidates
ASSUME DistinctCandidates
ASSUME PrintT(ToJson(RegistryFacts))
=============================================================================
