------------------------------ MODULE SerialMon ------------------------------
(* Reduino.Communication.SerialMonitor on the host, bound to a serial backend (pyserial or a fake of it).
   write(value) returns str(value) and, when a connection is open, sends exactly str(value) + newline in one
   backend write; connect / close form a two-state machine (at most one port open at any time; close is
   idempotent; connecting while connected closes the old port first); without a backend connect is refused and
   nothing is ever sent; read() needs a connection unless emit = "mcu".
   Text is a sequence of bytes (UTF-8); txt of a write call is str(value) of the value handed over - the harness
   computes it with CPython, the reference for str().                                                        *)
EXTENDS Integers, Sequences, FiniteSets, TLC

CONSTANTS Cfgs,      \* [baud, port ("" = none given), nl (newline bytes), backend (BOOLEAN)]
          Ports, Texts, Lines, Emits
VARIABLES cfg, phase, conn, cur, nopen, res, ret, calls, echo, last
vars == <<cfg, phase, conn, cur, nopen, res, ret, calls, echo, last>>
\* phase: "unborn" | "alive" | "dead" (constructor refused); conn: a port is open; cur: its handle id;
\* nopen: handles created so far; calls: backend calls made by the last call; echo: bytes printed by the last call

Call(act, port, txt, emit) == [act |-> act, port |-> port, txt |-> txt, emit |-> emit]
NoCall == Call("none", "", <<>>, "")
B(op, id, port, baud, data) == [op |-> op, id |-> id, port |-> port, baud |-> baud, data |-> data]
St(cn, cu, no) == [conn |-> cn, cur |-> cu, nopen |-> no]
Cur == St(conn, cur, nopen)
Ret(k, b) == [k |-> k, b |-> b]          \* k = "none" | "str" (b = its UTF-8 bytes) | "other"
RNone == Ret("none", <<>>)
Out(r, rt, bc, ec, t) == [r |-> r, ret |-> rt, calls |-> bc, echo |-> ec, post |-> t]

RECURSIVE StripEol(_)
StripEol(b) == IF Len(b) > 0 /\ b[Len(b)] \in {10, 13} THEN StripEol(SubSeq(b, 1, Len(b) - 1)) ELSE b

(* The outcome the documentation promises for call c in state s of a monitor configured with g. *)
Exp(g, s, c) ==
    LET open(port) == B("open", s.nopen + 1, port, g.baud, <<>>)
        closeOld == IF s.conn THEN <<B("close", s.cur, "", 0, <<>>)>> ELSE <<>>
    IN
    CASE c.act = "new" ->
           (IF g.baud <= 0 THEN Out("raise", RNone, <<>>, <<>>, s)
            ELSE IF g.port = "" THEN Out("ok", RNone, <<>>, <<>>, s)
            ELSE IF ~g.backend THEN Out("raise", RNone, <<>>, <<>>, s)
            ELSE Out("ok", RNone, <<open(g.port)>>, <<>>, St(TRUE, s.nopen + 1, s.nopen + 1)))
      [] c.act = "connect" ->
           (IF ~g.backend THEN Out("raise", RNone, <<>>, <<>>, s)
            ELSE Out("ok", RNone, closeOld \o <<open(c.port)>>, <<>>, St(TRUE, s.nopen + 1, s.nopen + 1)))
      [] c.act = "close" -> Out("ok", RNone, closeOld, <<>>, St(FALSE, 0, s.nopen))
      [] c.act = "write" ->
           Out("ok", Ret("str", c.txt), IF s.conn THEN <<B("write", s.cur, "", 0, c.txt \o g.nl)>> ELSE <<>>, <<>>, s)
      [] c.act = "read" ->
           (IF c.emit \notin {"host", "mcu", "both"} THEN Out("raise", RNone, <<>>, <<>>, s)
            ELSE IF c.emit = "mcu" THEN Out("ok", Ret("str", <<>>), <<>>, <<>>, s)
            ELSE IF ~s.conn THEN Out("raise", RNone, <<>>, <<>>, s)
            ELSE LET m == StripEol(c.txt) IN     \* c.txt = the line the backend delivers
                 Out("ok", Ret("str", m), <<B("readline", s.cur, "", 0, <<>>)>>, IF m = <<>> THEN <<>> ELSE m \o g.nl, s))
      [] OTHER -> Out("ok", RNone, <<>>, <<>>, s)

(* Observation: r, rt, bc (backend calls), ec (echo), op (ids of the handles that are open afterwards). *)
OpenSet(t) == IF t.conn THEN {t.cur} ELSE {}
Step(g, s, c, r, rt, bc, ec, op) ==
    LET x == Exp(g, s, c) IN r = x.r /\ (r = "ok" => rt = x.ret) /\ bc = x.calls /\ ec = x.echo /\ op = OpenSet(x.post)

StepDiff(g, s, c, r, rt, bc, ec, op) ==
    LET x == Exp(g, s, c) IN
    IF Step(g, s, c, r, rt, bc, ec, op) THEN ""
    ELSE IF r # x.r THEN (IF x.r = "raise" THEN "invalid-call-accepted" ELSE "valid-call-refused")
    ELSE IF r = "ok" /\ rt # x.ret THEN (IF c.act = "write" THEN "write-return-not-str-value" ELSE "return-value")
    ELSE IF bc # x.calls THEN
         (IF c.act = "write" THEN
              (IF ~s.conn THEN "write-sent-while-closed"
               ELSE IF Len(bc) = 0 THEN "write-sent-nothing"
               ELSE IF Len(bc) > 1 THEN "write-sent-more-than-once"
               ELSE IF bc[1].op # "write" \/ bc[1].id # s.cur THEN "write-wrong-backend-call"
               ELSE "write-payload-not-str-plus-newline")
          ELSE IF x.r = "raise" THEN "refused-call-touched-backend"
          ELSE IF c.act \in {"connect", "new"} THEN
              (IF s.conn /\ (Len(bc) = 0 \/ bc[1] # x.calls[1]) THEN "reconnect-leaks-open-port" ELSE "connect-backend-calls")
          ELSE IF c.act = "close" THEN "close-backend-calls"
          ELSE "read-backend-calls")
    ELSE IF ec # x.echo THEN "echo"
    ELSE "open-handles"

-----------------------------------------------------------------------------
Calls == {Call("connect", p, <<>>, "") : p \in Ports} \cup {Call("close", "", <<>>, "")}
         \cup {Call("write", "", t, "") : t \in Texts} \cup {Call("read", "", ln, e) : ln \in Lines, e \in Emits}
Init == /\ cfg \in Cfgs /\ phase = "unborn" /\ conn = FALSE /\ cur = 0 /\ nopen = 0
        /\ res = "init" /\ ret = RNone /\ calls = <<>> /\ echo = <<>> /\ last = NoCall
Do(c) == LET x == Exp(cfg, Cur, c) IN
         /\ last' = c /\ res' = x.r /\ ret' = x.ret /\ calls' = x.calls /\ echo' = x.echo
         /\ conn' = x.post.conn /\ cur' = x.post.cur /\ nopen' = x.post.nopen
         /\ UNCHANGED cfg
New == phase = "unborn" /\ Do(Call("new", "", <<>>, "")) /\ phase' = (IF res' = "ok" THEN "alive" ELSE "dead")
Use == phase = "alive" /\ (\E c \in Calls : Do(c)) /\ UNCHANGED phase
Next == New \/ Use
Spec == Init /\ [][Next]_vars
FewHandles == nopen <= 3      \* CONSTRAINT for the exhaustive check (the handle counter is the only unbounded part)

-----------------------------------------------------------------------------
(* Properties. *)
Prev == IF last.act \in {"write", "read"} THEN conn ELSE FALSE   \* write/read do not change the connection
WriteReturnsStr == last.act = "write" => res = "ok" /\ ret = Ret("str", last.txt)
WriteSendsExactly ==
    last.act = "write" => IF conn THEN calls = <<B("write", cur, "", 0, last.txt \o cfg.nl)>> ELSE calls = <<>>
AtMostOneOpen ==      \* handles opened minus handles closed: never more than one, and it is the current one
    /\ conn => (cur = nopen /\ cur > 0)
    /\ ~conn => cur = 0
    /\ \A i \in 1..Len(calls) : calls[i].op = "open" => (i = Len(calls) /\ calls[i].id = nopen)
ReconnectClosesOld ==
    [][(last'.act = "connect" /\ conn /\ res' = "ok") => (Len(calls') = 2 /\ calls'[1] = B("close", cur, "", 0, <<>>))]_vars
CloseIdempotent == last.act = "close" => (~conn /\ res = "ok")
CloseOnlyWhenOpen == [][(last'.act = "close" /\ ~conn) => calls' = <<>>]_vars
NoBackendNoTraffic == ~cfg.backend => (~conn /\ nopen = 0 /\ calls = <<>>)
OnlyLiveHandleUsed == \A i \in 1..Len(calls) : calls[i].op \in {"write", "readline"} => (conn /\ calls[i].id = cur)
RefusedCallChangesNothing == [][res' = "raise" => (conn' = conn /\ cur' = cur /\ nopen' = nopen /\ calls' = <<>>)]_vars
BaudValidated == (phase # "unborn" /\ cfg.baud <= 0) => phase = "dead"
OpenUsesConfiguredBaud == \A i \in 1..Len(calls) : calls[i].op = "open" => calls[i].baud = cfg.baud
=============================================================================
