------------------------------ MODULE TargetGen ------------------------------
(* Stimulus generation: every configuration x fault of Target leaves TLC as one JSON line, together with the
   outcome the specification determines for it and whether it meets the trigger of the listed known finding. *)
EXTENDS Target, Json
Emit0 == PrintT(ToJson([upload |-> cfg.upload, pio |-> cfg.pio, pair |-> cfg.pair, fault |-> fault,
                        expect |-> ExpectedResult(cfg, fault), trigger |-> KnownTrigger(cfg, fault)])) /\ FALSE
=============================================================================
