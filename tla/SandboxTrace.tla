----------------------------- MODULE SandboxTrace -----------------------------
(* Batch trace validation for Sandbox.  One trace = one input text run through parse()+emit() in a worker:
   T = [id, audit: [[ev, grp, key, kind, n]...], fin: [canary, snap, env]].  Every audit record must be an
   Observe step, the final record a Finish step; the verdict names the first forbidden effect.             *)
EXTENDS Sandbox, Json, IOUtils
Traces == JsonDeserialize(IOEnv.TRACE_FILE)
VARIABLES tid, l, bad
T == Traces[tid]
TInit == tid \in 1..Len(Traces) /\ l = 1 /\ bad = "" /\ stage = "running" /\ effects = {} /\ clean = TRUE
TNext == /\ bad = "" /\ l <= Len(T.audit) + 1
         /\ IF l <= Len(T.audit)
            THEN LET a == T.audit[l] d == AuditDiff(a) IN
                 IF d = "" THEN Observe(a) /\ bad' = "" ELSE bad' = d /\ UNCHANGED svars
            ELSE LET d == FinalDiff(T.fin) IN
                 IF d = "" THEN Finish(T.fin) /\ bad' = "" ELSE bad' = d /\ UNCHANGED svars
         /\ l' = l + 1 /\ UNCHANGED tid
Done == bad # "" \/ l > Len(T.audit) + 1
Verdict == Done => PrintT(ToJson([id |-> T.id, ok |-> bad = "" /\ NoForbiddenEffect /\ EndsClean, l |-> l - 1, clause |-> bad]))
=============================================================================
