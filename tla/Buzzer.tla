------------------------------- MODULE Buzzer -------------------------------
(* The passive buzzer as a tone protocol on one pin.  There is no host model (Reduino.Actuators.Buzzer is a
   placeholder), so this module IS the reference, transcribed from the statement of C16:

     - a frequency <= 0 never starts a tone;
     - every call that has a duration (play_tone with duration, beep, sweep, melody) leaves the pin silent and
       get_state() false when it returns;
     - beep(times = n) with a positive frequency sounds exactly n times with the given on/off gaps;
     - sweep plays `steps` tones moving monotonically, ending on the end frequency (starting on the start
       frequency when steps > 1) without exceeding the given duration;
     - melody plays exactly the named tune's notes in order with durations scaled by 60000/tempo;
     - get_frequency / get_last_frequency report the tone currently / last sounded.

   Every public call is a sequence of micro-steps  ToneOn(f) / ToneOff / Wait(us).
   Units: frequencies in milli-hertz (0.4 Hz = 400, 4000.6 Hz = 4000600), call arguments for durations in
   milliseconds, waveform times in microseconds, tempo in beats per minute, note lengths in quarter beats.
   A waveform is a sequence of Wave segments [lv, us, n]: lv = frequency on the pin (0 = silent), us = time the
   pin stayed like that, n = number of waits that make up that time.  The first segment is the pin as the call
   found it; every ToneOn opens a new segment (a re-triggered tone is a new tone: counts matter), ToneOff opens a
   silent segment unless the pin is silent already (stuttering).

   Latitude granted (written once, here, as nondeterminism - never in Python):
     - tone() takes whole hertz: the pin shows the nearest integer (ties either way, 1 mHz slack for float32
       arithmetic) but never less than 1 Hz;
     - delay() takes whole milliseconds: a segment made of n waits may differ by < n ms;
     - getters are printed with two decimals: 10 mHz;
     - the pause after the LAST beep is optional; beep() without a frequency uses the last frequency sounded or
       the constructor's default_frequency; a sweep with steps <= 0 plays nothing or is read as steps = 1; negative
       sweep end points are interpolated as they are or clamped to 0 first; a tempo <= 0 means "no tempo given";
       negative durations mean "no wait"; a silence of zero length between two tones may or may not be commanded;
     - a call that starts no tone at all (frequency <= 0) is only required to start none, to end silent when it
       is a timed call, to keep the getters on the pin and not to take longer than the rests would.            *)
EXTENDS Integers, Sequences, FiniteSets, TLC, Wave

NONE  == -999999          \* "argument not given"
HUGE  == 2000000000       \* a wait that does not fit the 32-bit microsecond scale (projection caps it)
TONE0 == -1               \* pin level of a tone() commanded with 0 Hz        (never allowed)
TONEX == -2               \* pin level of a tone() commanded with >= 2^30 Hz   (never allowed)
GTOL  == 10
RTOL  == 501

Call(act, a, m) == [act |-> act, a |-> a, m |-> m]
NoCall == Call("none", <<>>, "")
St(s, c, l) == [sounding |-> s, cur |-> c, last |-> l]
Max0(x) == IF x < 0 THEN 0 ELSE x
Max(a, b) == IF a > b THEN a ELSE b
SatAdd(a, b) == IF a >= HUGE \/ b >= HUGE THEN HUGE ELSE IF a + b >= HUGE THEN HUGE ELSE a + b     \* times saturate at HUGE

-----------------------------------------------------------------------------
(* The documented tunes (Buzzer.py docstring: rising triad; descending blip resolving to a low hold; C-E-G-C
   arpeggio; double ping; alternating high/low, eight notes; ascending C major scale; two-note siren), written
   with equal-tempered pitches in mHz and note lengths in quarter beats.  The check compares this table with
   emitter._BUZZER_MELODIES and reports a difference as a spec gap, not as a violation.                       *)
C4 == 261630  D4 == 293660  E4 == 329630  F4 == 349230  G4 == 392000  A4 == 440000  B4 == 493880
C5 == 523250  E5 == 659250  G5 == 783990
Score(name) ==
    CASE name = "success" -> [tempo |-> 240, notes |-> << <<C5, 2>>, <<E5, 2>>, <<G5, 4>> >>]
      [] name = "error"   -> [tempo |-> 200, notes |-> << <<E4, 2>>, <<C4, 6>> >>]
      [] name = "startup" -> [tempo |-> 200, notes |-> << <<C4, 2>>, <<E4, 2>>, <<G4, 2>>, <<C5, 4>> >>]
      [] name = "notify"  -> [tempo |-> 240, notes |-> << <<G5, 1>>, <<0, 1>>, <<G5, 2>> >>]
      [] name = "alarm"   -> [tempo |-> 200, notes |-> << <<C5, 2>>, <<G4, 2>>, <<C5, 2>>, <<G4, 2>>, <<C5, 2>>, <<G4, 2>>, <<C5, 2>>, <<G4, 2>> >>]
      [] name = "scale_c" -> [tempo |-> 200, notes |-> << <<C4, 2>>, <<D4, 2>>, <<E4, 2>>, <<F4, 2>>, <<G4, 2>>, <<A4, 2>>, <<B4, 2>>, <<C5, 4>> >>]
      [] name = "siren"   -> [tempo |-> 180, notes |-> << <<E5, 3>>, <<C5, 3>>, <<E5, 3>>, <<C5, 3>>, <<E5, 3>>, <<C5, 3>> >>]
      [] OTHER -> [tempo |-> 1, notes |-> <<>>]
MelodyNames == {"success", "error", "startup", "notify", "alarm", "scale_c", "siren"}
ScoreTable == [nm \in MelodyNames |-> Score(nm)]

-----------------------------------------------------------------------------
(* Micro-steps and the micro-step sequence of every public call.  neg = TRUE renders a negative duration as a
   wait of HUGE instead of no wait: only used to match a known deviation exactly (KnownNegativeDuration).     *)
On(f)  == [k |-> "on", v |-> f]
Off    == [k |-> "off", v |-> 0]
Wt(us) == [k |-> "wait", v |-> us]
Sound(f) == IF f > 0 THEN On(f) ELSE Off
WaitMs(ms, neg) == IF ms > 0 THEN <<Wt(1000 * ms)>> ELSE IF neg /\ ms < 0 /\ ms # NONE THEN <<Wt(HUGE)>> ELSE <<>>

PlayToneM(f, d, neg) == <<Sound(f)>> \o (IF d = NONE THEN <<>> ELSE WaitMs(d, neg) \o <<Off>>)

RECURSIVE BeepRep(_, _, _, _, _, _)
BeepRep(f, on, off, i, trail, neg) ==
    IF i = 0 THEN <<>>
    ELSE <<Sound(f)>> \o WaitMs(on, neg) \o <<Off>> \o (IF i > 1 \/ trail THEN WaitMs(off, neg) ELSE <<>>)
         \o BeepRep(f, on, off, i - 1, trail, neg)
BeepM(f, on, off, n, trail, neg) == BeepRep(f, on, off, Max0(n), trail, neg) \o <<Off>>

StepUs(d, k, neg) == IF d > 0 THEN (1000 * d) \div k ELSE IF neg /\ d < 0 THEN HUGE ELSE 0
Interp(a, b, i, k) == IF k = 1 THEN b ELSE a + ((b - a) * i) \div (k - 1)
RECURSIVE SweepRep(_, _, _, _, _)
SweepRep(a, b, us, i, k) ==
    IF i >= k THEN <<>>
    ELSE <<Sound(Interp(a, b, i, k))>> \o (IF us > 0 THEN <<Wt(us)>> ELSE <<>>) \o SweepRep(a, b, us, i + 1, k)
SweepM(a, b, d, k, neg) == (IF k >= 1 THEN SweepRep(a, b, StepUs(d, k, neg), 0, k) ELSE <<>>) \o <<Off>>

\* The tempo argument is in beats per minute; a value >= 10000 encodes a FRACTIONAL tempo in tenths (10075 = 7.5 bpm,
\* 11875 = 187.5 bpm).  Tempo() is in tenths of a beat per minute.
Tempo(name, t) == IF t = NONE \/ t <= 0 THEN 10 * Score(name).tempo ELSE IF t >= 10000 THEN t - 10000 ELSE 10 * t
NoteUs(q, T) == (q * 150000000) \div T                \* q quarter beats at T/10 beats per minute = q/4 * 60000/(T/10) ms
RECURSIVE MelRep(_, _, _)
MelRep(notes, i, T) ==
    IF i > Len(notes) THEN <<>>
    ELSE <<Sound(notes[i][1]), Wt(NoteUs(notes[i][2], T)), Off>> \o MelRep(notes, i + 1, T)
MelodyM(name, t) == MelRep(Score(name).notes, 1, Tempo(name, t)) \o <<Off>>

(* Every micro-step sequence the statement allows for call c on a buzzer in state s. *)
BeepFreqs(s, dflt, c) == IF c.a[1] = NONE THEN {s.last, dflt} ELSE {c.a[1]}
SweepSteps(n) == IF n >= 1 THEN {n} ELSE {0, 1}
VariantsK(s, dflt, c, neg) ==
    CASE c.act = "play_tone" -> {PlayToneM(c.a[1], c.a[2], neg)}
      [] c.act = "stop"      -> {<<Off>>}
      [] c.act = "beep"      -> {BeepM(f, c.a[2], c.a[3], c.a[4], tr, neg) : f \in BeepFreqs(s, dflt, c), tr \in BOOLEAN}
      [] c.act = "sweep"     -> {SweepM(a2, b2, c.a[3], k, neg) : a2 \in {c.a[1], Max0(c.a[1])}, b2 \in {c.a[2], Max0(c.a[2])},
                                                                   k \in SweepSteps(c.a[4])}
      [] c.act = "melody"    -> {MelodyM(c.m, c.a[1])}
      [] OTHER -> {}
Variants(s, dflt, c) == VariantsK(s, dflt, c, FALSE)
Timed(c) == c.act \in {"beep", "sweep", "melody"} \/ (c.act = "play_tone" /\ c.a[2] # NONE)
NegDur(c) ==
    CASE c.act = "play_tone" -> c.a[2] < 0 /\ c.a[2] # NONE
      [] c.act = "beep"      -> c.a[2] < 0 \/ c.a[3] < 0
      [] c.act = "sweep"     -> c.a[3] < 0
      [] OTHER -> FALSE
HasOn(m) == \E i \in 1..Len(m) : m[i].k = "on"
StartsNoTone(s, dflt, c) == \A m \in Variants(s, dflt, c) : ~HasOn(m)
SubHertz(s, dflt, c) == \E m \in Variants(s, dflt, c) : \E i \in 1..Len(m) : m[i].k = "on" /\ m[i].v < 500
RECURSIVE TotalWait(_, _)
TotalWait(m, i) == IF i > Len(m) THEN 0 ELSE SatAdd(IF m[i].k = "wait" THEN m[i].v ELSE 0, TotalWait(m, i + 1))

-----------------------------------------------------------------------------
(* Executing micro-steps: buzzer state and waveform. *)
BTone(w, f) == Append(w, Seg(f, 0, 0))
BSl(w, us)  == [w EXCEPT ![Len(w)] = Seg(@.lv, SatAdd(@.us, us), @.n + 1)]
StartLv(s)  == IF s.sounding THEN s.cur ELSE 0
Do1(r, x) ==
    CASE x.k = "on"   -> [st |-> St(TRUE, x.v, x.v), w |-> BTone(r.w, x.v)]
      [] x.k = "off"  -> [st |-> St(FALSE, 0, r.st.last), w |-> WLv(r.w, 0)]
      [] x.k = "wait" -> [st |-> r.st, w |-> BSl(r.w, x.v)]
RECURSIVE RunM(_, _, _)
RunM(r, m, i) == IF i > Len(m) THEN r ELSE RunM(Do1(r, m[i]), m, i + 1)
Run(s, m) == RunM([st |-> s, w |-> WStart(StartLv(s))], m, 1)

-----------------------------------------------------------------------------
(* Step relation: may the firmware, on a buzzer in state s (getter values), answer call c with getter values t and
   pin waveform w (levels in whole Hz as given to tone(), times in us, whole milliseconds) ?
   k0 = TRUE additionally lets a tone below 0.5 Hz appear as tone(pin, 0) (known deviation, exact match only). *)
LvOK(o, e, k0) ==
    IF e <= 0 THEN o = 0
    ELSE IF o = TONE0 THEN k0 /\ e < 500
    ELSE o >= 1 /\ (Abs(o * 1000 - e) <= RTOL \/ (o = 1 /\ e < 1000))
DurOK(o, e, n) == IF e >= HUGE THEN o >= HUGE ELSE IF n = 0 THEN o = 0 ELSE o < HUGE /\ Abs(o - e) < 1000 * n
SegOK(o, e, k0) == LvOK(o.lv, e.lv, k0) /\ DurOK(o.us, e.us, e.n)

(* a silence of zero length between two tones is invisible *)
RECURSIVE SquashR(_, _)
SquashR(w, i) ==
    IF i > Len(w) THEN <<>>
    ELSE (IF 1 < i /\ i < Len(w) /\ w[i].lv = 0 /\ w[i].us = 0 THEN <<>> ELSE <<w[i]>>) \o SquashR(w, i + 1)
Squash(w) == SquashR(w, 1)
Skippable(exp, i) == 1 < i /\ i < Len(exp) /\ exp[i].lv = 0 /\ (exp[i].n = 0 \/ exp[i].us < 1000 * exp[i].n)
RECURSIVE Al(_, _, _, _, _)
Al(obs, exp, i, j, k0) ==
    IF i > Len(exp) THEN j > Len(obs)
    ELSE \/ (j <= Len(obs) /\ SegOK(obs[j], exp[i], k0) /\ Al(obs, exp, i + 1, j + 1, k0))
         \/ (Skippable(exp, i) /\ Al(obs, exp, i + 1, j, k0))
WaveOK(obs, exp, k0) == Al(Squash(obs), exp, 1, 1, k0)

GetOK(t, e) == t.sounding = e.sounding /\ Abs(t.cur - e.cur) <= GTOL /\ Abs(t.last - e.last) <= GTOL
Conf(s, m, t, w, k0) == LET r == Run(s, m) IN GetOK(t, r.st) /\ WaveOK(w, r.w, k0)

HasHuge(w) == \E i \in 1..Len(w) : w[i].us >= HUGE
SafeTotal(w) == IF HasHuge(w) THEN HUGE ELSE WTotal(w)
ToneIdx(w) == {i \in 2..Len(w) : w[i].lv # 0}
MaxWait(S) == IF S = {} THEN 0 ELSE CHOOSE x \in {TotalWait(m, 1) : m \in S} : \A y \in {TotalWait(m, 1) : m \in S} : y <= x
SilentStep(s, dflt, c, t, w, neg) ==
    /\ ToneIdx(w) = {}
    /\ Len(w) <= 2 /\ (Len(w) = 2 => w[1].lv # 0 /\ w[2].lv = 0)
    /\ LvOK(w[1].lv, StartLv(s), FALSE)
    /\ Timed(c) => WLast(w) = 0
    /\ GetOK(t, IF WLast(w) = 0 THEN St(FALSE, 0, s.last) ELSE s)
    /\ LET mx == MaxWait(VariantsK(s, dflt, c, neg)) IN IF mx >= HUGE THEN TRUE ELSE SafeTotal(w) <= mx

StepK(s, dflt, c, t, w, k0, neg) ==
    IF c.act # "stop" /\ StartsNoTone(s, dflt, c) THEN SilentStep(s, dflt, c, t, w, neg)
    ELSE \E m \in VariantsK(s, dflt, c, neg) : Conf(s, m, t, w, k0)
Step(s, dflt, c, t, w) == StepK(s, dflt, c, t, w, FALSE, FALSE)

(* The properties of C16 evaluated on a state the implementation reports (getters t, waveform w of call c). *)
HasBadTone(w) == \E i \in 1..Len(w) : w[i].lv < 0
LastToneLv(w) == LET I == ToneIdx(w) IN w[CHOOSE i \in I : \A j \in I : j <= i].lv
ImplInvDiff(s, dflt, c, t, w) ==
    IF \E i \in 2..Len(w) : w[i].lv < 0 THEN "inv-tone-at-or-below-zero-hz"
    ELSE IF Timed(c) /\ (WLast(w) # 0 \/ t.sounding) THEN "inv-not-silent-after-timed-call"
    ELSE IF t.sounding # (WLast(w) # 0) THEN "inv-get-state-not-tracking-pin"
    ELSE IF ~t.sounding /\ t.cur # 0 THEN "inv-get-frequency-nonzero-while-silent"
    ELSE IF t.sounding /\ WLast(w) > 0 /\ ~LvOK(WLast(w), t.cur, FALSE) THEN "inv-get-frequency-not-the-tone-on-the-pin"
    ELSE IF ToneIdx(w) # {} /\ LastToneLv(w) > 0 /\ ~LvOK(LastToneLv(w), t.last, FALSE) THEN "inv-get-last-frequency-not-the-last-tone"
    ELSE IF c.act = "sweep" /\ SafeTotal(w) > 1000 * Max0(c.a[3]) THEN "inv-sweep-exceeds-duration"
    ELSE IF c.act = "beep" /\ (\A f \in BeepFreqs(s, dflt, c) : f > 0) /\ Cardinality(ToneIdx(w)) # Max0(c.a[4]) THEN "inv-beep-count"
    ELSE ""

(* Diagnostic: name of the first clause of Step that fails ("" if none). *)
RECURSIVE ToneLvsR(_, _), ToneUsR(_, _)
ToneLvsR(w, i) == IF i > Len(w) THEN <<>> ELSE (IF w[i].lv # 0 THEN <<w[i].lv>> ELSE <<>>) \o ToneLvsR(w, i + 1)
ToneUsR(w, i)  == IF i > Len(w) THEN <<>> ELSE (IF w[i].lv # 0 THEN <<w[i].us>> ELSE <<>>) \o ToneUsR(w, i + 1)
ToneLvs(w) == ToneLvsR(w, 2)        \* the frequencies sounded during the call, in order
LvsOK(o, e) == Len(o) = Len(e) /\ \A i \in 1..Len(e) : LvOK(o[i], e[i], FALSE)
StepDiff(s, dflt, c, t, w) ==
    IF Step(s, dflt, c, t, w) THEN ""
    ELSE IF \E i \in 2..Len(w) : w[i].lv < 0 THEN "tone-at-or-below-zero-hz"
    ELSE IF ~LvOK(w[1].lv, StartLv(s), FALSE) THEN "pin-not-as-previous-call-left-it"
    ELSE IF Timed(c) /\ (WLast(w) # 0 \/ t.sounding) THEN "not-silent-on-return"
    ELSE IF c.act = "stop" /\ (WLast(w) # 0 \/ t.sounding) THEN "stop-did-not-stop"
    ELSE IF t.sounding # (WLast(w) # 0) THEN "get-state-not-tracking-pin"
    ELSE LET V == Variants(s, dflt, c) IN
         IF StartsNoTone(s, dflt, c) /\ c.act # "stop" THEN (IF ToneIdx(w) # {} THEN "tone-started-where-the-call-allows-none" ELSE IF HasHuge(w) \/ SafeTotal(w) > MaxWait(V) THEN "delay" ELSE "getter")
         ELSE IF \A m \in V : Len(ToneLvs(Run(s, m).w)) # Len(ToneLvs(w)) THEN "tone-count"
         ELSE IF \A m \in V : ~LvsOK(ToneLvs(w), ToneLvs(Run(s, m).w)) THEN "tone-frequency"
         ELSE IF \A m \in V : ~WaveOK(w, Run(s, m).w, FALSE) THEN "delay"
         ELSE IF \A m \in V : t.sounding # Run(s, m).st.sounding THEN "get-state"
         ELSE IF \A m \in V : Abs(t.cur - Run(s, m).st.cur) > GTOL THEN "get-frequency"
         ELSE IF \A m \in V : Abs(t.last - Run(s, m).st.last) > GTOL THEN "get-last-frequency"
         ELSE "getter"

-----------------------------------------------------------------------------
(* Known deviations of the pinned tree (known/C16.json), each matched EXACTLY: everything else as specified. *)
\* buzzer-subhertz-tone-zero: a positive frequency below 0.5 Hz is rounded to tone(pin, 0)
KnownSubHertzToneZero(s, dflt, c, t, w) ==
    /\ \E i \in 1..Len(w) : w[i].lv = TONE0
    /\ \A i \in 1..Len(w) : w[i].lv # TONEX
    /\ (s.sounding /\ s.cur < 500) \/ SubHertz(s, dflt, c)
    /\ IF c.act # "stop" /\ StartsNoTone(s, dflt, c)
       THEN s.sounding /\ s.cur < 500 /\ w[1].lv = TONE0
            /\ SilentStep(s, dflt, c, t, [w EXCEPT ![1] = Seg(1, @.us, @.n)], FALSE)
       ELSE StepK(s, dflt, c, t, w, TRUE, FALSE)
\* buzzer-beep-zero-times-keeps-sounding: beep(times <= 0) on a sounding buzzer does nothing at all
KnownBeepZeroTimes(s, dflt, c, t, w) ==
    /\ c.act = "beep" /\ c.a[4] <= 0 /\ s.sounding
    /\ Len(w) = 1 /\ w[1].us = 0 /\ w[1].lv # 0
    /\ GetOK(t, s)
\* buzzer-negative-duration-wraps: a negative run-time duration is waited for as a huge unsigned number
KnownNegativeDuration(s, dflt, c, t, w) ==
    /\ NegDur(c) /\ HasHuge(w) /\ ~HasBadTone(w)
    /\ StepK(s, dflt, c, t, w, FALSE, TRUE)
KnownTag(s, dflt, c, t, w) ==
    IF KnownBeepZeroTimes(s, dflt, c, t, w) THEN "buzzer-beep-zero-times-keeps-sounding"
    ELSE IF KnownSubHertzToneZero(s, dflt, c, t, w) THEN "buzzer-subhertz-tone-zero"
    ELSE IF KnownNegativeDuration(s, dflt, c, t, w) THEN "buzzer-negative-duration-wraps"
    ELSE ""

-----------------------------------------------------------------------------
(* The machine used for model checking: micro-step granularity.  Invoke(c) picks one of the allowed micro-step
   sequences; ToneOn / ToneOff / Wait consume it; the call returns when nothing is left to do; Forget drops the
   record of the returned call (its waveform, the state it started from), so the state graph is finite and TLC
   explores call sequences of EVERY length, not only up to a bound.                                           *)
CONSTANTS Freqs, Durs, OnOffs, Times, StepsG, SweepDurs, Tempos, Melodies, Defaults
VARIABLES dflt, sounding, cur, last, pin, elapsed, todo, call, pre, wave
vars == <<dflt, sounding, cur, last, pin, elapsed, todo, call, pre, wave>>
Cur == St(sounding, cur, last)

Calls ==
    {Call("play_tone", <<f, d>>, "") : f \in Freqs, d \in Durs}
    \cup {Call("stop", <<>>, "")}
    \cup {Call("beep", <<f, on, off, n>>, "") : f \in Freqs \cup {NONE}, on \in OnOffs, off \in OnOffs, n \in Times}
    \cup {Call("sweep", <<a, b, d, k>>, "") : a \in Freqs, b \in Freqs, d \in SweepDurs, k \in StepsG}
    \cup {Call("melody", <<t>>, nm) : t \in Tempos, nm \in Melodies}

RoundHz(f) == IF f <= 0 THEN 0 ELSE Max(1, (f + 500) \div 1000)

Init == /\ dflt \in Defaults /\ sounding = FALSE /\ cur = 0 /\ last = dflt /\ pin = 0 /\ elapsed = 0
        /\ todo = <<>> /\ call = NoCall /\ pre = St(FALSE, 0, dflt) /\ wave = WStart(0)

Invoke(c) ==
    /\ todo = <<>> /\ call = NoCall
    /\ \E m \in Variants(Cur, dflt, c) : todo' = m
    /\ call' = c /\ UNCHANGED <<dflt, sounding, cur, last, pin, pre, wave, elapsed>>
Forget ==
    /\ todo = <<>> /\ call # NoCall
    /\ call' = NoCall /\ pre' = Cur /\ wave' = WStart(StartLv(Cur)) /\ elapsed' = 0
    /\ UNCHANGED <<dflt, sounding, cur, last, pin, todo>>
ToneOn ==
    /\ todo # <<>> /\ Head(todo).k = "on"
    /\ LET f == Head(todo).v IN
       /\ sounding' = TRUE /\ cur' = f /\ last' = f /\ pin' = RoundHz(f) /\ wave' = BTone(wave, f)
    /\ todo' = Tail(todo) /\ UNCHANGED <<dflt, elapsed, call, pre>>
ToneOff ==
    /\ todo # <<>> /\ Head(todo).k = "off"
    /\ sounding' = FALSE /\ cur' = 0 /\ pin' = 0 /\ wave' = WLv(wave, 0)
    /\ todo' = Tail(todo) /\ UNCHANGED <<dflt, last, elapsed, call, pre>>
Wait ==
    /\ todo # <<>> /\ Head(todo).k = "wait"
    /\ elapsed' = elapsed + Head(todo).v /\ wave' = BSl(wave, Head(todo).v)
    /\ todo' = Tail(todo) /\ UNCHANGED <<dflt, sounding, cur, last, pin, call, pre>>
Next == (\E c \in Calls : Invoke(c)) \/ ToneOn \/ ToneOff \/ Wait \/ Forget
Spec == Init /\ [][Next]_vars

-----------------------------------------------------------------------------
(* The properties of C16, by name. *)
Returned == todo = <<>> /\ call # NoCall
Tones(w)     == ToneLvsR(w, 2)      \* the frequencies sounded during the call, in order
ToneTimes(w) == ToneUsR(w, 2)       \* how long each of them lasted
RECURSIVE SumNotes(_, _, _)
SumNotes(notes, i, T) == IF i = 0 THEN 0 ELSE NoteUs(notes[i][2], T) + SumNotes(notes, i - 1, T)

TypeOK == /\ sounding \in BOOLEAN /\ cur \in Int /\ last \in Int /\ pin \in Nat /\ elapsed \in Nat
NoToneAtOrBelowZero ==
    /\ sounding => (cur > 0 /\ pin >= 1)
    /\ \A i \in 2..Len(wave) : wave[i].lv >= 0
    /\ \A i \in 1..Len(todo) : todo[i].k = "on" => todo[i].v > 0
ToneOnlyPositive == [][(sounding' /\ (~sounding \/ cur' # cur)) => cur' > 0]_vars
SilentAfterTimedCall == (Returned /\ Timed(call)) => (~sounding /\ pin = 0 /\ cur = 0 /\ WLast(wave) = 0)
StopStops == (Returned /\ call.act = "stop") => (~sounding /\ pin = 0)
BeepCount ==
    (Returned /\ call.act = "beep" /\ (\A f \in BeepFreqs(pre, dflt, call) : f > 0)) =>
        LET n == Max0(call.a[4])  ts == Tones(wave)  I == ToneIdx(wave) IN
        /\ Len(ts) = n
        /\ \A i \in 1..Len(ts) : ts[i] \in BeepFreqs(pre, dflt, call)
        /\ \A i \in I : wave[i].us = 1000 * Max0(call.a[2])                                  \* every beep lasts on_ms
        /\ \A i \in I : (i + 1 <= Len(wave) /\ \E j \in I : j > i) => wave[i + 1].us = 1000 * Max0(call.a[3])   \* gaps of off_ms
BeepSilentWhenNotPositive ==
    (Returned /\ call.act = "beep" /\ call.a[1] # NONE /\ call.a[1] <= 0) => Tones(wave) = <<>>
SweepMonotoneEndsOnEnd ==
    (Returned /\ call.act = "sweep") =>
        LET ts == Tones(wave)  a == call.a[1]  b == call.a[2]  n == call.a[4] IN
        /\ (\A i \in 2..Len(ts) : ts[i] >= ts[i - 1]) \/ (\A i \in 2..Len(ts) : ts[i] <= ts[i - 1])
        /\ Len(ts) <= Max(n, 1)
        /\ (a > 0 /\ b > 0 /\ n >= 1) => (Len(ts) = n /\ ts[n] = b /\ (n > 1 => ts[1] = a))
        /\ (b > 0 /\ Len(ts) > 0) => ts[Len(ts)] = b
SweepWithinDuration == call.act = "sweep" => elapsed <= 1000 * Max0(call.a[3])
MelodyFollowsScore ==
    (Returned /\ call.act = "melody") =>
        LET sc == Score(call.m)  T == Tempo(call.m, call.a[1])
            pos == SelectSeq(sc.notes, LAMBDA x : x[1] > 0) IN
        /\ Tones(wave) = [i \in 1..Len(pos) |-> pos[i][1]]
        /\ ToneTimes(wave) = [i \in 1..Len(pos) |-> NoteUs(pos[i][2], T)]
        /\ elapsed = SumNotes(sc.notes, Len(sc.notes), T)
GettersTrackTone ==
    /\ sounding <=> pin > 0
    /\ sounding => (pin = RoundHz(cur) /\ cur = WLast(wave) /\ last = cur)
    /\ ~sounding => cur = 0
    /\ IF ToneIdx(wave) # {} THEN last = LastToneLv(wave) ELSE last = pre.last
(* the canonical behaviours, seen through tone()'s whole hertz and delay()'s whole milliseconds, are steps *)
ObsOf(w) == [i \in 1..Len(w) |-> Seg(RoundHz(w[i].lv), (w[i].us \div 1000) * 1000, w[i].n)]
CanonicalIsAllowed == Returned => Step(pre, dflt, call, Cur, ObsOf(wave))
NoKnownDeviationInSpec == Returned => KnownTag(pre, dflt, call, Cur, ObsOf(wave)) = ""
=============================================================================
