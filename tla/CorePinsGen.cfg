INIT HInit
NEXT HNext
CONSTANTS
  Labels <- LabelsQ
  Names <- NamesQ
  Modes <- ModesDef
  DVals <- DValsQ
  AVals <- AValsQ
  MaxLen = 2
INVARIANT MemoryLaw
INVARIANT LastReadLaw
CONSTRAINT Emit
CHECK_DEADLOCK FALSE
