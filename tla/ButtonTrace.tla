----------------------------- MODULE ButtonTrace -----------------------------
(* Batch trace validation for Button.  A trace = the abstract events of ONE button in one run (firmware: projected
   from the mock core's event log; host: logged by the recorder around the real class).  Every event must be a
   step the Button specification allows; verdicts are total: each trace is followed to its end or to the first
   rejected event, whose failing clause is named.  Deviations listed as known findings are matched exactly by
   the named predicates of Button and reported in `known`; anything else is a rejection. *)
EXTENDS Button, Json, IOUtils

Traces == JsonDeserialize(IOEnv.TRACE_FILE)   \* [{id, side, handler, decl, ev: [{k, v, h}...]}...]
VARIABLES tid, l, bad, known
tvars == <<vars, tid, l, bad, known>>
T == Traces[tid]

TInit == /\ tid \in 1..Len(Traces) /\ l = 1 /\ bad = "" /\ known = {}
         /\ side = Traces[tid].side /\ handler = Traces[tid].handler /\ phase = "setup" /\ pass = 0 /\ prev = None
         /\ value = (IF Traces[tid].side = "host" THEN 0 ELSE None) /\ clicks = 0 /\ owed = 0
         /\ sampledThisPass = 0 /\ first = None
         /\ sig = <<>> /\ reads = <<>> /\ hostWas = 0 /\ hostClicks = 0

TNext == /\ bad = "" /\ l <= Len(T.ev)
         /\ LET e == T.ev[l]
                d == Diff(Rec, e)
                k1 == KnownStaleReadInHandler(Rec, e)
                k2 == KnownLoopDeclStartupClick(Rec, e, T.decl)
            IN IF d = "" \/ k2 THEN /\ SetRec(Apply(Rec, e)) /\ bad' = ""
                                    /\ known' = IF k2 THEN known \cup {"button-declared-in-loop-startup-click"} ELSE known
               ELSE IF k1 THEN /\ UNCHANGED bvars /\ bad' = ""
                               /\ known' = known \cup {"is-pressed-in-earlier-handler-stale"}
               ELSE bad' = d /\ UNCHANGED <<bvars, known>>
         /\ l' = l + 1 /\ UNCHANGED <<tid, sig, reads, hostWas, hostClicks>>

Done == bad # "" \/ l > Len(T.ev)
Verdict == Done => PrintT(ToJson([id |-> T.id, ok |-> bad = "", l |-> l - 1, clause |-> bad, known |-> known, clicks |-> clicks]))
=============================================================================
