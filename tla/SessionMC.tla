------------------------------ MODULE SessionMC ------------------------------
(* Small constants for exhaustive model checking of Session: two processes, two scripts, two seeds, two
   candidate digests, at most MaxOps calls per process life; processes may exit and be spawned again with
   another seed.  With Guarded = FALSE (negative control, run by the selftest) OneDigestPerScript must fail. *)
EXTENDS Session
ProcsDef   == {"p1", "p2"}
ScriptsDef == {"a", "b"}
SeedsDef   == {1, 2}
DigestsDef == {"x", "y"}
=============================================================================
