SPECIFICATION Spec
CONSTANT MaxOps = 4
INVARIANT InvH2D
INVARIANT InvH2DCR
INVARIANT InvD2H
INVARIANT InvNoInvention
CHECK_DEADLOCK FALSE
