------------------------------- MODULE Session -------------------------------
(* C10 - transpilation is a deterministic, stateless function of the source text.

   A session is a set of interpreter processes.  Process p is started with hash seed seed[p] (PYTHONHASHSEED)
   and transpiles scripts one after the other; hist[p] is everything it did so far.  parse() and emit() are
   separate calls, so a process may parse a script and emit it later, after touching other scripts
   (pending[p]).  known[s] is GLOBAL: the digest of the C++ text first reported for script s by any process,
   under any seed, after any history.  The whole property is the guard of Emit: a digest may be reported for
   s only if it is the digest already known for s - whoever reports it, whatever the reporter did before.

   Prescriptive: nothing here describes how the transpiler works; `obs` is a history variable that keeps every
   observation with its circumstances so that the property can be stated (and a failing clause be named).   *)
EXTENDS Integers, Sequences, FiniteSets, TLC

CONSTANTS Procs, Scripts, Seeds, Digests, MaxOps, Guarded
None == ""                                   \* "no digest yet" (digests are non-empty strings)

VARIABLES alive, seed, hist, pending, known, obs
vars == <<alive, seed, hist, pending, known, obs>>

Op(k, s)          == <<k, s>>                \* k \in {"parse", "emit", "transpile"}
Obs(s, sd, h, d)  == [s |-> s, seed |-> sd, hist |-> h, d |-> d]

Init == /\ alive = {}
        /\ seed = [p \in Procs |-> 0]
        /\ hist = [p \in Procs |-> <<>>]
        /\ pending = [p \in Procs |-> {}]
        /\ known = [s \in Scripts |-> None]
        /\ obs = {}

-----------------------------------------------------------------------------
(* Actions: one per observable step of a process. *)
Spawn(p, sd) ==
    /\ p \notin alive
    /\ alive' = alive \cup {p}
    /\ seed' = [seed EXCEPT ![p] = sd]
    /\ hist' = [hist EXCEPT ![p] = <<>>]
    /\ pending' = [pending EXCEPT ![p] = {}]
    /\ UNCHANGED <<known, obs>>

Parse(p, s) ==
    /\ p \in alive
    /\ pending' = [pending EXCEPT ![p] = @ \cup {s}]
    /\ hist' = [hist EXCEPT ![p] = Append(@, Op("parse", s))]
    /\ UNCHANGED <<alive, seed, known, obs>>

CanReport(s, d) == known[s] \in {None, d}    \* THE PROPERTY: one digest per script, globally

Report(p, s, d, k) ==                        \* bookkeeping common to Emit and Transpile (no guard)
    /\ known' = [known EXCEPT ![s] = IF @ = None THEN d ELSE @]
    /\ obs' = obs \cup {Obs(s, seed[p], hist[p], d)}
    /\ hist' = [hist EXCEPT ![p] = Append(@, Op(k, s))]
    /\ UNCHANGED <<alive, seed>>

EmitAny(p, s, d) == p \in alive /\ s \in pending[p] /\ pending' = [pending EXCEPT ![p] = @ \ {s}] /\ Report(p, s, d, "emit")
Emit(p, s, d)    == (Guarded => CanReport(s, d)) /\ EmitAny(p, s, d)
(* emit() is a function of the Program it is given: the caller may keep the Program and emit it again, any number of times *)
EmitKeepAny(p, s, d) == p \in alive /\ s \in pending[p] /\ UNCHANGED pending /\ Report(p, s, d, "emit")
EmitKeep(p, s, d)    == (Guarded => CanReport(s, d)) /\ EmitKeepAny(p, s, d)

TranspileAny(p, s, d) == p \in alive /\ UNCHANGED pending /\ Report(p, s, d, "transpile")    \* emit(parse(src)) in one go
Transpile(p, s, d)    == (Guarded => CanReport(s, d)) /\ TranspileAny(p, s, d)

Exit(p) ==
    /\ p \in alive
    /\ alive' = alive \ {p}
    /\ pending' = [pending EXCEPT ![p] = {}]
    /\ UNCHANGED <<seed, hist, known, obs>>

Bounded(p) == Len(hist[p]) < MaxOps
DoSpawn     == \E p \in Procs, sd \in Seeds : hist[p] = <<>> /\ Spawn(p, sd)   \* (bound: one working life per process id)
DoParse     == \E p \in Procs, s \in Scripts : Bounded(p) /\ Parse(p, s)
DoEmit      == \E p \in Procs, s \in Scripts, d \in Digests : Bounded(p) /\ Emit(p, s, d)
DoEmitKeep  == \E p \in Procs, s \in Scripts, d \in Digests : Bounded(p) /\ EmitKeep(p, s, d)
DoTranspile == \E p \in Procs, s \in Scripts, d \in Digests : Bounded(p) /\ Transpile(p, s, d)
DoExit      == \E p \in Procs : Exit(p)
Next == DoSpawn \/ DoParse \/ DoEmit \/ DoEmitKeep \/ DoTranspile \/ DoExit
Spec == Init /\ [][Next]_vars

-----------------------------------------------------------------------------
(* Step relation for trace validation: name of the first clause that keeps the implementation's report
   (process p, script s, digest d) from being a step of this specification ("" if it is one). *)
ClashClass(s, sd, h, d) ==      \* why does d disagree with what is known for s ?
    IF \E o \in obs : o.s = s /\ o.seed = sd /\ o.d # d
    THEN (IF \E o \in obs : o.s = s /\ o.seed = sd /\ o.d # d /\ o.hist = h
          THEN "digest-differs-on-repeat"           \* same seed, same history, different text
          ELSE "digest-depends-on-history")         \* same seed, other history
    ELSE "digest-differs-across-seeds"              \* every disagreeing observation was made under another seed

SeedClash(s, sd, h, d) ==       \* within one seed every observation must agree (never excused by a known finding)
    IF \E o \in obs : o.s = s /\ o.seed = sd /\ o.d # d THEN ClashClass(s, sd, h, d) ELSE ""

ReportDiff(p, s, d) == IF CanReport(s, d) THEN "" ELSE ClashClass(s, seed[p], hist[p], d)
EmitDiff(p, s, d) ==
    IF p \notin alive THEN "process-not-alive"
    ELSE IF s \notin pending[p] THEN "emit-without-parse"
    ELSE ReportDiff(p, s, d)
TranspileDiff(p, s, d) == IF p \notin alive THEN "process-not-alive" ELSE ReportDiff(p, s, d)

(* Known deviation (known/C10.json: promotion-order-hash-seed).  Trigger (a predicate on the script, computed
   from its syntax): at least two names are first assigned in the branches of one if/elif/else chain or one
   try/except statement, i.e. promoted together out of that statement.  Exact match: the report differs from
   the reference only across seeds, and only by the order of the hoisted declarations - the multiset of lines
   (m) is the reference's, and so is the text after sorting every run of consecutive hoisted declarations (c).
   Any other difference - another line, another place, same seed - is still a violation.                    *)
KnownPromotionOrder(trigger, ref, e) == trigger >= 2 /\ e.d # ref.d /\ e.m = ref.m /\ e.c = ref.c

-----------------------------------------------------------------------------
(* Properties. *)
TypeOK == /\ alive \subseteq Procs
          /\ \A p \in Procs : seed[p] \in Seeds \cup {0} /\ pending[p] \subseteq Scripts
          /\ \A s \in Scripts : known[s] \in Digests \cup {None}
OneDigestPerScript == \A o1, o2 \in obs : o1.s = o2.s => o1.d = o2.d     \* over all processes, seeds and histories
KnownIsWhatWasSeen == /\ \A o \in obs : Guarded => o.d = known[o.s]
                      /\ \A s \in Scripts : known[s] = None <=> ~\E o \in obs : o.s = s
DeadHoldNothing == \A p \in Procs : p \notin alive => pending[p] = {}
KnownStable == [][\A s \in Scripts : known[s] # None => known'[s] = known[s]]_vars
SeedFixedWhileAlive == [][\A p \in Procs : (p \in alive /\ p \in alive') => seed'[p] = seed[p]]_vars
=============================================================================
