INIT GInit
NEXT GWalk
CONSTANTS
  Geoms <- AllGeoms
  Sides = {"host"}
  Facet = "none"
  MaxOps = 0
  Extra = 2
  Alphabet <- AB
  Marked = FALSE
  MaxLen = 8
CHECK_DEADLOCK FALSE
