INIT SInit
NEXT SNext
CONSTANTS
  Freqs = {}
  Durs = {}
  OnOffs = {}
  Times = {}
  StepsG = {}
  SweepDurs = {}
  Tempos = {}
  Melodies = {}
  Defaults = {440000}
CHECK_DEADLOCK FALSE
