----------------------------- MODULE CoreFwTrace -----------------------------
(* Batch validation of firmware traces of Core / Utils.map calls; total verdicts. *)
EXTENDS CoreFw, Json, IOUtils
Traces == JsonDeserialize(IOEnv.TRACE_FILE)     \* [{id, ev: [{c: [act, a], o: [pm, dw, aw, ret]}...]}...]
VARIABLES tid, l, bad, known
T == Traces[tid]
ModeName(m) == CASE m = 1 -> "in" [] m = 2 -> "out" [] m = 3 -> "inpu" [] OTHER -> "?"
Norm(c) == IF c.act = "pin_mode" THEN [c EXCEPT !.a = <<c.a[1], ModeName(c.a[2])>>] ELSE c
TInit == tid \in 1..Len(Traces) /\ l = 1 /\ bad = "" /\ known = {}
TNext == /\ bad = "" /\ l <= Len(T.ev)
         /\ LET c == Norm(T.ev[l].c)  o == T.ev[l].o  d == Diff(c, o)  k == KnownTag(c, o) IN
              IF d = "" THEN bad' = "" /\ known' = known
              ELSE IF k # "" THEN bad' = "" /\ known' = known \cup {k}
              ELSE bad' = d /\ known' = known
         /\ l' = l + 1 /\ UNCHANGED tid
Done == bad # "" \/ l > Len(T.ev)
Verdict == Done => PrintT(ToJson([id |-> T.id, ok |-> bad = "", l |-> l - 1, clause |-> bad, known |-> known]))
=============================================================================
