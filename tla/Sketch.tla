-------------------------------- MODULE Sketch --------------------------------
(* Top-level structure of an emitted Arduino sketch as a sequence of items (C14; the structural part of C06).

   item = [k, n, t]   k = "include" : n = header file name
                      k = "global"  : object / variable definition `t n ...;`         (n = name, t = type)
                      k = "type"    : enum / struct / class definition named n
                      k = "fn"      : function definition, n = name, t = signature (name + parameter list:
                                      C++ overloads are distinct definitions)
                      k = "setup" / "loop" : the definitions of setup() / loop()
                      k = "proto" / "other" : anything else the scanner met at top level (no obligations)

   A well-formed sketch (the specification builds exactly these, item by item, then Close):
     * no header is included twice;
     * definitions are unique (variable/type names; function signatures; a function does not reuse the name
       of a variable or type);
     * an object of a library class (Servo, LiquidCrystal, LiquidCrystal_I2C) is defined only after the
       header providing the class has been included                      (instantiated class => include);
     * at most - and after Close exactly - one setup() and one loop();
     * every included library header has an object of its class            (include => instantiated class);
     * Wire.h accompanies LiquidCrystal_I2C.h and nothing else (the I2C include group, see Libs).
   ItemDiff / CloseDiff are the same obligations as total functions naming the first failing clause; they are
   the step relation for traces scanned from real emitted text.                                            *)
EXTENDS Naturals, Sequences, FiniteSets, TLC

CONSTANTS Alphabet,    \* items the model checker may append
          MaxLen       \* bound on the sketch length in the model-checking configuration

LibClasses == {"Servo", "LiquidCrystal", "LiquidCrystal_I2C"}
HeaderOf(c) == CASE c = "Servo" -> "Servo.h" [] c = "LiquidCrystal" -> "LiquidCrystal.h"
                 [] c = "LiquidCrystal_I2C" -> "LiquidCrystal_I2C.h"
MainHeaders == {HeaderOf(c) : c \in LibClasses}
VarLike == {"global", "type"}
FnLike  == {"fn", "setup", "loop"}
It(k, n, t) == [k |-> k, n |-> n, t |-> t]

VARIABLES items,      \* the sketch so far
          included,   \* header names included so far
          classes,    \* library classes instantiated so far
          names,      \* variable and type names defined so far
          sigs,       \* function signatures defined so far
          fnames,     \* function names defined so far
          nsetup, nloop, closed
svars == <<items, included, classes, names, sigs, fnames, nsetup, nloop, closed>>

SInit == /\ items = <<>> /\ included = {} /\ classes = {} /\ names = {} /\ sigs = {} /\ fnames = {}
         /\ nsetup = 0 /\ nloop = 0 /\ closed = FALSE

ItemDiff(it) ==
    IF closed THEN "item-after-end"
    ELSE IF it.k = "include" THEN (IF it.n \in included THEN "duplicate-include" ELSE "")
    ELSE IF it.k \in VarLike THEN
        (IF it.n \in names \/ it.n \in fnames THEN "duplicate-definition"
         ELSE IF it.k = "global" /\ it.t \in LibClasses /\ HeaderOf(it.t) \notin included THEN "class-instantiated-without-include"
         ELSE "")
    ELSE IF it.k \in FnLike THEN
        (IF it.k = "setup" /\ nsetup >= 1 THEN "second-setup"
         ELSE IF it.k = "loop" /\ nloop >= 1 THEN "second-loop"
         ELSE IF it.t \in sigs \/ it.n \in names THEN "duplicate-definition"
         ELSE "")
    ELSE ""

CloseDiff ==
    IF closed THEN "closed-twice"
    ELSE IF nsetup = 0 THEN "no-setup"
    ELSE IF nloop = 0 THEN "no-loop"
    ELSE IF \E c \in LibClasses : HeaderOf(c) \in included /\ c \notin classes THEN "include-without-instantiated-class"
    ELSE IF "Wire.h" \in included /\ "LiquidCrystal_I2C.h" \notin included THEN "wire-without-i2c-header"
    ELSE IF "LiquidCrystal_I2C.h" \in included /\ "Wire.h" \notin included THEN "i2c-header-without-wire"
    ELSE ""

(* Effect of reading one item (whether or not it is legal: the bookkeeping is the same). *)
Read(it) ==
    /\ items' = Append(items, it)
    /\ included' = IF it.k = "include" THEN included \cup {it.n} ELSE included
    /\ classes' = IF it.k = "global" /\ it.t \in LibClasses THEN classes \cup {it.t} ELSE classes
    /\ names' = IF it.k \in VarLike THEN names \cup {it.n} ELSE names
    /\ sigs' = IF it.k \in FnLike THEN sigs \cup {it.t} ELSE sigs
    /\ fnames' = IF it.k \in FnLike THEN fnames \cup {it.n} ELSE fnames
    /\ nsetup' = IF it.k = "setup" THEN nsetup + 1 ELSE nsetup
    /\ nloop' = IF it.k = "loop" THEN nloop + 1 ELSE nloop
    /\ UNCHANGED closed

Item(it) == ItemDiff(it) = "" /\ Read(it)                        \* the specification only writes legal items
Close == /\ CloseDiff = "" /\ closed' = TRUE
         /\ UNCHANGED <<items, included, classes, names, sigs, fnames, nsetup, nloop>>
SNext == (Len(items) < MaxLen /\ \E it \in Alphabet : Item(it)) \/ Close
SSpec == SInit /\ [][SNext]_svars

(* ---- the same obligations, declaratively, over a whole item sequence ---- *)
Clash(a, b) == \/ a.k \in VarLike /\ b.k \in VarLike /\ a.n = b.n
               \/ a.k \in FnLike /\ b.k \in FnLike /\ a.t = b.t
               \/ a.k \in VarLike /\ b.k \in FnLike /\ a.n = b.n
               \/ a.k \in FnLike /\ b.k \in VarLike /\ a.n = b.n
NumOf(s, k) == Cardinality({i \in DOMAIN s : s[i].k = k})
NoDuplicateInclude(s)  == \A i, j \in DOMAIN s : (i < j /\ s[i].k = "include" /\ s[j].k = "include") => s[i].n # s[j].n
DefinitionsUnique(s)   == \A i, j \in DOMAIN s : i < j => ~Clash(s[i], s[j])
ClassAfterInclude(s)   == \A i \in DOMAIN s : (s[i].k = "global" /\ s[i].t \in LibClasses)
                              => \E j \in 1..(i - 1) : s[j].k = "include" /\ s[j].n = HeaderOf(s[i].t)
IncludeHasInstance(s)  == \A i \in DOMAIN s : (s[i].k = "include" /\ s[i].n \in MainHeaders)
                              => \E j \in DOMAIN s : s[j].k = "global" /\ s[j].t \in LibClasses /\ HeaderOf(s[j].t) = s[i].n
WireIffI2C(s)          == (\E i \in DOMAIN s : s[i].k = "include" /\ s[i].n = "Wire.h")
                              <=> (\E i \in DOMAIN s : s[i].k = "include" /\ s[i].n = "LiquidCrystal_I2C.h")
PrefixOK(s)   == /\ NoDuplicateInclude(s) /\ DefinitionsUnique(s) /\ ClassAfterInclude(s)
                 /\ NumOf(s, "setup") <= 1 /\ NumOf(s, "loop") <= 1
WellFormed(s) == /\ PrefixOK(s) /\ NumOf(s, "setup") = 1 /\ NumOf(s, "loop") = 1
                 /\ IncludeHasInstance(s) /\ WireIffI2C(s)

(* invariants of the building specification *)
AlwaysPrefixOK       == PrefixOK(items)
ClosedIsWellFormed   == closed => WellFormed(items)
ExactlyOneSetupLoop  == closed => (nsetup = 1 /\ nloop = 1)
IncludeIffInstance   == closed => \A c \in LibClasses : (HeaderOf(c) \in included) <=> (c \in classes)
=============================================================================
