------------------------------- MODULE Sandbox -------------------------------
(* C11, first half - transpiling never runs user code and has no side effects.

   One call of parse()+emit() seen through the interpreter's audit hook (PEP 578) and through canaries.  An
   audit record is [ev, grp, key, kind, n]: event name, its group (text before the first dot), the projected
   argument (path|mode of open, module of import, file name of compile), kind (for compile: "ast" when the
   compilation was requested with PyCF_ONLY_AST = 0x400, "code" when it produced a code object, "hidden" when
   it did not come through builtins.compile at all - eval/exec of a string), n = how often it occurred.

   Allowed is exactly what a call of the pinned transpiler needs, measured on valid scripts and justified:
     * compile/ast      - ast.parse / ast.literal_eval of a line or an expression: builds a syntax tree, runs nothing;
     * open '<unknown>' - issued by CPython itself (not by Reduino) when it builds the SyntaxError of a failed
                          ast.parse of the pseudo-file "<unknown>" and looks for the source line to quote; the file
                          does not exist, nothing is read or written;
     * import unicodedata - issued by CPython's parser when it normalises a non-ASCII identifier (NFKC).
   Everything else is an effect the property forbids: code objects built or executed, real files, imports,
   os.*, subprocess.*, socket.*, ctypes.*, ...  Prescriptive: the list follows from the property, the three
   interpreter artefacts are the only concessions.                                                          *)
EXTENDS Integers, Sequences, FiniteSets, TLC

VARIABLES stage, effects, clean
svars == <<stage, effects, clean>>
\* stage: "idle" | "running" | "done";  effects: classes of audit events seen;  clean: canaries/state intact at the end

Audit(ev, grp, key, kind) == [ev |-> ev, grp |-> grp, key |-> key, kind |-> kind]

Allowed(a) ==
    \/ a.ev = "compile" /\ a.kind = "ast"
    \/ a.ev = "open" /\ a.key = "'<unknown>'|'rb'"
    \/ a.ev = "import" /\ a.key = "unicodedata"

(* Name of the forbidden effect ("" for an allowed event): the failing clause of a trace. *)
AuditDiff(a) ==
    IF Allowed(a) THEN ""
    ELSE IF a.ev = "compile" THEN (IF a.kind = "hidden" THEN "string-evaluated" ELSE "compiled-to-code")
    ELSE IF a.ev = "exec" THEN "code-executed"
    ELSE IF a.ev = "open" THEN "file-opened"
    ELSE IF a.ev = "import" THEN "module-imported"
    ELSE IF a.grp = "os" THEN "os-call"
    ELSE IF a.grp = "subprocess" THEN "process-spawned"
    ELSE IF a.grp = "socket" THEN "network-access"
    ELSE "other-audit-event"

Final(canary, snap, env) == [canary |-> canary, snap |-> snap, env |-> env]
FinalDiff(f) ==
    IF f.canary THEN "canary-tripped"                   \* the file / builtins name a payload would create exists
    ELSE IF ~f.snap THEN "module-state-mutated"         \* input-independent state of parser/emitter/ast changed
    ELSE IF ~f.env THEN "environment-changed"           \* os.environ, working directory or recursion limit changed
    ELSE ""

Class(a) == IF Allowed(a) THEN "parse-only" ELSE AuditDiff(a)

Init == stage = "idle" /\ effects = {} /\ clean = TRUE
Start == stage = "idle" /\ stage' = "running" /\ UNCHANGED <<effects, clean>>
Observe(a) == stage = "running" /\ Allowed(a) /\ effects' = effects \cup {Class(a)} /\ UNCHANGED <<stage, clean>>
Finish(f) == stage = "running" /\ FinalDiff(f) = "" /\ stage' = "done" /\ clean' = TRUE /\ UNCHANGED effects

NoForbiddenEffect == effects \subseteq {"parse-only"}
EndsClean == stage = "done" => clean
=============================================================================
