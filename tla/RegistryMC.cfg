SPECIFICATION RSpec
INVARIANT Exact
INVARIANT CanonicalIsAllowed
INVARIANT AcceptedUnderExactlyOnePlatform
CHECK_DEADLOCK FALSE
