----------------------------- MODULE LCDTextMC -----------------------------
(* Grids for exhaustive model checking of LCDText.  One TLC run per facet (the facets touch disjoint parts of
   the state, a progress bar touches cells + its own history):
     "text"      write / line / message / clear: every text of length
                 0..cols+Extra over Alphabet, every start column -1..cols, every row -1..rows, every alignment and
                 clear flag.  MaxOps = 0: the full reachable closure (call sequences of every length);
                 MaxOps = k: sequences of at most k calls.
     "progress"  value / max / width / label grids, `filled` chosen freely in FillSet subject to monotonicity
     "devices"   display / backlight / brightness on every wiring, glyph slots and bitmaps (closure)
   Marked = TRUE starts from a matrix in which every cell holds a code of its own (one step from there shows
   exactly which cells a call overwrites); FALSE starts from the blank display.                          *)
EXTENDS LCDText
CONSTANTS Geoms, Sides, Facet, MaxOps, Extra, Alphabet, Marked

RECURSIVE SeqsUpTo(_, _)
SeqsUpTo(S, k) == IF k = 0 THEN {<<>>}
                  ELSE LET P == SeqsUpTo(S, k - 1) IN P \cup {Append(p, x) : p \in {q \in P : Len(q) = k - 1}, x \in S}
Aligns == {"left", "center", "right"}
AB == {97, 98}
ABSpace == {97, 98, 32}
Pat(k) == [j \in 1..k |-> 96 + j]             \* "abcdef..."

Rep(k) == [j \in 1..k |-> CHOOSE x \in Alphabet : TRUE]
TextCalls(geo) ==
    LET T == SeqsUpTo(Alphabet, geo.cols + Extra)
        M == {<<>>, Rep(geo.cols), Rep(geo.cols + 2)}
    IN {Call("write", <<c, r>>, <<t>>, <<a>>, <<k>>) : c \in -1..geo.cols, r \in -1..geo.rows, t \in T, a \in Aligns, k \in BOOLEAN}
       \cup {Call("line", <<r>>, <<t>>, <<a>>, <<k>>) : r \in -1..geo.rows, t \in T, a \in Aligns, k \in BOOLEAN}
       \cup {Call("message", <<>>, <<t1, t2>>, <<a1, a2>>, <<k, h1, h2>>) :
                t1 \in M, t2 \in M, a1 \in Aligns, a2 \in Aligns, k \in BOOLEAN, h1 \in BOOLEAN, h2 \in BOOLEAN}
       \cup {Call("clear", <<>>, <<>>, <<>>, <<>>)}

ProgVals == -1..5
ProgMax  == {-1, 0, 1, 2, 4}
ProgCalls(geo) ==
    {Call("progress", <<0, v, m, w>>, <<l>>, <<"block">>, <<hw>>) :
        v \in ProgVals, m \in ProgMax, w \in {0, 1, 2, geo.cols + 1}, l \in {<<>>, <<97>>}, hw \in BOOLEAN}
    \cup {Call("progress", <<r, v, m, 3>>, <<Pat(geo.cols)>>, <<"dot">>, <<TRUE>>) : r \in {-1, geo.rows - 1, geo.rows}, v \in ProgVals, m \in ProgMax}
LightCalls ==
    {Call(a, <<>>, <<>>, <<>>, <<b>>) : a \in {"display", "backlight"}, b \in BOOLEAN}
    \cup {Call("brightness", <<v>>, <<>>, <<>>, <<>>) : v \in {-1, 0, 128, 255, 256}}
Bitmaps == {<<31, 31, 31, 31, 31, 31, 31, 31>>, <<0, 2, 5, 8, 8, 5, 2, 0>>, <<32, 255, 256, -1, 33, 64, 95, 1>>,
            <<1, 2, 3, 4, 5, 6, 7>>, <<1, 2, 3, 4, 5, 6, 7, 8, 63>>}
GlyphCalls == {Call("glyph", <<sl>>, <<bm>>, <<>>, <<>>) : sl \in {-1, 0, 7, 8}, bm \in Bitmaps}

CallsOf(geo) ==
    CASE Facet = "text" -> TextCalls(geo)
      [] Facet = "progress" -> ProgCalls(geo)
      [] Facet = "devices" -> LightCalls \cup GlyphCalls
      [] Facet = "all" -> TextCalls(geo) \cup ProgCalls(geo) \cup LightCalls \cup GlyphCalls
      [] OTHER -> {}

CallTab == [geo \in Geoms |-> CallsOf(geo)]       \* constant-level: built once, not per state

(* progress facet: one behaviour keeps to the (width, max) of its first bar, so histories stay comparable *)
Sticky(c) == IF c.act # "progress" \/ Facet # "progress" \/ pg = {} THEN TRUE
             ELSE \E p \in pg : p.w = EffWidth(g, c) /\ p.m = c.i[3]

(* every cell holds a code of its own: one step from here shows exactly which cells a call overwrites *)
MarkedCells(geo) == [r \in 1..geo.rows |-> [k \in 1..geo.cols |-> 200 + (r - 1) * geo.cols + k]]
MCInitM == \E sd \in Sides, geo \in Geoms, mk \in {Marked} :
             /\ side = sd /\ g = geo /\ cell = (IF mk THEN MarkedCells(geo) ELSE Blank(geo)) /\ light = LightInit(geo) /\ gl = NoGlyphs
             /\ pg = {} /\ res = "init" /\ bad = {} /\ n = 0
MCNext == /\ (MaxOps = 0 \/ n < MaxOps)
          /\ n' = IF MaxOps = 0 THEN 0 ELSE n + 1         \* MaxOps = 0: counter frozen, the closure is finite
          /\ \E c \in CallTab[g] : Sticky(c) /\ DoAny(c)
MCSpec == MCInitM /\ [][MCNext]_vars
FillLaw == FillSetLaw(-2..8, {-1, 0, 1, 2, 3, 4, 6, 7}, 1..6)

Small(maxc, maxr) == {Geom(c, r, "parallel", FALSE) : c \in 1..maxc, r \in 1..maxr}
Wirings == {Geom(3, 2, "parallel", TRUE), Geom(3, 2, "parallel", FALSE), Geom(3, 2, "i2c", FALSE)}
GSeq == {Geom(2, 2, "parallel", FALSE), Geom(3, 1, "parallel", FALSE), Geom(3, 2, "parallel", FALSE)}
GSeqT == Small(4, 2)
GSmallQ == {Geom(2, 2, "parallel", FALSE), Geom(3, 1, "i2c", FALSE)}
\* the single-call runs are split so that the largest geometry gets a TLC process of its own
GA1 == Small(3, 2) \cup {Geom(4, 1, "parallel", FALSE)}
GA2 == {Geom(4, 2, "parallel", FALSE)}
GA3 == {Geom(5, 1, "parallel", FALSE)}
GA4 == {Geom(5, 2, "parallel", FALSE)}
G12 == Small(2, 2)
G13 == Small(3, 2)
G14 == Small(4, 2)
G15 == Small(5, 2)
GProg == {Geom(5, 1, "parallel", FALSE), Geom(3, 2, "i2c", FALSE)}
A1 == {97}
=============================================================================
