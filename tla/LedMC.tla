------------------------------- MODULE LedMC -------------------------------
(* Grids for exhaustive model checking of Led (cfg files cannot hold negative literals). *)
EXTENDS Led
BrightsDef   == {-1, 0, 1, 2, 127, 254, 255, 256, 300}
DurationsDef == {-1, 0, 1, 7, 250}
TimesDef     == {-1, 0, 1, 2, 3}
StepsDef     == {-1, 0, 1, 5, 100, 255, 300}
PatternsDef  == {<<>>, <<1>>, <<0, 1>>, <<1, 0, 128>>, <<255, 2, 0>>, <<1, 300, 0>>, <<-1>>, <<0, 0, 1, 1>>}
\* reduced grids for the quick tier
BrightsQ   == {-1, 0, 1, 127, 255, 256}
DurationsQ == {-1, 0, 7}
TimesQ     == {0, 1, 2}
StepsQ     == {0, 60, 255}
PatternsQ  == {<<>>, <<1, 0, 128>>, <<1, 300, 0>>, <<0, 1>>}
=============================================================================
