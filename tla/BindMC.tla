------------------------------- MODULE BindMC -------------------------------
(* Exhaustive model checking of Bind over *every* well-formed signature with at most MaxN parameters and every
   call shape over it (ShapeMode = "all": any number of positionals up to N+1, any sequence of distinct keywords
   over the parameter names plus one name no parameter has).  Real signatures come from a JSON file instead
   (BindGen).  Grids are definitions because cfg files cannot build them. *)
EXTENDS Bind

Kinds == {"pos_or_kw", "kw_only"}
ParamSeqs(n) == [1..n -> [kind : Kinds, dflt : BOOLEAN]]
Valid(ps) == /\ \A i, j \in DOMAIN ps : i < j /\ ps[i].kind = "kw_only" => ps[j].kind = "kw_only"
             /\ \A i, j \in DOMAIN ps : i < j /\ ps[j].kind = "pos_or_kw" /\ ps[i].dflt => ps[j].dflt
Named(ps) == [i \in DOMAIN ps |-> [name |-> "p" \o ToString(i), kind |-> ps[i].kind, dflt |-> ps[i].dflt]]
SigOf(ps) == [name |-> "generic", nalias |-> 0, fullperm |-> 4, params |-> Named(ps)]
GenericSigs(maxn) == SetToSeq(UNION {{SigOf(ps) : ps \in {q \in ParamSeqs(n) : Valid(q)}} : n \in 0..maxn})
GenericSigs2 == GenericSigs(2)
GenericSigs3 == GenericSigs(3)
GenericSigs4 == GenericSigs(4)
Init2 == InitOver(GenericSigs2)
Init3 == InitOver(GenericSigs3)
Init4 == InitOver(GenericSigs4)
=============================================================================
