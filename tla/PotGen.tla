-------------------------------- MODULE PotGen --------------------------------
(* Behaviour generation for Pot: the ADC values delivered to the successive read() calls. *)
EXTENDS PotMC, Json
CONSTANT MaxLen
VARIABLE h
GInit == Init /\ h = <<>>
GNext == \/ Call /\ UNCHANGED h
         \/ \E v \in Adcs : Sample(v) /\ h' = Append(h, v)
         \/ Read /\ UNCHANGED h
Complete == pc = "idle" /\ calls = MaxLen
Emit == IF Complete THEN PrintT(ToJson([pin |-> pin, adc |-> h])) /\ FALSE ELSE TRUE
EmitSim == Emit
=============================================================================
