\* grid family (BFS); checks/c18.py builds the walk (-simulate, INIT WalkInit NEXT WalkNext CONSTRAINT EmitSim) and
\* probe (INIT ProbeInit NEXT ProbeNext CONSTRAINT EmitProbe) configurations from the same constants
INIT GridInit
NEXT GridNext
CONSTANTS
  ColsG <- ColsFull
  RowsG <- RowsTwo
  SpeedsG <- SpeedsFull
  MaxAnims = 1
  LensG <- LensAll
  MaxPass = 34
  MaxA = 4
  PatternsG = {"ontime", "late", "early", "mix", "zero"}
CONSTRAINT Emit
INVARIANT FrameWidth
INVARIANT NonLoopingStops
INVARIANT LoopingNeverStops
CHECK_DEADLOCK FALSE
