INIT Init3
NEXT Next
CONSTANTS
  ShapeMode = "all"
INVARIANT SigWellFormed
INVARIANT TypeOK
INVARIANT SlotUsedOnce
INVARIANT PositionalInOrder
INVARIANT KeywordByName
INVARIANT DefaultOnlyIfDeclaredAndFree
INVARIANT FailureIsJustified
INVARIANT TerminalIsDeclarative
INVARIANT EverySlotConsumed
INVARIANT ConventionIrrelevant
INVARIANT Progress
INVARIANT DetEnabled
INVARIANT Bounded
CHECK_DEADLOCK FALSE
