------------------------------ MODULE LCDAnimGen ------------------------------
(* Behaviour generation for LCDAnim.  A behaviour = (displays, animation parameters, clock at start, one clock
   increment per loop() pass); it leaves TLC as one JSON line and is replayed into the real host class and into
   real firmware.  Three families:
     grid  (BFS)      - every (style, width, loop, speed) of the grid x every text length 0..cols+2 (one display
                        per length) x every named tick-time pattern (on time, late, early/on-time alternating,
                        the six deltas in rotation, clock stuck at 0), run until all animations have finished
                        (+1 pass) or MaxPass passes;
     walk  (simulate) - 1..3 displays of mixed geometry, 1..MaxA animations (several per display, possibly on
                        the same row), every pass a random delta from the delta sets of the speeds present;
     probe (BFS)      - an animation started during loop() pass 1 or 2, or from a user-defined function called
                        in setup (with or without another one started at top level in setup): the triggers of
                        the known findings loop-start-never-ticked / animate-in-function.                  *)
EXTENDS LCDAnimMC, Json

CONSTANTS MaxPass, MaxA, PatternsG
VARIABLES h, idle
gvars == <<vars, h, idle>>

P(d, st, row, n, sp, lp, at) == [d |-> d, style |-> st, row |-> row, n |-> n, speed |-> sp, loop |-> lp, at |-> at, via |-> "top"]
AllDone == \A i \in 1..Len(a) : ~a[i].active

(* one complete loop() pass as a single step *)
GPass(dl) ==
    LET t == now + dl
        S == RunTicks(impl, geo, a, disp, t)
    IN /\ now' = t /\ pass' = pass + 1 /\ a' = S.a /\ disp' = S.disp
       /\ ticked' = [i \in 1..Len(a) |-> 1] /\ blocked' = 0
       /\ h' = [h EXCEPT !.deltas = Append(@, dl)]
       /\ idle' = IF \A i \in 1..Len(a) : ~S.a[i].active THEN idle + 1 ELSE 0
       /\ UNCHANGED <<impl, geo>>

-----------------------------------------------------------------------------
T0(pt) == CASE pt = "ontime" -> 1 [] pt = "late" -> 5 [] pt = "early" -> 1 [] OTHER -> 0
PatDelta(pt, k, s) ==
    CASE pt = "ontime" -> (IF s = 0 THEN 1 ELSE s)
      [] pt = "late" -> 3 * s + 2
      [] pt = "early" -> (IF k % 2 = 0 THEN Max(s - 1, 0) ELSE 1)
      [] pt = "mix" -> <<0, 1, Max(s - 1, 0), s, s + 1, 3 * s>>[(k % 6) + 1]
      [] OTHER -> 0          \* "zero": the clock never starts running

GridInit ==
    /\ impl = "fw" /\ pass = 0 /\ blocked = 0 /\ idle = 0
    /\ \E c \in ColsG, st \in Styles, sp \in SpeedsG, lp \in BOOLEAN, pt \in PatternsG :
         LET nd == c + 3
             g == [d \in 1..nd |-> [cols |-> c, rows |-> 2]]
             aa == [d \in 1..nd |-> NewAnim(d, st, (d - 1) % 2, TextOf(d - 1), sp, lp, FALSE)]
         IN /\ geo = g /\ a = aa /\ now = T0(pt)
            /\ disp = [d \in 1..nd |-> [Blank(g[d]) EXCEPT ![aa[d].row + 1] = StartFrame(aa[d], c)]]
            /\ ticked = [d \in 1..nd |-> 0]
            /\ h = [geo |-> g, anims |-> [d \in 1..nd |-> P(d, st, (d - 1) % 2, d - 1, sp, lp, 0)],
                    t0 |-> T0(pt), deltas |-> <<>>, pat |-> pt]
GridNext == GPass(PatDelta(h.pat, pass, a[1].speed))
GridDone == pass >= MaxPass \/ idle >= 2
Emit == IF GridDone THEN PrintT(ToJson(h)) /\ FALSE ELSE TRUE

-----------------------------------------------------------------------------
WalkGeos ==
    LET G(c, r) == [cols |-> c, rows |-> r] IN
    {<<G(c, r)>> : c \in {1, 2, 3, 5, 8, 16}, r \in {1, 2, 4}}
    \cup {<<G(c1, 2), G(c2, r2)>> : c1 \in {2, 4, 16}, c2 \in {1, 3, 7}, r2 \in {1, 2}}
    \cup {<<G(4, 2), G(2, 1), G(20, 4)>>, <<G(1, 1), G(6, 2), G(3, 2)>>}
WalkLens(c) == {0, 1, c - 1, c, c + 1, c + 2} \cap (0..(c + 2))
SpeedsWalk == {0, 1, 7, 100}

WalkInit ==
    /\ impl = "fw" /\ pass = 0 /\ blocked = 0 /\ idle = 0 /\ now \in {0, 1, 40}
    /\ geo \in WalkGeos /\ a = <<>> /\ ticked = <<>>
    /\ disp = [d \in 1..Len(geo) |-> Blank(geo[d])]
    /\ \E na \in 1..MaxA : h = [geo |-> geo, anims |-> <<>>, t0 |-> now, deltas |-> <<>>, pat |-> "walk", na |-> na]
WalkAdd ==
    /\ Len(a) < h.na
    /\ \E d \in 1..Len(geo), st \in Styles, sp \in SpeedsWalk, lp \in BOOLEAN :
       \E row \in 0..(geo[d].rows - 1), n \in WalkLens(geo[d].cols) :
         /\ Start(d, st, row, TextOf(n), sp, lp)
         /\ h' = [h EXCEPT !.anims = Append(@, P(d, st, row, n, sp, lp, 0))]
    /\ UNCHANGED idle
WalkPass == Len(a) = h.na /\ \E dl \in DeltaSet : GPass(dl)
WalkNext == WalkAdd \/ WalkPass
EmitSim == Len(h.deltas) # MaxPass \/ PrintT(ToJson(h))

-----------------------------------------------------------------------------
(* probe family: the last animation is started by user code during pass `at` > 0, or (at = 0, via = "def")
   from a user-defined function called before the main loop *)
ProbeInit ==
    /\ impl = "fw" /\ pass = 0 /\ blocked = 0 /\ idle = 0 /\ now = 1
    /\ geo = <<[cols |-> 4, rows |-> 2]>>
    /\ \E st \in Styles, lp \in BOOLEAN, at \in {0, 1, 2}, pre \in BOOLEAN :
         LET first == NewAnim(1, "blink", 1, TextOf(2), 0, TRUE, FALSE)
             lastp == [P(1, st, 0, 3, 2, lp, at) EXCEPT !.via = IF at = 0 THEN "def" ELSE "top"] IN
         /\ a = IF pre THEN <<first>> ELSE <<>>
         /\ disp = <<IF pre THEN [Blank(geo[1]) EXCEPT ![2] = StartFrame(first, 4)] ELSE Blank(geo[1])>>
         /\ ticked = IF pre THEN <<0>> ELSE <<>>
         /\ h = [geo |-> geo, anims |-> (IF pre THEN <<P(1, "blink", 1, 2, 0, TRUE, 0)>> ELSE <<>>) \o <<lastp>>,
                 t0 |-> 1, deltas |-> <<>>, pat |-> "probe"]
ProbeNext ==
    \* the pending start happens in setup (at = 0) or at the end of pass `at` (after that pass's ticks)
    LET p == h.anims[Len(h.anims)] IN
    IF pass = p.at /\ Len(a) < Len(h.anims)
    THEN /\ Start(p.d, p.style, p.row, TextOf(p.n), p.speed, p.loop) /\ UNCHANGED <<h, idle>>
    ELSE GPass(2)
ProbeDone == pass >= MaxPass
EmitProbe == IF ProbeDone THEN PrintT(ToJson(h)) /\ FALSE ELSE TRUE
=============================================================================
