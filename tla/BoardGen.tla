------------------------------- MODULE BoardGen -------------------------------
(* Scenario enumeration for C05: which device, where it is declared, where it is first used, how many buttons
   with handlers ride along, whether there is a main loop, and a second device sharing the script. *)
EXTENDS Integers, Sequences, TLC, Json
Kinds == <<"led", "rgb", "servo", "motor", "button", "pot", "ultrasonic", "buzzer", "lcd", "lcdi2c">>
Hoistable == {"led", "rgb", "servo", "motor", "button", "pot", "ultrasonic"}
VARIABLES kind, place, use, nb, hasloop, other, done
Init == /\ kind \in 1..Len(Kinds) /\ place \in {"before", "looptop"} /\ use \in {"setup", "loop", "helper"}
        /\ nb \in 0..2 /\ hasloop \in BOOLEAN /\ other \in 0..Len(Kinds) /\ done = FALSE
        /\ (place = "looptop" => Kinds[kind] \in Hoistable /\ use # "setup" /\ hasloop)
        /\ (~hasloop => use = "setup" /\ nb = 0)
        /\ (Kinds[kind] = "button" => use # "setup")
        /\ (other # 0 => other # kind /\ nb = 0 /\ Kinds[other] # "button")
        /\ (Kinds[kind] \in {"lcd", "lcdi2c"} => (other = 0 \/ Kinds[other] \notin {"lcd", "lcdi2c"}))
Next == done = FALSE /\ done' = TRUE /\ UNCHANGED <<kind, place, use, nb, hasloop, other>>
Emit == done => PrintT(ToJson([kind |-> Kinds[kind], place |-> place, use |-> use, nb |-> nb, hasloop |-> hasloop,
                               other |-> (IF other = 0 THEN "none" ELSE Kinds[other])]))
=============================================================================
