------------------------------- MODULE BoardGen -------------------------------
(* Scenario enumeration for C05: which device, where it is declared, where it is first used, how many buttons
   with handlers ride along, whether there is a main loop, and a second device sharing the script. *)
EXTENDS Integers, Sequences, TLC, Json
Kinds == <<"led", "rgb", "servo", "motor", "button", "pot", "ultrasonic", "buzzer", "lcd", "lcdi2c">>
Hoistable == {"led", "rgb", "servo", "motor", "button", "pot", "ultrasonic"}
VARIABLES kind, place, use, nb, hasloop, other, rebind, decor, anim, cont, firstbind, done
Init == /\ kind \in 1..Len(Kinds) /\ place \in {"before", "looptop"} /\ use \in {"setup", "loop", "helper"}
        /\ nb \in 0..2 /\ hasloop \in BOOLEAN /\ other \in 0..Len(Kinds) /\ done = FALSE
        /\ rebind \in BOOLEAN /\ decor \in BOOLEAN /\ anim \in 0..2 /\ cont \in BOOLEAN /\ firstbind \in BOOLEAN
        \* anim: the display runs that many looping animations, started in the prologue (their ticks are injected housekeeping)
        /\ (anim > 0 => Kinds[kind] \in {"lcd", "lcdi2c"} /\ hasloop /\ ~decor
                         /\ (IF other = 0 THEN TRUE ELSE Kinds[other] # "ultrasonic"))      \* the ranging helper reads the clock itself
        \* firstbind: the loop body opens with the first binding of a name (a declaration in the emitted code) whose right-hand side
        \* reads a sensor - a user statement like any other: the housekeeping comes before it
        /\ (firstbind => hasloop /\ (anim > 0 \/ nb > 0 \/ Kinds[kind] = "button") /\ other = 0 /\ ~decor /\ ~rebind)
        \* cont: every second pass of the main loop ends early through `continue` (housekeeping still runs once in it)
        /\ (cont => hasloop /\ (anim > 0 \/ nb > 0) /\ other = 0 /\ ~decor /\ ~rebind)
        \* rebind: the same name is also bound before the loop, to a device of the same kind on other pins
        /\ (rebind => place = "looptop" /\ other = 0 /\ nb = 0)
        \* decor: comment lines (column 0 and deeper), trailing comments on headers and blank lines are sprinkled over the script
        /\ (decor => other = 0 /\ ~rebind /\ nb <= 1)
        /\ (place = "looptop" => Kinds[kind] \in Hoistable /\ use # "setup" /\ hasloop)
        /\ (~hasloop => use = "setup" /\ nb = 0)
        /\ (Kinds[kind] = "button" => use # "setup")
        /\ (other # 0 => other # kind /\ nb = 0 /\ Kinds[other] # "button")
        /\ (Kinds[kind] \in {"lcd", "lcdi2c"} => (other = 0 \/ Kinds[other] \notin {"lcd", "lcdi2c"}))
Next == done = FALSE /\ done' = TRUE /\ UNCHANGED <<kind, place, use, nb, hasloop, other, rebind, decor, anim, cont, firstbind>>
Emit == done => PrintT(ToJson([kind |-> Kinds[kind], place |-> place, use |-> use, nb |-> nb, hasloop |-> hasloop,
                               other |-> (IF other = 0 THEN "none" ELSE Kinds[other]), rebind |-> rebind, decor |-> decor, anim |-> anim, cont |-> cont, firstbind |-> firstbind]))
=============================================================================
