------------------------------- MODULE UtilsGen -------------------------------
EXTENDS UtilsMC, Json
CONSTANT MaxLen
VARIABLE h
GInit == Init /\ h = <<>>
GNext == \E c \in Calls : Do(c) /\ h' = Append(h, c)
Emit  == IF Len(h) >= MaxLen THEN PrintT(ToJson(h)) /\ FALSE ELSE TRUE
EmitSim == Len(h) < MaxLen \/ PrintT(ToJson(h))
=============================================================================
