----------------------------- MODULE ProjectTrace -----------------------------
(* Batch validation of recorded write_project calls (harness/pio_rec.project_case).
   Trace: [id, ev: << case-and-observation records >>]; each event is an independent call in a fresh sandbox. *)
EXTENDS Project
Traces == JsonDeserialize(IOEnv.TRACE_FILE)
VARIABLES tid, l, bad
T == Traces[tid]
TInit == tid \in 1..Len(Traces) /\ l = 1 /\ bad = "" /\ fs = <<>> /\ res = NoRes
TNext == /\ bad = "" /\ l <= Len(T.ev)
         /\ LET e == T.ev[l]
                c == [pre |-> e.pre, platform |-> e.platform, board |-> e.board, bcodes |-> e.bcodes, port |-> e.port,
                      libs |-> e.libs, src |-> e.src]
            IN bad' = ProjDiff(c, e)
         /\ l' = l + 1 /\ UNCHANGED <<tid, fs, res>>
Done == bad # "" \/ l > Len(T.ev)
Verdict == Done => PrintT(ToJson([id |-> T.id, ok |-> bad = "", l |-> l - 1, clause |-> bad,
                                  case |-> IF l > 1 THEN T.ev[l - 1].id ELSE ""]))
=============================================================================
