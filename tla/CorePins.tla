------------------------------ MODULE CorePins ------------------------------
(* Reduino.Core on the host: the pin simulation is a memory.
   digital_read / analog_read return the last value written to that pin; the pins 7 and "7" are the same pin;
   analog values are clamped to 0..255; a pin that was never written reads HIGH when it is configured
   INPUT_PULLUP and LOW / 0 otherwise; a call on one pin never affects another pin.
   Numeric arguments are integers in units of 1/U (exact in binary floating point).
   A pin *name* is what the caller writes ([k |-> "int"|"str", l |-> written form]); a pin *identity* is the
   label l alone - that is the aliasing law (AliasIntStr).                                                  *)
EXTENDS Integers, Sequences, FiniteSets, TLC

U == 8
CONSTANTS Labels,    \* pin identities of the universe, e.g. {"7", "8", "A0"}
          Names,     \* pin names used by the callers
          Modes,     \* {"INPUT", "OUTPUT", "INPUT_PULLUP"}
          DVals, AVals   \* argument grids: values [t |-> "int"|"float"|"bool", m |-> value * U]
VARIABLES pmode, dval, aval, res, ret, last
vars == <<pmode, dval, aval, res, ret, last>>

Nm(k, l) == [k |-> k, l |-> l]
Label(n) == n.l
Val(t, m) == [t |-> t, m |-> m]
NoVal == Val("int", 0)
Call(act, pin, mode, v) == [act |-> act, pin |-> pin, mode |-> mode, v |-> v]
St(pm, dv, av) == [pm |-> pm, dv |-> dv, av |-> av]
Cur == St(pmode, dval, aval)
UNW == -1                 \* "never written"
NONE == -1000000          \* the call returned None
Reads == {"digital_read", "analog_read"}

Truth(v) == v.m # 0
Clamp(k) == IF k < 0 THEN 0 ELSE IF k > 255 THEN 255 ELSE k
(* The property fixes the clamp, not the rounding of a non-integer PWM value: either neighbouring integer
   may be stored (an integer value is stored as it is). *)
AnalogAllowed(v) ==
    LET f == v.m \div U IN {Clamp(k) : k \in {j \in {f, f + 1} : U * j - v.m < U /\ v.m - U * j < U}}

(* What the two read functions return in state s. *)
RD(s, p) == IF s.dv[p] # UNW THEN s.dv[p] ELSE IF s.pm[p] = "INPUT_PULLUP" THEN 1 ELSE 0
RA(s, p) == IF s.av[p] # UNW THEN s.av[p] ELSE 0

(* The states a call may lead to, and what it returns. *)
Posts(s, c) ==
    LET p == Label(c.pin) IN
    CASE c.act = "pin_mode" -> {St([s.pm EXCEPT ![p] = c.mode], s.dv, s.av)}
      [] c.act = "digital_write" -> {St(s.pm, [s.dv EXCEPT ![p] = IF Truth(c.v) THEN 1 ELSE 0], s.av)}
      [] c.act = "analog_write" -> {St(s.pm, s.dv, [s.av EXCEPT ![p] = r]) : r \in AnalogAllowed(c.v)}
      [] OTHER -> {s}
RetOf(s, c) ==
    CASE c.act = "digital_read" -> RD(s, Label(c.pin))
      [] c.act = "analog_read" -> RA(s, Label(c.pin))
      [] OTHER -> NONE

-----------------------------------------------------------------------------
(* Observation of the implementation after a call: o.modes[label] = recorded mode ("none" if never configured),
   o.reads = what digital_read / analog_read return for every pin *name* of the universe
   (<<[k, l, d, a]...>>), o.extra = number of simulated pins outside the universe, o.pure = observing did not
   change anything. *)
Consistent(t, o) ==
    /\ o.extra = 0 /\ o.pure
    /\ \A p \in DOMAIN t.pm : o.modes[p] = t.pm[p]
    /\ \A i \in 1..Len(o.reads) : o.reads[i].d = RD(t, o.reads[i].l) /\ o.reads[i].a = RA(t, o.reads[i].l)

Step(s, c, o, r, rt) == r = "ok" /\ rt = RetOf(s, c) /\ \E t \in Posts(s, c) : Consistent(t, o)
After(s, c, o) == IF \E t \in Posts(s, c) : Consistent(t, o) THEN CHOOSE t \in Posts(s, c) : Consistent(t, o)
                  ELSE CHOOSE t \in Posts(s, c) : TRUE

(* Diagnostic: the first clause of Step that fails ("" if none). *)
StepDiff(s, c, o, r, rt) ==
    LET p == Label(c.pin)
        R == o.reads
        mine == {i \in 1..Len(R) : R[i].l = p}
    IN
    IF r # "ok" THEN "call-raised"
    ELSE IF rt # RetOf(s, c) THEN
         (IF c.act = "digital_read" THEN
              (IF s.dv[p] # UNW THEN "read-your-writes-digital"
               ELSE IF s.pm[p] = "INPUT_PULLUP" THEN "pullup-default" ELSE "unwritten-reads-low")
          ELSE IF c.act = "analog_read" THEN (IF s.av[p] # UNW THEN "read-your-writes-analog" ELSE "unwritten-reads-zero")
          ELSE "return-not-none")
    ELSE IF \E t \in Posts(s, c) : Consistent(t, o) THEN ""
    ELSE IF ~o.pure THEN "observing-changed-state"
    ELSE IF o.extra # 0 THEN "phantom-pin-created"
    ELSE IF \E i \in 1..Len(R) : R[i].l # p /\ (R[i].d # RD(s, R[i].l) \/ R[i].a # RA(s, R[i].l)) THEN "non-interference"
    ELSE IF \E q \in DOMAIN s.pm : q # p /\ o.modes[q] # s.pm[q] THEN "non-interference-mode"
    ELSE IF \E i, j \in mine : R[i].d # R[j].d \/ R[i].a # R[j].a THEN "alias-int-str"
    ELSE IF c.act \in Reads THEN "read-changed-state"
    ELSE IF c.act = "analog_write" THEN
         (IF \E i \in mine : R[i].a < 0 \/ R[i].a > 255 THEN "clamp-analog"
          ELSE IF \E i \in mine : R[i].d # RD(s, p) THEN "analog-write-changed-digital"
          ELSE IF o.modes[p] # s.pm[p] THEN "write-changed-mode"
          ELSE "read-your-writes-analog")
    ELSE IF c.act = "digital_write" THEN
         (IF \E i \in mine : R[i].a # RA(s, p) THEN "digital-write-changed-analog"
          ELSE IF o.modes[p] # s.pm[p] THEN "write-changed-mode"
          ELSE "read-your-writes-digital")
    ELSE IF o.modes[p] # c.mode THEN "mode-not-recorded"
    ELSE IF \E i \in mine : R[i].a # RA(s, p) THEN "pin-mode-changed-analog"
    ELSE IF s.dv[p] # UNW THEN "pin-mode-changed-written-value"
    ELSE "pullup-default"

(* Known deviation (known/C20.json: core-pullup-sticky): pin_mode(p, INPUT_PULLUP) on an unwritten pin stores HIGH as
   if it had been written, so when the pin is re-configured to another mode (still never written) it keeps
   reading HIGH instead of LOW.  Trigger: StickyTrigger; the deviant behaviour is matched exactly (everything
   else as specified), and the specification then follows the implementation (the pin counts as written HIGH). *)
StickyTrigger(s, c) ==
    c.act = "pin_mode" /\ c.mode # "INPUT_PULLUP" /\ s.pm[Label(c.pin)] = "INPUT_PULLUP" /\ s.dv[Label(c.pin)] = UNW
StickyPost(s, c) == LET p == Label(c.pin) IN St([s.pm EXCEPT ![p] = c.mode], [s.dv EXCEPT ![p] = 1], s.av)
KnownStickyPullup(s, c, o, r, rt) == StickyTrigger(s, c) /\ r = "ok" /\ rt = NONE /\ Consistent(StickyPost(s, c), o)

-----------------------------------------------------------------------------
(* The machine used for model checking and for generating behaviours. *)
Calls ==
    {Call("pin_mode", n, m, NoVal) : n \in Names, m \in Modes}
    \cup {Call("digital_write", n, "", v) : n \in Names, v \in DVals}
    \cup {Call("analog_write", n, "", v) : n \in Names, v \in AVals}
    \cup {Call(a, n, "", NoVal) : a \in Reads, n \in Names}

Init == /\ pmode = [p \in Labels |-> "none"] /\ dval = [p \in Labels |-> UNW] /\ aval = [p \in Labels |-> UNW]
        /\ res = "init" /\ ret = NONE /\ last = Call("none", Nm("int", ""), "", NoVal)
Effect(c) == /\ \E t \in Posts(Cur, c) : pmode' = t.pm /\ dval' = t.dv /\ aval' = t.av
             /\ res' = "ok" /\ ret' = RetOf(Cur, c)
Do(c) == Effect(c) /\ last' = c
Next == \E c \in Calls : Do(c)
Spec == Init /\ [][Next]_vars
MemView == <<pmode, dval, aval>>   \* VIEW for the exhaustive check: successors depend on the memory only, the laws
                                   \* about last/ret are action properties, evaluated on every transition

-----------------------------------------------------------------------------
(* Properties named by C20 (action properties speak about the step that performs the call last'). *)
Nxt == St(pmode', dval', aval')
TypeOK == /\ \A p \in Labels : pmode[p] \in Modes \cup {"none"} /\ dval[p] \in {UNW, 0, 1} /\ aval[p] \in -1..255
          /\ res \in {"init", "ok"}
ClampAnalog == \A p \in Labels : 0 <= RA(Cur, p) /\ RA(Cur, p) <= 255
DigitalIsBit == \A p \in Labels : RD(Cur, p) \in {0, 1}
PullupDefault ==    \* a pin never written reads HIGH exactly when it is INPUT_PULLUP; analog reads 0
    \A p \in Labels : (dval[p] = UNW => (RD(Cur, p) = 1) = (pmode[p] = "INPUT_PULLUP")) /\ (aval[p] = UNW => RA(Cur, p) = 0)
ReadReturnsStored ==   \* a read returns what is stored for that pin, everything else returns None
    [][ret' = (IF last'.act = "digital_read" THEN RD(Cur, Label(last'.pin))
               ELSE IF last'.act = "analog_read" THEN RA(Cur, Label(last'.pin)) ELSE NONE) /\ res' = "ok"]_vars
ReadYourWrites ==   \* right after a write the read functions return the value written
    [][LET c == last' IN
          /\ (c.act = "digital_write" => RD(Nxt, Label(c.pin)) = (IF Truth(c.v) THEN 1 ELSE 0))
          /\ (c.act = "analog_write" => RA(Nxt, Label(c.pin)) \in AnalogAllowed(c.v))
          /\ (c.act = "analog_write" /\ c.v.m % U = 0 => RA(Nxt, Label(c.pin)) = Clamp(c.v.m \div U))]_vars
ReadsArePure ==     \* a read changes nothing: a value stays until it is overwritten
    [][last'.act \in Reads => Nxt = Cur]_vars
NonInterference ==  \* a call on one pin leaves every other pin as it was
    [][\A q \in Labels \ {Label(last'.pin)} :
          pmode'[q] = pmode[q] /\ RD(Nxt, q) = RD(Cur, q) /\ RA(Nxt, q) = RA(Cur, q)]_vars
AliasIntStr ==      \* the effect and the result of a call do not depend on how the pin is written (7 or "7")
    [][\A n \in Names : Label(n) = Label(last'.pin) => Effect([last' EXCEPT !.pin = n])]_vars
WritesKeepKinds ==  \* digital and analog values of a pin are separate memories; pin_mode never overwrites a written value
    [][LET c == last' IN
          /\ (c.act = "digital_write" => aval' = aval /\ pmode' = pmode)
          /\ (c.act = "analog_write" => dval' = dval /\ pmode' = pmode)
          /\ (c.act = "pin_mode" => aval' = aval /\ dval' = dval)]_vars
=============================================================================
