------------------------------- MODULE Project -------------------------------
(* PlatformIO project generation over an abstract file system (property C13, second half).

   write_project(dir, source, port, platform=, board=, lib_deps=) on a registered pair leaves, below dir,
       src/main.cpp   |-> the source text, verbatim
       platformio.ini |-> one environment [env:NAME] naming exactly
                          platform, board, framework = arduino, upload_port = port, lib_deps = Dedup(libs)
   and touches nothing outside dir; on an unregistered pair it raises ValueError and writes nothing.
   Dedup = the given libraries without empties, each kept at its first occurrence.
   NAME  = the board id with every maximal run of characters outside [A-Za-z0-9_] replaced by one "_"
           (characters matter here: board ids are sequences of code points; everywhere else text is an atom).
   What is read back is what a standard INI parser (configparser, no interpolation) returns; a list-valued
   option is the sequence of its non-empty lines.                                                          *)
EXTENDS Registry

Word == (48..57) \cup (65..90) \cup (97..122) \cup {95}
RECURSIVE San(_, _, _)
San(s, i, acc) ==
    IF i > Len(s) THEN acc
    ELSE IF s[i] \in Word THEN San(s, i + 1, Append(acc, s[i]))
    ELSE IF i > 1 /\ s[i - 1] \notin Word THEN San(s, i + 1, acc)        \* inside a run: already replaced
    ELSE San(s, i + 1, Append(acc, 95))
Sanitize(s) == San(s, 1, <<>>)

RECURSIVE Ded(_, _, _)
Ded(q, i, acc) ==
    IF i > Len(q) THEN acc
    ELSE IF q[i] = "" \/ q[i] \in RangeOf(acc) THEN Ded(q, i + 1, acc)
    ELSE Ded(q, i + 1, Append(acc, q[i]))
Dedup(q) == Ded(q, 1, <<>>)

\* (library names are data: a name that looks like a template field or carries braces is written and read back verbatim)
LibNames == {"Servo", "LiquidCrystal", "LiquidCrystal_I2C", "", "{board}", "{}", "x}{y"}
LibSeqs(n) == UNION {[1..k -> LibNames] : k \in 0..n}

(* Laws of the two functions, checked by TLC over all library lists up to length 4 and all registered ids. *)
IsSubseq(a, q) ==      \* a = q with some positions deleted, order kept: positions of first occurrences increase
    \A i \in 1..Len(a), j \in 1..Len(a) :
        i < j => (CHOOSE m \in 1..Len(q) : q[m] = a[i] /\ \A k \in 1..(m - 1) : q[k] # a[i])
                 < (CHOOSE m \in 1..Len(q) : q[m] = a[j] /\ \A k \in 1..(m - 1) : q[k] # a[j])
DedupLaw(q) ==
    LET d == Dedup(q) IN
    /\ RangeOf(d) = RangeOf(q) \ {""}
    /\ Cardinality(RangeOf(d)) = Len(d)
    /\ IsSubseq(d, q)
    /\ Dedup(d) = d
SanitizeLaw(s) ==
    LET t == Sanitize(s) IN
    /\ RangeOf(t) \subseteq Word
    /\ Sanitize(t) = t
    /\ (RangeOf(s) \subseteq Word => t = s)
    /\ Len(t) <= Len(s) /\ (Len(s) > 0 => Len(t) > 0)

-----------------------------------------------------------------------------
(* The configuration a project names, and the step relation against an observation of the real code.
   c (stimulus): [pre, platform, board, bcodes, port, libs, src]
   r (observed): [out, main, ini: [present, parsed, nsec, sec, env, envcodes, platform, board, framework, port, libs, keys],
                  before, after (listings of the project directory), outside (everything touched elsewhere)] *)
IniOf(c) == [env |-> Sanitize(c.bcodes), platform |-> c.platform, board |-> c.board, framework |-> "arduino",
             port |-> c.port, libs |-> Dedup(c.libs)]
NeededKeys == {"platform", "board", "framework", "upload_port"}

ProjDiff(c, r) ==
    IF r.outside # <<>> THEN "touched-outside-project-directory"
    ELSE IF ~Accept(c.platform, c.board) THEN
        (IF r.out = "ok" THEN "accepted:" \o Why(c.platform, c.board)
         ELSE IF r.out # "ValueError" THEN "rejection-is-not-a-ValueError"
         ELSE IF r.after # r.before THEN "rejected-call-wrote-files"
         ELSE "")
    ELSE IF r.out # "ok" THEN "registered-pair-failed:" \o r.out
    ELSE IF r.main # c.src THEN "main.cpp-not-verbatim"
    ELSE IF ~r.ini.present THEN "no-platformio.ini"
    ELSE IF ~r.ini.parsed THEN "platformio.ini-unreadable"
    ELSE IF r.ini.nsec # 1 THEN "not-exactly-one-section"
    ELSE IF r.ini.envcodes # IniOf(c).env \/ r.ini.env = "" THEN "environment-name"
    ELSE IF r.ini.platform # c.platform THEN "platform"
    ELSE IF r.ini.board # c.board THEN "board"
    ELSE IF r.ini.framework # "arduino" THEN "framework"
    ELSE IF r.ini.port # c.port THEN "upload_port"
    ELSE IF r.ini.libs # Dedup(c.libs) THEN
        (IF RangeOf(r.ini.libs) # RangeOf(Dedup(c.libs)) THEN "lib_deps:set"
         ELSE IF Len(r.ini.libs) # Len(Dedup(c.libs)) THEN "lib_deps:duplicates" ELSE "lib_deps:order")
    ELSE IF RangeOf(r.ini.keys) \ {"lib_deps"} # NeededKeys THEN "extra-or-missing-option"
    ELSE ""

-----------------------------------------------------------------------------
(* Abstract file system machine (model checking): projects in two directories, written repeatedly. *)
CONSTANTS Dirs, Sources, Ports, PairsG, LibLists
VARIABLES fs, res
pvars == <<fs, res>>
Absent == [present |-> FALSE]
File(src, ini) == [present |-> TRUE, main |-> src, ini |-> ini]

NoRes == [d |-> "", out |-> "none", src |-> "", port |-> "", pb |-> <<"", "", <<>>>>, libs |-> <<>>]
PInit == fs = [d \in Dirs |-> Absent] /\ res = NoRes
WriteProject(d, src, port, pb, libs) ==
    IF Accept(pb[1], pb[2])      \* pb = <<platform, board, code points of the board id>>
    THEN /\ fs' = [fs EXCEPT ![d] = File(src, IniOf([platform |-> pb[1], board |-> pb[2], bcodes |-> pb[3],
                                                       port |-> port, libs |-> libs]))]
         /\ res' = [d |-> d, out |-> "ok", src |-> src, port |-> port, pb |-> pb, libs |-> libs]
    ELSE /\ UNCHANGED fs
         /\ res' = [d |-> d, out |-> "ValueError", src |-> src, port |-> port, pb |-> pb, libs |-> libs]
PNext == \E d \in Dirs, src \in Sources, port \in Ports, pb \in PairsG, libs \in LibLists : WriteProject(d, src, port, pb, libs)
PSpec == PInit /\ [][PNext]_pvars

RoundTrip ==        \* reading back the directory just written gives exactly what was asked for
    res.out = "ok" =>
        LET f == fs[res.d] IN
        /\ f.present /\ f.main = res.src
        /\ f.ini.platform = res.pb[1] /\ f.ini.board = res.pb[2] /\ f.ini.framework = "arduino" /\ f.ini.port = res.port
        /\ f.ini.libs = Dedup(res.libs) /\ "" \notin RangeOf(f.ini.libs)
        /\ RangeOf(f.ini.env) \subseteq Word /\ Len(f.ini.env) > 0
OnlyRegisteredProjectsExist == \A d \in Dirs : fs[d].present => Accept(fs[d].ini.platform, fs[d].ini.board)
OtherDirectoriesUntouched == [][\A d \in Dirs : d # res'.d => fs'[d] = fs[d]]_pvars
RejectedWritesNothing == [][res'.out = "ValueError" => fs' = fs]_pvars
NoStaleState ==     \* a second write into the same directory leaves nothing of the first
    [][res'.out = "ok" => fs'[res'.d] = File(res'.src, IniOf([platform |-> res'.pb[1], board |-> res'.pb[2],
                            bcodes |-> res'.pb[3], port |-> res'.port, libs |-> res'.libs]))]_pvars

LibLaws      == \A q \in LibSeqs(4) : DedupLaw(q)
SanitizeLaws == \A i \in PlatIdx : \A j \in 1..Len(RegSeq[i].boards) : SanitizeLaw(RegSeq[i].boards[j].codes)
=============================================================================
