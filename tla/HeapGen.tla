------------------------------- MODULE HeapGen -------------------------------
(* Histories of list / string operations (C09 stimuli): every sequence of up to MaxLen operation codes over two
   list variables and one string, times a placement of the history relative to the main loop. *)
EXTENDS Integers, Sequences, TLC, Json
CONSTANT MaxLen
Ops == <<"decl-literal", "decl-comp", "copy-b-from-a", "reassign-literal", "reassign-copy", "append-a", "append-b",
         "remove-present", "remove-maybe-absent", "index-first", "index-last-negative", "index-runtime", "len-a", "len-b",
         "pass-to-function", "return-from-function", "string-concat", "string-len",
         "append-own-first", "append-own-last", "swap-a-b", "swap-in-function", "index-into-other", "append-from-other",
         "drain-then-append", "drain-then-reassign", "grow-copy-append",
         "helper-assigns-global-list", "cond-remove-then-negative-index", "cond-append-then-negative-index",
         "self-assign-then-index", "keep-or-replace-then-index", "string-list-copy-then-grow", "string-list-through-function">>
Places == <<"setup", "loop", "shared">>
VARIABLES h, place
Init == h = <<>> /\ place \in 1..Len(Places)
Next == Len(h) < MaxLen /\ \E o \in 1..Len(Ops) : h' = Append(h, Ops[o]) /\ UNCHANGED place
Emit == Len(h) >= 1 => PrintT(ToJson([ops |-> h, place |-> Places[place]]))
Bound == Len(h) <= MaxLen
=============================================================================
