------------------------------- MODULE DCMotor -------------------------------
(* The H-bridge DC motor as a state machine.  Speeds are integers in units of U = 1/20000 (1.0 = 20000), so
   every grid value and every one of the 20 ramp steps is exact.  A motor "level" is <<dir, duty>> with
   dir in {"fwd","rev","coast","brake"}; duty is |applied speed| in U on the host and the 0..255 PWM count on
   the device.  Speeds are clamped to [-1, 1] on both sides; only a negative duration is an invalid scalar.
   side = "host": negative duration raises, object unchanged.   side = "fw": firmware contract of C04.      *)
EXTENDS Integers, Sequences, TLC, Wave

ONE == 20000
RAMP == 20
VARIABLES side, speed, inv, mode, applied, wave, res, last
vars == <<side, speed, inv, mode, applied, wave, res, last>>

Call(act, a) == [act |-> act, a |-> a]
NoCall == Call("none", <<>>)
St(s, i, m, a) == [speed |-> s, inv |-> i, mode |-> m, applied |-> a]
Cur == St(speed, inv, mode, applied)
ClampS(v) == IF v > ONE THEN ONE ELSE IF v < -ONE THEN -ONE ELSE v
Appl(s, i) == IF i THEN -s ELSE s
ModeOf(a) == IF a = 0 THEN "coast" ELSE "drive"
LevelOf(a, m) == IF m = "brake" THEN <<"brake", 0>> ELSE IF a > 0 THEN <<"fwd", a>> ELSE IF a < 0 THEN <<"rev", -a>> ELSE <<"coast", 0>>
Drive(s, i) == St(s, i, ModeOf(Appl(s, i)), Appl(s, i))          \* state after commanding speed s
LvSt(t) == LevelOf(t.applied, t.mode)

Valid(c) ==
    CASE c.act \in {"set_speed", "backward", "stop", "coast", "invert"} -> TRUE
      [] c.act = "ramp" -> c.a[2] >= 0            \* <<target, duration_ms>>
      [] c.act = "run_for" -> c.a[1] >= 0         \* <<duration_ms, speed>>
      [] OTHER -> FALSE

(* Unmerged expected waveform: one step per level command, in order. *)
ULv(w, lv) == Append(w, Seg(lv, 0, 0))
RECURSIVE RampW(_, _, _, _, _, _)
RampW(w, start, target, i, invd, us) ==
    IF i > RAMP THEN w
    ELSE LET s == start + ((target - start) * i) \div RAMP      \* exact: (target - start) is a multiple of RAMP
             w1 == ULv(w, LvSt(Drive(s, invd))) IN
         RampW(IF us > 0 THEN WSl(w1, us) ELSE w1, start, target, i + 1, invd, us)

PostOf(s, c) ==
    CASE c.act = "set_speed" -> Drive(ClampS(c.a[1]), s.inv)
      [] c.act = "backward" -> Drive(-Abs(ClampS(IF Len(c.a) = 0 THEN ONE ELSE c.a[1])), s.inv)     \* backward() = backward(1.0)
      [] c.act = "stop" -> St(0, s.inv, "brake", 0)
      [] c.act = "coast" -> St(0, s.inv, "coast", 0)
      [] c.act = "invert" -> Drive(s.speed, ~s.inv)
      [] c.act = "ramp" -> Drive(ClampS(c.a[1]), s.inv)
      [] c.act = "run_for" -> St(0, s.inv, "brake", 0)
      [] OTHER -> s

StepsOf(s, c) ==     \* the level commands a valid call issues, as unmerged steps (without the starting level)
    CASE c.act \in {"set_speed", "backward", "stop", "coast", "invert"} -> ULv(<<>>, LvSt(PostOf(s, c)))
      [] c.act = "ramp" -> RampW(<<>>, s.speed, ClampS(c.a[1]), 1, s.inv, 50 * c.a[2])     \* duration_ms / 20 in us
      [] c.act = "run_for" -> ULv(WSl(ULv(<<>>, LvSt(Drive(ClampS(c.a[2]), s.inv))), 1000 * c.a[1]), <<"brake", 0>>)
      [] OTHER -> <<>>

RECURSIVE MergeEq(_, _, _)
MergeEq(w, steps, i) ==      \* merge under exact equality, starting from waveform w
    IF i > Len(steps) THEN w
    ELSE LET w1 == WLv(w, steps[i].lv)
             w2 == [w1 EXCEPT ![Len(w1)] = Seg(@.lv, @.us + steps[i].us, @.n + steps[i].n)] IN
         MergeEq(w2, steps, i + 1)
HostWave(s, c) == MergeEq(WStart(LvSt(s)), StepsOf(s, c), 1)

(* Device level o = <<dir, count>> is an acceptable rendering of the specified level e = <<dir, duty in U>>:
   brake is brake; otherwise the PWM count is within one count of duty*255 and, when it is non-zero, the
   direction pins agree (with a zero count the bridge is disabled whatever the direction pins say). *)
LvOK(o, e) ==
    IF e[1] = "brake" THEN o = <<"brake", 0>>
    ELSE /\ o[1] # "brake"
         /\ 0 <= o[2] /\ o[2] <= 255
         /\ Abs(o[2] * ONE - e[2] * 255) <= ONE
         /\ o[2] > 0 => o[1] = e[1]
         /\ o[2] = 0 => o[1] = "coast"

(* obs (merged on the device's own levels) refines exp (unmerged steps preceded by the start level):
   consecutive expected steps may fall into one observed segment; durations add up (n delays: < n ms off). *)
RECURSIVE Ref(_, _, _, _, _, _)
Ref(obs, exp, i, j, us, n) ==
    /\ i <= Len(exp) /\ j <= Len(obs)
    /\ LvOK(obs[j].lv, exp[i].lv)
    /\ LET u == us + exp[i].us
           m == n + exp[i].n
           closes == IF m = 0 THEN obs[j].us = 0 ELSE Abs(obs[j].us - u) < 1000 * m
       IN \/ (closes /\ ((i = Len(exp) /\ j = Len(obs)) \/ Ref(obs, exp, i + 1, j + 1, 0, 0)))
          \/ Ref(obs, exp, i + 1, j, u, m)
FwWaveOK(s, c, obs) == Ref(obs, <<Seg(LvSt(s), 0, 0)>> \o StepsOf(s, c), 1, 1, 0, 0)

(* The speed a call leaves too small to turn into a non-zero PWM count (known deviation of get_mode()). *)
TinyDrive(t) == t.applied # 0 /\ 2 * Abs(t.applied) * 255 < ONE

HostStep(s, c, t, w, r) ==
    IF ~Valid(c) THEN r = "raise" /\ t = s /\ w = WStart(LvSt(s))
    ELSE r = "ok" /\ t = PostOf(s, c) /\ WaveExact(w, HostWave(s, c))
(* device getters are read through Serial with limited precision: speeds within 1 U *)
NearSt(t, e) == /\ Abs(t.speed - e.speed) <= 1 /\ Abs(t.applied - e.applied) <= 1 /\ t.inv = e.inv /\ t.mode = e.mode
FwStep(s, c, t, w, r) ==
    /\ r = "ok"
    /\ LET cc == IF Valid(c) THEN c ELSE (IF c.act = "ramp" THEN Call("ramp", <<c.a[1], 0>>) ELSE Call("run_for", <<0, c.a[2]>>)) IN
       /\ NearSt(t, PostOf(s, cc))
       /\ FwWaveOK(s, cc, w)
(* Known deviation (known_findings.json: motor-tiny-speed-mode): a commanded speed too small for a non-zero PWM
   count leaves get_mode() = "coast" on the device although the host says "drive"; all else as specified. *)
KnownTinyMode(s, c, t, w, r) ==
    LET cc == IF Valid(c) THEN c ELSE (IF c.act = "ramp" THEN Call("ramp", <<c.a[1], 0>>) ELSE Call("run_for", <<0, c.a[2]>>))
        e == PostOf(s, cc) IN
    /\ TinyDrive(e) /\ e.mode = "drive" /\ t.mode = "coast"
    /\ FwStep(s, c, [t EXCEPT !.mode = "drive"], w, r)

Step(sd, s, c, t, w, r) == IF sd = "host" THEN HostStep(s, c, t, w, r) ELSE FwStep(s, c, t, w, r)

StepDiff(sd, s, c, t, w, r) ==
    IF Step(sd, s, c, t, w, r) THEN ""
    ELSE IF sd = "host" /\ ~Valid(c) THEN (IF r # "raise" THEN "invalid-call-accepted" ELSE "failed-call-changed-state")
    ELSE IF r # "ok" THEN "result"
    ELSE LET cc == IF Valid(c) THEN c ELSE (IF c.act = "ramp" THEN Call("ramp", <<c.a[1], 0>>) ELSE Call("run_for", <<0, c.a[2]>>))
             e == PostOf(s, cc) IN
         IF sd = "host" /\ t # e THEN "state"
         ELSE IF sd = "fw" /\ ~NearSt(t, e) THEN (IF t.mode # e.mode THEN "getter-mode" ELSE IF t.inv # e.inv THEN "getter-inverted" ELSE "getter-speed")
         ELSE "waveform"

-----------------------------------------------------------------------------
CONSTANTS Speeds, Durations
Calls == {Call(a, <<>>) : a \in {"stop", "coast", "invert"}}
         \cup {Call(a, <<v>>) : a \in {"set_speed", "backward"}, v \in Speeds} \cup {Call("backward", <<>>)}
         \cup {Call("ramp", <<v, d>>) : v \in Speeds, d \in Durations}
         \cup {Call("run_for", <<d, v>>) : v \in Speeds, d \in Durations}

Init == /\ side \in {"host", "fw"} /\ speed = 0 /\ inv = FALSE /\ mode = "coast" /\ applied = 0
        /\ wave = WStart(<<"coast", 0>>) /\ res = "init" /\ last = NoCall
Do(c) ==
    /\ last' = c /\ UNCHANGED side
    /\ IF ~Valid(c) /\ side = "host"
       THEN res' = "raise" /\ wave' = WStart(LvSt(Cur)) /\ UNCHANGED <<speed, inv, mode, applied>>
       ELSE LET cc == IF Valid(c) THEN c ELSE (IF c.act = "ramp" THEN Call("ramp", <<c.a[1], 0>>) ELSE Call("run_for", <<0, c.a[2]>>))
                t == PostOf(Cur, cc) IN
            /\ res' = "ok" /\ wave' = HostWave(Cur, cc)
            /\ speed' = t.speed /\ inv' = t.inv /\ mode' = t.mode /\ applied' = t.applied
Next == \E c \in Calls : Do(c)
Spec == Init /\ [][Next]_vars

-----------------------------------------------------------------------------
SpeedInRange == -ONE <= speed /\ speed <= ONE
AppliedIsSpeedNegatedWhenInverted == applied = Appl(speed, inv)
ModeLaw ==       \* drive exactly when the applied speed is non-zero; otherwise brake iff the last command was stop()/run_for()
    /\ (mode = "drive") <=> (applied # 0)
    /\ (applied = 0 /\ res = "ok") => (mode = "brake") <=> (last.act \in {"stop", "run_for"})
    /\ mode \in {"drive", "coast", "brake"}
RampEndsAtTarget == (last.act = "ramp" /\ res = "ok") => speed = ClampS(last.a[1])
RampNeverLonger == (last.act = "ramp" /\ res = "ok" /\ Valid(last)) => WTotal(wave) <= 1000 * last.a[2]
RunForEndsBraked == (last.act = "run_for" /\ res = "ok") => (mode = "brake" /\ speed = 0 /\ applied = 0)
RunForSleepsExactly == (last.act = "run_for" /\ res = "ok" /\ Valid(last)) => WTotal(wave) = 1000 * last.a[1]
DutyNeverAboveOne == \A i \in 1..Len(wave) : wave[i].lv[2] <= ONE
FailedCallLeavesState ==
    [][(side = "host" /\ ~Valid(last')) => (res' = "raise" /\ speed' = speed /\ inv' = inv /\ mode' = mode /\ applied' = applied)]_vars
InvertTwiceRestores ==     \* invert() is an involution on (inverted, applied speed)
    [][(last'.act = "invert") => (inv' = ~inv /\ applied' = -applied /\ speed' = speed)]_vars
Signed(lv) == IF lv[1] = "rev" THEN -lv[2] ELSE lv[2]
RampMonotone ==      \* the applied speed moves monotonically from where it was to the target
    (last.act = "ramp" /\ res = "ok" /\ Valid(last)) =>
        \/ \A i \in 2..Len(wave) : Signed(wave[i].lv) >= Signed(wave[i - 1].lv)
        \/ \A i \in 2..Len(wave) : Signed(wave[i].lv) <= Signed(wave[i - 1].lv)
=============================================================================
