---------------------------- MODULE ButtonShared ----------------------------
(* Several buttons that share ONE on_click handler (C15).  The handler runs once per released-to-pressed transition of
   EVERY button: in a pass in which k buttons rise, it runs k times - also when k > 1.  Each button is sampled exactly
   once per pass and once in setup().

   Events:  setup  s   - the samples taken in setup() (one per button, in declaration order)
            pass   s n c - samples of one loop() pass, number of samples taken per button, handler runs in that pass  *)
EXTENDS Integers, Sequences, FiniteSets, TLC

CONSTANTS N, MaxPasses
VARIABLES prev, pass, total, expected
vars == <<prev, pass, total, expected>>

Rising(p, s) == {b \in 1..Len(s) : s[b] = 1 /\ p[b] = 0}
Diff(p, e) ==
    CASE e.k = "setup" -> IF p # <<>> THEN "setup-twice" ELSE ""
      [] e.k = "pass"  -> IF p = <<>> THEN "pass-before-setup-sample"
                          ELSE IF Len(e.s) # Len(p) THEN "button-missing"
                          ELSE IF \E b \in 1..Len(e.n) : e.n[b] # 1 THEN "not-sampled-once-per-pass"
                          ELSE IF e.c # Cardinality(Rising(p, e.s)) THEN "shared-handler-runs-differ-from-rising-edges"
                          ELSE ""
      [] OTHER -> "unknown-event"
Apply(p, e) == e.s

(* model: all signals of N buttons *)
Init == prev \in [1..N -> {0, 1}] /\ pass = 0 /\ total = 0 /\ expected = 0
Pass(s) == /\ pass < MaxPasses
           /\ LET e == [k |-> "pass", s |-> s, n |-> [b \in 1..N |-> 1], c |-> Cardinality(Rising(prev, s))] IN
                /\ Diff(prev, e) = ""
                /\ total' = total + e.c
                /\ expected' = expected + Cardinality({b \in 1..N : s[b] = 1 /\ prev[b] = 0})
           /\ prev' = s /\ pass' = pass + 1
Next == \E s \in [1..N -> {0, 1}] : Pass(s)
Spec == Init /\ [][Next]_vars
OncePerTransition == total = expected
NeverMoreThanButtons == [][total' - total <= N]_vars
=============================================================================
