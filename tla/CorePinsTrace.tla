---------------------------- MODULE CorePinsTrace ----------------------------
(* Batch trace validation for Reduino.Core: every recorded call of every trace must be a step the CorePins
   specification allows; the specification's own state is carried along (the written/unwritten distinction is
   not observable) and compared with what the implementation shows for *every* pin name after *every* call.
   Verdicts are total: a trace is followed to its end or to the first rejected event, whose clause is named. *)
EXTENDS CorePins, Json, IOUtils
Traces == JsonDeserialize(IOEnv.TRACE_FILE)
\* [{id, labels: <<label...>>, ev: <<[act, pin:[k,l], mode, v:[t,m], out, ret, modes:[label |-> mode], reads:<<[k,l,d,a]...>>, extra, pure]...>>}...]
VARIABLES tid, l, bad, known
T == Traces[tid]
TLabels == {T.labels[i] : i \in 1..Len(T.labels)}
TInit == /\ tid \in 1..Len(Traces) /\ l = 1 /\ bad = "" /\ known = {}
         /\ pmode = [p \in {Traces[tid].labels[i] : i \in 1..Len(Traces[tid].labels)} |-> "none"]
         /\ dval = [p \in DOMAIN pmode |-> UNW] /\ aval = [p \in DOMAIN pmode |-> UNW]
         /\ res = "init" /\ ret = NONE /\ last = Call("none", Nm("int", ""), "", NoVal)
TNext == /\ bad = "" /\ l <= Len(T.ev)
         /\ LET e == T.ev[l]
                c == Call(e.act, e.pin, e.mode, e.v)
                o == [modes |-> e.modes, reads |-> e.reads, extra |-> e.extra, pure |-> e.pure]
                d0 == IF e.act = "init" THEN (IF Consistent(Cur, o) THEN "" ELSE "initial-state-not-reset")
                      ELSE IF Label(e.pin) \notin TLabels THEN "stimulus-outside-universe"
                      ELSE StepDiff(Cur, c, o, e.out, e.ret)
                kn == d0 # "" /\ e.act # "init" /\ Label(e.pin) \in TLabels /\ KnownStickyPullup(Cur, c, o, e.out, e.ret)
                t == IF e.act = "init" \/ (d0 # "" /\ ~kn) THEN Cur ELSE IF kn THEN StickyPost(Cur, c) ELSE After(Cur, c, o)
            IN /\ pmode' = t.pm /\ dval' = t.dv /\ aval' = t.av /\ res' = e.out /\ ret' = e.ret /\ last' = c
               /\ known' = IF kn THEN known \cup {"core-pullup-sticky"} ELSE known
               /\ bad' = IF kn THEN "" ELSE d0
         /\ l' = l + 1 /\ UNCHANGED tid
Done == bad # "" \/ l > Len(T.ev)
Verdict == Done => PrintT(ToJson([id |-> T.id, ok |-> bad = "", l |-> l - 1, clause |-> bad, known |-> known]))
=============================================================================
