---------------------------- MODULE SerialMonTrace ----------------------------
(* Batch trace validation for SerialMonitor against a recording fake backend. *)
EXTENDS SerialMon, Json, IOUtils
Traces == JsonDeserialize(IOEnv.TRACE_FILE)
\* [{id, cfg:[baud,port,nl,backend], ev: <<[act, port, txt, emit, out, ret:[k,b], calls:<<[op,id,port,baud,data]...>>, echo, open:<<id...>>]...>>}...]
VARIABLES tid, l, bad
T == Traces[tid]
TInit == /\ tid \in 1..Len(Traces) /\ l = 1 /\ bad = ""
         /\ cfg = Traces[tid].cfg /\ phase = "unborn" /\ conn = FALSE /\ cur = 0 /\ nopen = 0
         /\ res = "init" /\ ret = RNone /\ calls = <<>> /\ echo = <<>> /\ last = NoCall
TNext == /\ bad = "" /\ l <= Len(T.ev)
         /\ LET e == T.ev[l]
                c == Call(e.act, e.port, e.txt, e.emit)
                op == {e.open[i] : i \in 1..Len(e.open)}
                d == IF (e.act = "new") # (phase = "unborn") \/ phase = "dead" THEN "stimulus-constructor-order"
                     ELSE StepDiff(cfg, Cur, c, e.out, e.ret, e.calls, e.echo, op)
                x == Exp(cfg, Cur, c)
            IN /\ bad' = d
               /\ conn' = x.post.conn /\ cur' = x.post.cur /\ nopen' = x.post.nopen
               /\ phase' = IF e.act = "new" THEN (IF e.out = "ok" THEN "alive" ELSE "dead") ELSE phase
               /\ res' = e.out /\ ret' = e.ret /\ calls' = e.calls /\ echo' = e.echo /\ last' = c
         /\ l' = l + 1 /\ UNCHANGED <<tid, cfg>>
Done == bad # "" \/ l > Len(T.ev)
Verdict == Done => PrintT(ToJson([id |-> T.id, ok |-> bad = "", l |-> l - 1, clause |-> bad]))
=============================================================================
