INIT GInit
NEXT GNext
CONSTANTS
  Cfgs <- CfgsQ
  Ports <- PortsQ
  Texts <- TextsQ
  Lines <- LinesQ
  Emits <- EmitsQ
  MaxLen = 3
CONSTRAINT Emit
CHECK_DEADLOCK FALSE
