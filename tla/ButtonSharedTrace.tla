------------------------- MODULE ButtonSharedTrace -------------------------
(* Batch validation of shared-handler traces (firmware and host), total verdicts. *)
EXTENDS ButtonShared, Json, IOUtils
Traces == JsonDeserialize(IOEnv.TRACE_FILE)   \* [{id, side, ev: [{k, s, n, c}...]}...]
VARIABLES tid, l, bad
T == Traces[tid]
TInit == tid \in 1..Len(Traces) /\ l = 1 /\ bad = "" /\ prev = <<>> /\ pass = 0 /\ total = 0 /\ expected = 0
TNext == /\ bad = "" /\ l <= Len(T.ev)
         /\ LET e == T.ev[l]  d == Diff(prev, e) IN
              IF d = "" THEN /\ prev' = Apply(prev, e) /\ bad' = ""
                             /\ pass' = pass + (IF e.k = "pass" THEN 1 ELSE 0)
                             /\ total' = total + (IF e.k = "pass" THEN e.c ELSE 0)
                             /\ expected' = expected + (IF e.k = "pass" THEN Cardinality(Rising(prev, e.s)) ELSE 0)
              ELSE bad' = d /\ UNCHANGED vars
         /\ l' = l + 1 /\ UNCHANGED tid
Done == bad # "" \/ l > Len(T.ev)
Verdict == Done => PrintT(ToJson([id |-> T.id, ok |-> bad = "", l |-> l - 1, clause |-> bad, clicks |-> total]))
=============================================================================
