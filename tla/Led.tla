-------------------------------- MODULE Led --------------------------------
(* The Led device as a state machine.  One action per public method; multi-step methods (blink, fade,
   flash_pattern) are given as the pin waveform they produce (module Wave).
   side = "host": the documented Python class - an invalid scalar argument raises and leaves the object as it was.
   side = "fw"  : the firmware contract of C04 - valid calls behave exactly as on the host (delays up to the
                  whole-millisecond rounding); invalid calls are clamped: no level outside 0..255 ever reaches
                  the pin, and the getters keep tracking the pin.                                          *)
EXTENDS Integers, Sequences, TLC, Wave

VARIABLES side, on, bright, wave, res, last
vars == <<side, on, bright, wave, res, last>>
\* wave: waveform of the most recent call; res: "init" | "ok" | "raise"; last: the most recent call

Call(act, a, p) == [act |-> act, a |-> a, p |-> p]
NoCall == Call("none", <<>>, <<>>)
St(o, b) == [on |-> o, bright |-> b]
Cur == St(on, bright)

Clamp(v) == IF v < 0 THEN 0 ELSE IF v > 255 THEN 255 ELSE v
Min(a, b) == IF a < b THEN a ELSE b
Max(a, b) == IF a > b THEN a ELSE b

-----------------------------------------------------------------------------
(* Validity of the scalar arguments, as the host class checks them. *)
Valid(c) ==
    CASE c.act \in {"on", "off", "toggle"} -> TRUE
      [] c.act = "set_brightness" -> 0 <= c.a[1] /\ c.a[1] <= 255
      [] c.act = "blink" -> c.a[1] >= 0 /\ c.a[2] > 0
      [] c.act \in {"fade_in", "fade_out"} -> c.a[1] > 0 /\ c.a[2] >= 0
      [] c.act = "flash_pattern" -> c.a[1] >= 0
      [] OTHER -> FALSE

(* flash_pattern validates entry by entry while it runs: the usable prefix is everything before the first
   entry outside 0..255 (a non-scalar argument: the property makes no atomicity claim for it). *)
RECURSIVE GoodPrefix(_, _)
GoodPrefix(p, i) == IF i > Len(p) \/ p[i] < 0 \/ p[i] > 255 THEN i - 1 ELSE GoodPrefix(p, i + 1)
PatLevel(e) == IF e = 0 THEN 0 ELSE IF e = 1 THEN 255 ELSE e

RECURSIVE BlinkW(_, _, _), FadeInW(_, _, _, _), FadeOutW(_, _, _, _), PatW(_, _, _, _, _)
BlinkW(w, us, n) == IF n = 0 THEN w ELSE BlinkW(WSl(WLv(WSl(WLv(w, 255), us), 0), us), us, n - 1)
FadeInW(w, cur, step, us) ==
    IF cur >= 255 THEN WLv(w, 255) ELSE FadeInW(WSl(WLv(w, cur), us), Min(255, cur + step), step, us)
FadeOutW(w, cur, step, us) ==
    IF cur <= 0 THEN WLv(w, 0) ELSE FadeOutW(WSl(WLv(w, cur), us), Max(0, cur - step), step, us)
PatW(w, p, i, k, us) ==   \* entries 1..k are executed; a delay follows every entry except the very last of p
    IF i > k THEN w
    ELSE LET w1 == WLv(w, PatLevel(p[i])) IN PatW(IF i # Len(p) THEN WSl(w1, us) ELSE w1, p, i + 1, k, us)

(* The waveform a valid call produces, starting from brightness b. *)
WaveOf(b, c) ==
    LET w0 == WStart(b) IN
    CASE c.act = "on" -> WLv(w0, 255)
      [] c.act = "off" -> WLv(w0, 0)
      [] c.act = "toggle" -> WLv(w0, IF b > 0 THEN 0 ELSE 255)
      [] c.act = "set_brightness" -> WLv(w0, c.a[1])
      [] c.act = "blink" -> BlinkW(w0, 1000 * c.a[1], c.a[2])
      [] c.act = "fade_in" -> FadeInW(w0, Clamp(b), c.a[1], 1000 * c.a[2])
      [] c.act = "fade_out" -> FadeOutW(w0, Clamp(b), c.a[1], 1000 * c.a[2])
      [] c.act = "flash_pattern" -> PatW(w0, c.p, 1, GoodPrefix(c.p, 1), 1000 * c.a[1])
      [] OTHER -> w0

(* The object after a valid call: the getters track the last level commanded. *)
PostOf(b, c) == LET lv == WLast(WaveOf(b, c)) IN St(lv > 0, lv)
Raises(c) == ~Valid(c) \/ (c.act = "flash_pattern" /\ GoodPrefix(c.p, 1) < Len(c.p))

-----------------------------------------------------------------------------
(* Step relation: may the implementation, in state s, answer call c with state t, waveform w, result r ? *)
HostStep(s, c, t, w, r) ==
    IF ~Valid(c) THEN r = "raise" /\ t = s /\ w = WStart(s.bright)
    ELSE /\ r = (IF Raises(c) THEN "raise" ELSE "ok")
         /\ t = PostOf(s.bright, c)
         /\ WaveExact(w, WaveOf(s.bright, c))

FwStep(s, c, t, w, r) ==
    /\ r = "ok"
    /\ IF Valid(c) /\ ~Raises(c)
       THEN t = PostOf(s.bright, c) /\ WaveDevice(w, WaveOf(s.bright, c))
       ELSE \* clamped: every level within 0..255, getters track the pin; set_brightness clamps to the nearer bound
            /\ WLevels(w) \subseteq 0..255
            /\ t = St(WLast(w) > 0, WLast(w))
            /\ (c.act = "set_brightness" => WLast(w) = Clamp(c.a[1]))

Step(sd, s, c, t, w, r) == IF sd = "host" THEN HostStep(s, c, t, w, r) ELSE FwStep(s, c, t, w, r)

(* Diagnostic: name of the first clause of Step that fails ("" if none). *)
StepDiff(sd, s, c, t, w, r) ==
    IF Step(sd, s, c, t, w, r) THEN ""
    ELSE IF sd = "host" /\ ~Valid(c) THEN (IF r # "raise" THEN "invalid-call-accepted" ELSE "failed-call-changed-state")
    ELSE IF r # (IF sd = "host" /\ Raises(c) THEN "raise" ELSE "ok") THEN "result"
    ELSE IF Valid(c) /\ (sd = "host" \/ ~Raises(c)) THEN
         (IF t # PostOf(s.bright, c) THEN "state" ELSE WaveDiff(w, WaveOf(s.bright, c), sd = "fw"))
    ELSE IF ~(WLevels(w) \subseteq 0..255) THEN "unclamped-level"
    ELSE IF t # St(WLast(w) > 0, WLast(w)) THEN "getter-not-tracking-pin"
    ELSE "clamp-value"

-----------------------------------------------------------------------------
(* The machine used for model checking and for generating behaviours: canonical outcomes. *)
CONSTANTS Brights, Durations, Times, StepsG, Patterns
Calls ==
    {Call(a, <<>>, <<>>) : a \in {"on", "off", "toggle"}}
    \cup {Call("set_brightness", <<v>>, <<>>) : v \in Brights}
    \cup {Call("blink", <<d, n>>, <<>>) : d \in Durations, n \in Times}
    \cup {Call(a, <<s, d>>, <<>>) : a \in {"fade_in", "fade_out"}, s \in StepsG, d \in Durations}
    \cup {Call("flash_pattern", <<d>>, p) : d \in Durations, p \in Patterns}

Init == /\ side \in {"host", "fw"} /\ on = FALSE /\ bright = 0
        /\ wave = WStart(0) /\ res = "init" /\ last = NoCall

Do(c) ==
    /\ last' = c /\ UNCHANGED side
    /\ IF side = "host" /\ ~Valid(c)
       THEN res' = "raise" /\ wave' = WStart(bright) /\ UNCHANGED <<on, bright>>
       ELSE \* firmware + invalid scalar: the canonical clamped behaviour is the call with clamped arguments
            LET cc == IF Valid(c) THEN c ELSE
                      CASE c.act = "set_brightness" -> Call(c.act, <<Clamp(c.a[1])>>, <<>>)
                        [] c.act = "blink" -> Call(c.act, <<Max(0, c.a[1]), Max(0, c.a[2])>>, <<>>)
                        [] c.act \in {"fade_in", "fade_out"} -> Call(c.act, <<Max(1, c.a[1]), Max(0, c.a[2])>>, <<>>)
                        [] OTHER -> Call(c.act, <<Max(0, c.a[1])>>, c.p)
                w == WaveOf(bright, cc)
            IN /\ res' = (IF side = "host" /\ Raises(c) THEN "raise" ELSE "ok")
               /\ wave' = w
               /\ bright' = WLast(w) /\ on' = (WLast(w) > 0)

Next == \E c \in Calls : Do(c)
Spec == Init /\ [][Next]_vars

-----------------------------------------------------------------------------
(* Properties (C19 for side = "host", C04 for side = "fw"). *)
TypeOK == on \in BOOLEAN /\ bright \in Int /\ res \in {"init", "ok", "raise"}
BrightInRange == 0 <= bright /\ bright <= 255
OnIffBright == on <=> (bright > 0)
NeverUnclamped == WLevels(wave) \subseteq 0..255
ShadowTracksPin == bright = WLast(wave)
CanonicalIsAllowed ==   \* the machine above only takes steps the step relation allows (sanity of the two layers)
    last # NoCall => \E s \in {St(wave[1].lv > 0, wave[1].lv)} : Step(side, s, last, Cur, wave, res)
BlinkSleepsExactly ==
    (last.act = "blink" /\ res = "ok" /\ Valid(last)) => WTotal(wave) = 2 * last.a[2] * 1000 * last.a[1]
BlinkEndsOff == (last.act = "blink" /\ res = "ok" /\ Valid(last)) => ~on
FadeEndsOnBound == (res = "ok" /\ last.act = "fade_in" => bright = 255) /\ (res = "ok" /\ last.act = "fade_out" => bright = 0)   \* also when clamped
FadeMonotone ==
    (res = "ok" /\ last.act = "fade_in" => \A i \in 2..Len(wave) : wave[i].lv > wave[i - 1].lv)
    /\ (res = "ok" /\ last.act = "fade_out" => \A i \in 2..Len(wave) : wave[i].lv < wave[i - 1].lv)
FailedCallLeavesState ==   \* action property: a call with an invalid scalar on the host changes nothing
    [][(side = "host" /\ ~Valid(last')) => (res' = "raise" /\ on' = on /\ bright' = bright)]_vars
=============================================================================
