----------------------------- MODULE Ultrasonic -----------------------------
(* Ultrasonic.measure_distance() as C15 documents it for the firmware:
     * the result is echo-time * 0.0343 / 2 cm;
     * the sensor is never triggered twice within 60 ms once the millisecond clock is running;
     * at most three attempts per call (an attempt = one trigger pulse + one echo measurement; a timed-out echo
       may be retried), then the call falls back to the last good reading, 400 cm if there is none.

   Units: clock in ms; echo times in microseconds; distances in D = 1/20000 cm, so that echo * 0.0343 / 2 cm is the
   integer echo * 343 D; printed results arrive as hundredths of a cm (Serial prints two decimals) = 200 D each.

   Abstract events of one sensor (each carries t = the millisecond clock when it completed):
       call             measure_distance() is entered
       wait ms          the call delays ms milliseconds (the back-off guard)
       trig us          one trigger pulse, HIGH for us microseconds, starting at clock t
       echo us          the echo measurement returns us microseconds (0 = timed out)
       ret  v           the call returns v hundredths of a cm
   Diff(s, e) names the clause of the property that e breaks in state s; Apply(s, e) is the next state.
   The canonical machine Call / Guard / Trigger / Echo / Return / Fallback takes allowed steps only, waits exactly
   as long as the guard needs and retries a timed-out echo until the third attempt. *)
EXTENDS Integers, Sequences, TLC

CONSTANTS
    \* @type: Set(Int);
    Gaps,
    \* @type: Set(Int);
    Echoes,
    \* @type: Set(Int);
    T0s,
    \* @type: Int;
    MaxEchoes
VARIABLES                                          \* the sensor
    \* @type: Int;
    now,
    \* @type: Str;
    pc,
    \* @type: Int;
    attempts,
    \* @type: Bool;
    hasTrig,
    \* @type: Int;
    lastTrig,
    \* @type: Int;
    lastDone,
    \* @type: Int;
    waited,
    \* @type: Int;
    prevGap,
    \* @type: Bool;
    hasDist,
    \* @type: Int;
    lastDist,
    \* @type: Int;
    echo,
    \* @type: Int;
    calls,
    \* @type: Int;
    ret,
    \* @type: Seq(Int);
    callEchoes,                                    \* history
    \* @type: Int;
    goodBefore,
    \* @type: Int;
    nEch
uvars == <<now, pc, attempts, hasTrig, lastTrig, lastDone, waited, prevGap, hasDist, lastDist, echo, calls, ret>>
vars == <<uvars, callEchoes, goodBefore, nEch>>

MinIntervalMs == 60
MaxAttempts == 3
TimeoutUs == 30000
MinPulseUs == 10                 \* an HC-SR04 needs a trigger pulse of at least 10 us
NoEchoD == 8000000               \* 400 cm
DOf(us) == us * 343              \* echo time -> distance in D
Tol(d) == 102 + d \div 100000    \* print precision (half a hundredth = 100 D, +2) and float32 rounding (1e-5 relative)
Abs(x) == IF x < 0 THEN -x ELSE x
Near(v, d) == Abs(v * 200 - d) <= Tol(d)       \* printed value v (hundredths) agrees with distance d
Hund(d) == (d + 100) \div 200                  \* distance d printed with two decimals

\* @type: (Str, Int, Int) => { k: Str, v: Int, t: Int };
Ev(k, v, t) == [k |-> k, v |-> v, t |-> t]
Rec == [now |-> now, pc |-> pc, attempts |-> attempts, hasTrig |-> hasTrig, lastTrig |-> lastTrig, lastDone |-> lastDone,
        waited |-> waited, prevGap |-> prevGap, hasDist |-> hasDist, lastDist |-> lastDist, echo |-> echo,
        calls |-> calls, ret |-> ret]
\* @type: (Int) => { now: Int, pc: Str, attempts: Int, hasTrig: Bool, lastTrig: Int, lastDone: Int, waited: Int, prevGap: Int, hasDist: Bool, lastDist: Int, echo: Int, calls: Int, ret: Int };
InitRec(t0) == [now |-> t0, pc |-> "idle", attempts |-> 0, hasTrig |-> FALSE, lastTrig |-> 0, lastDone |-> 0, waited |-> 0,
                prevGap |-> -1, hasDist |-> FALSE, lastDist |-> NoEchoD, echo |-> 0, calls |-> 0, ret |-> 0]
\* @type: ({ now: Int, pc: Str, attempts: Int, hasTrig: Bool, lastTrig: Int, lastDone: Int, waited: Int, prevGap: Int, hasDist: Bool, lastDist: Int, echo: Int, calls: Int, ret: Int }) => Bool;
SetRec(r) == /\ now' = r.now /\ pc' = r.pc /\ attempts' = r.attempts /\ hasTrig' = r.hasTrig /\ lastTrig' = r.lastTrig
             /\ lastDone' = r.lastDone /\ waited' = r.waited /\ prevGap' = r.prevGap /\ hasDist' = r.hasDist
             /\ lastDist' = r.lastDist /\ echo' = r.echo /\ calls' = r.calls /\ ret' = r.ret

-----------------------------------------------------------------------------
(* The step relation.  pc: idle -call-> guard -(wait)*-> guard -trig-> echo -echo(good)-> done -ret-> idle
                                                                       -echo(timeout)-> guard -(retry | ret = fallback) *)
\* @type: ({ now: Int, pc: Str, attempts: Int, hasTrig: Bool, lastTrig: Int, lastDone: Int, waited: Int, prevGap: Int, hasDist: Bool, lastDist: Int, echo: Int, calls: Int, ret: Int }, Int) => Bool;
TooSoon(s, t) == s.hasTrig /\ t > 0 /\ t - s.lastTrig < MinIntervalMs     \* a second trigger within 60 ms, clock running

\* @type: ({ now: Int, pc: Str, attempts: Int, hasTrig: Bool, lastTrig: Int, lastDone: Int, waited: Int, prevGap: Int, hasDist: Bool, lastDist: Int, echo: Int, calls: Int, ret: Int }, { k: Str, v: Int, t: Int }) => { now: Int, pc: Str, attempts: Int, hasTrig: Bool, lastTrig: Int, lastDone: Int, waited: Int, prevGap: Int, hasDist: Bool, lastDist: Int, echo: Int, calls: Int, ret: Int };
Apply(s, e) ==
    CASE e.k = "call" -> [s EXCEPT !.now = e.t, !.pc = "guard", !.attempts = 0, !.waited = 0]
      [] e.k = "wait" -> [s EXCEPT !.now = e.t, !.waited = @ + e.v]
      [] e.k = "trig" -> [s EXCEPT !.now = e.t, !.pc = "echo", !.attempts = @ + 1, !.hasTrig = TRUE, !.lastTrig = e.t,
                                   !.prevGap = IF s.hasTrig THEN e.t - s.lastTrig ELSE -1]
      [] e.k = "echo" -> IF e.v > 0
                         THEN [s EXCEPT !.now = e.t, !.lastDone = e.t, !.pc = "done", !.echo = e.v, !.hasDist = TRUE, !.lastDist = DOf(e.v)]
                         ELSE [s EXCEPT !.now = e.t, !.lastDone = e.t, !.pc = "guard", !.echo = 0, !.waited = 0]
      [] e.k = "ret"  -> [s EXCEPT !.now = e.t, !.pc = "idle", !.calls = @ + 1, !.ret = e.v]
      [] OTHER -> s

\* @type: ({ now: Int, pc: Str, attempts: Int, hasTrig: Bool, lastTrig: Int, lastDone: Int, waited: Int, prevGap: Int, hasDist: Bool, lastDist: Int, echo: Int, calls: Int, ret: Int }, { k: Str, v: Int, t: Int }) => Str;
Diff(s, e) ==
    IF e.t < s.now THEN "clock-went-backwards"
    ELSE CASE e.k = "call" -> IF s.pc # "idle" THEN "call-inside-call" ELSE ""
      [] e.k = "wait" -> IF s.pc = "idle" THEN "delay-outside-call" ELSE ""
      [] e.k = "trig" -> IF s.pc = "idle" THEN "trigger-outside-call"
                         ELSE IF s.pc = "echo" THEN "trigger-without-reading-echo"
                         ELSE IF s.pc = "done" THEN "trigger-after-good-echo"
                         ELSE IF s.attempts >= MaxAttempts THEN "more-than-3-attempts"
                         ELSE IF e.v < MinPulseUs THEN "trigger-pulse-too-short"
                         ELSE IF TooSoon(s, e.t) THEN "retrigger-within-60ms" ELSE ""
      [] e.k = "echo" -> IF s.pc # "echo" THEN "echo-without-trigger" ELSE ""
      [] e.k = "ret"  -> IF s.pc = "idle" THEN "result-outside-call"
                         ELSE IF s.pc = "echo" THEN "returned-without-reading-echo"
                         ELSE IF s.pc = "done" THEN (IF Near(e.v, DOf(s.echo)) THEN "" ELSE "distance-law")
                         ELSE IF s.attempts = 0 THEN "returned-without-measuring"
                         ELSE IF s.hasDist THEN (IF Near(e.v, s.lastDist) THEN "" ELSE "fallback-not-last-good")
                         ELSE (IF e.v * 200 = NoEchoD THEN "" ELSE "fallback-not-400")
      [] OTHER -> "unknown-event"

\* @type: ({ now: Int, pc: Str, attempts: Int, hasTrig: Bool, lastTrig: Int, lastDone: Int, waited: Int, prevGap: Int, hasDist: Bool, lastDist: Int, echo: Int, calls: Int, ret: Int }, { k: Str, v: Int, t: Int }, { now: Int, pc: Str, attempts: Int, hasTrig: Bool, lastTrig: Int, lastDone: Int, waited: Int, prevGap: Int, hasDist: Bool, lastDist: Int, echo: Int, calls: Int, ret: Int }) => Bool;
Step(s, e, t) == Diff(s, e) = "" /\ t = Apply(s, e)
\* @type: ({ now: Int, pc: Str, attempts: Int, hasTrig: Bool, lastTrig: Int, lastDone: Int, waited: Int, prevGap: Int, hasDist: Bool, lastDist: Int, echo: Int, calls: Int, ret: Int }, { k: Str, v: Int, t: Int }, { now: Int, pc: Str, attempts: Int, hasTrig: Bool, lastTrig: Int, lastDone: Int, waited: Int, prevGap: Int, hasDist: Bool, lastDist: Int, echo: Int, calls: Int, ret: Int }) => Str;
StepDiff(s, e, t) == IF Diff(s, e) # "" THEN Diff(s, e) ELSE IF t # Apply(s, e) THEN "state" ELSE ""

(* Known deviation of the pinned tree, matched exactly (known/C15.json: ultrasonic-zero-clock-sentinel): the helper
   uses "last trigger time = 0" as "never triggered".  If the previous measurement completed while millis() still
   read 0, the guard is skipped: the next trigger comes unguarded (no wait) although the clock is running and the
   previous trigger is less than 60 ms old. *)
\* @type: ({ now: Int, pc: Str, attempts: Int, hasTrig: Bool, lastTrig: Int, lastDone: Int, waited: Int, prevGap: Int, hasDist: Bool, lastDist: Int, echo: Int, calls: Int, ret: Int }, { k: Str, v: Int, t: Int }) => Bool;
KnownZeroSentinel(s, e) ==
    e.k = "trig" /\ s.pc = "guard" /\ s.attempts < MaxAttempts /\ e.v >= MinPulseUs
    /\ TooSoon(s, e.t) /\ s.lastTrig = 0 /\ s.lastDone = 0 /\ s.waited = 0

-----------------------------------------------------------------------------
(* The canonical machine. *)
Init == /\ now \in T0s /\ pc = "idle" /\ attempts = 0 /\ hasTrig = FALSE /\ lastTrig = 0 /\ lastDone = 0 /\ waited = 0
        /\ prevGap = -1 /\ hasDist = FALSE /\ lastDist = NoEchoD /\ echo = 0 /\ calls = 0 /\ ret = 0
        /\ callEchoes = <<>> /\ goodBefore = 0 /\ nEch = 0

\* @type: ({ k: Str, v: Int, t: Int }) => Bool;
Do(e) == Diff(Rec, e) = "" /\ SetRec(Apply(Rec, e))
Hist == UNCHANGED <<callEchoes, goodBefore, nEch>>
Need == IF hasTrig /\ now - lastTrig < MinIntervalMs THEN MinIntervalMs - (now - lastTrig) ELSE 0

Call(gap) ==        \* gap: time since the previous call returned (or since power-up)
    /\ pc = "idle" /\ nEch < MaxEchoes /\ Do(Ev("call", 0, now + gap))
    /\ callEchoes' = <<>> /\ goodBefore' = (IF hasDist THEN lastDist \div 343 ELSE 0) /\ UNCHANGED nEch
Guard(w) == pc = "guard" /\ attempts < MaxAttempts /\ Need > 0 /\ w = Need /\ Do(Ev("wait", w, now + w)) /\ Hist
Trigger == pc = "guard" /\ attempts < MaxAttempts /\ Need = 0 /\ Do(Ev("trig", MinPulseUs, now)) /\ Hist
Echo(d) == /\ pc = "echo" /\ Do(Ev("echo", d, now + (IF d > 0 THEN d ELSE TimeoutUs) \div 1000))
           /\ callEchoes' = Append(callEchoes, d) /\ nEch' = nEch + 1 /\ UNCHANGED goodBefore
Return == pc = "done" /\ Do(Ev("ret", Hund(DOf(echo)), now)) /\ Hist
Fallback == pc = "guard" /\ attempts = MaxAttempts /\ Do(Ev("ret", Hund(IF hasDist THEN lastDist ELSE NoEchoD), now)) /\ Hist

Next == (\E g \in Gaps : Call(g)) \/ (\E w \in 1..MinIntervalMs : Guard(w)) \/ Trigger \/ (\E d \in Echoes : Echo(d))
        \/ Return \/ Fallback
Spec == Init /\ [][Next]_vars

-----------------------------------------------------------------------------
(* The properties C15 names. *)
TypeOK == /\ pc \in {"idle", "guard", "echo", "done"} /\ attempts \in 0..MaxAttempts /\ now \in Nat
          /\ hasTrig \in BOOLEAN /\ hasDist \in BOOLEAN /\ lastDist \in Nat
TriggerSpacing == (hasTrig /\ prevGap >= 0 /\ lastTrig > 0) => prevGap >= MinIntervalMs
AttemptsPerCall == attempts <= MaxAttempts /\ Len(callEchoes) <= MaxAttempts
Finished == pc = "idle" /\ calls > 0
LastEcho == callEchoes[Len(callEchoes)]
ResultLaw == (Finished /\ Len(callEchoes) >= 1) =>
    IF LastEcho > 0 THEN Near(ret, LastEcho * 343)
    ELSE IF goodBefore > 0 THEN Near(ret, goodBefore * 343)
    ELSE ret = 40000
GoodEchoEndsCall == \A i \in 1..Len(callEchoes) - 1 : callEchoes[i] = 0
RetriesBeforeFallback == (Finished /\ Len(callEchoes) >= 1 /\ LastEcho = 0) => Len(callEchoes) = MaxAttempts     \* canonical machine only
EveryCallMeasures == Finished => Len(callEchoes) >= 1
TriggersOnlyInGuard == [][lastTrig' # lastTrig => pc = "guard" /\ pc' = "echo"]_vars

(* VIEW for model checking: the future depends on the clock only through "time since the last trigger" (capped),
   whether the clock is running and whether the last trigger / completion happened at clock 0. *)
Cap(x) == IF x > MinIntervalMs + 1 THEN MinIntervalMs + 1 ELSE x
View == <<pc, attempts, hasTrig, IF hasTrig THEN Cap(now - lastTrig) ELSE 0, now > 0, lastTrig > 0, lastDone > 0, waited > 0,
          IF prevGap < 0 THEN prevGap ELSE Cap(prevGap), hasDist, lastDist, echo, calls > 0, ret, callEchoes, goodBefore, nEch>>
=============================================================================
