---------------------------- MODULE SerialLinkMC ----------------------------
(* Exhaustive check of the delivery laws over every interleaving of writes and reads on both sides, for texts over a small
   byte alphabet that contains the two terminator bytes, both host newline settings. *)
EXTENDS SerialLink
CONSTANTS MaxOps
Alphabet == {97, 98, LF, CR}
TextsDef == {<<>>} \cup {<<a>> : a \in Alphabet} \cup {<<a, b>> : a \in Alphabet, b \in Alphabet}
VARIABLES nl, n
Init == LInit /\ nl \in {<<LF>>, CRLF} /\ n = 0
Next == /\ n < MaxOps /\ n' = n + 1 /\ UNCHANGED nl
        /\ \/ \E t \in TextsDef : HostWrite(t, nl)
           \/ \E t \in TextsDef : DevWrite(t)
           \/ DevRead
           \/ HostRead
Spec == Init /\ [][Next]_<<lvars, nl, n>>
InvH2D == H2DFaithful(nl)
InvH2DCR == H2DKeepsCR(nl)
InvD2H == D2HFaithful
InvNoInvention == NoInvention(nl)
NegD2H == IsPrefix(gotH, sentD)         \* the device->host law WITHOUT its premise (selftest: TLC must refute it)
=============================================================================
