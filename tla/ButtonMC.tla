------------------------------ MODULE ButtonMC ------------------------------
(* Exhaustive model checking of Button: every signal of length <= MaxPasses + 1 (one sample in setup + one per
   pass), every number 0..MaxReads of is_pressed() calls in every pass, both sides. *)
EXTENDS Button
=============================================================================
