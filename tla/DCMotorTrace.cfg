INIT TInit
NEXT TNext
CONSTANTS
  Speeds = {}
  Durations = {}
CONSTRAINT Verdict
CHECK_DEADLOCK FALSE
