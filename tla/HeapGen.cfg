INIT Init
NEXT Next
CONSTANT MaxLen = 2
CONSTRAINT Emit
CHECK_DEADLOCK FALSE
