--------------------------------- MODULE Pot ---------------------------------
(* Potentiometer.read() as C15 documents it for the firmware: every call performs one fresh analog read of the
   declared pin and returns exactly that value (nothing is cached, folded or read from another pin).

   Abstract events of one potentiometer:  call | ar p v (analogRead of pin p returned v) | ret v (read() returned v).
   Diff(s, e) names the clause e breaks in state s; Apply(s, e) is the next state. *)
EXTENDS Integers, Sequences, TLC

CONSTANTS Adcs, Pins, MaxCalls
VARIABLES pin, pc, fresh, adc, calls, samples, ret,      \* the device
          inputs, rets                                    \* history: values the ADC delivered / values read() returned
pvars == <<pin, pc, fresh, adc, calls, samples, ret>>
vars == <<pvars, inputs, rets>>

Ev(k, v, p) == [k |-> k, v |-> v, p |-> p]
Rec == [pin |-> pin, pc |-> pc, fresh |-> fresh, adc |-> adc, calls |-> calls, samples |-> samples, ret |-> ret]
InitRec(p) == [pin |-> p, pc |-> "idle", fresh |-> 0, adc |-> -1, calls |-> 0, samples |-> 0, ret |-> -1]
SetRec(r) == /\ pin' = r.pin /\ pc' = r.pc /\ fresh' = r.fresh /\ adc' = r.adc /\ calls' = r.calls
             /\ samples' = r.samples /\ ret' = r.ret

Apply(s, e) ==
    CASE e.k = "call" -> [s EXCEPT !.pc = "busy", !.fresh = 0]
      [] e.k = "ar"   -> [s EXCEPT !.fresh = @ + 1, !.adc = e.v, !.samples = @ + 1]
      [] e.k = "ret"  -> [s EXCEPT !.pc = "idle", !.calls = @ + 1, !.ret = e.v]
      [] e.k = "drop" -> [s EXCEPT !.pc = "idle", !.calls = @ + 1]          \* the call ends, the script discards its result
      [] OTHER -> s
Diff(s, e) ==
    CASE e.k = "call" -> IF s.pc # "idle" THEN "call-inside-call" ELSE ""
      [] e.k = "ar"   -> IF s.pc # "busy" THEN "read-outside-call"
                         ELSE IF e.p # s.pin THEN "read-of-another-pin"
                         ELSE IF s.fresh >= 1 THEN "pin-read-twice-in-one-call" ELSE ""
      [] e.k = "ret"  -> IF s.pc # "busy" THEN "result-outside-call"
                         ELSE IF s.fresh = 0 THEN "no-fresh-read"
                         ELSE IF e.v # s.adc THEN "result-differs-from-read" ELSE ""
      [] e.k = "drop" -> IF s.pc # "busy" THEN "result-outside-call"
                         ELSE IF s.fresh = 0 THEN "no-fresh-read" ELSE ""       \* a discarded result still costs a fresh read
      [] OTHER -> "unknown-event"
Step(s, e, t) == Diff(s, e) = "" /\ t = Apply(s, e)
StepDiff(s, e, t) == IF Diff(s, e) # "" THEN Diff(s, e) ELSE IF t # Apply(s, e) THEN "state" ELSE ""

-----------------------------------------------------------------------------
Init == /\ pin \in Pins /\ pc = "idle" /\ fresh = 0 /\ adc = -1 /\ calls = 0 /\ samples = 0 /\ ret = -1
        /\ inputs = <<>> /\ rets = <<>>
Do(e) == Diff(Rec, e) = "" /\ SetRec(Apply(Rec, e))
Call == calls < MaxCalls /\ Do(Ev("call", 0, pin)) /\ UNCHANGED <<inputs, rets>>
Sample(v) == pc = "busy" /\ Do(Ev("ar", v, pin)) /\ inputs' = Append(inputs, v) /\ UNCHANGED rets
Read == pc = "busy" /\ Do(Ev("ret", adc, pin)) /\ rets' = Append(rets, adc) /\ UNCHANGED inputs
Next == Call \/ (\E v \in Adcs : Sample(v)) \/ Read
Spec == Init /\ [][Next]_vars

TypeOK == pc \in {"idle", "busy"} /\ fresh \in 0..1 /\ calls \in Nat /\ samples \in Nat
FreshReadPerCall == pc = "idle" => (samples = calls /\ rets = inputs)     \* the k-th call returns the k-th ADC value
AtMostOneReadPerCall == fresh <= 1
ReturnsTheRead == [][calls' # calls => (fresh = 1 /\ ret' = adc)]_vars
=============================================================================
