INIT GInit
NEXT GNext
CONSTANTS
  ShapeMode = "enum"
CONSTRAINT Emit
CHECK_DEADLOCK FALSE
