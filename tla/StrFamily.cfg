INIT Init
NEXT Next
CONSTRAINT Emit
CHECK_DEADLOCK FALSE
