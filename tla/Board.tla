-------------------------------- MODULE Board --------------------------------
(* The board-level discipline of C05 as a monitor over the firmware's event trace:
     configure-before-use  every pin / peripheral a device uses is configured (pinMode, Serial.begin, Servo attach,
                           LCD begin/init, motor driven to a safe stop) before the first command that touches it;
     never re-moded        a pin is never re-configured to a different mode (nor Serial to another baud rate);
     phases                setup() runs once, then loop() passes 1, 2, 3, ... in order;
     housekeeping          every button is sampled exactly once per loop() pass, before any user statement's event.
   Events (abstracted from the mock core's NDJSON by harness/board.py):
     [e |-> "phase", k]   k = 0 setup, k >= 1 loop pass k        [e |-> "pm", p, m]  m in {"in","out","inpu"}
     [e |-> "out", p]     digitalWrite / analogWrite / tone on p  [e |-> "in", p]     digitalRead / analogRead / pulseIn
     [e |-> "sbegin", b]  [e |-> "ser"] a serial line             [e |-> "attach", s] [e |-> "servo", s]
     [e |-> "lcdinit", d] [e |-> "lcd", d]                        [e |-> "stop", m] motor m driven to (LOW, LOW, 0)
     [e |-> "drive", m]   motor m driven otherwise                [e |-> "poll", b] sample of button b
     [e |-> "user"]       the first statement of the loop body starts
     [e |-> "handler"]    a click handler (user code that the injected housekeeping dispatches) runs: every button of the pass
                          has been sampled before the first one does (the animation ticks are not ordered against handlers)
   Which pins / peripherals belong to declared devices is the scenario (constant per trace): `pins` (device pins,
   with the mode their device needs), `buttons`.                                                            *)
EXTENDS Integers, Sequences, FiniteSets, TLC

VARIABLES mode, baud, att, lcdok, stopped, phase, polled, userSeen, handlerSeen, bad
bvars == <<mode, baud, att, lcdok, stopped, phase, polled, userSeen, handlerSeen, bad>>

NoMode == "none"
BInit == /\ mode = [p \in {} |-> NoMode] /\ baud = 0 /\ att = {} /\ lcdok = {} /\ stopped = {}
         /\ phase = -1 /\ polled = {} /\ userSeen = FALSE /\ handlerSeen = FALSE /\ bad = ""

ModeOf(p) == IF p \in DOMAIN mode THEN mode[p] ELSE NoMode
IsTick(b) == b \in {"tick0", "tick1", "tick2", "tick3"}        \* housekeeping items that are animation ticks, not buttons

(* first clause of the discipline that event e breaks in the current state ("" if none);
   pins = function: device pin -> required mode ("out" | "in" | "inpu" | "inany"); buttons = set of button ids *)
Breaks(e, pins, buttons) ==
    CASE e.e = "phase" -> (IF e.k # phase + 1 THEN "phase-order"
                           ELSE IF phase >= 1 /\ polled # buttons THEN "button-not-sampled-in-pass" ELSE "")
      [] e.e = "pm" -> (IF ModeOf(e.p) \notin {NoMode, e.m} THEN "pin-re-moded"
                        ELSE IF e.p \in DOMAIN pins /\ pins[e.p] # "inany" /\ pins[e.p] # e.m THEN "pin-configured-with-wrong-mode"
                        ELSE "")
      [] e.e = "out" -> (IF e.p \in DOMAIN pins /\ ModeOf(e.p) # "out" THEN "output-before-pinMode" ELSE "")
      [] e.e = "in" -> (IF e.p \in DOMAIN pins /\ ModeOf(e.p) \notin {"in", "inpu"} THEN "input-before-pinMode" ELSE "")
      [] e.e = "sbegin" -> (IF baud \notin {0, e.b} THEN "serial-re-configured" ELSE "")
      [] e.e = "ser" -> (IF baud = 0 THEN "serial-before-begin" ELSE "")
      [] e.e = "servo" -> (IF e.s \notin att THEN "servo-before-attach" ELSE "")
      [] e.e = "lcd" -> (IF e.d \notin lcdok THEN "lcd-before-begin" ELSE "")
      [] e.e = "drive" -> (IF e.m \notin stopped THEN "motor-driven-before-safe-stop" ELSE "")
      [] e.e = "poll" -> (IF phase >= 1 /\ e.b \in polled THEN "button-sampled-twice-in-pass"
                          ELSE IF phase >= 1 /\ userSeen THEN "button-sampled-after-user-statement"
                          ELSE IF phase >= 1 /\ handlerSeen /\ e.b \in buttons /\ ~IsTick(e.b) THEN "button-sampled-after-click-handler" ELSE "")
      [] OTHER -> ""

Consume(e, pins, buttons) ==
    /\ bad' = Breaks(e, pins, buttons)
    /\ mode' = IF e.e = "pm" THEN (e.p :> e.m) @@ mode ELSE mode
    /\ baud' = IF e.e = "sbegin" THEN e.b ELSE baud
    /\ att' = IF e.e = "attach" THEN att \cup {e.s} ELSE att
    /\ lcdok' = IF e.e = "lcdinit" THEN lcdok \cup {e.d} ELSE lcdok
    /\ stopped' = IF e.e = "stop" THEN stopped \cup {e.m} ELSE stopped
    /\ phase' = IF e.e = "phase" THEN e.k ELSE phase
    /\ polled' = IF e.e = "phase" THEN {} ELSE IF e.e = "poll" /\ phase >= 1 THEN polled \cup {e.b} ELSE polled
    /\ userSeen' = IF e.e = "phase" THEN FALSE ELSE IF e.e = "user" THEN TRUE ELSE userSeen
    /\ handlerSeen' = IF e.e = "phase" THEN FALSE ELSE IF e.e = "handler" THEN TRUE ELSE handlerSeen

-----------------------------------------------------------------------------
(* Declarative statement of the same discipline over a whole history h (used to model-check that the monitor
   says exactly this: MonitorExact in BoardMC). *)
Before(h, i, P(_)) == \E j \in 1..(i - 1) : P(h[j])
LastPhaseBefore(h, i) == LET ks == {j \in 1..(i - 1) : h[j].e = "phase"} IN
                         IF ks = {} THEN 0 ELSE CHOOSE j \in ks : \A o \in ks : o <= j
PhaseAt(h, i) == LET j == LastPhaseBefore(h, i) IN IF j = 0 THEN -1 ELSE h[j].k
Discipline(h, pins, buttons) ==
    \A i \in 1..Len(h) :
      LET e == h[i] IN
      /\ e.e = "phase" => e.k = PhaseAt(h, i) + 1
      /\ (e.e = "phase" /\ PhaseAt(h, i) >= 1) =>
             \A b \in buttons : \E j \in (LastPhaseBefore(h, i) + 1)..(i - 1) : h[j].e = "poll" /\ h[j].b = b
      /\ e.e = "pm" => /\ \A j \in 1..(i - 1) : (h[j].e = "pm" /\ h[j].p = e.p) => h[j].m = e.m
                       /\ (e.p \in DOMAIN pins /\ pins[e.p] # "inany") => pins[e.p] = e.m
      /\ (e.e = "out" /\ e.p \in DOMAIN pins) => \E j \in 1..(i - 1) : h[j].e = "pm" /\ h[j].p = e.p /\ h[j].m = "out"
      /\ (e.e = "in" /\ e.p \in DOMAIN pins) => \E j \in 1..(i - 1) : h[j].e = "pm" /\ h[j].p = e.p /\ h[j].m \in {"in", "inpu"}
      /\ e.e = "sbegin" => \A j \in 1..(i - 1) : h[j].e = "sbegin" => h[j].b = e.b
      /\ e.e = "ser" => \E j \in 1..(i - 1) : h[j].e = "sbegin"
      /\ e.e = "servo" => \E j \in 1..(i - 1) : h[j].e = "attach" /\ h[j].s = e.s
      /\ e.e = "lcd" => \E j \in 1..(i - 1) : h[j].e = "lcdinit" /\ h[j].d = e.d
      /\ e.e = "drive" => \E j \in 1..(i - 1) : h[j].e = "stop" /\ h[j].m = e.m
      /\ (e.e = "poll" /\ PhaseAt(h, i) >= 1) =>
             /\ ~\E j \in (LastPhaseBefore(h, i) + 1)..(i - 1) : h[j].e = "poll" /\ h[j].b = e.b
             /\ ~\E j \in (LastPhaseBefore(h, i) + 1)..(i - 1) : h[j].e = "user"
             /\ (e.b \in buttons /\ ~IsTick(e.b)) => ~\E j \in (LastPhaseBefore(h, i) + 1)..(i - 1) : h[j].e = "handler"
=============================================================================
