----------------------------- MODULE DCMotorMC -----------------------------
EXTENDS DCMotor
SpeedsDef    == {-30000, -20000, -10000, -20, 0, 20, 5000, 10000, 20000, 30000}
DurationsDef == {-1, 0, 10, 40, 1000}
\* reduced grids for the quick tier
SpeedsQ    == {-30000, -10000, 0, 5000, 20000}
DurationsQ == {-1, 0, 40}
\* the speeds too small for a non-zero PWM count are kept out of the clean stratum (known finding, probed separately)
SpeedsClean == SpeedsDef \ {-20, 20}
=============================================================================
