------------------------------ MODULE SandboxMC ------------------------------
(* A small universe of audit events (one per class) for model checking Sandbox: whatever order and number of
   allowed events a call produces, no forbidden effect class is ever recorded and a finished call is clean;
   every forbidden event of the universe is refused by name (Refused).                                      *)
EXTENDS Sandbox
Universe == {Audit("compile", "compile", "<unknown>", "ast"), Audit("compile", "compile", "<string>", "code"),
             Audit("compile", "compile", "<string>", "hidden"), Audit("exec", "exec", "<module>", ""),
             Audit("open", "open", "'<unknown>'|'rb'", ""), Audit("open", "open", "'/tmp/x'|'w'", ""),
             Audit("import", "import", "unicodedata", ""), Audit("import", "import", "os", ""),
             Audit("os.system", "os", "'touch x'", ""), Audit("subprocess.Popen", "subprocess", "'touch'", ""),
             Audit("socket.connect", "socket", "", ""), Audit("ctypes.dlopen", "ctypes", "", "")}
Finals == {Final(c, s, e) : c \in BOOLEAN, s \in BOOLEAN, e \in BOOLEAN}
Next == Start \/ (\E a \in Universe : Observe(a)) \/ (\E f \in Finals : Finish(f))
Spec == Init /\ [][Next]_svars
Refused == \A a \in Universe : Allowed(a) <=> AuditDiff(a) = ""
ExactlyThreeConcessions == Cardinality({a \in Universe : Allowed(a)}) = 3
=============================================================================
