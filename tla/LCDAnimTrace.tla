----------------------------- MODULE LCDAnimTrace -----------------------------
(* Batch trace validation for LCDAnim: a recorded execution of the real host class (impl = "host") or of real
   firmware (impl = "fw") is followed event by event; every event must be a step the specification allows
   and every clause of the property is evaluated on what the implementation did.  Verdicts are total.

   trace  = [id, impl, geo: <<[cols, rows]>>, ev: <<event>>]
   event  = [e |-> "start", k, d, style, row, text, speed, loop, now, reads, cells, active, delays, oob, exc]
          | [e |-> "pass",  k, ..., now, reads, cells, active, delays, oob, exc]      (unused fields are blank)
     cells  : the cell matrices of all displays after the event (host: LCD.dump(); firmware: mock HD44780)
     host pass : every animation of every display is ticked with `now`; active = the objects' flags afterwards
     fw pass   : reads = one entry per millis() call of the injected housekeeping of that pass, each with the
                 cells written after it: [now, d, rows (rows written, as a sequence), oob, delays]; a tick of a finished
                 animation returns before reading the clock, so the reads are matched, in tick order, with the
                 animations the specification holds active
     delays : delay()/sleep calls during the event;  oob : writes outside the visible window (or a clamped
              cursor row);  exc : exception class raised by the host call ("" = none)                      *)
EXTENDS LCDAnim, Json, IOUtils

Traces == JsonDeserialize(IOEnv.TRACE_FILE)
VARIABLES tid, l, bad, known
T == Traces[tid]

ShapeOK(cells) ==
    /\ Len(cells) = Len(geo)
    /\ \A d \in 1..Len(geo) : Len(cells[d]) = geo[d].rows /\ \A r \in 1..geo[d].rows : Len(cells[d][r]) = geo[d].cols

(* which clause a wrong cell matrix breaks: a row no animation owns changed -> FrameInsideRow, else content *)
CellsDiff(cells, want, aa) ==
    IF ~ShapeOK(cells) THEN "FrameWidth"
    ELSE IF cells = want THEN ""
    ELSE IF \E d \in 1..Len(geo) : \E r \in 1..geo[d].rows :
               cells[d][r] # want[d][r] /\ ~\E i \in 1..Len(aa) : aa[i].d = d /\ aa[i].row + 1 = r
         THEN "FrameInsideRow"
    ELSE "frame-content"

-----------------------------------------------------------------------------
(* The ticks of one pass against the recorded reads.  mode "spec": the specification; "skiploop": the known
   deviation (animations started inside the loop are never ticked); "force": rate limit ignored (diagnosis).
   S = [a, disp, j (next read), err] *)
RECURSIVE Fold(_, _, _, _, _, _)
Fold(mode, S, ord, k, reads, hostNow) ==
    IF k > Len(ord) \/ S.err # "" THEN S
    ELSE LET i == ord[k]
             r == S.a[i]
             c == geo[r.d].cols
         IN IF impl = "host" THEN
                LET x == IF mode = "force" THEN ForceFn(impl, r, c, hostNow) ELSE TickFn(impl, r, c, hostNow)
                IN Fold(mode, [S EXCEPT !.a[i] = x.r, !.disp = Shown(S.disp, r, x)], ord, k + 1, reads, hostNow)
            ELSE IF ~r.active \/ (mode = "skiploop" /\ r.inloop) THEN Fold(mode, S, ord, k + 1, reads, hostNow)
            ELSE IF S.j > Len(reads) THEN [S EXCEPT !.err = "TickOncePerPass:active-animation-not-ticked"]
            ELSE LET rd == reads[S.j]
                     x == IF mode = "force" THEN ForceFn(impl, r, c, rd.now) ELSE TickFn(impl, r, c, rd.now)
                     e == IF rd.delays > 0 THEN "StartNeverBlocks:delay-in-tick"
                          ELSE IF rd.oob > 0 THEN "FrameWidth:write-outside-window"
                          ELSE IF Len(rd.rows) > 0 /\ (rd.d # r.d \/ \E m \in 1..Len(rd.rows) : rd.rows[m] # r.row) THEN "FrameInsideRow:write-to-other-row"
                          ELSE IF Len(rd.rows) > 0 /\ ~x.w THEN "tick-wrote-without-step"
                          ELSE ""
                 IN Fold(mode, [a |-> [S.a EXCEPT ![i] = x.r], disp |-> Shown(S.disp, r, x), j |-> S.j + 1, err |-> e],
                         ord, k + 1, reads, hostNow)

PassResult(mode, e) ==
    LET S == Fold(mode, [a |-> a, disp |-> disp, j |-> 1, err |-> ""], Order(a, Len(geo)), 1, e.reads, e.now)
        err == IF S.err # "" THEN S.err
               ELSE IF impl = "fw" /\ S.j <= Len(e.reads) THEN "TickOncePerPass:more-ticks-than-active-animations"
               ELSE IF CellsDiff(e.cells, S.disp, S.a) # "" THEN CellsDiff(e.cells, S.disp, S.a)
               ELSE IF impl = "host" /\ e.active # [i \in 1..Len(a) |-> S.a[i].active] THEN
                    (IF \E i \in 1..Len(a) : e.active[i] /\ ~S.a[i].active THEN "NonLoopingStops:still-active"
                     ELSE "LoopingNeverStops:stopped-early")
               ELSE ""
    IN [a |-> S.a, disp |-> S.disp, err |-> err]

(* Diagnosis of a rejected pass: would it be accepted if the rate limit were ignored? *)
Diagnose(e, err) ==
    IF PassResult("force", e).err = "" THEN "RateLimit:step-earlier-than-speed_ms" ELSE err

Common(e) ==
    IF e.exc # "" THEN "NeverRaises:" \o e.exc
    ELSE IF e.delays > 0 THEN "StartNeverBlocks:delay-call"
    ELSE IF e.oob > 0 THEN "FrameWidth:write-outside-window"
    ELSE ""

InvDiff(aa, dd) ==
    IF \E i \in 1..Len(aa) : ~aa[i].loop /\ aa[i].active /\ aa[i].steps >= StepBound(aa[i]) THEN "inv-NonLoopingStops"
    ELSE IF \E i \in 1..Len(aa) : aa[i].loop /\ ~aa[i].active THEN "inv-LoopingNeverStops"
    ELSE IF ~ShapeOK(dd) THEN "inv-FrameWidth"
    ELSE ""

-----------------------------------------------------------------------------
TInit == /\ tid \in 1..Len(Traces) /\ l = 1 /\ bad = "" /\ known = {}
         /\ impl = Traces[tid].impl /\ geo = Traces[tid].geo
         /\ a = <<>> /\ disp = [d \in 1..Len(Traces[tid].geo) |-> Blank(Traces[tid].geo[d])]
         /\ now = 0 /\ pass = 0 /\ ticked = <<>> /\ blocked = 0

TStart(e) ==
    LET ok == e.d \in 1..Len(geo) /\ e.row \in 0..(geo[e.d].rows - 1) /\ e.speed >= 0 /\ e.style \in Styles
        r == NewAnim(e.d, e.style, e.row, e.text, e.speed, e.loop, pass > 0)
        dd == [disp EXCEPT ![e.d][e.row + 1] = StartFrame(r, geo[e.d].cols)]
        d0 == IF ~ok THEN "bad-start-event" ELSE IF Common(e) # "" THEN Common(e) ELSE CellsDiff(e.cells, dd, Append(a, r))
    IN /\ bad' = IF d0 # "" THEN d0 ELSE InvDiff(Append(a, r), dd)
       /\ a' = IF ok THEN Append(a, r) ELSE a
       /\ disp' = IF ok THEN dd ELSE disp
       /\ ticked' = Append(ticked, 1) /\ blocked' = e.delays
       /\ UNCHANGED <<now, pass, known>>

TPass(e) ==
    LET p == PassResult("spec", e)
        q == PassResult("skiploop", e)
        kn == p.err # "" /\ impl = "fw" /\ (\E i \in 1..Len(a) : a[i].inloop) /\ q.err = ""
        res == IF kn THEN q ELSE p
        d0 == IF e.k # pass + 1 THEN "pass-order"
              ELSE IF Common(e) # "" THEN Common(e)
              ELSE IF res.err # "" THEN Diagnose(e, res.err) ELSE ""
    IN /\ bad' = IF d0 # "" THEN d0 ELSE InvDiff(res.a, res.disp)
       /\ known' = IF kn THEN known \cup {"loop-start-never-ticked"} ELSE known
       /\ a' = res.a /\ disp' = res.disp
       /\ pass' = pass + 1 /\ now' = e.now
       /\ ticked' = [i \in 1..Len(a) |-> 1] /\ blocked' = e.delays

TNext == /\ bad = "" /\ l <= Len(T.ev)
         /\ LET e == T.ev[l] IN IF e.e = "start" THEN TStart(e) ELSE TPass(e)
         /\ l' = l + 1 /\ UNCHANGED <<tid, impl, geo>>

Done == bad # "" \/ l > Len(T.ev)
Verdict == Done => PrintT(ToJson([id |-> T.id, ok |-> bad = "", l |-> l - 1, clause |-> bad, known |-> known]))
=============================================================================
