SPECIFICATION Spec
INVARIANT Laws
CHECK_DEADLOCK FALSE
