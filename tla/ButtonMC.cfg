SPECIFICATION Spec
CONSTANTS
  MaxPasses = 10
  MaxReads = 3
INVARIANT TypeOK
INVARIANT SampledAtMostOncePerPass
INVARIANT ClicksEqualRisingEdges
INVARIANT NoClickAtStartup
INVARIANT StableWithinPass
INVARIANT HostAgreement
PROPERTY SampledExactlyOncePerPass
PROPERTY ClickOnlyOnRisingEdge
PROPERTY NoMissedClick
CHECK_DEADLOCK FALSE
