------------------------------ MODULE BuzzerGen ------------------------------
(* Behaviour generation: every call history of length MaxLen over the grid (BFS; a history contains all its
   prefixes, and every call of a history is validated on its own) or random walks (-simulate); each history
   leaves TLC as one JSON line [dflt, h].  The machine is run call by call (big steps: Run of the first allowed
   micro-step sequence), so that the histories can be steered: at most MaxKnown calls of a history may meet the
   trigger of a known finding (clean stratum: 0).                                                              *)
EXTENDS BuzzerMC, Json
CONSTANTS MaxLen, MaxKnown
VARIABLES h, st, nk
gvars == <<h, st, nk>>
Trig(s, d, c) ==      \* the call meets the trigger of a known finding (a predicate over stimulus and spec execution)
    \/ SubHertz(s, d, c)
    \/ (c.act = "beep" /\ c.a[4] <= 0 /\ s.sounding)
    \/ NegDur(c)
First(S) == CHOOSE m \in S : TRUE
GInit == /\ h = <<>> /\ nk = 0 /\ st \in {St(FALSE, 0, d) : d \in Defaults}
         /\ dflt = st.last /\ sounding = FALSE /\ cur = 0 /\ last = dflt /\ pin = 0 /\ elapsed = 0
         /\ todo = <<>> /\ call = NoCall /\ pre = St(FALSE, 0, dflt) /\ wave = WStart(0)
GNext == /\ Len(h) < MaxLen
         /\ \E c \in Calls :
              /\ h' = Append(h, c)
              /\ nk' = nk + (IF Trig(st, dflt, c) THEN 1 ELSE 0)
              /\ nk' <= MaxKnown
              /\ st' = Run(st, First(Variants(st, dflt, c))).st
         /\ UNCHANGED vars
(* -simulate: TLC would evaluate every successor (all calls of the grid) to pick one; draw the call first instead *)
GNextSim == /\ Len(h) < MaxLen
            /\ \E c \in {RandomElement(Calls)} :
                 /\ h' = Append(h, c)
                 /\ nk' = nk + (IF Trig(st, dflt, c) THEN 1 ELSE 0)
                 /\ nk' <= MaxKnown
                 /\ st' = Run(st, First(Variants(st, dflt, c))).st
            /\ UNCHANGED vars
Emit  == IF Len(h) >= MaxLen THEN PrintT(ToJson([dflt |-> dflt, nk |-> nk, h |-> h])) /\ FALSE ELSE TRUE
EmitSim == Len(h) < MaxLen \/ PrintT(ToJson([dflt |-> dflt, nk |-> nk, h |-> h]))
=============================================================================
