INIT TInit
NEXT TNext
CONSTANTS
  MaxPasses = 0
  MaxReads = 0
CONSTRAINT Verdict
CHECK_DEADLOCK FALSE
