SPECIFICATION Spec
CONSTANTS
  Inputs <- InputsDef
INVARIANT TypeOK
INVARIANT CleanOutcome
INVARIANT AlwaysPrompt
INVARIANT SyntaxErrorOnlyForNonPython
INVARIANT CompileOnlyAfterAccept
CHECK_DEADLOCK FALSE
