--------------------------- MODULE HostSensorsTrace ---------------------------
(* Batch trace validation for the host Button / Potentiometer / Ultrasonic classes. *)
EXTENDS HostSensors, Json, IOUtils
Traces == JsonDeserialize(IOEnv.TRACE_FILE)
\* [{id, cfg:[kind,prov,dflt:[t,m]], ev: <<[act, s:[t,m], out, ret, clicks, polls]...>>}...]
VARIABLES tid, l, bad, known
T == Traces[tid]
TInit == /\ tid \in 1..Len(Traces) /\ l = 1 /\ bad = "" /\ known = {}
         /\ cfg = Traces[tid].cfg /\ pressed = FALSE /\ prev = FALSE /\ clicks = 0 /\ sig = <<>>
         /\ res = "init" /\ ret = NONE /\ dclicks = 0 /\ polls = 0 /\ last = NoCall
TNext == /\ bad = "" /\ l <= Len(T.ev)
         /\ LET e == T.ev[l]
                c == Call(e.act, e.s)
                d0 == StepDiff(cfg, Cur, c, e.out, e.ret, e.clicks, e.polls)
                kn == d0 # "" /\ KnownPotEdge(cfg, Cur, c, e.out, e.ret, e.clicks, e.polls)
                t == Post(cfg, Cur, c)
            IN /\ bad' = IF kn THEN "" ELSE d0
               /\ known' = IF kn THEN known \cup {"pot-fraction-outside-range"} ELSE known
               /\ pressed' = t.pressed /\ prev' = t.prev /\ clicks' = clicks + e.clicks
               /\ sig' = IF c.act = "is_pressed" THEN Append(sig, t.prev) ELSE sig
               /\ res' = e.out /\ ret' = e.ret /\ dclicks' = e.clicks /\ polls' = e.polls /\ last' = c
         /\ l' = l + 1 /\ UNCHANGED <<tid, cfg>>
(* the property's own formulation, evaluated on the implementation's click count *)
InvDiff == IF cfg.kind = "button" /\ clicks # Edges(sig, 1) THEN "inv-clicks-equal-rising-edges" ELSE ""
Done == bad # "" \/ l > Len(T.ev)
Verdict == Done => PrintT(ToJson([id |-> T.id, ok |-> bad = "" /\ InvDiff = "", l |-> l - 1,
                                  clause |-> IF bad # "" THEN bad ELSE InvDiff, known |-> known]))
=============================================================================
