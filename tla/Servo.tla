-------------------------------- MODULE Servo --------------------------------
(* The hobby servo as a state machine.  All angles and pulse widths are integers in MILLI-units
   (1/1000 degree, 1/1000 microsecond); grids are in tenths so every argument is exact.
   side = "host": write()/write_us() outside the configured bounds raise and leave the object unchanged;
   side = "fw"  : out-of-range commands are clamped to the bounds; the device is commanded with the whole
                  degree / whole microsecond nearest to the modelled real value (within one half).
   cal = [mina, maxa, minp, maxp] in milli-units.                                                        *)
EXTENDS Integers, Sequences, TLC

VARIABLES
    \* @type: Str;
    side,
    \* @type: { mina: Int, maxa: Int, minp: Int, maxp: Int };
    cal,
    \* @type: Int;
    angle,
    \* @type: Int;
    pulse,
    \* @type: { op: Str, v: Int };
    cmd,
    \* @type: Str;
    res,
    \* @type: { act: Str, v: Int };
    last
vars == <<side, cal, angle, pulse, cmd, res, last>>
\* cmd: what the last call sent to the servo library: [op |-> "none"|"write"|"us", v |-> integer]

\* @type: (Str, Int) => { act: Str, v: Int };
Call(act, v) == [act |-> act, v |-> v]
NoCall == Call("none", 0)
NoCmd == [op |-> "none", v |-> 0]
Abs(x) == IF x < 0 THEN -x ELSE x
\* @type: ({ mina: Int, maxa: Int, minp: Int, maxp: Int }) => Int;
SpanA(c) == c.maxa - c.mina
\* @type: ({ mina: Int, maxa: Int, minp: Int, maxp: Int }) => Int;
SpanP(c) == c.maxp - c.minp
ClampTo(v, lo, hi) == IF v < lo THEN lo ELSE IF v > hi THEN hi ELSE v

\* @type: ({ mina: Int, maxa: Int, minp: Int, maxp: Int }, { act: Str, v: Int }) => Bool;
Valid(c, k) ==
    CASE k.act = "write" -> c.mina <= k.v /\ k.v <= c.maxa
      [] k.act = "write_us" -> c.minp <= k.v /\ k.v <= c.maxp
      [] OTHER -> FALSE

(* angle a and pulse p correspond under the configured linear map when each is known to within tol milli-units:
   | (p - minp) * spanA - (a - mina) * spanP | <= tol * (spanA + spanP)   (all products stay below 2^31) *)
\* @type: ({ mina: Int, maxa: Int, minp: Int, maxp: Int }, Int, Int, Int) => Bool;
Corresponds(c, a, p, tol) ==
    Abs((p - c.minp) * (SpanA(c) \div 1000) - (a - c.mina) * (SpanP(c) \div 1000))
        <= tol * ((SpanA(c) \div 1000) + (SpanP(c) \div 1000))
\* @type: ({ mina: Int, maxa: Int, minp: Int, maxp: Int }, Int, Int, Int) => Bool;
InBounds(c, a, p, tol) ==
    /\ c.mina - tol <= a /\ a <= c.maxa + tol
    /\ c.minp - tol <= p /\ p <= c.maxp + tol

(* Step relation.  tolV: tolerance on a directly commanded value, tolD: on the derived one (milli-units). *)
\* @type: (Str, { mina: Int, maxa: Int, minp: Int, maxp: Int }, { angle: Int, pulse: Int }, { act: Str, v: Int }, { angle: Int, pulse: Int }, { op: Str, v: Int }, Str, Int, Int) => Bool;
StepTol(sd, c, s, k, t, m, r, tolV, tolD) ==
    IF sd = "host" /\ ~Valid(c, k) THEN r = "raise" /\ t = s /\ m = NoCmd
    ELSE /\ r = "ok"
         /\ LET v == IF k.act = "write" THEN ClampTo(k.v, c.mina, c.maxa) ELSE ClampTo(k.v, c.minp, c.maxp) IN
            /\ IF k.act = "write" THEN Abs(t.angle - v) <= tolV ELSE Abs(t.pulse - v) <= tolV
            /\ Corresponds(c, t.angle, t.pulse, tolD)
            /\ InBounds(c, t.angle, t.pulse, tolV)
            /\ sd = "fw" => /\ m.op = (IF k.act = "write" THEN "write" ELSE "us")
                            /\ 2 * Abs(1000 * m.v - v) <= 1000           \* nearest whole unit (within one half)
            /\ sd = "host" => m = NoCmd
\* @type: (Str, { mina: Int, maxa: Int, minp: Int, maxp: Int }, { angle: Int, pulse: Int }, { act: Str, v: Int }, { angle: Int, pulse: Int }, { op: Str, v: Int }, Str) => Bool;
Step(sd, c, s, k, t, m, r) ==
    IF sd = "host" THEN StepTol(sd, c, s, k, t, m, r, 1, 2) ELSE StepTol(sd, c, s, k, t, m, r, 6, 7)

\* @type: (Str, { mina: Int, maxa: Int, minp: Int, maxp: Int }, { angle: Int, pulse: Int }, { act: Str, v: Int }, { angle: Int, pulse: Int }, { op: Str, v: Int }, Str) => Str;
StepDiff(sd, c, s, k, t, m, r) ==
    IF Step(sd, c, s, k, t, m, r) THEN ""
    ELSE IF sd = "host" /\ ~Valid(c, k) THEN (IF r # "raise" THEN "invalid-call-accepted" ELSE "failed-call-changed-state")
    ELSE IF r # "ok" THEN "result"
    ELSE LET tolV == IF sd = "host" THEN 1 ELSE 6   tolD == IF sd = "host" THEN 2 ELSE 7
             v == IF k.act = "write" THEN ClampTo(k.v, c.mina, c.maxa) ELSE ClampTo(k.v, c.minp, c.maxp) IN
         IF ~InBounds(c, t.angle, t.pulse, tolV) THEN "out-of-bounds"
         ELSE IF ~(IF k.act = "write" THEN Abs(t.angle - v) <= tolV ELSE Abs(t.pulse - v) <= tolV) THEN "commanded-value"
         ELSE IF ~Corresponds(c, t.angle, t.pulse, tolD) THEN "angle-pulse-correspondence"
         ELSE "device-command"

(* Known deviation (known/C04.json: servo-negative-angle-rounds-toward-zero).  The firmware turns the commanded angle into whole
   degrees with `static_cast<int>(angle + 0.5f)`, which is "nearest" only for angles >= 0: for a negative angle (a servo configured
   with min_angle < 0) the cast truncates toward zero (-44.7 -> -44, nearest is -45).  Exact match: everything else about the step
   holds, the call is write() of a negative value, and the device command is exactly that truncation. *)
TruncHalfUp(v) == LET w == v + 500 IN IF w >= 0 THEN w \div 1000 ELSE -((-w) \div 1000)
\* @type: (Str, { mina: Int, maxa: Int, minp: Int, maxp: Int }, { act: Str, v: Int }, { angle: Int, pulse: Int }, { op: Str, v: Int }, Str) => Bool;
KnownNegativeRound(sd, c, k, t, m, r) ==
    /\ sd = "fw" /\ r = "ok" /\ k.act = "write"
    /\ LET v == ClampTo(k.v, c.mina, c.maxa) IN
       /\ v < 0 /\ Abs(t.angle - v) <= 6 /\ Corresponds(c, t.angle, t.pulse, 7) /\ InBounds(c, t.angle, t.pulse, 6)
       /\ m.op = "write" /\ m.v = TruncHalfUp(v) /\ 2 * Abs(1000 * m.v - v) > 1000
-----------------------------------------------------------------------------
CONSTANTS
    \* @type: Set({ mina: Int, maxa: Int, minp: Int, maxp: Int });
    Cals,
    \* @type: Set(Int);
    Angles,
    \* @type: Set(Int);
    Pulses        \* Angles/Pulses: offsets in milli-units relative to the calibration bounds
St(a, p) == [angle |-> a, pulse |-> p]
Cur == St(angle, pulse)
\* @type: ({ mina: Int, maxa: Int, minp: Int, maxp: Int }) => Set({ act: Str, v: Int });
Calls(c) == {Call("write", c.mina + o) : o \in Angles} \cup {Call("write", c.maxa + o) : o \in Angles}
            \cup {Call("write", (c.mina + c.maxa) \div 2)}
            \cup {Call("write", c.minp), Call("write", (c.minp + c.maxp) \div 2)}   \* "angles" that are numerically pulse widths: still angles
            \cup {Call("write_us", c.minp + o) : o \in Pulses} \cup {Call("write_us", c.maxp + o) : o \in Pulses}
            \cup {Call("write_us", (c.minp + c.maxp) \div 2)}
RoundDiv(n, d) == (2 * n + d) \div (2 * d)          \* nearest integer, d > 0

Init == /\ side \in {"host", "fw"} /\ cal \in Cals
        /\ angle = cal.mina /\ pulse = cal.minp /\ cmd = NoCmd /\ res = "init" /\ last = NoCall

\* @type: ({ act: Str, v: Int }) => Bool;
Do(k) ==
    /\ last' = k /\ UNCHANGED <<side, cal>>
    /\ IF side = "host" /\ ~Valid(cal, k)
       THEN res' = "raise" /\ cmd' = NoCmd /\ UNCHANGED <<angle, pulse>>
       ELSE /\ res' = "ok"
            /\ IF k.act = "write"
               THEN LET a == ClampTo(k.v, cal.mina, cal.maxa) IN
                    /\ angle' = a
                    /\ pulse' = cal.minp + RoundDiv((a - cal.mina) * (SpanP(cal) \div 1000), SpanA(cal) \div 1000)
                    /\ cmd' = IF side = "fw" THEN [op |-> "write", v |-> RoundDiv(a, 1000)] ELSE NoCmd
               ELSE LET p == ClampTo(k.v, cal.minp, cal.maxp) IN
                    /\ pulse' = p
                    /\ angle' = cal.mina + RoundDiv((p - cal.minp) * (SpanA(cal) \div 1000), SpanP(cal) \div 1000)
                    /\ cmd' = IF side = "fw" THEN [op |-> "us", v |-> RoundDiv(p, 1000)] ELSE NoCmd
Next == \E k \in Calls(cal) : Do(k)
Spec == Init /\ [][Next]_vars

-----------------------------------------------------------------------------
WithinBounds == InBounds(cal, angle, pulse, 0)
AlwaysCorrespond == Corresponds(cal, angle, pulse, 1)
RoundTrip == res = "ok" => (IF last.act = "write" THEN angle = ClampTo(last.v, cal.mina, cal.maxa)
                            ELSE pulse = ClampTo(last.v, cal.minp, cal.maxp))
DeviceCommandInBounds ==
    cmd.op = "write" => (cal.mina <= 1000 * cmd.v + 500 /\ 1000 * cmd.v - 500 <= cal.maxa)
CanonicalIsAllowed == \/ last = NoCall
                      \/ res = "raise"
                      \/ \E s \in {Cur} : StepTol(side, cal, s, last, Cur, cmd, res, 0, 1)
FailedCallLeavesState == [][(side = "host" /\ ~Valid(cal, last')) => (res' = "raise" /\ angle' = angle /\ pulse' = pulse)]_vars
=============================================================================
