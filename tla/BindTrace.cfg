INIT TInit
NEXT TNext
CONSTANTS
  ShapeMode = "enum"
INVARIANT FailureIsJustified
INVARIANT TerminalIsDeclarative
INVARIANT ConventionIrrelevant
CONSTRAINT Verdict
CHECK_DEADLOCK FALSE
