INIT TInit
NEXT TNext
CONSTANTS
  Cals = {}
  Angles = {}
  Pulses = {}
CONSTRAINT Verdict
CHECK_DEADLOCK FALSE
