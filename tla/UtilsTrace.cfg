INIT TInit
NEXT TNext
CONSTANTS
  MapVals = {}
  FromRanges = {}
  ToRanges = {}
  MapTypings = {}
  SleepVals = {}
  SleepTypings = {}
  Vias = {}
CONSTRAINT Verdict
CHECK_DEADLOCK FALSE
