----------------------------- MODULE TargetTrace -----------------------------
(* Batch validation of event traces recorded from the real Reduino.target() (harness/target_rec.py).
   Trace: [id, cfg: [upload, pio, pair, platform, board, port, src, cpp, libs], fault, ev: <<event...>>] where
   src / cpp are digests of the calling script and of emit(parse(script)) computed outside target(), libs the
   libraries the script needs.  Raw event (all fields always present):
     [e, s, exe, argv, cwd, rc, fail, mro, platform, board, fs: [main, ini: [present, parsed, nsec, env, platform,
      board, framework, port, libs, ...]]]
   e \in Validate | Which | Run | ReadMain | Parse | Libs | Emit | MkTmp | MkDir | WriteMain | WriteIni | Other |
         Return | Raise.   fs = the project directory read back at that moment (tool invocations and the end).
   Every event is mapped to an abstract event of Target and put to Target!Diff; the verdict names the first
   clause that forbids it.  The listed known deviation is matched exactly by Target!KnownPioAlways.          *)
EXTENDS Target, Json, IOUtils

Traces == JsonDeserialize(IOEnv.TRACE_FILE)
VARIABLES tid, l, bad, known
T == Traces[tid]

RangeOf(q) == {q[i] : i \in 1..Len(q)}
PioExe == {"pio", "platformio"}
HasUploadTarget(a) == \E i \in 1..(Len(a) - 1) : a[i] \in {"-t", "--target"} /\ a[i + 1] = "upload"
Kind(exe, a) ==
    IF exe \notin PioExe \/ Len(a) < 2 THEN "Other"
    ELSE IF a[2] = "--version" THEN "ProbePio"
    ELSE IF a[2] = "run" THEN (IF HasUploadTarget(a) THEN "Upload" ELSE "Build")
    ELSE "Other"
Name(ev) == IF ev.e = "Run" THEN Kind(ev.exe, ev.argv)
            ELSE IF ev.e = "Which" THEN (IF ev.s \in PioExe THEN "ProbePio" ELSE "Other")
            ELSE ev.e

(* Is the project on disk the one the call has to produce?  "" or the first difference. *)
ProjDiff(c, fs) ==
    IF fs.main # c.cpp THEN "main.cpp-is-not-the-returned-sketch"
    ELSE IF ~fs.ini.present THEN "no-platformio.ini"
    ELSE IF ~fs.ini.parsed THEN "platformio.ini-unreadable"
    ELSE IF fs.ini.nsec # 1 \/ fs.ini.env = "" THEN "not-exactly-one-environment"
    ELSE IF fs.ini.platform # c.platform THEN "platform"
    ELSE IF fs.ini.board # c.board THEN "board"
    ELSE IF fs.ini.port # c.port THEN "port"
    ELSE IF RangeOf(fs.ini.libs) # RangeOf(c.libs) THEN "libraries"
    ELSE IF Cardinality(RangeOf(fs.ini.libs)) # Len(fs.ini.libs) THEN "library-listed-twice"
    ELSE ""

Abstract(c, ev) ==
    LET n == Name(ev)
        arg == CASE n = "Validate" -> ev.platform = c.platform /\ ev.board = c.board
                 [] n = "Parse" -> ev.s = c.src
                 [] n = "Return" -> ev.s = c.cpp
                 [] OTHER -> TRUE
    IN Ev(n, arg, ProjDiff(c, ev.fs) = "", ev.cwd = "project", RangeOf(ev.mro))

TInit == /\ tid \in 1..Len(Traces) /\ l = 1 /\ bad = "" /\ known = {}
         /\ cfg = Traces[tid].cfg /\ fault = Traces[tid].fault /\ st = S0

TNext == /\ bad = "" /\ l <= Len(T.ev)
         /\ LET ev == T.ev[l]
                a == Abstract(cfg, ev)
                d0 == Diff(cfg, fault, st, a)
                kn == d0 # "" /\ KnownPioAlways(cfg, fault, st, a)
                shouldFail == EnvFails(cfg, fault, a.e) /\ ~(a.e = "Validate" /\ st.validated)
                envd == IF a.e \notin FaultSteps \/ ev.fail = shouldFail THEN ""
                        ELSE IF a.e = "Validate" THEN (IF ev.fail THEN "registered-pair-rejected"
                                                       ELSE "NothingBeforeValidation:bad-pair-accepted")
                        ELSE "MACHINERY:injector-disagrees-with-the-specification"
                d == IF kn THEN ""
                     ELSE IF d0 = "IniNamesGivenConfig" THEN d0 \o ":" \o ProjDiff(cfg, ev.fs)
                     ELSE IF d0 # "" THEN d0
                     ELSE envd
                last == l = Len(T.ev)
            IN /\ st' = Apply(cfg, fault, st, a)
               /\ known' = IF kn THEN known \cup {"target-no-pio-no-upload"} ELSE known
               /\ bad' = IF d # "" THEN d
                         ELSE IF last /\ a.e \notin {"Return", "Raise"} THEN "trace-ends-without-result"
                         ELSE ""
         /\ l' = l + 1 /\ UNCHANGED <<tid, cfg, fault>>

Done == bad # "" \/ l > Len(T.ev)
Verdict == Done => PrintT(ToJson([id |-> T.id, ok |-> bad = "", l |-> l - 1, clause |-> bad, known |-> known,
                                  result |-> st.result]))

(* The property's invariants on the implementation's own states (accepted prefixes without a known deviation). *)
ImplInv == (bad = "" /\ known = {}) =>
    /\ TypeOK /\ NothingBeforeValidation /\ PioOnlyIfUpload /\ MissingPioIsRuntimeErrorBeforeWrite
    /\ UploadOnlyAfterBuildOk /\ RunIffUpload /\ FailurePropagates /\ ReturnsExactlyEmit /\ IniNamesGivenConfig
    /\ OutcomeDetermined
=============================================================================
