------------------------------- MODULE Target -------------------------------
(* The workflow of  Reduino.target(port, upload=, platform=, board=)  as a protocol with faults (property C12).

   One call has a configuration  cfg  (the arguments, whether PlatformIO is installed, whether the
   platform/board pair is registered, the calling script and what it transpiles to) and at most one injected
   environment fault  (fault = the step whose every attempt fails; "none" = no fault).  The call is a sequence
   of observable events:

     Validate  ProbePio  ReadMain  Parse  Libs  Emit  MkTmp  MkDir  WriteMain  WriteIni  Build  Upload
     and finally  Return  or  Raise(classes)

   The specification is prescriptive and only as ordered as the property is:
     * Validate is the first thing that happens; a bad pair (or a failing validation) ends the call at once;
     * with upload requested PlatformIO is probed before anything is written; a missing PlatformIO is a
       RuntimeError;  without upload a probe is tolerated but its outcome must not matter;
     * data dependencies: Parse needs the script, Libs/Emit need the program, WriteMain needs the sketch,
       WriteIni needs the library list, both need the project directory;
     * Build (only when upload is requested) sees the finished project; Upload follows one successful Build;
     * a failing step is followed by nothing but the exception reaching the caller;
     * Return hands back exactly the sketch, after the project is complete and (iff requested) uploaded.
   Everything is one relation:  Diff(c, f, s, a)  names the clause that forbids event a in state s ("" =
   allowed) and  Apply  gives the successor.  The model-checked machine takes exactly the allowed events, the
   trace specification (TargetTrace) asks Diff about every recorded event of the real target().            *)
EXTENDS Integers, Sequences, FiniteSets, TLC

FaultSteps == {"Validate", "ProbePio", "ReadMain", "Parse", "Libs", "Emit", "MkTmp", "WriteMain", "WriteIni",
               "Build", "Upload"}
Faults     == {"none"} \cup FaultSteps
Pairs      == {"ok", "bad_platform", "bad_board", "mismatch"}
WriteEvents == {"MkTmp", "MkDir", "WriteMain", "WriteIni"}

(* Abstract event: name, whether its payload is the one the configuration calls for (arg: the pair handed to
   validation / the text handed to the parser / the value returned), whether the project on disk at that
   moment is the required one (proj), whether a tool runs inside the project (cwd), classes of the exception. *)
Ev(n, arg, proj, cwd, mro) == [e |-> n, arg |-> arg, proj |-> proj, cwd |-> cwd, mro |-> mro]
Good(n) == Ev(n, TRUE, TRUE, TRUE, {})

S0 == [validated |-> FALSE, probe |-> "no", read |-> FALSE, parsed |-> FALSE, libs |-> FALSE, emitted |-> FALSE,
       tmp |-> FALSE, main |-> FALSE, ini |-> FALSE, wrote |-> {}, ran |-> <<>>, buildok |-> FALSE,
       failed |-> {}, pending |-> "", result |-> "none", cls |-> {}, last |-> "none"]
\* probe: "no" | "ok" | "failed";  wrote: write events attempted;  ran: tools started ("build"/"upload");
\* failed: steps that failed;  pending: "" | class the caller must see ("any" = unconstrained);  last: previous event

-----------------------------------------------------------------------------
(* The environment: which attempts fail.  A missing PlatformIO makes every pio invocation fail. *)
EnvFails(c, f, n) ==
    CASE n = "Validate" -> f = "Validate" \/ c.pair # "ok"
      [] n \in {"ProbePio", "Build", "Upload"} -> f = n \/ ~c.pio
      [] n \in FaultSteps -> f = n
      [] OTHER -> FALSE

(* What the caller must see when step n fails. *)
Need(c, f, n) ==
    IF n = "Validate" /\ f # "Validate" THEN "ValueError"                 \* unsupported / mismatched pair
    ELSE IF n = "ProbePio" /\ ~c.pio THEN "RuntimeError"                  \* PlatformIO is not installed
    ELSE "any"                                                            \* any tool failure: some exception

Fatal(c, n) == ~(n = "ProbePio" /\ ~c.upload)      \* transpile-only use does not need PlatformIO

-----------------------------------------------------------------------------
Diff(c, f, s, a) ==
    IF s.result # "none" THEN "event-after-completion"
    ELSE IF s.pending # "" THEN
        (IF a.e # "Raise" THEN "FailurePropagates"
         ELSE IF s.pending = "ValueError" /\ "ValueError" \notin a.mro THEN "NothingBeforeValidation:bad-pair-is-not-a-ValueError"
         ELSE IF s.pending = "RuntimeError" /\ "RuntimeError" \notin a.mro THEN "MissingPioIsRuntimeErrorBeforeWrite:class"
         ELSE "")
    ELSE IF a.e = "Raise" THEN
        (IF ~c.upload /\ s.probe = "failed" THEN "PioOnlyIfUpload" ELSE "exception-without-failure")
    ELSE IF a.e = "Validate" THEN (IF a.arg THEN "" ELSE "NothingBeforeValidation:validated-another-pair")
    ELSE IF ~s.validated THEN "NothingBeforeValidation"
    ELSE IF a.e \in {"ProbePio", "ReadMain"} THEN ""
    ELSE IF a.e = "Parse" THEN
        (IF ~s.read THEN "ReturnsExactlyEmit:parse-before-read"
         ELSE IF ~a.arg THEN "ReturnsExactlyEmit:parsed-text-is-not-the-script" ELSE "")
    ELSE IF a.e \in {"Libs", "Emit"} THEN (IF s.parsed THEN "" ELSE "ReturnsExactlyEmit:no-program")
    ELSE IF a.e \in WriteEvents THEN
        (IF c.upload /\ s.probe # "ok" THEN "MissingPioIsRuntimeErrorBeforeWrite:write-before-probe"
         ELSE IF a.e = "MkTmp" THEN (IF s.tmp THEN "second-project-directory" ELSE "")
         ELSE IF ~s.tmp THEN "write-without-project-directory"
         ELSE IF a.e = "WriteMain" /\ ~s.emitted THEN "IniNamesGivenConfig:main-before-emit"
         ELSE IF a.e = "WriteIni" /\ ~s.libs THEN "IniNamesGivenConfig:ini-before-libs"
         ELSE "")
    ELSE IF a.e = "Build" THEN
        (IF ~c.upload THEN "RunIffUpload:build-without-upload"
         ELSE IF s.probe # "ok" THEN "MissingPioIsRuntimeErrorBeforeWrite:run-before-probe"
         ELSE IF ~(s.main /\ s.ini) THEN "IniNamesGivenConfig:build-before-project"
         ELSE IF s.ran # <<>> THEN "RunIffUpload:second-build"
         ELSE IF ~a.cwd THEN "IniNamesGivenConfig:build-outside-project"
         ELSE IF ~a.proj THEN "IniNamesGivenConfig"
         ELSE "")
    ELSE IF a.e = "Upload" THEN
        (IF ~c.upload THEN "RunIffUpload:upload-without-request"
         ELSE IF s.ran # <<"build">> \/ ~s.buildok THEN "UploadOnlyAfterBuildOk"
         ELSE IF ~a.cwd THEN "IniNamesGivenConfig:upload-outside-project"
         ELSE IF ~a.proj THEN "IniNamesGivenConfig"
         ELSE "")
    ELSE IF a.e = "Return" THEN
        (IF ~s.emitted THEN "ReturnsExactlyEmit:no-emit"
         ELSE IF ~a.arg THEN "ReturnsExactlyEmit"
         ELSE IF ~(s.main /\ s.ini) THEN "IniNamesGivenConfig:return-without-project"
         ELSE IF ~a.proj THEN "IniNamesGivenConfig"
         ELSE IF c.upload /\ s.ran # <<"build", "upload">> THEN "RunIffUpload:return-without-upload"
         ELSE "")
    ELSE IF a.e = "Other" THEN "unexpected-effect"
    ELSE "unknown-event"

Apply(c, f, s, a) ==
    LET n == a.e
        fails == EnvFails(c, f, n) /\ ~(n = "Validate" /\ s.validated)
        s1 == [s EXCEPT !.last = n,
                        !.wrote = IF n \in WriteEvents THEN @ \cup {n} ELSE @,
                        !.ran = IF n = "Build" THEN Append(@, "build") ELSE IF n = "Upload" THEN Append(@, "upload") ELSE @,
                        !.probe = IF n = "ProbePio" THEN (IF fails THEN "failed" ELSE "ok") ELSE @]
    IN IF n = "Raise" THEN [s1 EXCEPT !.result = "raise", !.cls = a.mro, !.pending = ""]
       ELSE IF n = "Return" THEN [s1 EXCEPT !.result = "return"]
       ELSE IF fails THEN [s1 EXCEPT !.failed = @ \cup {n}, !.pending = IF Fatal(c, n) THEN Need(c, f, n) ELSE @]
       ELSE CASE n = "Validate" -> [s1 EXCEPT !.validated = TRUE]
              [] n = "ReadMain" -> [s1 EXCEPT !.read = TRUE]
              [] n = "Parse" -> [s1 EXCEPT !.parsed = TRUE]
              [] n = "Libs" -> [s1 EXCEPT !.libs = TRUE]
              [] n = "Emit" -> [s1 EXCEPT !.emitted = TRUE]
              [] n = "MkTmp" -> [s1 EXCEPT !.tmp = TRUE]
              [] n = "WriteMain" -> [s1 EXCEPT !.main = TRUE]
              [] n = "WriteIni" -> [s1 EXCEPT !.ini = TRUE]
              [] n = "Build" -> [s1 EXCEPT !.buildok = TRUE]
              [] OTHER -> s1

(* The one deviation of the pinned tree that is listed as a known finding (known/C12.json,
   target-no-pio-no-upload), matched exactly: no upload was requested, the PlatformIO probe - the event right
   before - failed, and that failure is raised as RuntimeError with nothing written and nothing run.        *)
KnownPioAlways(c, f, s, a) ==
    /\ ~c.upload /\ s.pending = "" /\ s.result = "none"
    /\ s.last = "ProbePio" /\ s.probe = "failed"
    /\ a.e = "Raise" /\ "RuntimeError" \in a.mro
    /\ s.wrote = {} /\ s.ran = <<>>
KnownTrigger(c, f) == ~c.upload /\ c.pair = "ok" /\ f # "Validate" /\ (~c.pio \/ f = "ProbePio")

-----------------------------------------------------------------------------
(* The machine that is model-checked: all behaviours the relation allows, for every configuration and fault. *)
VARIABLES cfg, fault, st
vars == <<cfg, fault, st>>

Cfg(u, p, pr) == [upload |-> u, pio |-> p, pair |-> pr]
Init == /\ cfg \in {Cfg(u, p, pr) : u \in BOOLEAN, p \in BOOLEAN, pr \in Pairs}
        /\ fault \in Faults
        /\ st = S0

ExcClasses == {{"ValueError", "Exception"}, {"RuntimeError", "Exception"}, {"OSError", "Exception"}}
Universe == {Good(n) : n \in FaultSteps \cup {"MkDir", "Return"}} \cup {Ev("Raise", TRUE, TRUE, TRUE, m) : m \in ExcClasses}

Do(a) == Diff(cfg, fault, st, a) = "" /\ st' = Apply(cfg, fault, st, a) /\ UNCHANGED <<cfg, fault>>
Validate  == Do(Good("Validate"))
ProbePio  == Do(Good("ProbePio"))
ReadMain  == Do(Good("ReadMain"))
Parse     == Do(Good("Parse"))
Libs      == Do(Good("Libs"))
Emit      == Do(Good("Emit"))
MkTmp     == Do(Good("MkTmp"))
MkDir     == Do(Good("MkDir"))
WriteMain == Do(Good("WriteMain"))
WriteIni  == Do(Good("WriteIni"))
Build     == Do(Good("Build"))
Upload    == Do(Good("Upload"))
Return    == Do(Good("Return"))
Raise(m)  == Do(Ev("Raise", TRUE, TRUE, TRUE, m))
Finished  == st.result # "none" /\ UNCHANGED vars

Next == \/ Validate \/ ProbePio \/ ReadMain \/ Parse \/ Libs \/ Emit \/ MkTmp \/ MkDir \/ WriteMain \/ WriteIni
        \/ Build \/ Upload \/ Return \/ (\E m \in ExcClasses : Raise(m)) \/ Finished
Spec == Init /\ [][Next]_vars

-----------------------------------------------------------------------------
(* The property, clause by clause. *)
TypeOK ==
    /\ st.probe \in {"no", "ok", "failed"} /\ st.result \in {"none", "return", "raise"}
    /\ st.wrote \subseteq WriteEvents /\ st.failed \subseteq FaultSteps
    /\ st.pending \in {"", "any", "ValueError", "RuntimeError"}

Quiet == st.probe = "no" /\ ~st.read /\ st.wrote = {} /\ st.ran = <<>>

NothingBeforeValidation ==
    /\ ~st.validated => Quiet /\ st.result # "return"
    /\ (cfg.pair # "ok" /\ fault # "Validate" /\ st.result # "none") => st.result = "raise" /\ "ValueError" \in st.cls /\ Quiet

PioOnlyIfUpload ==      \* transpile-only use never runs a tool and never fails because of PlatformIO
    ~cfg.upload => /\ st.ran = <<>>
                   /\ (cfg.pair = "ok" /\ fault \in {"none", "ProbePio", "Build", "Upload"}) => st.result # "raise" /\ st.pending = ""

MissingPioIsRuntimeErrorBeforeWrite ==
    /\ (cfg.upload /\ st.probe # "ok") => st.wrote = {} /\ st.ran = <<>> /\ st.result # "return"
    /\ (cfg.upload /\ ~cfg.pio /\ st.result = "raise" /\ st.failed = {"ProbePio"}) => "RuntimeError" \in st.cls

UploadOnlyAfterBuildOk ==
    \A i \in 1..Len(st.ran) : st.ran[i] = "upload" => i = 2 /\ st.ran[1] = "build" /\ st.buildok

RunIffUpload ==
    /\ st.result = "return" => st.ran = (IF cfg.upload THEN <<"build", "upload">> ELSE <<>>)
    /\ st.ran # <<>> => cfg.upload /\ st.ran[1] = "build"

FailurePropagates ==
    /\ st.result = "return" => st.failed \subseteq (IF cfg.upload THEN {} ELSE {"ProbePio"})
    /\ \A n \in st.failed : Fatal(cfg, n) => (st.pending # "" \/ st.result = "raise")

ReturnsExactlyEmit == st.result = "return" => st.read /\ st.parsed /\ st.emitted

IniNamesGivenConfig ==
    /\ st.result = "return" => st.tmp /\ st.main /\ st.ini /\ st.libs
    /\ st.ran # <<>> => st.main /\ st.ini

(* Outcome per configuration: what the caller gets is determined by the configuration and the fault alone. *)
ExpectedResult(c, f) ==
    IF c.pair # "ok" \/ f = "Validate" THEN "raise"
    ELSE IF f \in FaultSteps \ {"ProbePio", "Build", "Upload"} THEN "raise"
    ELSE IF c.upload /\ (~c.pio \/ f # "none") THEN "raise"
    ELSE "return"
OutcomeDetermined == st.result # "none" => st.result = ExpectedResult(cfg, fault)

=============================================================================
