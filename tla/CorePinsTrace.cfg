INIT TInit
NEXT TNext
CONSTANTS
  Labels = {}
  Names = {}
  Modes = {}
  DVals = {}
  AVals = {}
CONSTRAINT Verdict
CHECK_DEADLOCK FALSE
