------------------------------- MODULE PotTrace -------------------------------
(* Batch trace validation for Pot (see ButtonTrace for the idiom). *)
EXTENDS Pot, Json, IOUtils
Traces == JsonDeserialize(IOEnv.TRACE_FILE)   \* [{id, pin, ev: [{k, v, p}...]}...]
VARIABLES tid, l, bad
tvars == <<vars, tid, l, bad>>
T == Traces[tid]
TInit == /\ tid \in 1..Len(Traces) /\ l = 1 /\ bad = ""
         /\ pin = Traces[tid].pin /\ pc = "idle" /\ fresh = 0 /\ adc = -1 /\ calls = 0 /\ samples = 0 /\ ret = -1
         /\ inputs = <<>> /\ rets = <<>>
TNext == /\ bad = "" /\ l <= Len(T.ev)
         /\ LET e == T.ev[l]
                d == Diff(Rec, e)
            IN IF d = "" THEN SetRec(Apply(Rec, e)) /\ bad' = "" ELSE bad' = d /\ UNCHANGED pvars
         /\ l' = l + 1 /\ UNCHANGED <<tid, inputs, rets>>
Done == bad # "" \/ l > Len(T.ev)
Verdict == Done => PrintT(ToJson([id |-> T.id, ok |-> bad = "", l |-> l - 1, clause |-> bad, calls |-> calls]))
=============================================================================
