----------------------------- MODULE SerialMonGen -----------------------------
(* Behaviours: a configuration + the calls after the constructor ("new" is the first call of every history). *)
EXTENDS SerialMonMC, Json
CONSTANT MaxLen
VARIABLE h
GInit == Init /\ h = <<>>
GNext == Next /\ h' = Append(h, last')
Beh == [cfg |-> cfg, h |-> h]
Emit  == IF Len(h) >= MaxLen \/ phase = "dead" THEN PrintT(ToJson(Beh)) /\ FALSE ELSE TRUE
EmitSim == (Len(h) < MaxLen /\ phase # "dead") \/ PrintT(ToJson(Beh))
=============================================================================
