-------------------------------- MODULE Libs --------------------------------
(* C14 - library deps, #includes and instantiated library classes always agree.

   A script declares a multiset of devices.  Three device kinds need a PlatformIO library:
       servo -> Servo,   lcdp (4-bit parallel LCD) -> LiquidCrystal,   lcdi (I2C LCD) -> LiquidCrystal_I2C.
   The transpiler answers with three things, produced by DIFFERENT traversals of the program:
       libs : the lib_deps list handed to write_project      (Reduino._collect_required_libraries, deep walk)
       incl : the #include lines of the generated source      (emitter, top-level scans)
       inst : the library classes the source instantiates     (emitter, one global object per device)
   The property: a library is requested  <=>  its header is included  <=>  the script declares a device that
   needs it, and nothing is requested or included twice or needlessly.

   Scope decisions (stated once, here):
   * The libraries in scope are the three the property names.  Wire.h is not a lib_deps entry (it ships with
     the Arduino core); it is treated as part of the INCLUDE GROUP of LiquidCrystal_I2C: it must be included
     exactly when LiquidCrystal_I2C.h is (included without an I2C display = needless include, missing with one
     = incomplete group).  A lib_deps entry outside the three (e.g. "Wire") is a needless request.
   * Only library headers take part (Arduino.h, cstring ... are ignored here; module Sketch forbids duplicate
     includes of any header).
   * Comparison is on SETS plus duplicate-freedom; no order of lib_deps / includes is demanded.
   * Places: "pre" = a top-level statement before the main loop, "loop" = at the top of the `while True:` body
     (servos only - the property's quantifier), "nested" = inside a compound statement (if/for/while/try) that
     stands before the main loop.  The specification makes no difference between them: a declared device
     needs its library wherever it is declared.  "nested" is generated only for the probe stratum of the
     known finding `lib-device-in-compound-statement`.

   This module is prescriptive: Declare/Finish describe the transpiler the property promises (the ideal
   outputs are built incrementally), Agree/ObsDiff are the step relation used to validate what the real code
   produced (ObsDiff names the first failing clause).                                                      *)
EXTENDS Naturals, Sequences, FiniteSets, TLC

CONSTANTS DeclKinds,      \* device kinds the model checker may declare (subset of Kinds)
          MaxDevs         \* bound on the number of declarations in the model-checking configuration

LibKinds   == {"servo", "lcdp", "lcdi"}
OtherKinds == {"led", "rgb", "motor", "buzzer", "button", "pot", "ultra", "serial"}
Kinds      == LibKinds \cup OtherKinds
Places     == {"pre", "loop", "nested"}
Libraries  == {"Servo", "LiquidCrystal", "LiquidCrystal_I2C"}     \* library name = class name

LibOf(kind) == CASE kind = "servo" -> "Servo"
                 [] kind = "lcdp"  -> "LiquidCrystal"
                 [] kind = "lcdi"  -> "LiquidCrystal_I2C"
                 [] OTHER          -> "none"
MainHeader(L) == CASE L = "Servo" -> "Servo.h"
                   [] L = "LiquidCrystal" -> "LiquidCrystal.h"
                   [] L = "LiquidCrystal_I2C" -> "LiquidCrystal_I2C.h"
HeaderSeq(L) == IF L = "LiquidCrystal_I2C" THEN <<"Wire.h", "LiquidCrystal_I2C.h">> ELSE <<MainHeader(L)>>
Range(s) == {s[i] : i \in DOMAIN s}
HeaderGroup(L) == Range(HeaderSeq(L))
LibHeaders == UNION {HeaderGroup(L) : L \in Libraries}
HeadersFor(N) == UNION {HeaderGroup(L) : L \in N}

Count(s, x) == Cardinality({i \in DOMAIN s : s[i] = x})
NoDup(s) == \A i, j \in DOMAIN s : s[i] = s[j] => i = j
AppendNew(s, xs) == s \o SelectSeq(xs, LAMBDA x : x \notin Range(s))

Dev(kind, place) == [kind |-> kind, place |-> place]
Needed(d) == {LibOf(d[i].kind) : i \in DOMAIN d} \ {"none"}

(* ---------------------------------------------------------------------------------------------------- *)
(* The clauses of the property over an observation (d = declared devices, lb = lib_deps, ic = includes,  *)
(* is = instantiated classes, one entry per object).                                                      *)
Requested(lb)    == Range(lb)
Included(ic)     == Range(ic) \cap LibHeaders
Instantiated(is) == Range(is) \cap Libraries

RequestedIffNeededO(d, lb)     == Requested(lb) = Needed(d)
IncludedIffNeededO(d, ic)      == Included(ic) = HeadersFor(Needed(d))
InstantiatedIffNeededO(d, is)  == Instantiated(is) = Needed(d)
RequestedIffIncludedO(lb, ic)  == \A L \in Libraries : (L \in Requested(lb)) <=> (MainHeader(L) \in Included(ic))
IncludedIffInstantiatedO(ic, is) == \A L \in Libraries : (MainHeader(L) \in Included(ic)) <=> (L \in Instantiated(is))
WireWithI2CO(ic)               == ("Wire.h" \in Range(ic)) <=> ("LiquidCrystal_I2C.h" \in Range(ic))
NoDuplicateRequestO(lb)        == NoDup(lb)
NoDuplicateIncludeO(ic)        == \A h \in LibHeaders : Count(ic, h) <= 1
NothingNeedlessO(d, lb, ic)    == Requested(lb) \subseteq Needed(d) /\ Included(ic) \subseteq HeadersFor(Needed(d))

Agree(d, lb, ic, is) ==
    /\ RequestedIffNeededO(d, lb) /\ IncludedIffNeededO(d, ic) /\ InstantiatedIffNeededO(d, is)
    /\ RequestedIffIncludedO(lb, ic) /\ IncludedIffInstantiatedO(ic, is) /\ WireWithI2CO(ic)
    /\ NoDuplicateRequestO(lb) /\ NoDuplicateIncludeO(ic) /\ NothingNeedlessO(d, lb, ic)

(* The same relation as a total function naming the first failing clause ("" = the observation agrees). *)
ObsDiff(d, lb, ic, is) ==
    LET N == Needed(d)   R == Requested(lb)   I == Included(ic)   C == Instantiated(is) IN
    IF ~NoDup(lb) THEN "library-requested-twice"
    ELSE IF \E h \in LibHeaders : Count(ic, h) > 1 THEN "header-included-twice"
    ELSE IF ~(R \subseteq N) THEN "library-requested-needlessly"
    ELSE IF ~(N \subseteq R) THEN "needed-library-not-requested"
    ELSE IF ~(I \subseteq HeadersFor(N)) THEN "header-included-needlessly"
    ELSE IF ~(HeadersFor(N) \subseteq I) THEN "needed-header-not-included"
    ELSE IF ~(C \subseteq N) THEN "class-instantiated-needlessly"
    ELSE IF ~(N \subseteq C) THEN "needed-class-not-instantiated"
    ELSE ""

(* Known finding `lib-device-in-compound-statement`: the emitter's top-level scans do not see a device
   declared inside a compound statement, the deep walk of _collect_required_libraries does.  The deviant
   behaviour, exactly: lib_deps is right for ALL devices (no duplicates), while includes and instantiated
   classes are exactly what the property demands for the top-level devices alone - and some library is needed
   only by nested devices (otherwise nothing deviates).                                                    *)
TopLevel(d)   == SelectSeq(d, LAMBDA x : x.place # "nested")
NestedOnly(d) == Needed(d) \ Needed(TopLevel(d))
KnownNestedDropped(d, lb, ic, is) ==
    /\ NestedOnly(d) # {}
    /\ NoDup(lb) /\ Requested(lb) = Needed(d)
    /\ ObsDiff(TopLevel(d), SelectSeq(lb, LAMBDA x : x \in Needed(TopLevel(d))), ic, is) = ""

(* ---------------------------------------------------------------------------------------------------- *)
(* The promised transpiler as a state machine.                                                            *)
VARIABLES devs,    \* sequence of declared devices [kind, place], script order
          libs,    \* requested lib_deps list
          incl,    \* included headers list
          inst,    \* instantiated library classes, one entry per object
          done
vars == <<devs, libs, incl, inst, done>>

Init == devs = <<>> /\ libs = <<>> /\ incl = <<"Arduino.h">> /\ inst = <<>> /\ done = FALSE

CanDeclare(kind, place) ==
    /\ kind \in Kinds /\ place \in Places
    /\ \/ place = "pre"
       \/ place = "loop" /\ kind = "servo"              \* the property: servos before the loop or at the top of its body
       \/ place = "nested" /\ kind \in LibKinds         \* probe stratum only

Declare(kind, place) ==
    /\ ~done /\ CanDeclare(kind, place)
    /\ devs' = Append(devs, Dev(kind, place))
    /\ LET L == LibOf(kind) IN
         IF L = "none" THEN UNCHANGED <<libs, incl, inst>>
         ELSE /\ libs' = AppendNew(libs, <<L>>)
              /\ incl' = AppendNew(incl, HeaderSeq(L))
              /\ inst' = Append(inst, L)
    /\ UNCHANGED done

Finish == ~done /\ done' = TRUE /\ UNCHANGED <<devs, libs, incl, inst>>

Next == \/ Len(devs) < MaxDevs /\ \E k \in DeclKinds, p \in Places : Declare(k, p)
        \/ Finish
Spec == Init /\ [][Next]_vars

(* State invariants (every clause of the property, by name). *)
TypeOK == /\ \A i \in DOMAIN devs : devs[i].kind \in Kinds /\ devs[i].place \in Places
          /\ Range(libs) \subseteq Libraries /\ Range(inst) \subseteq Libraries /\ done \in BOOLEAN
RequestedIffNeeded       == RequestedIffNeededO(devs, libs)
IncludedIffNeeded        == IncludedIffNeededO(devs, incl)
InstantiatedIffNeeded    == InstantiatedIffNeededO(devs, inst)
RequestedIffIncluded     == RequestedIffIncludedO(libs, incl)
IncludedIffInstantiated  == IncludedIffInstantiatedO(incl, inst)
WireWithI2C              == WireWithI2CO(incl)
NoDuplicateRequest       == NoDuplicateRequestO(libs)
NoDuplicateInclude       == NoDuplicateIncludeO(incl)
NothingNeedless          == NothingNeedlessO(devs, libs, incl)
OneObjectPerDevice       == \A L \in Libraries : Count(inst, L) = Cardinality({i \in DOMAIN devs : LibOf(devs[i].kind) = L})
IdealAccepted            == ObsDiff(devs, libs, incl, inst) = "" /\ Agree(devs, libs, incl, inst)
OtherKindsNeedNothing    == (\A i \in DOMAIN devs : devs[i].kind \in OtherKinds) => (libs = <<>> /\ inst = <<>> /\ Included(incl) = {})

(* Step relation for trace validation: s, t = [devs, libs, incl, inst, done]; e = logged event. *)
St(d, lb, ic, is, dn) == [devs |-> d, libs |-> lb, incl |-> ic, inst |-> is, done |-> dn]
Cur == St(devs, libs, incl, inst, done)
StepDiff(s, e, t) ==
    IF s.done THEN "event-after-finish"
    ELSE IF e.act = "declare" THEN
        (IF ~CanDeclare(e.kind, e.place) THEN "stimulus-not-declarable"
         ELSE IF t.devs # Append(s.devs, Dev(e.kind, e.place)) THEN "declaration-not-recorded" ELSE "")
    ELSE IF e.act = "finish" THEN
        (IF t.devs # s.devs \/ ~t.done THEN "finish-changed-devices" ELSE ObsDiff(s.devs, t.libs, t.incl, t.inst))
    ELSE "unknown-event"
Step(s, e, t) == StepDiff(s, e, t) = ""
=============================================================================
