------------------------------- MODULE LCDAnim -------------------------------
(* Non-blocking LCD text animations (LCD.animate / the injected per-pass tick) as a state machine.

   An animation is a record  [d, style, row, text, speed, loop, last, offset, dir, visible, show, cycles,
   active, steps, inloop]  living on display d (geometry geo[d] = [cols, rows]); the cell matrix of every display
   is disp[d][row+1][col+1] (character codes).  `now` is the millisecond clock, `pass` the number of loop()
   passes begun (0 = still in setup), ticked[i] the number of ticks animation i received in the current pass,
   blocked the number of delay calls made by the most recent action (the specification never makes one).

   Actions:  Start(d, style, row, text, speed, loop)   - LCD.animate: registers the animation and shows its
                                                           first frame; returns at once
             PassBoundary(delta)                        - a new loop() pass begins, the clock has advanced
             Tick(i)                                    - the per-pass tick of animation i; one of
                 Inactive  (a finished animation ignores the tick)
                 TooEarly  (clock running, fewer than speed ms since the previous step: nothing happens)
                 Advance   (one step of the style's frame sequence, last := now)

   The frame sequences are those of the documented host class.  impl in {"host","fw"} exists for exactly one
   rule on which the two implementations differ and on which the property is silent: the blank run a
   scrolling text is padded with (host: cols blanks; firmware: first padded to the row width, then cols
   blanks).  Everything the property states is a named invariant / action property below.               *)
EXTENDS Integers, Sequences, TLC

VARIABLES impl, geo, a, disp, now, pass, ticked, blocked
vars == <<impl, geo, a, disp, now, pass, ticked, blocked>>

SP == 32
Styles == {"scroll", "blink", "typewriter", "bounce"}
Min(x, y) == IF x < y THEN x ELSE y
Max(x, y) == IF x > y THEN x ELSE y
Spaces(n) == [k \in 1..n |-> SP]
Take(s, n) == SubSeq(s, 1, Min(n, Len(s)))
PadTo(s, n) == Take(s, n) \o Spaces(n - Min(n, Len(s)))      \* exactly n cells: cut or blank-filled
TextOf(n) == [k \in 1..n |-> 96 + k]                          \* "abc..." (distinct characters make offsets visible)
Blank(g) == [r \in 1..g.rows |-> Spaces(g.cols)]

NewAnim(d, style, row, text, speed, loop, inloop) ==
    [d |-> d, style |-> style, row |-> row, text |-> text, speed |-> speed, loop |-> loop,
     last |-> 0, offset |-> 0, dir |-> 1,
     visible |-> IF style = "typewriter" THEN Min(Len(text), 1) ELSE 0,
     show |-> style # "bounce", cycles |-> 0, active |-> TRUE, steps |-> 0, inloop |-> inloop]

(* The frame LCD.animate shows at once. *)
StartFrame(r, cols) == PadTo(IF r.style = "typewriter" THEN Take(r.text, r.visible) ELSE r.text, cols)

(* The one implementation-specific rule. *)
PadLen(im, len, cols) == IF im = "host" THEN len + cols ELSE Max(len, cols) + cols

(* A tick is due when no rate is set, when no step has been taken with the clock running (last = 0), or when
   at least speed ms have passed since the last step. *)
Due(r, t) == r.speed = 0 \/ r.last = 0 \/ t - r.last >= r.speed

-----------------------------------------------------------------------------
(* One step of each style: [r |-> record after, w |-> a frame is written, f |-> the frame (cols cells)]. *)
ScrollAdv(im, r, cols) ==
    LET len == Len(r.text)
        P == PadLen(im, len, cols)
        padded == r.text \o Spaces(P - len)
        view == [k \in 1..cols |-> padded[((r.offset + k - 1) % P) + 1]]
        o1 == r.offset + 1
    IN [r |-> [r EXCEPT !.offset = IF o1 >= P /\ r.loop THEN 0 ELSE o1, !.active = (o1 < P) \/ r.loop],
        w |-> TRUE, f |-> view]

BlinkAdv(r, cols) ==
    LET s == ~r.show
    IN [r |-> [r EXCEPT !.show = s, !.cycles = IF s THEN @ ELSE @ + 1, !.active = s \/ r.loop],
        w |-> TRUE, f |-> IF s THEN PadTo(r.text, cols) ELSE Spaces(cols)]

TypeAdv(r, cols) ==
    LET len == Len(r.text) IN
    IF len = 0 THEN [r |-> [r EXCEPT !.active = r.loop], w |-> TRUE, f |-> Spaces(cols)]
    ELSE IF r.visible < len THEN
        LET v == r.visible + 1
        IN [r |-> [r EXCEPT !.visible = v, !.active = (v < len) \/ r.loop], w |-> TRUE, f |-> PadTo(Take(r.text, v), cols)]
    ELSE IF r.loop THEN [r |-> [r EXCEPT !.visible = 0], w |-> TRUE, f |-> Spaces(cols)]
    ELSE [r |-> [r EXCEPT !.active = FALSE], w |-> FALSE, f |-> <<>>]

BounceAdv(r, cols) ==
    LET len == Len(r.text) IN
    IF len = 0 THEN [r |-> [r EXCEPT !.active = r.loop], w |-> TRUE, f |-> Spaces(cols)]
    ELSE IF len >= cols THEN [r |-> [r EXCEPT !.active = r.loop], w |-> TRUE, f |-> PadTo(r.text, cols)]
    ELSE
        LET mx == cols - len
            o1 == r.offset + r.dir
            r1 == IF o1 >= mx THEN [r EXCEPT !.offset = mx, !.dir = -1, !.show = TRUE]
                  ELSE IF o1 <= 0 THEN
                      (IF r.show THEN [r EXCEPT !.offset = 0, !.dir = 1, !.cycles = @ + 1, !.show = FALSE, !.active = r.loop]
                       ELSE [r EXCEPT !.offset = 0, !.dir = 1])
                  ELSE [r EXCEPT !.offset = o1]
        IN [r |-> r1, w |-> TRUE, f |-> Spaces(r1.offset) \o r.text \o Spaces(cols - r1.offset - len)]

Adv(im, r, cols) ==
    CASE r.style = "scroll" -> ScrollAdv(im, r, cols)
      [] r.style = "blink" -> BlinkAdv(r, cols)
      [] r.style = "typewriter" -> TypeAdv(r, cols)
      [] OTHER -> BounceAdv(r, cols)

(* The tick of one animation at clock value t.  kind names the case. *)
TickFn(im, r, cols, t) ==
    IF ~r.active THEN [r |-> r, w |-> FALSE, f |-> <<>>, kind |-> "Inactive"]
    ELSE IF ~Due(r, t) THEN [r |-> r, w |-> FALSE, f |-> <<>>, kind |-> "TooEarly"]
    ELSE LET x == Adv(im, r, cols)
         IN [r |-> [x.r EXCEPT !.last = t, !.steps = @ + 1], w |-> x.w, f |-> x.f, kind |-> "Advance"]

(* Tick with the rate limit ignored (used only to name a rate-limit violation in a rejected trace). *)
ForceFn(im, r, cols, t) ==
    IF ~r.active THEN TickFn(im, r, cols, t)
    ELSE LET x == Adv(im, r, cols)
         IN [r |-> [x.r EXCEPT !.last = t, !.steps = @ + 1], w |-> x.w, f |-> x.f, kind |-> "Advance"]

Shown(dd, r, x) == IF x.w THEN [dd EXCEPT ![r.d][r.row + 1] = x.f] ELSE dd

(* Order in which the injected housekeeping ticks the animations: display by display, and on one display in
   the order the animations were started. *)
RECURSIVE OrderFrom(_, _, _)
OrderFrom(aa, d, nd) ==
    IF d > nd THEN <<>>
    ELSE SelectSeq([i \in 1..Len(aa) |-> i], LAMBDA i : aa[i].d = d) \o OrderFrom(aa, d + 1, nd)
Order(aa, nd) == OrderFrom(aa, 1, nd)

(* All ticks of one pass, in order, at clock value t: [a, disp] after. *)
RECURSIVE TickAll(_, _, _, _, _, _)
TickAll(im, g, S, ord, k, t) ==
    IF k > Len(ord) THEN S
    ELSE LET i == ord[k]
             x == TickFn(im, S.a[i], g[S.a[i].d].cols, t)
         IN TickAll(im, g, [a |-> [S.a EXCEPT ![i] = x.r], disp |-> Shown(S.disp, S.a[i], x)], ord, k + 1, t)
RunTicks(im, g, aa, dd, t) == TickAll(im, g, [a |-> aa, disp |-> dd], Order(aa, Len(g)), 1, t)

(* The number of steps within which a non-looping animation must have finished: linear in text length and
   row width, deliberately looser than either implementation (scroll: len + cols resp. max(len, cols) + cols,
   blink 1, typewriter max(1, len - 1), bounce 2 (cols - len) or 1). *)
StepBound(r) == 2 * (Len(r.text) + geo[r.d].cols) + 4

-----------------------------------------------------------------------------
Start(d, style, row, text, speed, loop) ==
    /\ d \in 1..Len(geo) /\ row \in 0..(geo[d].rows - 1) /\ speed >= 0
    /\ LET r == NewAnim(d, style, row, text, speed, loop, pass > 0)
       IN /\ a' = Append(a, r)
          /\ disp' = [disp EXCEPT ![d][row + 1] = StartFrame(r, geo[d].cols)]
    /\ ticked' = Append(ticked, IF pass = 0 THEN 0 ELSE 1)   \* started during a pass: ticked from the next pass on
    /\ blocked' = 0
    /\ UNCHANGED <<impl, geo, now, pass>>

AllTicked == \A i \in 1..Len(a) : ticked[i] = 1

PassBoundary(delta) ==
    /\ delta >= 0
    /\ pass = 0 \/ AllTicked
    /\ pass' = pass + 1 /\ now' = now + delta
    /\ ticked' = [i \in 1..Len(a) |-> 0]
    /\ blocked' = 0
    /\ UNCHANGED <<impl, geo, a, disp>>

Tick(i) ==
    /\ pass > 0 /\ i \in 1..Len(a) /\ ticked[i] = 0
    /\ LET ord == Order(a, Len(geo))
       IN \A k \in 1..Len(ord) : (\E m \in (k + 1)..Len(ord) : ord[m] = i) => ticked[ord[k]] = 1
    /\ LET x == TickFn(impl, a[i], geo[a[i].d].cols, now)
       IN a' = [a EXCEPT ![i] = x.r] /\ disp' = Shown(disp, a[i], x)
    /\ ticked' = [ticked EXCEPT ![i] = 1]
    /\ blocked' = 0
    /\ UNCHANGED <<impl, geo, now, pass>>

Advance(i)  == Tick(i) /\ a'[i].steps > a[i].steps
TooEarly(i) == Tick(i) /\ a[i].active /\ a'[i] = a[i]
Inactive(i) == Tick(i) /\ ~a[i].active

-----------------------------------------------------------------------------
(* The property, clause by clause. *)
TypeOK ==
    /\ impl \in {"host", "fw"} /\ now \in Nat /\ pass \in Nat /\ blocked \in Nat
    /\ Len(ticked) = Len(a) /\ Len(disp) = Len(geo)
    /\ \A i \in 1..Len(a) : /\ a[i].style \in Styles /\ a[i].d \in 1..Len(geo) /\ a[i].row \in 0..(geo[a[i].d].rows - 1)
                            /\ a[i].dir \in {-1, 1} /\ a[i].steps \in Nat /\ a[i].last \in Nat

(* every frame is exactly the display width; no row is added or lost *)
FrameWidth ==
    \A d \in 1..Len(geo) : Len(disp[d]) = geo[d].rows /\ \A r \in 1..geo[d].rows : Len(disp[d][r]) = geo[d].cols

(* a row changes only when an animation on that row is started or takes a step *)
FrameInsideRow ==
    [][\A d \in 1..Len(geo) : \A r \in 1..geo[d].rows :
          disp'[d][r] # disp[d][r] =>
              \E i \in 1..Len(a') : a'[i].d = d /\ a'[i].row + 1 = r /\ (i > Len(a) \/ a'[i].steps > a[i].steps)]_vars

NonLoopingStops == \A i \in 1..Len(a) : (~a[i].loop /\ a[i].active) => a[i].steps < StepBound(a[i])
LoopingNeverStops == \A i \in 1..Len(a) : a[i].loop => a[i].active
StoppedStaysStopped == [][\A i \in 1..Len(a) : ~a[i].active => a'[i] = a[i]]_vars

(* once the clock is running (the previous step was taken at a time > 0) steps are at least speed ms apart *)
RateLimit ==
    [][\A i \in 1..Len(a) : (a'[i].steps > a[i].steps /\ a[i].last > 0) => a'[i].last - a[i].last >= a[i].speed]_vars

(* neither starting nor ticking ever calls delay *)
StartNeverBlocks == blocked = 0

(* every registered animation is ticked exactly once per loop() pass *)
TickedAtMostOnce == \A i \in 1..Len(a) : ticked[i] <= 1
TickOncePerPass ==
    [][/\ \A i \in 1..Len(a') : ticked'[i] <= 1
       /\ (pass' > pass /\ pass > 0) => AllTicked]_vars
=============================================================================
