INIT TInit
NEXT TNext
CONSTANTS
  DeclKinds = {}
  MaxDevs = 0
CONSTRAINT Verdict
INVARIANT AcceptedStateAgrees
CHECK_DEADLOCK FALSE
