----------------------------- MODULE SerialLink -----------------------------
(* X02 (extension): the serial line between the host-side SerialMonitor and the firmware's Serial, as two byte queues.

     host    mon.write(v)   puts  text(v) \o NL on the line to the device      (SerialMonitor.write; NL is configuration, LF by default)
             mon.read()     takes the bytes up to and including the first LF - or everything there is when no LF comes before the
                            time-out - and returns them without their trailing CR / LF bytes                 (readline + rstrip)
     device  mon.write(v)   puts  text(v) \o <<CR, LF>> on the line to the host                                  (Serial.println)
             mon.read()     takes the bytes up to the first LF, which it discards - or everything there is on time-out - and
                            returns them                                                             (Serial.readStringUntil LF)

   Texts are sequences of byte values (the UTF-8 bytes of the text).  The four operations are the actions; the delivery laws
   (what is written on one side is what the other side reads: once, in order, unchanged) are invariants of the histories, with
   the premises they need spelled out - a text with an LF inside is two lines, a trailing CR cannot be told from the terminator,
   a host newline of CR LF leaves the CR in the device's hands.                                                          *)
EXTENDS Integers, Sequences, FiniteSets, TLC

LF == 10
CR == 13
CRLF == <<CR, LF>>

FirstLF(q) == IF \E i \in 1..Len(q) : q[i] = LF THEN CHOOSE i \in 1..Len(q) : q[i] = LF /\ \A j \in 1..(i - 1) : q[j] # LF ELSE 0
Take(q, n) == SubSeq(q, 1, n)
Drop(q, n) == SubSeq(q, n + 1, Len(q))
RECURSIVE RStrip(_)
RStrip(q) == IF Len(q) > 0 /\ q[Len(q)] \in {CR, LF} THEN RStrip(Take(q, Len(q) - 1)) ELSE q

(* what each operation does to a line (pure functions: the trace specification evaluates the same ones) *)
HostPayload(text, nl) == text \o nl
DevPayload(text) == text \o CRLF
DevReadOf(q) ==        \* <<result, rest of the line, timed out>>
    LET i == FirstLF(q) IN IF i = 0 THEN <<q, <<>>, TRUE>> ELSE <<Take(q, i - 1), Drop(q, i), FALSE>>
HostReadOf(q) ==       \* <<result, rest of the line, raw bytes taken>>
    LET i == FirstLF(q) IN IF i = 0 THEN <<RStrip(q), <<>>, q>> ELSE <<RStrip(Take(q, i)), Drop(q, i), Take(q, i)>>

VARIABLES h2d, d2h, sentH, sentD, gotD, gotH
lvars == <<h2d, d2h, sentH, sentD, gotD, gotH>>
LInit == h2d = <<>> /\ d2h = <<>> /\ sentH = <<>> /\ sentD = <<>> /\ gotD = <<>> /\ gotH = <<>>

HostWrite(t, nl) == /\ h2d' = h2d \o HostPayload(t, nl) /\ sentH' = Append(sentH, t)
                    /\ UNCHANGED <<d2h, sentD, gotD, gotH>>
DevWrite(t) == /\ d2h' = d2h \o DevPayload(t) /\ sentD' = Append(sentD, t)
               /\ UNCHANGED <<h2d, sentH, gotD, gotH>>
DevRead == LET r == DevReadOf(h2d) IN
           /\ h2d' = r[2] /\ gotD' = IF r[3] /\ r[1] = <<>> THEN gotD ELSE Append(gotD, r[1])      \* an empty time-out delivers nothing
           /\ UNCHANGED <<d2h, sentH, sentD, gotH>>
HostRead == LET r == HostReadOf(d2h) IN
            /\ d2h' = r[2] /\ gotH' = IF r[3] = <<>> THEN gotH ELSE Append(gotH, r[1])
            /\ UNCHANGED <<h2d, sentH, sentD, gotD>>

(* ---- delivery laws ---- *)
IsPrefix(a, b) == Len(a) <= Len(b) /\ Take(b, Len(a)) = a
NoLF(t) == \A i \in 1..Len(t) : t[i] # LF
CleanForHost(t) == NoLF(t) /\ (Len(t) = 0 \/ t[Len(t)] # CR)
(* host -> device, host newline LF: every LF-free text arrives once, in order, unchanged *)
H2DFaithful(nl) == (nl = <<LF>> /\ \A i \in 1..Len(sentH) : NoLF(sentH[i])) => IsPrefix(gotD, sentH)
(* host -> device, host newline CR LF: what arrives is the text with the CR still attached (recorded deviation of the pair) *)
H2DKeepsCR(nl) == (nl = CRLF /\ \A i \in 1..Len(sentH) : NoLF(sentH[i])) => IsPrefix(gotD, [i \in 1..Len(sentH) |-> Append(sentH[i], CR)])
(* device -> host: every text without LF and without a trailing CR arrives once, in order, unchanged *)
D2HFaithful == (\A i \in 1..Len(sentD) : CleanForHost(sentD[i])) => IsPrefix(gotH, sentD)
(* nothing is invented: the bytes delivered plus the bytes still on the line never exceed what was written *)
RECURSIVE Total(_)
Total(s) == IF s = <<>> THEN 0 ELSE Len(Head(s)) + Total(Tail(s))
NoInvention(nl) == /\ Total(gotD) + Len(h2d) <= Total(sentH) + Len(sentH) * Len(nl)
                   /\ Total(gotH) + Len(d2h) <= Total(sentD) + Len(sentD) * 2
=============================================================================
