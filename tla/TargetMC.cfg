SPECIFICATION Spec
INVARIANT TypeOK
INVARIANT NothingBeforeValidation
INVARIANT PioOnlyIfUpload
INVARIANT MissingPioIsRuntimeErrorBeforeWrite
INVARIANT UploadOnlyAfterBuildOk
INVARIANT RunIffUpload
INVARIANT FailurePropagates
INVARIANT ReturnsExactlyEmit
INVARIANT IniNamesGivenConfig
INVARIANT OutcomeDetermined
CHECK_DEADLOCK TRUE
CONSTRAINT Witness
POSTCONDITION Taken
