------------------------------- MODULE Wave -------------------------------
(* Pin waveforms as merged segments.  A waveform is what one pin (or one tuple of pins driven together)
   shows during one public call: a sequence of segments [lv, us, n] = level held, for how many microseconds,
   accumulated over n delay calls.  Re-writing the level a pin already has is invisible (stuttering), so
   consecutive equal levels are merged; the first segment is the level the pin had when the call started.
   Time unit: microseconds (host sleeps are rounded to the nearest microsecond by the recorder).          *)
EXTENDS Integers, Sequences

Seg(lv, us, n) == [lv |-> lv, us |-> us, n |-> n]
WStart(lv)     == <<Seg(lv, 0, 0)>>
WLv(w, lv)     == IF w[Len(w)].lv = lv THEN w ELSE Append(w, Seg(lv, 0, 0))
WSl(w, us)     == [w EXCEPT ![Len(w)] = Seg(@.lv, @.us + us, @.n + 1)]
WLast(w)       == w[Len(w)].lv
WTotal(w)      == LET RECURSIVE S(_) S(i) == IF i = 0 THEN 0 ELSE w[i].us + S(i - 1) IN S(Len(w))
WLevels(w)     == {w[i].lv : i \in 1..Len(w)}

(* Host side: the recorded waveform must be the specified one (levels, durations and delay counts). *)
WaveExact(obs, exp) ==
    /\ Len(obs) = Len(exp)
    /\ \A i \in 1..Len(exp) : obs[i].lv = exp[i].lv /\ obs[i].us = exp[i].us

(* Device side: same levels in the same order; the device rounds every delay to whole milliseconds, so a
   segment made of n delays may differ by strictly less than n milliseconds (and not at all if n = 0).   *)
Abs(x) == IF x < 0 THEN -x ELSE x
WaveDevice(obs, exp) ==
    /\ Len(obs) = Len(exp)
    /\ \A i \in 1..Len(exp) :
          /\ obs[i].lv = exp[i].lv
          /\ IF exp[i].n = 0 THEN obs[i].us = 0 ELSE Abs(obs[i].us - exp[i].us) < 1000 * exp[i].n

(* Name of the first clause that fails (for diagnostics in trace verdicts). *)
WaveDiff(obs, exp, device) ==
    IF Len(obs) # Len(exp) THEN "wave-length"
    ELSE IF \E i \in 1..Len(exp) : obs[i].lv # exp[i].lv THEN "wave-level"
    ELSE IF device /\ ~WaveDevice(obs, exp) THEN "wave-delay"
    ELSE IF ~device /\ ~WaveExact(obs, exp) THEN "wave-delay"
    ELSE ""
=============================================================================
