------------------------------ MODULE SessionGen ------------------------------
(* Schedule generation: for every 3-subset `sub` of the corpus in Subsets and every seed, every sequence of at
   most MaxLen calls (with repetition) of one process over `sub`.  Mode "atomic": calls are emit(parse(s));
   mode "split": parse(s) and emit(s) are separate calls, a schedule is complete when nothing is pending (so
   parse of one script is interleaved with emit of another).  Every complete schedule leaves TLC as one JSON line. *)
EXTENDS Session, Json
CONSTANTS Subsets, Mode, MaxLen
VARIABLE sub
G == "g"
D(s) == "x"                                  \* generation does not care about digests
GInit == /\ sub \in Subsets
         /\ alive = {G} /\ seed \in [Procs -> Seeds] /\ hist = [p \in Procs |-> <<>>]
         /\ pending = [p \in Procs |-> {}] /\ known = [s \in Scripts |-> None] /\ obs = {}
GNext == /\ UNCHANGED sub
         /\ \E s \in sub :
              IF Mode = "atomic" THEN Transpile(G, s, D(s))
              ELSE (s \notin pending[G] /\ Parse(G, s)) \/ Emit(G, s, D(s))
Emit_ == IF Len(hist[G]) = 0 THEN TRUE
         ELSE /\ (pending[G] = {} => PrintT(ToJson([sub |-> sub, seed |-> seed[G], h |-> hist[G]])))
              /\ Len(hist[G]) < MaxLen
View == <<sub, seed, hist>>
=============================================================================
