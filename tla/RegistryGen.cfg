INIT GInit
NEXT RNext
CONSTRAINT EmitRow
CHECK_DEADLOCK FALSE
