------------------------------ MODULE PipelineGen ------------------------------
(* Stimulus enumeration for C11: every syntactic slot of a Reduino script x every hostile / odd payload.
   Slots and Payloads are sets of records [id, cls] read from GRID_FILE; each pair leaves TLC as one JSON line together with the
   outcome classes the specification allows for it (a hostile payload may be rejected or carried into the C++
   text as an expression - never evaluated, never a crash, never slow).                                      *)
EXTENDS Pipeline, Json, IOUtils
Grid == JsonDeserialize(IOEnv.GRID_FILE)          \* [slots: [[id, cls]...], payloads: [[id, cls]...]] (cfg files cannot hold records)
Slots == {Grid.slots[i] : i \in 1..Len(Grid.slots)}
Payloads == {Grid.payloads[i] : i \in 1..Len(Grid.payloads)}
GInit == Init
GNext == \E s \in Slots, p \in Payloads : Start([python |-> TRUE, tags |-> {}, slot |-> s.id, scls |-> s.cls, payload |-> p.id, pcls |-> p.cls])
Emit_ == stage = "idle" \/ (PrintT(ToJson([slot |-> input.slot, payload |-> input.payload, scls |-> input.scls, pcls |-> input.pcls,
                                           allowed |-> {"accept", "reject:ValueError", "reject:SyntaxError-if-not-python"}])) /\ FALSE)
=============================================================================
