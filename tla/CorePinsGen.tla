----------------------------- MODULE CorePinsGen -----------------------------
(* Behaviour generation: every call history up to MaxLen (BFS) or random walks (-simulate); each complete
   history leaves TLC as one JSON line.  The history-based memory law is checked on the way. *)
EXTENDS CorePinsMC, Json
Emit  == IF Len(h) >= MaxLen THEN PrintT(ToJson(h)) /\ FALSE ELSE TRUE
EmitSim == Len(h) < MaxLen \/ PrintT(ToJson(h))
=============================================================================
