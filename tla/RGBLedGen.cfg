INIT GInit
NEXT GNext
CONSTANTS
  Colours <- ColoursDef
  Durations <- DurationsDef
  Times <- TimesDef
  StepsG <- StepsDef
  MaxLen = 2
CONSTRAINT Emit
CHECK_DEADLOCK FALSE
