------------------------------ MODULE Compilable ------------------------------
(* C06 on top of the transpilation protocol (Pipeline): whenever transpilation accepts a script, the only next step
   is Compile(TRUE) - the produced source compiles - and the text still says what the script said (string literals
   arrive unchanged: `echo`).  Structure of the produced text (exactly one setup()/loop(), includes, definitions) is
   module Sketch.  Known compile failures are named by the syntactic construct that triggers them.          *)
EXTENDS Pipeline

CNext == (\E i \in Inputs : Start(i)) \/ Tick \/ Accept \/ (\E c \in {"ValueError", "SyntaxError"} : Reject(c)) \/ Compile(TRUE)
CSpec == Init /\ [][CNext]_pvars
AcceptedAlwaysCompiles == stage # "compile-failed"
CompiledOnlyIfAccepted == stage = "compiled" => outcome.class = "accept"

(* step relation for trace validation: observation o = [transpile, compile, echo] of one script with tags *)
KnownCompileFailTags == {"try-except", "list-parameter", "animate-in-function", "undeclared-receiver", "device-in-compound-statement",
                         "name-retyped", "main-loop-variable-used-in-helper", "global-list-from-helper-indexed-outside"}
CompileDiff(o) ==
    IF o.transpile # "accept" THEN ""                         \* refused (or crashed: C11's business): outside C06
    ELSE IF o.compile = "fail" THEN "accepted-script-does-not-compile"
    ELSE IF o.compile = "ok" /\ ~o.echo THEN "string-literal-not-preserved"
    ELSE ""
KnownCompile(o, tags) ==
    IF o.transpile = "accept" /\ o.compile = "fail" /\ (tags \cap KnownCompileFailTags) # {}
    THEN CHOOSE t \in (tags \cap KnownCompileFailTags) : TRUE ELSE ""
=============================================================================
