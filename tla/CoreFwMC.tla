------------------------------ MODULE CoreFwMC ------------------------------
EXTENDS CoreFw
ValsDef == {-300, -1, 0, 1, 5, 100, 255, 256, 511, 512, 700, 1023, 1024}
RangesDef == {<<0, 1023>>, <<0, 255>>, <<1023, 0>>, <<0, 10>>, <<10, 0>>, <<-100, 100>>, <<0, 5>>, <<255, 0>>, <<7, 7>>}
VARIABLE done
Init == done = FALSE
Next == done = FALSE /\ done' = TRUE
Spec == Init /\ [][Next]_done
Laws == MapLaws(ValsDef, RangesDef) /\ ClampLaws(ValsDef)
=============================================================================
