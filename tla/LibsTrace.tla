------------------------------ MODULE LibsTrace ------------------------------
(* Batch validation of what the REAL code produced against Libs.
   A trace = the declarations of one script in script order (stimulus; replayed through the specification's own
   Declare action) followed by one "finish" event carrying the observation of the implementation:
       libs = Reduino._collect_required_libraries(parse(src)),
       incl = #include lines of emit(parse(src)),  inst = classes of the library objects defined at top level.
   At "finish" the state becomes the implementation's and ObsDiff names the first clause of the property it
   breaks.  The known deviation is matched exactly by Libs!KnownNestedDropped; any other disagreement of the
   same script is still reported.  Verdicts are total: one JSON object per trace.                          *)
EXTENDS Libs, Json, IOUtils

Traces == JsonDeserialize(IOEnv.TRACE_FILE)   \* [{id, ev: [{act, kind, place, libs, incl, inst}...]}...]
VARIABLES tid, l, bad, known
T == Traces[tid]

TInit == tid \in 1..Len(Traces) /\ l = 1 /\ bad = "" /\ known = {} /\ Init

TNext == /\ bad = "" /\ l <= Len(T.ev)
         /\ LET e == T.ev[l] IN
              IF e.act = "declare" /\ ~done /\ CanDeclare(e.kind, e.place)
              THEN Declare(e.kind, e.place) /\ bad' = "" /\ UNCHANGED known
              ELSE IF e.act = "finish" /\ ~done
              THEN LET d0 == StepDiff(Cur, e, St(devs, e.libs, e.incl, e.inst, TRUE))
                       kn == d0 # "" /\ KnownNestedDropped(devs, e.libs, e.incl, e.inst)
                   IN /\ libs' = e.libs /\ incl' = e.incl /\ inst' = e.inst /\ done' = TRUE /\ UNCHANGED devs
                      /\ known' = IF kn THEN known \cup {"lib-device-in-compound-statement"} ELSE known
                      /\ bad' = IF kn THEN "" ELSE d0
              ELSE /\ bad' = StepDiff(Cur, e, Cur) /\ UNCHANGED <<vars, known>>
         /\ l' = l + 1 /\ UNCHANGED tid

Done == bad # "" \/ l > Len(T.ev)
Verdict == Done => PrintT(ToJson([id |-> T.id, ok |-> bad = "" /\ done, l |-> l - 1,
                                  clause |-> IF bad = "" /\ ~done THEN "no-finish-event" ELSE bad, known |-> known]))
\* on every finished implementation state that was accepted, the named clauses hold (redundant by VerdictSound,
\* kept so that each clause is evaluated on the implementation's own state)
AcceptedStateAgrees == (done /\ bad = "" /\ known = {}) => Agree(devs, libs, incl, inst)
=============================================================================
