---------------------------- MODULE RegistryTrace ----------------------------
(* Batch validation of recorded validate_platform_board outcomes.
   Trace: [id, p, ev: << [b, out] ... >>], out = "accept" | name of the exception class raised. *)
EXTENDS Registry
Traces == JsonDeserialize(IOEnv.TRACE_FILE)
VARIABLES tid, l, bad
T == Traces[tid]
TInit == tid \in 1..Len(Traces) /\ l = 1 /\ bad = ""
TNext == /\ bad = "" /\ l <= Len(T.ev)
         /\ LET e == T.ev[l] IN bad' = ValDiff(T.p, e.b, e.out)
         /\ l' = l + 1 /\ UNCHANGED tid
Done == bad # "" \/ l > Len(T.ev)
Verdict == Done => PrintT(ToJson([id |-> T.id, ok |-> bad = "", l |-> l - 1, clause |-> bad]))
=============================================================================
