----------------------------- MODULE BuzzerScore -----------------------------
(* Prints the specification's copy of the documented tunes (for the cross-check against the emitter's table). *)
EXTENDS Buzzer, Json
ASSUME PrintT(ToJson([score |-> ScoreTable]))
SInit == Init
SNext == UNCHANGED vars
=============================================================================
