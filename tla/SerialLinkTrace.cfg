INIT TInit
NEXT TNext
CONSTRAINT Verdict
CHECK_DEADLOCK FALSE
