----------------------------- MODULE RGBLedTrace -----------------------------
(* Batch trace validation for RGBLed (see LedTrace for the idiom). *)
EXTENDS RGBLed, Json, IOUtils

Traces == JsonDeserialize(IOEnv.TRACE_FILE)     \* [{id, side, ev: [{act, a, col, on, wave, res}...]}...]
VARIABLES tid, l, bad, known
T == Traces[tid]
InvDiff(c, o, w) ==
    IF ~(\A k \in 1..3 : Comp(c[k])) THEN "inv-channel-range"
    ELSE IF o # IsOn(c) THEN "inv-on-iff-nonzero"
    ELSE IF ~LevelsOK(w) THEN "inv-unclamped-level"
    ELSE IF c # WLast(w) THEN "inv-getter-not-tracking-pin"
    ELSE ""
TInit == /\ tid \in 1..Len(Traces) /\ l = 1 /\ bad = "" /\ known = {}
         /\ side = Traces[tid].side /\ col = Black /\ on = FALSE
         /\ wave = WStart(Black) /\ res = "init" /\ last = NoCall
TNext == /\ bad = "" /\ l <= Len(T.ev)
         /\ LET e == T.ev[l]
                c == Call(e.act, e.a)
                t == St(e.col, e.on)
                d0 == IF e.act = "init" THEN (IF t = St(Black, FALSE) THEN "" ELSE "initial-state")
                      ELSE StepDiff(side, Cur, c, t, e.wave, e.res)
                kn == d0 # "" /\ side = "fw" /\ e.act # "init" /\ KnownHalfStep(Cur, c, t, e.wave, e.res)
                d == IF kn THEN "" ELSE d0
            IN /\ col' = e.col /\ on' = e.on /\ wave' = e.wave /\ res' = e.res /\ last' = c
               /\ known' = IF kn THEN known \cup {"rgb-fade-half-step"} ELSE known
               /\ bad' = IF d # "" THEN d ELSE InvDiff(e.col, e.on, e.wave)
         /\ l' = l + 1 /\ UNCHANGED <<tid, side>>
Done == bad # "" \/ l > Len(T.ev)
Verdict == Done => PrintT(ToJson([id |-> T.id, ok |-> bad = "", l |-> l - 1, clause |-> bad, known |-> known]))
=============================================================================
