----------------------------- MODULE RGBLedTrace -----------------------------
(* Batch trace validation for RGBLed (see LedTrace for the idiom). *)
EXTENDS RGBLed, Json, IOUtils

Traces == JsonDeserialize(IOEnv.TRACE_FILE)     \* [{id, side, ev: [{act, a, col, on, wave, res}...]}...]
VARIABLES tid, l, bad
T == Traces[tid]
InvDiff(c, o, w) ==
    IF ~(\A k \in 1..3 : Comp(c[k])) THEN "inv-channel-range"
    ELSE IF o # IsOn(c) THEN "inv-on-iff-nonzero"
    ELSE IF ~LevelsOK(w) THEN "inv-unclamped-level"
    ELSE IF c # WLast(w) THEN "inv-getter-not-tracking-pin"
    ELSE ""
TInit == /\ tid \in 1..Len(Traces) /\ l = 1 /\ bad = ""
         /\ side = Traces[tid].side /\ col = Black /\ on = FALSE
         /\ wave = WStart(Black) /\ res = "init" /\ last = NoCall
TNext == /\ bad = "" /\ l <= Len(T.ev)
         /\ LET e == T.ev[l]
                c == Call(e.act, e.a)
                t == St(e.col, e.on)
                d == IF e.act = "init" THEN (IF t = St(Black, FALSE) THEN "" ELSE "initial-state")
                     ELSE StepDiff(side, Cur, c, t, e.wave, e.res)
            IN /\ col' = e.col /\ on' = e.on /\ wave' = e.wave /\ res' = e.res /\ last' = c
               /\ bad' = IF d # "" THEN d ELSE InvDiff(e.col, e.on, e.wave)
         /\ l' = l + 1 /\ UNCHANGED <<tid, side>>
Done == bad # "" \/ l > Len(T.ev)
Verdict == Done => PrintT(ToJson([id |-> T.id, ok |-> bad = "", l |-> l - 1, clause |-> bad,
                                  half |-> (l > 1 /\ bad # "" /\ last.act = "fade" /\ Valid(last) /\ HalfStep(wave[1].lv, Tri(last.a), last.a[5]))]))
=============================================================================
