INIT TInit
NEXT TNext
CONSTANTS
  Adcs = {}
  Pins = {}
  MaxCalls = 0
CONSTRAINT Verdict
CHECK_DEADLOCK FALSE
