SPECIFICATION Spec
CONSTANTS
  Cfgs <- CfgsQ
  Ports <- PortsQ
  Texts <- TextsQ
  Lines <- LinesQ
  Emits <- EmitsQ
INVARIANT WriteReturnsStr
INVARIANT WriteSendsExactly
INVARIANT AtMostOneOpen
INVARIANT CloseIdempotent
INVARIANT NoBackendNoTraffic
INVARIANT OnlyLiveHandleUsed
INVARIANT BaudValidated
INVARIANT OpenUsesConfiguredBaud
PROPERTY ReconnectClosesOld
PROPERTY CloseOnlyWhenOpen
PROPERTY RefusedCallChangesNothing
CONSTRAINT FewHandles
CHECK_DEADLOCK FALSE
