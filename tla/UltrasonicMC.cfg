SPECIFICATION Spec
CONSTANTS
  Gaps <- GapsDef
  Echoes <- EchoesDef
  T0s <- T0sDef
  MaxEchoes = 8
VIEW View
INVARIANT TypeOK
INVARIANT TriggerSpacing
INVARIANT AttemptsPerCall
INVARIANT ResultLaw
INVARIANT GoodEchoEndsCall
INVARIANT RetriesBeforeFallback
INVARIANT EveryCallMeasures
PROPERTY TriggersOnlyInGuard
CHECK_DEADLOCK FALSE
