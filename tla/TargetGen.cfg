INIT Init
NEXT Next
CONSTRAINT Emit0
CHECK_DEADLOCK FALSE
