SPECIFICATION Spec
CONSTANTS
  DeclKinds <- MCKindsDef
  MaxDevs = 2
  ULibsLen = 2
  UInclLen = 2
  UInstLen = 2
INVARIANT TypeOK
INVARIANT RequestedIffNeeded
INVARIANT IncludedIffNeeded
INVARIANT InstantiatedIffNeeded
INVARIANT RequestedIffIncluded
INVARIANT IncludedIffInstantiated
INVARIANT WireWithI2C
INVARIANT NoDuplicateRequest
INVARIANT NoDuplicateInclude
INVARIANT NothingNeedless
INVARIANT OneObjectPerDevice
INVARIANT IdealAccepted
INVARIANT OtherKindsNeedNothing
INVARIANT VerdictSound
INVARIANT KnownNeverOnIdeal
INVARIANT PlacementIrrelevant
CHECK_DEADLOCK FALSE
