----------------------------- MODULE PipelineTrace -----------------------------
(* Batch trace validation for Pipeline.  T = [id, inp: [python, tags: [...]], out: [class, cls, bucket]].
   The observed outcome must be an outcome of the specification for that input (OutcomeDiff); a deviation that
   matches a listed known finding exactly is recorded in `known` instead.                                     *)
EXTENDS Pipeline, Json, IOUtils
Traces == JsonDeserialize(IOEnv.TRACE_FILE)
VARIABLES tid, l, bad, known
T == Traces[tid]
ToSet(q) == {q[i] : i \in 1..Len(q)}
Inp(t) == [python |-> t.inp.python, tags |-> ToSet(t.inp.tags)]
TInit == tid \in 1..Len(Traces) /\ l = 1 /\ bad = "" /\ known = {} /\ stage = "transpiling" /\ input = Inp(Traces[tid]) /\ outcome = NoOut /\ elapsed = "le100ms"
TNext == /\ bad = "" /\ l = 1
         /\ LET o == Out(T.out.class, T.out.cls, T.out.bucket)
                d0 == OutcomeDiff(input, o)
                k == IF d0 = "" THEN "" ELSE KnownId(input, o)
            IN /\ known' = IF k # "" THEN {k} ELSE {}
               /\ bad' = IF k # "" THEN "" ELSE d0
               /\ outcome' = o /\ elapsed' = o.bucket
               /\ stage' = (IF o.class = "accept" THEN "accepted" ELSE IF o.class = "reject" THEN "rejected" ELSE "failed")
         /\ l' = 2 /\ UNCHANGED <<tid, input>>
Done == l = 2
Verdict == Done => PrintT(ToJson([id |-> T.id, ok |-> bad = "", l |-> 1, clause |-> bad, known |-> known]))
=============================================================================
