------------------------------ MODULE Registry ------------------------------
(* The board registry as a relation, and platform/board validation (property C13, first half).

   The registry is data of the code under test (Reduino.toolchain.pio.SUPPORTED_PLATFORMS); it is exported at
   check time and handed to TLC as a JSON input (IOEnv.REG_FILE):
       [reg   |-> << [p |-> platform, boards |-> << [id |-> board, codes |-> <<code points>>] ... >>] ... >>,
        plats |-> << candidate platform names >>,  boards |-> << candidate board names >>]
   plats / boards are the names validation is exercised with: every registered name plus near-misses (case
   changes, added whitespace, prefixes, extensions, the empty string).  Names are atoms: two names are the same
   iff they are the same string, so "UNO", " uno" and "uno" are three different boards.

   Specification:  Validate(p, b) accepts  iff  p is a registered platform and b is registered under p;
   otherwise it raises ValueError.  Registry law: every registered board belongs to exactly one platform. *)
EXTENDS Integers, Sequences, FiniteSets, TLC, Json, IOUtils

Input  == JsonDeserialize(IOEnv.REG_FILE)
RegSeq == Input.reg
RangeOf(q) == {q[i] : i \in 1..Len(q)}

PlatIdx    == 1..Len(RegSeq)
Platforms  == {RegSeq[i].p : i \in PlatIdx}
BoardsAt   == [i \in PlatIdx |-> {RegSeq[i].boards[j].id : j \in 1..Len(RegSeq[i].boards)}]
AllBoards  == UNION {BoardsAt[i] : i \in PlatIdx}
Owners(b)  == {i \in PlatIdx : b \in BoardsAt[i]}

Accept(p, b) == \E i \in PlatIdx : RegSeq[i].p = p /\ b \in BoardsAt[i]

(* Registry law, evaluated on the exported registry (reported by the check, not assumed). *)
MultiOwner    == {b \in AllBoards : Cardinality(Owners(b)) # 1}
DupPlatforms  == {RegSeq[i].p : i \in {k \in PlatIdx : \E m \in PlatIdx : m # k /\ RegSeq[m].p = RegSeq[k].p}}
RegistryFacts == [platforms |-> Cardinality(Platforms), boards |-> Cardinality(AllBoards),
                  pairs |-> Cardinality({<<i, b>> \in PlatIdx \X AllBoards : b \in BoardsAt[i]}),
                  multi_owner |-> MultiOwner, dup_platforms |-> DupPlatforms]
Partition == MultiOwner = {} /\ DupPlatforms = {}

(* Why is (p, b) not acceptable - used to name the clause when the code accepts it anyway. *)
Why(p, b) == IF p \notin Platforms THEN "platform-not-registered"
             ELSE IF b \notin AllBoards THEN "board-not-registered"
             ELSE "board-belongs-to-another-platform"

(* Step relation: the code answered `out` to Validate(p, b). *)
ValDiff(p, b, out) ==
    IF Accept(p, b) THEN (IF out = "accept" THEN "" ELSE "registered-pair-rejected")
    ELSE IF out = "accept" THEN "accepted:" \o Why(p, b)
    ELSE IF out # "ValueError" THEN "rejection-is-not-a-ValueError"
    ELSE ""

PlatNames  == RangeOf(Input.plats)
BoardNames == RangeOf(Input.boards)
=============================================================================
