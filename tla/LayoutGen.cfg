INIT GInit
NEXT GNext
CONSTANTS
  Indents = {}
  HKinds = {}
  MaxLines = 0
  MaxDevs = 1
  PairWith <- NoPairs
  CleanOnly = FALSE
CONSTRAINT Emit
INVARIANT RelayoutPreservesStructure
INVARIANT SkeletonsWellFormed
CHECK_DEADLOCK FALSE
