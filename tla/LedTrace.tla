------------------------------ MODULE LedTrace ------------------------------
(* Batch trace validation for Led: every recorded call of every trace must be a step the Led specification
   allows (Step), and every state invariant is evaluated on the implementation's own states.  Verdicts are
   total: a trace is followed to its end or to the first rejected event, whose failing clause is named.   *)
EXTENDS Led, Json, IOUtils

Traces == JsonDeserialize(IOEnv.TRACE_FILE)     \* [{id, side, ev: [{act, a, p, on, bright, wave, res}...]}...]
VARIABLES tid, l, bad
tvars == <<vars, tid, l, bad>>

T == Traces[tid]
InvDiff(o, b, w) ==
    IF ~(0 <= b /\ b <= 255) THEN "inv-brightness-range"
    ELSE IF o # (b > 0) THEN "inv-on-iff-brightness"
    ELSE IF ~(WLevels(w) \subseteq 0..255) THEN "inv-unclamped-level"
    ELSE IF b # WLast(w) THEN "inv-getter-not-tracking-pin"
    ELSE ""

TInit == /\ tid \in 1..Len(Traces) /\ l = 1 /\ bad = ""
         /\ side = Traces[tid].side /\ on = FALSE /\ bright = 0
         /\ wave = WStart(0) /\ res = "init" /\ last = NoCall

TNext == /\ bad = "" /\ l <= Len(T.ev)
         /\ LET e == T.ev[l]
                c == Call(e.act, e.a, e.p)
                t == St(e.on, e.bright)
                d == IF e.act = "init" THEN (IF t = St(FALSE, 0) THEN "" ELSE "initial-state")
                     ELSE StepDiff(side, Cur, c, t, e.wave, e.res)
            IN /\ on' = e.on /\ bright' = e.bright /\ wave' = e.wave /\ res' = e.res /\ last' = c
               /\ bad' = IF d # "" THEN d ELSE InvDiff(e.on, e.bright, e.wave)
         /\ l' = l + 1 /\ UNCHANGED <<tid, side>>

Done == bad # "" \/ l > Len(T.ev)
Verdict == Done => PrintT(ToJson([id |-> T.id, ok |-> bad = "", l |-> l - 1, clause |-> bad]))
=============================================================================
