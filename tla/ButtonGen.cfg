INIT GInit
NEXT GNext
CONSTANTS
  MaxPasses = 7
  MaxReads = 3
  MaxLen = 8
  Patterns = {0, 1, 2, 3}
CONSTRAINT Emit
INVARIANT CanonicalIsAllowed
CHECK_DEADLOCK FALSE
