SPECIFICATION PSpec
CONSTANTS
  Dirs <- DirsDef
  Sources <- SourcesDef
  Ports <- PortsDef
  PairsG <- PairsDef
  LibLists <- LibListsDef
INVARIANT RoundTrip
INVARIANT OnlyRegisteredProjectsExist
PROPERTY OtherDirectoriesUntouched
PROPERTY RejectedWritesNothing
PROPERTY NoStaleState
CHECK_DEADLOCK FALSE
