------------------------------ MODULE ServoMC ------------------------------
EXTENDS Servo
CalsDef == {[mina |-> 0, maxa |-> 180000, minp |-> 544000, maxp |-> 2400000],
            [mina |-> 10000, maxa |-> 170000, minp |-> 1000000, maxp |-> 2000000],
            [mina |-> 0, maxa |-> 90000, minp |-> 600000, maxp |-> 2300000],
            [mina |-> -90000, maxa |-> 90000, minp |-> 544000, maxp |-> 2400000],        \* ranges that leave the stock 0..180 degrees
            [mina |-> 0, maxa |-> 270000, minp |-> 500000, maxp |-> 2500000],
            [mina |-> 22500, maxa |-> 112500, minp |-> 600000, maxp |-> 2400000]}         \* bounds that are not whole degrees
AnglesDef == {-1000, -100, 0, 400, 500, 600, 1000, 45300}
PulsesDef == {-1000, -500, 0, 400, 500, 600, 250000}
\* reduced grids for the quick tier
CalsQ   == {[mina |-> 0, maxa |-> 180000, minp |-> 544000, maxp |-> 2400000],
            [mina |-> 10000, maxa |-> 170000, minp |-> 1000000, maxp |-> 2000000],
            [mina |-> -90000, maxa |-> 90000, minp |-> 544000, maxp |-> 2400000],
            [mina |-> 22500, maxa |-> 112500, minp |-> 600000, maxp |-> 2400000]}
AnglesQ == {-1000, 0, 400, 45300}
PulsesQ == {-500, 0, 600, 250000}
=============================================================================
