------------------------------ MODULE BuzzerMC ------------------------------
(* Grids for exhaustive model checking of Buzzer and for behaviour generation (cfg files cannot hold negative
   literals).  Frequencies in mHz, durations in ms.                                                           *)
EXTENDS Buzzer
FreqsDef     == {-5000, 0, 400, 1000, 440000, 4000600}
DursDef      == {NONE, 0, 1, 120}
OnOffsDef    == {0, 1, 100}
TimesDef     == {-1, 0, 1, 3}
StepsDef     == {-1, 0, 1, 2, 10}
SweepDursDef == {0, 1, 120}
TemposDef    == {NONE, -1, 0, 60, 240, 10075, 11875}
MelodiesDef  == MelodyNames
DefaultsDef  == {440000, 880000}
\* reduced grids: quick tier model checking, and the exhaustive length-2 generation
FreqsQ     == {-5000, 0, 400, 440000, 4000600}
DursQ      == {NONE, 0, 120}
OnOffsQ    == {0, 100}
TimesQ     == {0, 1, 3}
StepsQ     == {0, 1, 10}
SweepDursQ == {1, 120}
TemposQ    == {NONE, 0, 240, 10075}
DefaultsQ  == {440000}
\* small grid: the exhaustive length-2 generation of the quick tier
FreqsS     == {0, 440000, 4000600}
DursS      == {NONE, 120}
OnOffsS    == {1}
TimesS     == {0, 3}
StepsS     == {1, 10}
SweepDursS == {120}
TemposS    == {NONE, 240}
\* probe grid for the known findings buzzer-subhertz-tone-zero and buzzer-beep-zero-times-keeps-sounding
FreqsP     == {400, 440000}
DursP      == {NONE, 120}
OnOffsP    == {1}
TimesP     == {0, 2}
StepsP     == {2}
SweepDursP == {120}
TemposP    == {NONE}
\* probe grid for the known finding buzzer-negative-duration-wraps (negative durations, otherwise plain arguments)
FreqsN     == {0, 440000}
DursN      == {-1}
OnOffsN    == {-1, 5}
TimesN     == {2}
StepsN     == {2}
SweepDursN == {-1}
TemposN    == {NONE}
MelodiesN  == {"error"}
=============================================================================
