---------------------------- MODULE MC_ButtonInd ----------------------------
(* Apalache wrapper (extension X03): the Button reference for ANY number of loop() passes (ButtonMC enumerates 10): at most one
   sample per pass, nothing is owed or clicked without a handler, and - HostAgreement - the firmware-side click count equals
   the click count of the host class driven with the same per-pass samples whenever the signal starts released.  The history
   variables sig / reads are read by no guard other than Len(reads) < MaxReads and by no conjunct of IndInv, so bounding them
   in the arbitrary start state (Gen) loses nothing.
     base:  apalache-mc check --init=Init --inv=IndInv --length=0
     step:  apalache-mc check --init=IndStart --next=NextAny --inv=IndInv --length=1 *)
EXTENDS Integers, Sequences, Apalache
VARIABLES
    \* @type: Str;
    side,
    \* @type: Bool;
    handler,
    \* @type: Str;
    phase,
    \* @type: Int;
    pass,
    \* @type: Int;
    prev,
    \* @type: Int;
    value,
    \* @type: Int;
    clicks,
    \* @type: Int;
    owed,
    \* @type: Int;
    sampledThisPass,
    \* @type: Int;
    first,
    \* @type: Seq(Int);
    sig,
    \* @type: Seq(Int);
    reads,
    \* @type: Int;
    hostWas,
    \* @type: Int;
    hostClicks
MaxPasses == 10
MaxReads == 3
INSTANCE Button

PassAny == /\ (side = "fw" => value # None)
           /\ Do(Ev("pass", 0)) /\ reads' = <<>> /\ UNCHANGED <<sig, hostWas, hostClicks>>
NextAny == (\E s \in {0, 1} : Boot(s) \/ Poll(s)) \/ PassAny \/ Click \/ IsPressed
IndInit == /\ side \in {"fw", "host"} /\ handler \in BOOLEAN /\ phase \in {"setup", "loop"} /\ pass \in Int /\ prev \in 0..2 /\ value \in 0..2
           /\ clicks \in Int /\ owed \in 0..1 /\ sampledThisPass \in Int /\ first \in 0..2 /\ sig = Gen(2) /\ reads = Gen(3)
           /\ hostWas \in 0..1 /\ hostClicks \in Int
IndInv == /\ SampledAtMostOncePerPass /\ sampledThisPass >= 0 /\ clicks >= 0 /\ hostClicks >= 0 /\ pass >= 0
          /\ (phase = "setup" => (pass = 0 /\ clicks = 0 /\ owed = 0 /\ hostClicks = 0 /\ hostWas = 0))
          /\ (phase = "loop" => pass >= 1)
          /\ (owed = 1 => (handler /\ phase = "loop" /\ value = 1 /\ prev = 0))
          /\ (~handler => clicks + owed = 0)
          /\ ((side = "fw" /\ value = None) => (phase = "setup" /\ first = None))
          /\ (value # None => (first # None \/ side = "host"))
          /\ ((side = "fw" /\ first = 0) => hostWas = value)
          /\ HostAgreement
(* negative control: without its premise (the signal starts released) the agreement is NOT preserved *)
AgreeAlways == (side = "fw" /\ handler) => clicks + owed = hostClicks
AgreeAlwaysStart == IndInit /\ IndInv /\ AgreeAlways
IndStart == IndInit /\ IndInv
=============================================================================
