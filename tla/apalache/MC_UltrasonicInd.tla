-------------------------- MODULE MC_UltrasonicInd --------------------------
(* Apalache wrapper (extension X03): the laws of the Ultrasonic reference - trigger spacing, at most three attempts, a good echo
   ends the call, the result law - for EVERY gap between calls, every echo time 0..30000 us and every start of the clock, as an
   inductive invariant (TLC's UltrasonicMC enumerates a grid of 6 gaps x 4 echo times x 2 clock starts up to 8 echoes).
     base:  apalache-mc check --init=InitAny --inv=IndInvR --length=0
     step:  apalache-mc check --init=IndStartR --next=NextAny --inv=IndInvR --length=1
   checks/x03.py copies this file next to tla/Ultrasonic.tla (whose @type comments exist for this purpose) and runs both. *)
EXTENDS Integers, Sequences, Apalache
VARIABLES
    \* @type: Int;
    now,
    \* @type: Str;
    pc,
    \* @type: Int;
    attempts,
    \* @type: Bool;
    hasTrig,
    \* @type: Int;
    lastTrig,
    \* @type: Int;
    lastDone,
    \* @type: Int;
    waited,
    \* @type: Int;
    prevGap,
    \* @type: Bool;
    hasDist,
    \* @type: Int;
    lastDist,
    \* @type: Int;
    echo,
    \* @type: Int;
    calls,
    \* @type: Int;
    ret,
    \* @type: Seq(Int);
    callEchoes,
    \* @type: Int;
    goodBefore,
    \* @type: Int;
    nEch
\* @type: Set(Int);
Gaps == {0}
\* @type: Set(Int);
Echoes == {0}
\* @type: Set(Int);
T0s == {0}
MaxEchoes == 8
INSTANCE Ultrasonic

(* every gap, every echo time the sensor can report, every start of the clock *)
InitAny == /\ now \in Nat /\ pc = "idle" /\ attempts = 0 /\ hasTrig = FALSE /\ lastTrig = 0 /\ lastDone = 0 /\ waited = 0
           /\ prevGap = -1 /\ hasDist = FALSE /\ lastDist = NoEchoD /\ echo = 0 /\ calls = 0 /\ ret = 0
           /\ callEchoes = <<>> /\ goodBefore = 0 /\ nEch = 0
CallAny(gap) == /\ pc = "idle" /\ Do(Ev("call", 0, now + gap))
                /\ callEchoes' = <<>> /\ goodBefore' = (IF hasDist THEN lastDist \div 343 ELSE 0) /\ UNCHANGED nEch
NextAny == (\E g \in Nat : CallAny(g)) \/ (\E w \in 1..MinIntervalMs : Guard(w)) \/ Trigger \/ (\E d \in 0..TimeoutUs : Echo(d))
           \/ Return \/ Fallback

IndInit == /\ now \in Int /\ pc \in {"idle", "guard", "echo", "done"} /\ attempts \in Int /\ hasTrig \in BOOLEAN /\ lastTrig \in Int
           /\ lastDone \in Int /\ waited \in Int /\ prevGap \in Int /\ hasDist \in BOOLEAN /\ lastDist \in Int /\ echo \in Int
           /\ calls \in Int /\ ret \in Int /\ callEchoes = Gen(3) /\ goodBefore \in Int /\ nEch \in Int
Inside == Len(callEchoes) = (IF pc = "echo" THEN attempts - 1 ELSE attempts)      \* one echo per completed attempt
GoodEchoEndsCall3 == \A i \in 1..3 : i < Len(callEchoes) => callEchoes[i] = 0      \* GoodEchoEndsCall, given Len(callEchoes) <= 3
IndInv == /\ now >= 0 /\ attempts \in 0..MaxAttempts /\ lastTrig >= 0 /\ lastTrig <= now /\ lastDist >= 0 /\ echo >= 0 /\ echo <= TimeoutUs
          /\ (pc = "echo" => attempts >= 1) /\ (pc = "done" => (attempts >= 1 /\ echo > 0))
          /\ (pc # "idle" => Inside) /\ (pc = "idle" => Len(callEchoes) <= MaxAttempts)
          /\ (hasDist => lastDist <= TimeoutUs * 343)
          /\ TriggerSpacing /\ AttemptsPerCall /\ GoodEchoEndsCall3
          /\ (pc = "done" => (Len(callEchoes) >= 1 /\ callEchoes[Len(callEchoes)] = echo))
          /\ (pc \in {"guard", "echo"} => \A i \in 1..3 : i <= Len(callEchoes) => callEchoes[i] = 0)
IndInvR == /\ IndInv
           /\ (hasDist => (lastDist > 0 /\ lastDist % 343 = 0)) /\ (~hasDist => lastDist = NoEchoD)
           /\ (pc \in {"guard", "echo"} => goodBefore = (IF hasDist THEN lastDist \div 343 ELSE 0))
           /\ ResultLaw /\ EveryCallMeasures
IndStartR == IndInit /\ IndInvR
(* negative control: a spacing of 61 ms is NOT preserved (the guard waits exactly as long as 60 ms need) *)
Spacing61 == (hasTrig /\ prevGap >= 0 /\ lastTrig > 0) => prevGap >= 61
Spacing61Start == IndInit /\ IndInvR /\ Spacing61
IndStart == IndInit /\ IndInv
=============================================================================
