---------------------------- MODULE MC_ServoInd ----------------------------
(* Apalache wrapper (extension X03): the laws of the Servo reference - state within the configured bounds, angle and pulse
   correspond under the linear map, the device command is the nearest whole unit within the bounds, a successful call leaves the
   commanded (clamped) value - for EVERY integer argument, as an inductive invariant: over the five calibrations of ServoMC
   (IndInv) and over every calibration with whole-unit spans inside -360..3600 degrees / 0..5000 us (SymInv).  TLC's ServoMC
   enumerates 19 arguments per calibration.
     base:  apalache-mc check --init=Init --inv=IndInv --length=0
     step:  apalache-mc check --init=IndStart --next=NextAny --inv=IndInv --length=1      (and SymStart / SymInv)
   negative control: exact correspondence (tolerance 0) is not preserved - ExactStart / Exact must be refuted. *)
EXTENDS Integers
VARIABLES
    \* @type: Str;
    side,
    \* @type: { mina: Int, maxa: Int, minp: Int, maxp: Int };
    cal,
    \* @type: Int;
    angle,
    \* @type: Int;
    pulse,
    \* @type: { op: Str, v: Int };
    cmd,
    \* @type: Str;
    res,
    \* @type: { act: Str, v: Int };
    last
Cals == {[mina |-> 0, maxa |-> 180000, minp |-> 544000, maxp |-> 2400000],
         [mina |-> 10000, maxa |-> 170000, minp |-> 1000000, maxp |-> 2000000],
         [mina |-> 0, maxa |-> 90000, minp |-> 600000, maxp |-> 2300000],
         [mina |-> -90000, maxa |-> 90000, minp |-> 544000, maxp |-> 2400000],
         [mina |-> 0, maxa |-> 270000, minp |-> 500000, maxp |-> 2500000]}
\* @type: Set(Int);
Angles == {0}
\* @type: Set(Int);
Pulses == {0}
INSTANCE Servo

NextAny == \E v \in Int : \E a \in {"write", "write_us"} : Do(Call(a, v))
IndInit == /\ side \in {"host", "fw"} /\ cal \in Cals /\ angle \in Int /\ pulse \in Int
           /\ cmd \in [op : {"none", "write", "us"}, v : Int] /\ res \in {"init", "ok", "raise"}
           /\ last \in [act : {"none", "write", "write_us"}, v : Int]
IndInv == /\ side \in {"host", "fw"} /\ cal \in Cals
          /\ WithinBounds /\ AlwaysCorrespond /\ DeviceCommandInBounds /\ RoundTrip
Exact == Corresponds(cal, angle, pulse, 0)        \* negative control: exact correspondence is NOT preserved (rounding)
ExactStart == IndInit /\ IndInv /\ Exact
\* @type: ({ mina: Int, maxa: Int, minp: Int, maxp: Int }) => Bool;
GoodCal(c) == /\ c.mina < c.maxa /\ c.minp < c.maxp /\ (c.maxa - c.mina) % 1000 = 0 /\ (c.maxp - c.minp) % 1000 = 0
              /\ c.mina >= -360000 /\ c.maxa <= 3600000 /\ c.minp >= 0 /\ c.maxp <= 5000000
SymInit == /\ side \in {"host", "fw"} /\ cal \in [mina : Int, maxa : Int, minp : Int, maxp : Int] /\ GoodCal(cal)
           /\ angle \in Int /\ pulse \in Int
           /\ cmd \in [op : {"none", "write", "us"}, v : Int] /\ res \in {"init", "ok", "raise"}
           /\ last \in [act : {"none", "write", "write_us"}, v : Int]
SymInv == /\ side \in {"host", "fw"} /\ GoodCal(cal)
          /\ WithinBounds /\ AlwaysCorrespond /\ DeviceCommandInBounds /\ RoundTrip
SymStart == SymInit /\ SymInv
SymExactStart == SymInit /\ SymInv /\ Exact
IndStart == IndInit /\ IndInv
=============================================================================
