INIT GInit
NEXT GNext
CONSTANTS
  Brights <- BrightsDef
  Durations <- DurationsDef
  Times <- TimesDef
  StepsG <- StepsDef
  Patterns <- PatternsDef
  MaxLen = 2
CONSTRAINT Emit
CHECK_DEADLOCK FALSE
