------------------------------- MODULE LedGen -------------------------------
(* Behaviour generation: every call history up to MaxLen (BFS) or random walks (-simulate); each complete
   history leaves TLC as one JSON line. *)
EXTENDS LedMC, Json
CONSTANT MaxLen
VARIABLE h
GInit == Init /\ side = "host" /\ h = <<>>
GNext == \E c \in Calls : Do(c) /\ h' = Append(h, c)
Emit  == IF Len(h) >= MaxLen THEN PrintT(ToJson(h)) /\ FALSE ELSE TRUE
EmitSim == Len(h) < MaxLen \/ PrintT(ToJson(h))
=============================================================================
