INIT GInit
NEXT GNext
CONSTANTS
  Inputs = {}
CONSTRAINT Emit_
CHECK_DEADLOCK FALSE
