INIT TInit
NEXT TNext
CONSTRAINT Verdict
CONSTRAINT Stop
CHECK_DEADLOCK FALSE
