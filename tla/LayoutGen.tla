------------------------------ MODULE LayoutGen ------------------------------
(* Stimulus generation for C07.
   (1) Re-layouts: for every skeleton of IOEnv.SKEL_FILE, every member of Relayouts(sk) with at most MaxDevs
       deviations (GInit: one initial state per layout, exhaustive), or random members with a deviation at many
       sites at once (WInit/WNext under -simulate; with CleanOnly only deviations that are not known-finding triggers).
       Each layout leaves TLC as one JSON object: the physical lines, the block path the Layout machine assigns
       to every logical line, and the layout's feature tags.  The invariant RelayoutPreservesStructure is the
       spec-level theorem: the machine accepts every re-layout and assigns the paths of the canonical layout.
   (2) Accounting cases: StatementKinds x Contexts (AInit).                                                  *)
EXTENDS Layout, Json, IOUtils
CONSTANTS MaxDevs, PairWith, CleanOnly
Skels == JsonDeserialize(IOEnv.SKEL_FILE)        \* <<[name, lines |-> <<[d, hk, id, sps, kind, ref]>>]>>
VARIABLES ski, devs, site
gvars == <<ski, devs, site>>
SK == Skels[ski].lines

NoPairs == {}
PairsThorough == {<<"unit", "unit">>, <<"unit", "gap">>, <<"unit", "tc">>, <<"unit", "sp">>, <<"gap", "tc">>}
PairsAll == {<<a, b>> : a, b \in {"unit", "gap", "tc", "tw", "sp"}}
(* layouts with at most MaxDevs deviations; pairs are restricted to the kinds of PairWith (a set of <<w1, w2>>) *)
Pairs(sk) == UNION {{{d1, d2} : d2 \in {e \in Devs(sk) : <<d1.w, e.w>> \in PairWith /\ SiteOf(e) # SiteOf(d1)}} : d1 \in Devs(sk)}
LayoutsUpTo(sk, k) == {{}} \cup (IF k >= 1 THEN {{d} : d \in Devs(sk)} ELSE {}) \cup (IF k >= 2 THEN Pairs(sk) ELSE {})

Layout(sk, dv) == LET lines == Render(sk, dv)  r == Run(lines) IN
    [sk |-> ski, devs |-> dv, lines |-> lines, paths |-> r.assign, err |-> r.err, tags |-> TagsOf(sk, dv)]

GInit == MInit /\ ski \in 1..Len(Skels) /\ devs \in LayoutsUpTo(SK, MaxDevs) /\ site = 0
GNext == FALSE /\ UNCHANGED <<gvars, vars>>
Emit  == PrintT(ToJson(Layout(SK, devs)))

RelayoutPreservesStructure ==
    LET r == Run(Render(SK, devs)) IN r.err = "" /\ r.assign = Assign(Canonical(SK))
SkeletonsWellFormed == WellFormed(SK)

(* random walk over the sites, in line order *)
NSites(sk) == 5 * Len(sk) + 1
SiteAt(sk, s) ==
    IF s = NSites(sk) THEN <<"gap", Len(sk)>>
    ELSE LET i == ((s - 1) \div 5) + 1  r == (s - 1) % 5 IN
         CASE r = 0 -> <<"gap", i - 1>> [] r = 1 -> <<"unit", i>> [] r = 2 -> <<"tc", i>> [] r = 3 -> <<"tw", i>> [] OTHER -> <<"sp", i>>
(* a deviation that is not an instance of a known-finding trigger, given the deviations chosen at earlier sites
   (a comment's columns depend only on the indent units of enclosing headers, which come earlier in line order) *)
DevClean(sk, dv, d) ==
    CASE d.w = "gap" -> CutHeaders(sk, dv \cup {d}, d.at, 8) = {} /\ CutHeaders(sk, dv \cup {d}, d.at, 4) = {}
      [] d.w = "tc"  -> ~(IsHeader(sk, d.at) /\ sk[d.at].d = 0) /\ ~(sk[d.at].hk \in Clauses)
      [] d.w = "sp"  -> d.v # 4 /\ ~(d.v = 3 /\ sk[d.at].kind \in MethodOrRangeKinds)
      [] OTHER -> TRUE
OptionsAt(sk, dv, s) ==
    LET st == SiteAt(sk, s) IN
    IF st[1] = "unit" /\ ~IsHeader(sk, st[2]) THEN {}
    ELSE {d \in SiteDevs(sk, st) : ~CleanOnly \/ DevClean(sk, dv, d)}
WInit == MInit /\ ski \in 1..Len(Skels) /\ devs = {} /\ site = 1
WNext == /\ site <= NSites(SK) + 1 /\ site' = site + 1 /\ UNCHANGED <<ski, vars>>
         /\ IF site = NSites(SK) + 1 THEN devs' = devs            \* closing step: a single successor, printed once
            ELSE \/ devs' = devs
                 \/ \E d \in OptionsAt(SK, devs, site) : devs' = devs \cup {d}
EmitSim == site <= NSites(SK) + 1 \/ PrintT(ToJson(Layout(SK, devs)))

(* accounting cases *)
AInit == MInit /\ ski = 0 /\ site = 0 /\ devs \in {[kind |-> k, ctx |-> c] : k \in StatementKinds, c \in Contexts}
EmitCase == PrintT(ToJson(devs))
=============================================================================
