SPECIFICATION Spec
CONSTANTS
  Cfgs <- CfgsDef
  Levels <- LevelsQ
  Adcs <- AdcsQ
  Dists <- DistsQ
INVARIANT ClicksEqualRisingEdges
INVARIANT AtMostOneClickPerCall
INVARIANT IsPressedReturnsLevel
INVARIANT PotInRange
INVARIANT PotRefusesOutside
INVARIANT PotIntegerIsFaithful
INVARIANT DistanceNonNegative
INVARIANT DistanceRefusesNegative
INVARIANT ProviderSampledOnce
PROPERTY ClickOnlyOnRisingEdge
PROPERTY SetPressedIsSilent
PROPERTY CanonicalIsAllowed
CONSTRAINT ShortSignal
CHECK_DEADLOCK FALSE
