INIT TInit
NEXT TNext
CONSTANTS
  Alphabet = {}
  MaxLen = 0
CONSTRAINT Verdict
INVARIANT AcceptedIsWellFormed
CHECK_DEADLOCK FALSE
