-------------------------------- MODULE Heap --------------------------------
(* The heap law of C09 as a monitor over the firmware's allocation trace (prescriptive):
     FreeOnlyLive / NoDoubleFree   delete[] only of a block that is live;
     NoMemError                    no sanitizer report (out-of-bounds, use after free, undefined behaviour);
     PassLeakFree                  whenever the amount of live data in the Python program is the same after pass k
                                   and after pass k+1, so is the firmware's live heap.
   Events: [e |-> "alloc", id, sz]  [e |-> "free", id]  [e |-> "memerr", k (kind)]
           [e |-> "pass", k, live (blocks), bytes]  emitted when pass k has finished (k = 0: setup);
   py[k+1] = live list elements of the Python program after pass k, computed by the Lang specification.   *)
EXTENDS Integers, Sequences, FiniteSets, TLC

VARIABLES liveset, sizes, lastBytes, lastK, bad
hvars == <<liveset, sizes, lastBytes, lastK, bad>>

HInit == liveset = {} /\ sizes = [i \in {} |-> 0] /\ lastBytes = -1 /\ lastK = -1 /\ bad = ""

HBreaks(e, py) ==
    CASE e.e = "alloc" -> (IF e.id \in liveset THEN "allocator-reused-live-id" ELSE "")
      [] e.e = "free" -> (IF e.id \notin liveset THEN (IF e.id \in DOMAIN sizes THEN "double-free" ELSE "free-of-unknown-block") ELSE "")
      [] e.e = "memerr" -> "memory-error:" \o e.k
      [] e.e = "pass" -> (IF lastK >= 1 /\ e.k = lastK + 1 /\ e.k + 1 <= Len(py) /\ py[e.k + 1] = py[e.k] /\ e.bytes # lastBytes
                          THEN "heap-grows-while-python-data-is-constant" ELSE "")
      [] OTHER -> ""

HConsume(e, py) ==
    /\ bad' = HBreaks(e, py)
    /\ liveset' = IF e.e = "alloc" THEN liveset \cup {e.id} ELSE IF e.e = "free" THEN liveset \ {e.id} ELSE liveset
    /\ sizes' = IF e.e = "alloc" THEN (e.id :> e.sz) @@ sizes ELSE sizes
    /\ lastBytes' = IF e.e = "pass" THEN e.bytes ELSE lastBytes
    /\ lastK' = IF e.e = "pass" THEN e.k ELSE lastK

(* the monitor's own bookkeeping agrees with what the allocator reports at every pass boundary *)
RECURSIVE SumSizes(_)
SumSizes(S) == IF S = {} THEN 0 ELSE LET x == CHOOSE y \in S : TRUE IN sizes[x] + SumSizes(S \ {x})
BookkeepingAgrees(e) == e.e = "pass" => (e.live = Cardinality(liveset) /\ e.bytes = SumSizes(liveset))
=============================================================================
