INIT TInit
NEXT TNext
CONSTANTS
  Gaps = {}
  Echoes = {}
  T0s = {}
  MaxEchoes = 0
CONSTRAINT Verdict
CHECK_DEADLOCK FALSE
