SPECIFICATION Spec
INVARIANT NoForbiddenEffect
INVARIANT EndsClean
INVARIANT Refused
INVARIANT ExactlyThreeConcessions
CHECK_DEADLOCK FALSE
