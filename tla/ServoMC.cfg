SPECIFICATION Spec
CONSTANTS
  Cals <- CalsDef
  Angles <- AnglesDef
  Pulses <- PulsesDef
INVARIANT WithinBounds
INVARIANT AlwaysCorrespond
INVARIANT RoundTrip
INVARIANT DeviceCommandInBounds
INVARIANT CanonicalIsAllowed
PROPERTY FailedCallLeavesState
CHECK_DEADLOCK FALSE
