INIT TInit
NEXT TNext
CONSTANTS
  Indents = {}
  HKinds = {}
  MaxLines = 100000
INVARIANT StackStrictlyIncreasing
INVARIANT PathDepthIsStackDepth
INVARIANT PrefixChain
INVARIANT ClausesInOrder
INVARIANT OpenersAreStatements
CONSTRAINT Verdict
CHECK_DEADLOCK FALSE
