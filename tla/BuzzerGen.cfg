INIT GInit
NEXT GNext
CONSTANTS
  Freqs <- FreqsQ
  Durs <- DursQ
  OnOffs <- OnOffsQ
  Times <- TimesQ
  StepsG <- StepsQ
  SweepDurs <- SweepDursQ
  Tempos <- TemposQ
  Melodies <- MelodiesDef
  Defaults <- DefaultsQ
  MaxLen = 2
  MaxKnown = 0
CONSTRAINT Emit
CHECK_DEADLOCK FALSE
