------------------------------ MODULE BindTrace ------------------------------
(* Batch validation of observed bindings against Bind.  One record per executed call shape:
     [id, c, np, kw,
      ref  |-> [ok, reason, tok]   what inspect.Signature.bind (+ apply_defaults) did on the host signature,
      st   |-> "accepted" | "rejected" | "dropped" | "none"   what Reduino.transpile.parser.parse did with the call
                                                             ("dropped": no error and no IR node; "none": not run),
      obs  |-> <<token per parameter>>]    the IR field of each parameter, projected by the harness to
                                           j = "holds the literal of parameter j", 0 = "holds the parameter's documented
                                           default", -1 = anything else, -9 = the IR has no field for it (unobserved).
   The record's shape is run through the binding machine (DetNext, the actions of Bind) to its terminal state,
   then judged:  gap   - the reference leg disagrees with the specification (the specification is wrong: SPEC-GAP,
                         never a violation);
                 bad   - Python accepts the call, the transpiler accepted it too, and an observed parameter does
                         not hold the value Python binds (first such parameter named), or the call vanished;
                 known - the deviating parameters that match a listed deviation exactly (Bind!KnownTag);
                 extra - Python rejects the call but the transpiler accepted it (outside the property: counted).
   Verdicts are total: every record prints exactly one JSON object. *)
EXTENDS Bind, Json, IOUtils

Recs == JsonDeserialize(IOEnv.TRACE_FILE)
SigsFile == JsonDeserialize(IOEnv.SIGS_FILE)
VARIABLES tid, l, bad, known, gap, extra, judged
R == Recs[tid]

TInit == /\ tid \in 1..Len(Recs) /\ l = 0 /\ bad = "" /\ known = {} /\ gap = "" /\ extra = FALSE /\ judged = FALSE
         /\ Start(Recs[tid].c, SigsFile[Recs[tid].c], <<Recs[tid].np, Recs[tid].kw>>)

RefDiff ==
    IF R.ref.ok # (err = "") THEN "ref-legality"
    ELSE IF err # "" THEN (IF R.ref.reason \in Defects(sig, shape) THEN "" ELSE "ref-reason")
    ELSE IF \E p \in 1..N(sig) : R.ref.tok[p] # ValTok(p)
         THEN "ref-binding:" \o PName(sig, CHOOSE p \in 1..N(sig) : R.ref.tok[p] # ValTok(p) /\ \A q \in 1..(p - 1) : R.ref.tok[q] = ValTok(q))
    ELSE ""
Observed(p) == R.obs[p] # -9
Deviates(p) == Observed(p) /\ R.obs[p] # ValTok(p)
IsKnown(p) == Deviates(p) /\ KnownTag(sig, shape, p, R.obs[p]) # ""
Unlisted == {p \in 1..N(sig) : Deviates(p) /\ ~IsKnown(p)}
ImplDiff ==
    IF err # "" \/ R.st \in {"rejected", "none"} THEN ""
    ELSE IF R.st = "dropped" THEN "dropped"
    ELSE IF R.st # "accepted" THEN "bad-status"
    ELSE IF Unlisted # {} THEN "misbound:" \o PName(sig, CHOOSE p \in Unlisted : \A q \in Unlisted : p <= q)
    ELSE ""
Judge == /\ gap' = RefDiff
         /\ bad' = ImplDiff
         /\ known' = IF err = "" /\ R.st = "accepted" THEN {KnownTag(sig, shape, p, R.obs[p]) : p \in {q \in 1..N(sig) : IsKnown(q)}} ELSE {}
         /\ extra' = (err # "" /\ R.st = "accepted")
         /\ judged' = TRUE /\ l' = 1

TNext == \/ (~Terminal /\ DetNext /\ UNCHANGED <<tid, l, bad, known, gap, extra, judged>>)
         \/ (Terminal /\ ~judged /\ Judge /\ UNCHANGED <<vars, tid>>)

Verdict == judged => PrintT(ToJson([id |-> R.id, ok |-> (bad = ""), l |-> l, clause |-> bad, known |-> known, gap |-> gap,
                                    extra |-> extra, legal |-> (err = ""), reason |-> err, expect |-> ValToks]))
=============================================================================
