---------------------------- MODULE SerialLinkGen ----------------------------
(* Behaviours of the link (operation sequences up to MaxLen, both host newline settings) over texts that matter to the two real
   implementations: empty, blanks, quotes, a backslash, a hash, two-byte UTF-8, a trailing CR, an LF inside, a bare CR LF. *)
EXTENDS SerialLink, Json
CONSTANT MaxLen
GenTexts == {<<>>, <<97>>, <<97, 98, 32>>, <<35, 120>>, <<97, 34, 98>>, <<92>>, <<195, 169>>, <<97, CR>>, <<120, LF, 121>>, CRLF, <<32>>, <<39, 113, 39>>}
VARIABLES nl, ops
GInit == LInit /\ nl \in {<<LF>>, CRLF} /\ ops = <<>>
GNext == /\ Len(ops) < MaxLen /\ UNCHANGED nl
         /\ \/ \E t \in GenTexts : HostWrite(t, nl) /\ ops' = Append(ops, [op |-> "hw", t |-> t])
            \/ \E t \in GenTexts : DevWrite(t) /\ ops' = Append(ops, [op |-> "dw", t |-> t])
            \/ DevRead /\ ops' = Append(ops, [op |-> "dr", t |-> <<>>])
            \/ HostRead /\ ops' = Append(ops, [op |-> "hr", t |-> <<>>])
Emit == (Len(ops) >= 1) => PrintT(ToJson([nl |-> nl, ops |-> ops]))
=============================================================================
