---------------------------- MODULE HostSensorsGen ----------------------------
EXTENDS HostSensorsMC, Json
CONSTANT MaxLen
VARIABLE h
GInit == Init /\ h = <<>>
GNext == \E c \in CallsOf(cfg) : Do(c) /\ h' = Append(h, c)
Beh == [cfg |-> cfg, h |-> h]
Emit  == IF Len(h) >= MaxLen THEN PrintT(ToJson(Beh)) /\ FALSE ELSE TRUE
EmitSim == Len(h) < MaxLen \/ PrintT(ToJson(Beh))
=============================================================================
