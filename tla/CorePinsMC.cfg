\* unbounded histories (the state graph is finite): state invariants + action properties
INIT UInit
NEXT UNext
CONSTANTS
  Labels <- LabelsQ
  Names <- NamesQ
  Modes <- ModesDef
  DVals <- DValsQ
  AVals <- AValsQ
  MaxLen = 0
INVARIANT TypeOK
INVARIANT ClampAnalog
INVARIANT DigitalIsBit
INVARIANT PullupDefault
PROPERTY ReadReturnsStored
PROPERTY ReadYourWrites
PROPERTY ReadsArePure
PROPERTY NonInterference
PROPERTY AliasIntStr
PROPERTY WritesKeepKinds
VIEW MemView
CHECK_DEADLOCK FALSE
