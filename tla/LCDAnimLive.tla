----------------------------- MODULE LCDAnimLive -----------------------------
(* Liveness on a reduced model: a non-looping animation that keeps being ticked eventually becomes inactive,
   whatever mixture of early, punctual and late ticks it receives (weak fairness of the tick that advances;
   early ticks may be interleaved without bound).  No state constraint is used: the clock is kept finite by
   re-basing after every pass (what a tick can observe is whether the clock runs and the time since the last
   step, capped at speed), one animation, widths 1..3, text lengths 0..cols+2, speeds {0, 1, 3}.           *)
EXTENDS LCDAnimMC

LiveInit ==
    /\ impl \in {"host", "fw"}
    /\ \E c \in ColsG : geo = <<[cols |-> c, rows |-> 1]>>
    /\ \E st \in Styles, n \in LensG(geo[1].cols), sp \in SpeedsG :
           LET r == NewAnim(1, st, 0, TextOf(n), sp, FALSE, FALSE)
           IN a = <<r>> /\ disp = <<<<StartFrame(r, geo[1].cols)>>>>
    /\ now \in {0, 1} /\ pass = 0 /\ ticked = <<0>> /\ blocked = 0

(* one loop() pass: the clock advances by delta, the animation is ticked, the clock is re-based *)
Rebase(r, t) == IF r.last = 0 THEN [r |-> r, now |-> Min(t, 1)]
                ELSE [r |-> [r EXCEPT !.last = 1], now |-> 1 + Min(t - r.last, r.speed)]
LivePass(dl) ==
    LET t == now + dl
        x == TickFn(impl, a[1], geo[1].cols, t)
        n == Rebase(x.r, t)
    IN /\ a' = <<n.r>> /\ now' = n.now
       /\ disp' = Shown(disp, a[1], x)
       /\ pass' = 1 /\ ticked' = <<1>> /\ blocked' = 0
       /\ UNCHANGED <<impl, geo>>
LiveNext == \E dl \in DeltasFor(a[1].speed) : LivePass(dl)
LiveStep == \E dl \in DeltasFor(a[1].speed) : LivePass(dl) /\ a'[1].steps > a[1].steps
LiveSpec == LiveInit /\ [][LiveNext]_vars /\ WF_vars(LiveStep)
LiveSpecUnfair == LiveInit /\ [][LiveNext]_vars     \* negative control: without fairness the property must fail

EventuallyInactive == <>(~a[1].active)
StaysInactive == [](~a[1].active => [](~a[1].active))
ColsLive == 1..3
SpeedsLive == {0, 1, 3}
=============================================================================
