------------------------------ MODULE ProjectMC ------------------------------
(* Model checking of Project: the laws of Dedup over all 341 library lists of length <= 4 over {Servo,
   LiquidCrystal, LiquidCrystal_I2C, ""} and of Sanitize over every registered board id (ASSUME: evaluated once),
   then the abstract file system machine over a small grid.  SanitizeProbes: hand-made ids exercising runs,
   leading/trailing specials and non-ASCII code points.                                                    *)
EXTENDS Project
DirsDef     == {"d1", "d2"}
SourcesDef  == {"src-a", "src-b"}
PortsDef    == {"COM3", "/dev/tty%d ;#"}
PairsDef    == {<<"atmelavr", "digispark-pro", <<100, 105, 103, 105, 115, 112, 97, 114, 107, 45, 112, 114, 111>>>>,
                <<"atmelmegaavr", "nano_every", <<110, 97, 110, 111, 95, 101, 118, 101, 114, 121>>>>,
                <<"atmelmegaavr", "uno", <<117, 110, 111>>>>, <<"atmelavr", "UNO", <<85, 78, 79>>>>}
LibListsDef == {<<>>, <<"LiquidCrystal", "Servo", "LiquidCrystal", "">>}
SanitizeProbes == {<<>>, <<45>>, <<45, 45, 45>>, <<97, 45, 45, 98>>, <<45, 97, 46, 47, 98, 45>>, <<95, 45, 95>>, <<97, 233, 8364, 98>>,
                   <<97, 32, 98, 9, 10, 99>>, <<95, 95, 97>>}
ASSUME LibLaws
ASSUME SanitizeLaws
ASSUME \A s \in SanitizeProbes : RangeOf(Sanitize(s)) \subseteq Word /\ Sanitize(Sanitize(s)) = Sanitize(s)
ASSUME Sanitize(<<97, 45, 45, 98>>) = <<97, 95, 98>> /\ Sanitize(<<45, 97, 46, 47, 98, 45>>) = <<95, 97, 95, 98, 95>>
ASSUME Sanitize(<<95, 45, 95>>) = <<95, 95, 95>> /\ Sanitize(<<95, 95, 97>>) = <<95, 95, 97>>
ASSUME Dedup(<<"LiquidCrystal", "Servo", "LiquidCrystal", "">>) = <<"LiquidCrystal", "Servo">>
=============================================================================
