SPECIFICATION Spec
CONSTANTS
  Brights <- BrightsDef
  Durations <- DurationsDef
  Times <- TimesDef
  StepsG <- StepsDef
  Patterns <- PatternsDef
INVARIANT TypeOK
INVARIANT BrightInRange
INVARIANT OnIffBright
INVARIANT NeverUnclamped
INVARIANT ShadowTracksPin
INVARIANT CanonicalIsAllowed
INVARIANT BlinkSleepsExactly
INVARIANT BlinkEndsOff
INVARIANT FadeEndsOnBound
INVARIANT FadeMonotone
PROPERTY FailedCallLeavesState
CHECK_DEADLOCK FALSE
